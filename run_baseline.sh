#!/bin/bash
# Runs the repository's baseline test suite (guard OFF: no extra RUSTFLAGS).
cd /repo || exit 2
unset RUSTFLAGS
export CARGO_NET_OFFLINE=true
if cargo nextest --version >/dev/null 2>&1 && [ -f /w/lib/nextest.toml ]; then
  exec cargo nextest run --workspace --no-fail-fast --tool-config-file pb:/w/lib/nextest.toml --profile pb --test-threads 8 --offline
else
  exec cargo test --workspace --no-fail-fast --offline
fi
