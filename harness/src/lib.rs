//! Shared pieces of the correspondence harness: hex protocol helpers, the scripted
//! interface (mirrors coq/theories/Script.v), the service-spec parser.
use std::io::BufRead;
use std::os::unix::net::UnixStream;
use std::sync::atomic::{AtomicBool, AtomicUsize, Ordering};
use std::sync::{Arc, Mutex};
use std::time::{Duration, Instant};

use serde_json::{json, Value};
use varlink::{Call, CallTrait, Reply};

pub fn unhex(s: &str) -> Vec<u8> {
    if s == "-" {
        return Vec::new();
    }
    let b = s.as_bytes();
    let mut out = Vec::with_capacity(b.len() / 2);
    let hv = |c: u8| -> u8 {
        match c {
            b'0'..=b'9' => c - b'0',
            b'a'..=b'f' => c - b'a' + 10,
            b'A'..=b'F' => c - b'A' + 10,
            _ => panic!("bad hex"),
        }
    };
    let mut i = 0;
    while i + 1 < b.len() {
        out.push(hv(b[i]) * 16 + hv(b[i + 1]));
        i += 2;
    }
    out
}

pub fn hex(b: &[u8]) -> String {
    if b.is_empty() {
        return "-".to_string();
    }
    let mut s = String::with_capacity(b.len() * 2);
    for x in b {
        s.push_str(&format!("{:02x}", x));
    }
    s
}

pub fn leak(s: String) -> &'static str {
    Box::leak(s.into_boxed_str())
}

/// every call delivered to a ScriptIface: (interface name, request as JSON)
pub static CALLS: Mutex<Vec<(String, Value)>> = Mutex::new(Vec::new());

/// when set, the scripted upgraded handler returns to the server after every buffer it has echoed instead of looping
/// until end of input, so that the server re-enters handle() between protocol units
pub static UPGRADED_UNIT: AtomicBool = AtomicBool::new(false);

/// when set, the scripted upgraded handler speaks a line protocol: for every complete line of one buffer it writes
/// "ack:<line>\n", and it hands an incomplete last line back as unread bytes (the documented contract of call_upgraded)
pub static UPGRADED_LINES: AtomicBool = AtomicBool::new(false);

pub struct ScriptIface {
    pub name: &'static str,
    pub descr: &'static str,
    pub echo: bool,
    pub record: bool,
}

impl varlink::Interface for ScriptIface {
    fn get_description(&self) -> &'static str {
        self.descr
    }
    fn get_name(&self) -> &'static str {
        self.name
    }
    fn call_upgraded(&self, call: &mut Call, bufreader: &mut dyn BufRead) -> varlink::Result<Vec<u8>> {
        if UPGRADED_LINES.load(Ordering::SeqCst) {
            let (n, unread) = {
                let buf = match bufreader.fill_buf() {
                    Ok(b) => b,
                    Err(_) => return Ok(Vec::new()),
                };
                let mut start = 0;
                for (i, c) in buf.iter().enumerate() {
                    if *c == b'\n' {
                        call.writer.write_all(b"ack:").map_err(varlink::map_context!())?;
                        call.writer.write_all(&buf[start..=i]).map_err(varlink::map_context!())?;
                        start = i + 1;
                    }
                }
                call.writer.flush().map_err(varlink::map_context!())?;
                (buf.len(), buf[start..].to_vec())
            };
            bufreader.consume(n);
            return Ok(unread);
        }
        loop {
            let n = {
                let buf = match bufreader.fill_buf() {
                    Ok(b) => b,
                    Err(_) => break,
                };
                if buf.is_empty() {
                    break;
                }
                if self.echo {
                    call.writer.write_all(buf).map_err(varlink::map_context!())?;
                    call.writer.flush().map_err(varlink::map_context!())?;
                }
                buf.len()
            };
            bufreader.consume(n);
            if UPGRADED_UNIT.load(Ordering::SeqCst) {
                break;
            }
        }
        Ok(Vec::new())
    }
    fn call(&self, call: &mut Call) -> varlink::Result<()> {
        let (reqv, full, parameters): (Value, String, Option<Value>) = {
            let req = call.get_request().unwrap();
            (
                serde_json::to_value(req).unwrap(),
                req.method.to_string(),
                req.parameters.clone(),
            )
        };
        if self.record {
            CALLS.lock().unwrap().push((self.name.to_string(), reqv.clone()));
        }
        let m = match full.rfind('.') {
            Some(n) => &full[n + 1..],
            None => return call.reply_method_not_found(full.clone()),
        };
        if m != "Run" {
            return call.reply_method_not_found(full.clone());
        }
        let params = match parameters {
            None => return call.reply_invalid_parameter("parameters".into()),
            Some(p) => p,
        };
        let bad = |call: &mut Call| -> varlink::Result<()> {
            let _ = call.reply_invalid_parameter("script".into());
            Err(varlink::context!(varlink::ErrorKind::SerdeJsonDe("script".into())))
        };
        let obj = match params.as_object() {
            Some(o) => o,
            None => return bad(call),
        };
        let tag = obj.get("tag").cloned().unwrap_or(Value::Null);
        let ops: Vec<String> = match obj.get("script").and_then(|s| s.as_array()) {
            Some(a) => {
                let mut v = Vec::new();
                for x in a {
                    match x.as_str() {
                        Some(s) => v.push(s.to_string()),
                        None => return bad(call),
                    }
                }
                v
            }
            None => return bad(call),
        };
        for (idx, op) in ops.iter().enumerate() {
            match op.as_str() {
                "c1" => call.set_continues(true),
                "c0" => call.set_continues(false),
                "r" => call.reply_struct(Reply::parameters(Some(json!({"i": idx, "tag": tag}))))?,
                "r0" => call.reply_struct(Reply::parameters(None))?,
                // a final reply that spells the flag out: "continues": false (legal; other implementations send it)
                "rf" => call.reply_struct(Reply {
                    continues: Some(false),
                    error: None,
                    parameters: Some(json!({"i": idx, "tag": tag})),
                })?,
                "w" => call.reply_struct(Reply::parameters(Some(
                    json!({"iface": self.name, "req": reqv.clone()}),
                )))?,
                "e" => call.reply_struct(Reply::error(
                    format!("{}.Failed", self.name),
                    Some(json!({"tag": tag})),
                ))?,
                "e0" => call.reply_struct(Reply::error(format!("{}.Failed", self.name), None))?,
                "u" => call.to_upgraded(),
                "z" => std::thread::sleep(Duration::from_millis(40)),
                "x" => {
                    return Err(varlink::context!(varlink::ErrorKind::Generic));
                }
                // the service process ends right here (after whatever it has replied so far): a Quit / StopServing method
                "q" => std::process::exit(0),
                // the same, while a helper process of the service still holds the connection for two seconds (the peer sees no
                // hang-up yet; only the exit of the service process itself tells its parent that it is gone)
                "qh" => unsafe {
                    if libc::fork() == 0 {
                        libc::sleep(2);
                        libc::_exit(0);
                    }
                    std::process::exit(0)
                },
                "inv" => call.reply_invalid_parameter("p".into())?,
                "mnf" => call.reply_method_not_found(full.clone())?,
                "mni" => call.reply_method_not_implemented(full.clone())?,
                // raw error replies (harness-only ops, not part of the modelled script language):
                //   E:<name>   error <name> without parameters;   EP:<name>   with parameters of an unexpected shape
                o if o.starts_with("E:") => call.reply_struct(Reply::error(o[2..].to_string(), None))?,
                //   Ef:<name>  error <name> with parameters, spelling out "continues": false (legal: a final reply may say so)
                o if o.starts_with("Ef:") => call.reply_struct(Reply {
                    continues: Some(false),
                    error: Some(o[3..].to_string().into()),
                    parameters: Some(json!({"why": "because", "tag": tag})),
                })?,
                o if o.starts_with("EP:") => call.reply_struct(Reply::error(
                    o[3..].to_string(),
                    Some(json!({"method": 42, "interface": 42, "parameter": 42})),
                ))?,
                _ => {}
            }
        }
        Ok(())
    }
}

/// A hand-written org.varlink.resolver with a fixed interface -> address table.
pub struct ResolverIface {
    pub table: Vec<(String, String)>,
    /// spell out "continues": false in the Resolve replies (legal; other implementations do)
    pub explicit_final: bool,
}

impl varlink::Interface for ResolverIface {
    fn get_description(&self) -> &'static str {
        "interface org.varlink.resolver\nmethod GetInfo() -> (vendor: string, product: string, version: string, url: string, interfaces: []string)\nmethod Resolve(interface: string) -> (address: string)\nerror InterfaceNotFound (interface: string)\n"
    }
    fn get_name(&self) -> &'static str {
        "org.varlink.resolver"
    }
    fn call_upgraded(&self, _call: &mut Call, _b: &mut dyn BufRead) -> varlink::Result<Vec<u8>> {
        Ok(Vec::new())
    }
    fn call(&self, call: &mut Call) -> varlink::Result<()> {
        let (method, params) = {
            let r = call.get_request().unwrap();
            (r.method.to_string(), r.parameters.clone())
        };
        match method.as_str() {
            "org.varlink.resolver.GetInfo" => {
                let ifs: Vec<&str> = self.table.iter().map(|(i, _)| i.as_str()).collect();
                call.reply_struct(Reply::parameters(Some(json!({
                    "vendor": "resolver-vendor", "product": "resolver", "version": "7", "url": "http://resolver/", "interfaces": ifs
                }))))
            }
            "org.varlink.resolver.Resolve" => {
                let want = params.as_ref().and_then(|p| p.get("interface")).and_then(|i| i.as_str()).map(|s| s.to_string());
                match want {
                    None => call.reply_invalid_parameter("interface".into()),
                    Some(w) => match self.table.iter().find(|(i, _)| *i == w) {
                        Some((_, a)) => call.reply_struct(Reply {
                            continues: if self.explicit_final { Some(false) } else { None },
                            error: None,
                            parameters: Some(json!({ "address": a })),
                        }),
                        None => call.reply_struct(Reply::error(
                            "org.varlink.resolver.InterfaceNotFound",
                            Some(json!({ "interface": w })),
                        )),
                    },
                }
            }
            m => call.reply_method_not_found(m.to_string()),
        }
    }
}

pub struct SvcSpec {
    pub vendor: String,
    pub product: String,
    pub version: String,
    pub url: String,
    pub ifaces: Vec<(String, String, bool)>,
}

impl SvcSpec {
    pub fn parse(toks: &[&str]) -> SvcSpec {
        let mut s = SvcSpec {
            vendor: String::new(),
            product: String::new(),
            version: String::new(),
            url: String::new(),
            ifaces: Vec::new(),
        };
        let st = |h: &str| String::from_utf8(unhex(h)).expect("utf8 in service spec");
        for t in toks {
            let i = t.find('=').expect("service token");
            let (k, x) = (&t[..i], &t[i + 1..]);
            match k {
                "v" => s.vendor = st(x),
                "p" => s.product = st(x),
                "ver" => s.version = st(x),
                "url" => s.url = st(x),
                "if" => {
                    let p: Vec<&str> = x.split(':').collect();
                    s.ifaces.push((st(p[0]), st(p[1]), p[2] == "1"));
                }
                _ => panic!("bad service key"),
            }
        }
        s
    }
    pub fn build(&self, record: bool) -> varlink::VarlinkService {
        let ifs: Vec<Box<dyn varlink::Interface + Send + Sync>> = self
            .ifaces
            .iter()
            .map(|(n, d, e)| {
                Box::new(ScriptIface {
                    name: leak(n.clone()),
                    descr: leak(d.clone()),
                    echo: *e,
                    record,
                }) as Box<dyn varlink::Interface + Send + Sync>
            })
            .collect();
        varlink::VarlinkService::new(
            self.vendor.clone(),
            self.product.clone(),
            self.version.clone(),
            self.url.clone(),
            ifs,
        )
    }
}

pub fn split_bar<'a>(toks: &[&'a str]) -> (Vec<&'a str>, Vec<&'a str>) {
    match toks.iter().position(|t| *t == "|") {
        Some(i) => (toks[..i].to_vec(), toks[i + 1..].to_vec()),
        None => (toks.to_vec(), Vec::new()),
    }
}

pub static SOCK_N: AtomicUsize = AtomicUsize::new(0);

pub struct Server {
    pub addr: String,
    pub stop: Arc<AtomicBool>,
    th: Option<std::thread::JoinHandle<()>>,
}

impl Server {
    pub fn start(spec: &SvcSpec, max_workers: usize) -> Server {
        let n = SOCK_N.fetch_add(1, Ordering::SeqCst);
        let addr = format!("unix:@vharness-{}-{}", std::process::id(), n);
        let stop = Arc::new(AtomicBool::new(false));
        let svc = spec.build(false);
        let a2 = addr.clone();
        let s2 = stop.clone();
        let th = std::thread::spawn(move || {
            let _ = varlink::listen(
                svc,
                &a2,
                &varlink::ListenConfig {
                    initial_worker_threads: 1,
                    max_worker_threads: max_workers,
                    idle_timeout: 0,
                    stop_listening: Some(s2),
                },
            );
        });
        // wait until the socket accepts
        let deadline = Instant::now() + Duration::from_secs(5);
        loop {
            if let Ok(_c) = connect_abstract(&addr) {
                break;
            }
            if Instant::now() > deadline {
                panic!("server did not start");
            }
            std::thread::sleep(Duration::from_millis(5));
        }
        Server { addr, stop, th: Some(th) }
    }
}

impl Drop for Server {
    fn drop(&mut self) {
        self.stop.store(true, Ordering::SeqCst);
        if let Some(t) = self.th.take() {
            let _ = t.join();
        }
    }
}

pub fn connect_abstract(addr: &str) -> std::io::Result<UnixStream> {
    use std::os::linux::net::SocketAddrExt;
    use std::os::unix::net::SocketAddr;
    let name = addr.strip_prefix("unix:@").unwrap();
    let sa = SocketAddr::from_abstract_name(name)?;
    UnixStream::connect_addr(&sa)
}

