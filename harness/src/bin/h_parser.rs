//! Correspondence harness for varlink_parser (C10, C11, C12).
use std::convert::TryFrom;
use std::io::{BufRead, Write};
use std::sync::mpsc;
use std::time::Duration;

use serde_json::{json, Value};
use varlink_parser::*;
use vharness::*;

fn ty(t: &VTypeExt) -> Value {
    match t {
        VTypeExt::Plain(VType::Bool) => json!("bool"),
        VTypeExt::Plain(VType::Int) => json!("int"),
        VTypeExt::Plain(VType::Float) => json!("float"),
        VTypeExt::Plain(VType::String) => json!("string"),
        VTypeExt::Plain(VType::Object) => json!("object"),
        VTypeExt::Plain(VType::Typename(n)) => json!({ "name": n }),
        VTypeExt::Plain(VType::Struct(s)) => json!({ "struct": fields(s) }),
        VTypeExt::Plain(VType::Enum(e)) => json!({ "enum": e.elts }),
        VTypeExt::Array(t) => json!({ "array": ty(t) }),
        VTypeExt::Dict(t) => json!({ "dict": ty(t) }),
        VTypeExt::Option(t) => json!({ "option": ty(t) }),
    }
}

fn fields(s: &VStruct) -> Value {
    Value::Array(s.elts.iter().map(|a| json!({"name": a.name, "type": ty(&a.vtype)})).collect())
}

fn dump(i: &IDL) -> Value {
    let typedefs: Vec<Value> = i
        .typedef_keys
        .iter()
        .map(|k| {
            let t = &i.typedefs[k];
            match &t.elt {
                VStructOrEnum::VStruct(s) => json!({"name": t.name, "doc": t.doc, "struct": fields(s)}),
                VStructOrEnum::VEnum(e) => json!({"name": t.name, "doc": t.doc, "enum": e.elts}),
            }
        })
        .collect();
    let methods: Vec<Value> = i
        .method_keys
        .iter()
        .map(|k| {
            let m = &i.methods[k];
            json!({"name": m.name, "doc": m.doc, "input": fields(&m.input), "output": fields(&m.output)})
        })
        .collect();
    let errors: Vec<Value> = i
        .error_keys
        .iter()
        .map(|k| {
            let e = &i.errors[k];
            json!({"name": e.name, "doc": e.doc, "struct": fields(&e.parm)})
        })
        .collect();
    json!({"name": i.name, "doc": i.doc, "typedefs": typedefs, "methods": methods, "errors": errors})
}

fn parse_op(text: &str) -> String {
    match IDL::try_from(text) {
        Ok(i) => format!("ok {}", hex(serde_json::to_string(&dump(&i)).unwrap().as_bytes())),
        Err(e) => {
            let shown = std::panic::catch_unwind(|| format!("{}", &e)).is_ok();
            match e {
                Error::Parse { line, column } => {
                    // the reported line must be a line of the input, the column within it (1-based,
                    // one past the end allowed)
                    let line_ok = text.split('\n').any(|l| l == line);
                    let col_ok = column >= 1 && column <= line.chars().count() + 1;
                    format!(
                        "parse_error column={} line={} line_ok={} col_ok={} display_ok={}",
                        column,
                        hex(line.as_bytes()),
                        line_ok as u8,
                        col_ok as u8,
                        shown as u8
                    )
                }
                Error::Idl(m) => format!("idl_error {} display_ok={}", hex(m.as_bytes()), shown as u8),
            }
        }
    }
}

fn format_op(mode: &str, width: usize, text: &str) -> String {
    match IDL::try_from(text) {
        Ok(i) => {
            let s = match mode {
                "plain" => i.get_multiline(0, width),
                "display" => i.to_string(),
                "colored" => {
                    colored::control::set_override(true);
                    let s = i.get_multiline_colored(0, width);
                    colored::control::unset_override();
                    s
                }
                _ => "?".into(),
            };
            format!("ok {}", hex(s.as_bytes()))
        }
        Err(_) => "err".to_string(),
    }
}

fn main() {
    let stdin = std::io::stdin();
    let stdout = std::io::stdout();
    std::panic::set_hook(Box::new(|_| {}));
    for line in stdin.lock().lines() {
        let line = line.unwrap();
        let toks: Vec<String> = line.split(' ').filter(|t| !t.is_empty()).map(|s| s.to_string()).collect();
        if toks.len() < 2 {
            continue;
        }
        let id = toks[0].clone();
        let (tx, rx) = mpsc::channel::<String>();
        let t2 = toks.clone();
        // default stack, with a time limit
        let h = std::thread::spawn(move || {
            let r = std::panic::catch_unwind(|| -> String {
                let op = t2[1].as_str();
                match op {
                    "parse" => match String::from_utf8(unhex(&t2[2])) {
                        Ok(s) => parse_op(&s),
                        Err(_) => "notutf8".into(),
                    },
                    "format" => match String::from_utf8(unhex(&t2[4])) {
                        Ok(s) => format_op(&t2[2], t2[3].parse().unwrap_or(usize::MAX), &s),
                        Err(_) => "notutf8".into(),
                    },
                    _ => "UNKNOWN-OP".into(),
                }
            });
            let _ = tx.send(r.unwrap_or_else(|_| "PANIC".into()));
        });
        let res = match rx.recv_timeout(Duration::from_secs(10)) {
            Ok(s) => {
                let _ = h.join();
                s
            }
            Err(mpsc::RecvTimeoutError::Timeout) => "TIMEOUT".to_string(),
            Err(_) => {
                // the thread died without sending: stack overflow aborts the process, a panic is caught above
                "PANIC".to_string()
            }
        };
        let mut o = stdout.lock();
        writeln!(o, "{} {}", id, res).unwrap();
    }
}
