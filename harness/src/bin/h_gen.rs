//! Harness for the code generator (C08 static part, C09): run generate() in-process.
use std::io::{BufRead, Write};
use std::panic::{catch_unwind, AssertUnwindSafe};

use vharness::*;

fn main() {
    let stdin = std::io::stdin();
    let stdout = std::io::stdout();
    std::panic::set_hook(Box::new(|_| {}));
    for line in stdin.lock().lines() {
        let line = line.unwrap();
        let toks: Vec<&str> = line.split(' ').filter(|t| !t.is_empty()).collect();
        if toks.len() < 3 {
            continue;
        }
        let (id, op, a) = (toks[0], toks[1], &toks[2..]);
        let res = catch_unwind(AssertUnwindSafe(|| -> String {
            match op {
                "gen" => {
                    let src = unhex(a[0]);
                    let mut out: Vec<u8> = Vec::new();
                    match varlink_generator::generate(&mut &src[..], &mut out, true) {
                        Ok(()) => format!("ok {}", hex(&out)),
                        Err(e) => format!("err {}", hex(format!("{}", e).as_bytes())),
                    }
                }
                // the build-script front end: cargo_build() writes $OUT_DIR/<stem>.rs; run it for a first definition, then for a
                // second one under the same file name (what a rebuild after an edit does) and compare the file with generate()
                "buildrs" => {
                    let dir = std::env::temp_dir().join(format!("vh-buildrs-{}-{}", std::process::id(), id));
                    let _ = std::fs::remove_dir_all(&dir);
                    std::fs::create_dir_all(dir.join("out")).unwrap();
                    std::env::set_var("OUT_DIR", dir.join("out"));
                    let input = dir.join("x.y.varlink");
                    let mut last: Vec<u8> = Vec::new();
                    for h in a.iter() {
                        last = unhex(h);
                        std::fs::write(&input, &last).unwrap();
                        varlink_generator::cargo_build(&input);
                    }
                    let got = std::fs::read(dir.join("out").join("x.y.rs")).unwrap_or_default();
                    let _ = std::fs::remove_dir_all(&dir);
                    let mut want: Vec<u8> = Vec::new();
                    match varlink_generator::generate(&mut &last[..], &mut want, false) {
                        Ok(()) => {
                            if got == want {
                                "same".to_string()
                            } else {
                                format!("differs got={} want={}", hex(&got), hex(&want))
                            }
                        }
                        Err(e) => format!("err {}", hex(format!("{}", e).as_bytes())),
                    }
                }
                _ => "UNKNOWN-OP".to_string(),
            }
        }));
        let mut o = stdout.lock();
        match res {
            Ok(s) => writeln!(o, "{} {}", id, s).unwrap(),
            Err(_) => writeln!(o, "{} PANIC", id).unwrap(),
        }
    }
}
