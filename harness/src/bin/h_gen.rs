//! Harness for the code generator (C08 static part, C09): run generate() in-process.
use std::io::{BufRead, Write};
use std::panic::{catch_unwind, AssertUnwindSafe};

use vharness::*;

fn main() {
    let stdin = std::io::stdin();
    let stdout = std::io::stdout();
    std::panic::set_hook(Box::new(|_| {}));
    for line in stdin.lock().lines() {
        let line = line.unwrap();
        let toks: Vec<&str> = line.split(' ').filter(|t| !t.is_empty()).collect();
        if toks.len() < 3 {
            continue;
        }
        let (id, op, a) = (toks[0], toks[1], &toks[2..]);
        let res = catch_unwind(AssertUnwindSafe(|| -> String {
            match op {
                "gen" => {
                    let src = unhex(a[0]);
                    let mut out: Vec<u8> = Vec::new();
                    match varlink_generator::generate(&mut &src[..], &mut out, true) {
                        Ok(()) => format!("ok {}", hex(&out)),
                        Err(e) => format!("err {}", hex(format!("{}", e).as_bytes())),
                    }
                }
                _ => "UNKNOWN-OP".to_string(),
            }
        }));
        let mut o = stdout.lock();
        match res {
            Ok(s) => writeln!(o, "{} {}", id, s).unwrap(),
            Err(_) => writeln!(o, "{} PANIC", id).unwrap(),
        }
    }
}
