//! Harness for the code generator (C08 static part, C09): run generate() in-process.
use std::io::{BufRead, Write};
use std::panic::{catch_unwind, AssertUnwindSafe};

use vharness::*;

fn main() {
    let stdin = std::io::stdin();
    let stdout = std::io::stdout();
    std::panic::set_hook(Box::new(|_| {}));
    for line in stdin.lock().lines() {
        let line = line.unwrap();
        let toks: Vec<&str> = line.split(' ').filter(|t| !t.is_empty()).collect();
        if toks.len() < 3 {
            continue;
        }
        let (id, op, a) = (toks[0], toks[1], &toks[2..]);
        let res = catch_unwind(AssertUnwindSafe(|| -> String {
            match op {
                "gen" => {
                    let src = unhex(a[0]);
                    let mut out: Vec<u8> = Vec::new();
                    match varlink_generator::generate(&mut &src[..], &mut out, true) {
                        Ok(()) => format!("ok {}", hex(&out)),
                        Err(e) => format!("err {}", hex(format!("{}", e).as_bytes())),
                    }
                }
                // geno <tosource 0|1> <int type|-> <preamble 0|1> <idl>: generate_with_options, as a build script with options calls it
                "geno" => {
                    let src = unhex(a[3]);
                    let int_type: Option<&'static str> = match a[1] {
                        "-" => None,
                        t => Some(leak(t.to_string())),
                    };
                    let preamble: Option<proc_macro2::TokenStream> = if a[2] == "1" {
                        Some("use std::collections::BTreeMap as PreambleMap; pub type PreambleMarker = PreambleMap<u8, u8>;".parse().unwrap())
                    } else {
                        None
                    };
                    let opts = varlink_generator::GeneratorOptions { int_type, preamble, ..Default::default() };
                    let mut out: Vec<u8> = Vec::new();
                    match varlink_generator::generate_with_options(&mut &src[..], &mut out, &opts, a[0] == "1") {
                        Ok(()) => format!("ok {}", hex(&out)),
                        Err(e) => format!("err {}", hex(format!("{}", e).as_bytes())),
                    }
                }
                // the build-script front end: cargo_build() writes $OUT_DIR/<stem>.rs; run it for a first definition, then for a
                // second one under the same file name (what a rebuild after an edit does) and compare the file with generate()
                "buildrs" => {
                    let dir = std::env::temp_dir().join(format!("vh-buildrs-{}-{}", std::process::id(), id));
                    let _ = std::fs::remove_dir_all(&dir);
                    std::fs::create_dir_all(dir.join("out")).unwrap();
                    std::env::set_var("OUT_DIR", dir.join("out"));
                    let input = dir.join("x.y.varlink");
                    let mut last: Vec<u8> = Vec::new();
                    for h in a.iter() {
                        last = unhex(h);
                        std::fs::write(&input, &last).unwrap();
                        varlink_generator::cargo_build(&input);
                        // the second helper writes <dir>/x_y.rs next to the definition (rustfmt off)
                        varlink_generator::cargo_build_tosource(&input, false);
                    }
                    let got = std::fs::read(dir.join("out").join("x.y.rs")).unwrap_or_default();
                    let got2 = std::fs::read(dir.join("x_y.rs")).unwrap_or_default();
                    let _ = std::fs::remove_dir_all(&dir);
                    let mut want: Vec<u8> = Vec::new();
                    let mut want2: Vec<u8> = Vec::new();
                    match (
                        varlink_generator::generate(&mut &last[..], &mut want, false),
                        varlink_generator::generate(&mut &last[..], &mut want2, true),
                    ) {
                        (Ok(()), Ok(())) => {
                            if got != want {
                                format!("differs helper=cargo_build got={} want={}", hex(&got), hex(&want))
                            } else if got2 != want2 {
                                format!("differs helper=cargo_build_tosource got={} want={}", hex(&got2), hex(&want2))
                            } else {
                                "same".to_string()
                            }
                        }
                        (Err(e), _) | (_, Err(e)) => format!("err {}", hex(format!("{}", e).as_bytes())),
                    }
                }
                _ => "UNKNOWN-OP".to_string(),
            }
        }));
        let mut o = stdout.lock();
        match res {
            Ok(s) => writeln!(o, "{} {}", id, s).unwrap(),
            Err(_) => writeln!(o, "{} PANIC", id).unwrap(),
        }
    }
}
