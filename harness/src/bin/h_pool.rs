//! Drives the real worker pool of varlink::listen through the cfg-guarded probes (C14, C15
//! drain clause).  Built with RUSTFLAGS="--cfg varlink_rust_verif".
//!   <id> burst <initial> <max> <njobs> <hold>      hold in {none, dequeued, start}
//!   <id> free <initial> <max> <njobs> <seed>
use std::collections::HashMap;
use std::io::{BufRead, Write};
use std::sync::atomic::{AtomicBool, AtomicUsize, Ordering};
use std::sync::mpsc;
use std::sync::{Arc, Condvar, Mutex};
use std::time::{Duration, Instant};

use varlink::verif_pool::{set_probe, Pool};

struct Shared {
    log: Mutex<Vec<(String, usize, usize, usize)>>, // event, a, b, thread index
    threads: Mutex<HashMap<std::thread::ThreadId, usize>>,
    hold_event: Mutex<Option<&'static str>>,
    hold_cv: Condvar,
    max_workers_seen: AtomicUsize,
}

fn thread_index(sh: &Shared) -> usize {
    let mut t = sh.threads.lock().unwrap();
    let n = t.len();
    *t.entry(std::thread::current().id()).or_insert(n)
}

fn install(sh: Arc<Shared>) {
    let sh2 = sh.clone();
    set_probe(Some(Box::new(move |ev, a, b| {
        let ti = thread_index(&sh2);
        sh2.log.lock().unwrap().push((ev.to_string(), a, b, ti));
        if ev == "executed" {
            sh2.max_workers_seen.fetch_max(b, Ordering::SeqCst);
        }
        let mut h = sh2.hold_event.lock().unwrap();
        while *h == Some(ev) {
            let (g, to) = sh2.hold_cv.wait_timeout(h, Duration::from_secs(20)).unwrap();
            h = g;
            if to.timed_out() {
                break;
            }
        }
    })));
}

fn new_shared() -> Arc<Shared> {
    Arc::new(Shared {
        log: Mutex::new(Vec::new()),
        threads: Mutex::new(HashMap::new()),
        hold_event: Mutex::new(None),
        hold_cv: Condvar::new(),
        max_workers_seen: AtomicUsize::new(0),
    })
}

/// long-lived jobs (connections that stay open): each signals when it starts and then waits to
/// be released.  A burst of `njobs` is submitted while workers are held at `hold`.
fn burst(initial: usize, max: usize, njobs: usize, hold: &str) -> String {
    let sh = new_shared();
    install(sh.clone());
    let hold_ev: Option<&'static str> = match hold {
        "dequeued" => Some("dequeued"),
        "start" => Some("start"),
        _ => None,
    };
    let started = Arc::new(AtomicUsize::new(0));
    let active = Arc::new(AtomicUsize::new(0));
    let max_active = Arc::new(AtomicUsize::new(0));
    let release = Arc::new((Mutex::new(false), Condvar::new()));
    let mut pool = Pool::new(initial, max);
    *sh.hold_event.lock().unwrap() = hold_ev;
    for _ in 0..njobs {
        let (st, ac, ma, rel) = (started.clone(), active.clone(), max_active.clone(), release.clone());
        pool.execute(move || {
            st.fetch_add(1, Ordering::SeqCst);
            let a = ac.fetch_add(1, Ordering::SeqCst) + 1;
            ma.fetch_max(a, Ordering::SeqCst);
            let (m, cv) = &*rel;
            let mut g = m.lock().unwrap();
            while !*g {
                g = cv.wait(g).unwrap();
            }
            drop(g);
            ac.fetch_sub(1, Ordering::SeqCst);
        });
    }
    let workers_after_burst = pool.num_workers();
    // let the held workers go; nothing finishes, nothing further arrives
    *sh.hold_event.lock().unwrap() = None;
    sh.hold_cv.notify_all();
    let want = njobs.min(max);
    let deadline = Instant::now() + Duration::from_millis(1500);
    while started.load(Ordering::SeqCst) < want && Instant::now() < deadline {
        std::thread::sleep(Duration::from_millis(5));
    }
    std::thread::sleep(Duration::from_millis(60));
    let started_without_help = started.load(Ordering::SeqCst);
    let busy_mid = pool.num_busy();
    // now release the jobs and drop the pool: everything accepted must run to completion
    {
        let (m, cv) = &*release;
        *m.lock().unwrap() = true;
        cv.notify_all();
    }
    let workers_final = pool.num_workers();
    drop(pool);
    let started_total = started.load(Ordering::SeqCst);
    let res = format!(
        "workers_after_burst={} workers_final={} max_workers_seen={} started_without_help={} busy_mid={} max_active={} started_total={} active_end={}",
        workers_after_burst,
        workers_final,
        sh.max_workers_seen.load(Ordering::SeqCst),
        started_without_help,
        busy_mid,
        max_active.load(Ordering::SeqCst),
        started_total,
        active.load(Ordering::SeqCst)
    );
    set_probe(None);
    res
}

/// jobs of random short duration submitted at random intervals; the probes record the trace
fn free(initial: usize, max: usize, njobs: usize, seed: u64) -> String {
    let sh = new_shared();
    install(sh.clone());
    let mut st = seed;
    let mut rnd = move || {
        st = st.wrapping_add(0x9e3779b97f4a7c15);
        let mut z = st;
        z = (z ^ (z >> 30)).wrapping_mul(0xbf58476d1ce4e5b9);
        z = (z ^ (z >> 27)).wrapping_mul(0x94d049bb133111eb);
        z ^ (z >> 31)
    };
    let active = Arc::new(AtomicUsize::new(0));
    let max_active = Arc::new(AtomicUsize::new(0));
    let done = Arc::new(AtomicUsize::new(0));
    let over = Arc::new(AtomicBool::new(false));
    let (tx, rx) = mpsc::channel::<()>();
    let mut pool = Pool::new(initial, max);
    for _ in 0..njobs {
        let dur = rnd() % 4;
        let (ac, ma, dn, ov, tx) = (active.clone(), max_active.clone(), done.clone(), over.clone(), tx.clone());
        pool.execute(move || {
            let a = ac.fetch_add(1, Ordering::SeqCst) + 1;
            ma.fetch_max(a, Ordering::SeqCst);
            if a > max {
                ov.store(true, Ordering::SeqCst);
            }
            std::thread::sleep(Duration::from_millis(dur));
            ac.fetch_sub(1, Ordering::SeqCst);
            dn.fetch_add(1, Ordering::SeqCst);
            let _ = tx.send(());
        });
        if rnd() % 3 == 0 {
            std::thread::sleep(Duration::from_micros(rnd() % 1500));
        }
    }
    let workers = pool.num_workers();
    drop(pool);
    drop(rx);
    let log = sh.log.lock().unwrap();
    // per-event consistency: counter and worker count never exceed what the model allows
    let mut max_counter = 0;
    let mut max_workers = 0;
    let mut trace = String::new();
    for (ev, a, b, ti) in log.iter() {
        max_counter = max_counter.max(*a);
        if ev == "executed" || ev == "enqueued" {
            max_workers = max_workers.max(*b);
        }
        if trace.len() < 6000 {
            trace.push_str(&format!("{}:{}:{}:{},", ev, a, b, ti));
        }
    }
    let res = format!(
        "workers={} max_workers_seen={} max_counter={} max_active={} done={} over={} events={} trace={}",
        workers,
        max_workers,
        max_counter,
        max_active.load(Ordering::SeqCst),
        done.load(Ordering::SeqCst),
        over.load(Ordering::SeqCst) as u8,
        log.len(),
        trace
    );
    drop(log);
    set_probe(None);
    res
}

fn main() {
    let stdin = std::io::stdin();
    let stdout = std::io::stdout();
    for line in stdin.lock().lines() {
        let line = line.unwrap();
        let toks: Vec<&str> = line.split(' ').filter(|t| !t.is_empty()).collect();
        if toks.len() < 2 {
            continue;
        }
        let (id, op, a) = (toks[0], toks[1], &toks[2..]);
        let res = match op {
            "burst" => burst(a[0].parse().unwrap(), a[1].parse().unwrap(), a[2].parse().unwrap(), a[3]),
            "free" => free(a[0].parse().unwrap(), a[1].parse().unwrap(), a[2].parse().unwrap(), a[3].parse().unwrap()),
            _ => "UNKNOWN-OP".to_string(),
        };
        let mut o = stdout.lock();
        writeln!(o, "{} {}", id, res).unwrap();
    }
}
