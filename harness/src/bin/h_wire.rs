//! Correspondence harness for the wire data types (C17).
//! `<id> <op> <tokens>` in, `<id> <result>` out; payloads hex.
use std::collections::HashMap;
use std::io::{BufRead, Write};
use std::panic::{catch_unwind, AssertUnwindSafe};

use serde::de::DeserializeOwned;
use serde::Serialize;
use serde_json::Value;
use varlink::{Reply, Request, ServiceInfo, StringHashMap, StringHashSet};
use vharness::*;

fn ob(s: &str) -> Option<bool> {
    match s {
        "t" => Some(true),
        "f" => Some(false),
        _ => None,
    }
}

fn ov(s: &str) -> Option<Value> {
    match s {
        "none" => None,
        h => Some(serde_json::from_slice(&unhex(h)).expect("harness: parameter text must be JSON")),
    }
}

/// serialise three ways, deserialise three ways, report equality with the original
fn roundtrip<T: Serialize + DeserializeOwned + PartialEq>(v: &T) -> String {
    let text = serde_json::to_string(v).unwrap();
    let bytes = serde_json::to_vec(v).unwrap();
    let val = serde_json::to_value(v).unwrap();
    let eq_str = serde_json::from_str::<T>(&text).map(|x| x == *v).unwrap_or(false);
    let eq_slice = serde_json::from_slice::<T>(&bytes).map(|x| x == *v).unwrap_or(false);
    let eq_value = serde_json::from_value::<T>(val.clone()).map(|x| x == *v).unwrap_or(false);
    format!(
        "text={} same_bytes={} vtext={} eq_str={} eq_slice={} eq_value={}",
        hex(text.as_bytes()),
        (text.as_bytes() == &bytes[..]) as u8,
        hex(serde_json::to_string(&val).unwrap().as_bytes()),
        eq_str as u8,
        eq_slice as u8,
        eq_value as u8
    )
}

/// deserialise (front end chosen by `how`) and serialise back
fn reser<T: Serialize + DeserializeOwned>(how: &str, input: &[u8]) -> String {
    let r: Result<T, String> = match how {
        "text" => serde_json::from_slice::<T>(input).map_err(|e| e.to_string()),
        "str" => match std::str::from_utf8(input) {
            Ok(s) => serde_json::from_str::<T>(s).map_err(|e| e.to_string()),
            Err(_) => return "notutf8".to_string(),
        },
        "value" => match serde_json::from_slice::<Value>(input) {
            Ok(v) => serde_json::from_value::<T>(v).map_err(|e| e.to_string()),
            Err(_) => return "notjson".to_string(),
        },
        _ => panic!("how"),
    };
    match r {
        Ok(v) => format!("ok {}", hex(serde_json::to_string(&v).unwrap().as_bytes())),
        Err(_) => "err".to_string(),
    }
}

fn main() {
    let stdin = std::io::stdin();
    let stdout = std::io::stdout();
    std::panic::set_hook(Box::new(|_| {}));
    for line in stdin.lock().lines() {
        let line = line.unwrap();
        let toks: Vec<&str> = line.split(' ').filter(|t| !t.is_empty()).collect();
        if toks.len() < 2 {
            continue;
        }
        let (id, op, a) = (toks[0], toks[1], &toks[2..]);
        let res = catch_unwind(AssertUnwindSafe(|| -> String {
            let st = |h: &str| String::from_utf8(unhex(h)).expect("utf8");
            match op {
                "mk_req" => {
                    let q = Request {
                        more: ob(a[0]),
                        oneway: ob(a[1]),
                        upgrade: ob(a[2]),
                        method: st(a[3]).into(),
                        parameters: if a[4] == "somenull" { Some(Value::Null) } else { ov(a[4]) },
                    };
                    roundtrip(&q)
                }
                "mk_reply" => {
                    let y = Reply {
                        continues: ob(a[0]),
                        error: if a[1] == "none" { None } else { Some(st(a[1]).into()) },
                        parameters: if a[2] == "somenull" { Some(Value::Null) } else { ov(a[2]) },
                    };
                    roundtrip(&y)
                }
                "mk_info" => {
                    let i = ServiceInfo {
                        vendor: st(a[0]).into(),
                        product: st(a[1]).into(),
                        version: st(a[2]).into(),
                        url: st(a[3]).into(),
                        interfaces: a[4..].iter().map(|x| st(x).into()).collect(),
                    };
                    roundtrip(&i)
                }
                "mk_set" => {
                    let mut s = StringHashSet::new();
                    for k in a {
                        s.insert(st(k));
                    }
                    roundtrip(&s)
                }
                "mk_map" => {
                    let mut m: StringHashMap<String> = HashMap::new();
                    for kv in a {
                        let p: Vec<&str> = kv.split(':').collect();
                        m.insert(st(p[0]), st(p[1]));
                    }
                    roundtrip(&m)
                }
                // the remaining wire structs of the built-in interface: value -> JSON -> value (no model: implementation-only oracle)
                "mk_aux" => {
                    let os = |i: usize| -> Option<String> { if a.len() <= i || a[i] == "none" { None } else { Some(st(a[i])) } };
                    match a[0] {
                        "getinfoargs" => roundtrip(&varlink::GetInfoArgs),
                        "descr_args" => roundtrip(&varlink::GetInterfaceDescriptionArgs { interface: os(1).unwrap_or_default().into() }),
                        "descr_reply" => roundtrip(&varlink::GetInterfaceDescriptionReply { description: os(1) }),
                        "err_iface" => roundtrip(&varlink::ErrorInterfaceNotFound { interface: os(1) }),
                        "err_param" => roundtrip(&varlink::ErrorInvalidParameter { parameter: os(1) }),
                        "err_method" => roundtrip(&varlink::ErrorMethodNotFound { method: os(1) }),
                        "err_notimpl" => roundtrip(&varlink::ErrorMethodNotImplemented { method: os(1) }),
                        _ => "UNKNOWN-OP".to_string(),
                    }
                }
                "de_req" => reser::<Request>(a[0], &unhex(a[1])),
                "de_reply" => reser::<Reply>(a[0], &unhex(a[1])),
                "de_info" => reser::<ServiceInfo>(a[0], &unhex(a[1])),
                "de_set" => reser::<StringHashSet>(a[0], &unhex(a[1])),
                "de_map" => reser::<StringHashMap<String>>(a[0], &unhex(a[1])),
                "de_descr_args" => reser::<varlink::GetInterfaceDescriptionArgs>(a[0], &unhex(a[1])),
                "de_descr_reply" => reser::<varlink::GetInterfaceDescriptionReply>(a[0], &unhex(a[1])),
                "de_err_iface" => reser::<varlink::ErrorInterfaceNotFound>(a[0], &unhex(a[1])),
                "de_err_param" => reser::<varlink::ErrorInvalidParameter>(a[0], &unhex(a[1])),
                "de_err_method" => reser::<varlink::ErrorMethodNotFound>(a[0], &unhex(a[1])),
                "de_err_notimpl" => reser::<varlink::ErrorMethodNotImplemented>(a[0], &unhex(a[1])),
                _ => "UNKNOWN-OP".to_string(),
            }
        }));
        let mut o = stdout.lock();
        match res {
            Ok(s) => writeln!(o, "{} {}", id, s).unwrap(),
            Err(_) => writeln!(o, "{} PANIC", id).unwrap(),
        }
    }
}
