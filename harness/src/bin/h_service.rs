//! Correspondence harness for the server side (C01-C06, C13 pieces).
//! Same line protocol as ml/driver.ml: `<id> <op> <tokens...>` in, `<id> <result>` out.
use std::io::{BufRead, Read, Write};
use std::panic::{catch_unwind, AssertUnwindSafe};
use std::time::Duration;

use varlink::ConnectionHandler;
use vharness::*;

fn opt_bool(b: Option<bool>) -> &'static str {
    match b {
        None => "-",
        Some(true) => "t",
        Some(false) => "f",
    }
}

/// The careful caller of the documented API: feed chunk by chunk, prepending the
/// returned tail and whatever handle() left unread in the reader it was given.
fn feed(svc: &varlink::VarlinkService, chunks: &[Vec<u8>]) -> String {
    let mut tail: Vec<u8> = Vec::new();
    let mut upg: Option<String> = None;
    let mut out: Vec<u8> = Vec::new();
    let mut closed = false;
    let mut err = String::from("-");
    let empty: Vec<u8> = Vec::new();
    for chunk in chunks.iter().chain(std::iter::once(&empty)) {
        let mut input = std::mem::take(&mut tail);
        input.extend_from_slice(chunk);
        let mut rd: &[u8] = &input;
        match svc.handle(&mut rd, &mut out, upg.clone()) {
            Ok((t, u)) => {
                tail = t;
                tail.extend_from_slice(rd);
                upg = u;
            }
            Err(e) => {
                closed = true;
                err = format!("{:?}", e.kind()).split('(').next().unwrap_or("?").to_string();
                break;
            }
        }
    }
    format!(
        "out={} closed={} upg={} tail={} err={}",
        hex(&out),
        if closed { 1 } else { 0 },
        match upg {
            None => "none".to_string(),
            Some(i) => hex(i.as_bytes()),
        },
        hex(&tail),
        err
    )
}

/// One connection: write the chunks (delay_us between them), half-close, read to EOF.
fn socket_case(addr: &str, chunks: &[Vec<u8>], delay_us: u64) -> String {
    let s = match connect_abstract(addr) {
        Ok(s) => s,
        Err(e) => return format!("CONNECT-ERROR {}", e),
    };
    let mut rd = s.try_clone().unwrap();
    rd.set_read_timeout(Some(Duration::from_secs(10))).unwrap();
    let reader = std::thread::spawn(move || {
        let mut out = Vec::new();
        let mut buf = [0u8; 65536];
        let mut timed_out = false;
        loop {
            match rd.read(&mut buf) {
                Ok(0) => break,
                Ok(n) => out.extend_from_slice(&buf[..n]),
                Err(e) => {
                    if e.kind() == std::io::ErrorKind::WouldBlock || e.kind() == std::io::ErrorKind::TimedOut {
                        timed_out = true;
                    }
                    break;
                }
            }
        }
        (out, timed_out)
    });
    let mut w = s;
    let mut werr = false;
    for c in chunks {
        if c.is_empty() {
            continue;
        }
        if w.write_all(c).is_err() {
            werr = true;
            break;
        }
        let _ = w.flush();
        if delay_us > 0 {
            std::thread::sleep(Duration::from_micros(delay_us));
        }
    }
    let _ = w.shutdown(std::net::Shutdown::Write);
    let (out, timed_out) = reader.join().unwrap();
    format!(
        "out={} timeout={} werr={}",
        hex(&out),
        if timed_out { 1 } else { 0 },
        if werr { 1 } else { 0 }
    )
}

fn main() {
    let stdin = std::io::stdin();
    let stdout = std::io::stdout();
    let mut servers: std::collections::HashMap<String, Server> = std::collections::HashMap::new();
    std::panic::set_hook(Box::new(|_| {}));
    for line in stdin.lock().lines() {
        let line = line.unwrap();
        if line.is_empty() {
            continue;
        }
        let toks: Vec<&str> = line.split(' ').filter(|t| !t.is_empty()).collect();
        if toks.len() < 2 {
            println!("BAD-LINE");
            continue;
        }
        let (id, op, rest) = (toks[0], toks[1], &toks[2..]);
        let res = catch_unwind(AssertUnwindSafe(|| -> String {
            match op {
                "feed" => {
                    let (st, ch) = split_bar(rest);
                    let spec = SvcSpec::parse(&st);
                    let svc = spec.build(false);
                    let chunks: Vec<Vec<u8>> = ch.iter().map(|c| unhex(c)).collect();
                    feed(&svc, &chunks)
                }
                "listen" => {
                    // listen <delay_us> <svc..> | chunks
                    let delay: u64 = rest[0].parse().unwrap();
                    let (st, ch) = split_bar(&rest[1..]);
                    let key = st.join(" ");
                    if !servers.contains_key(&key) {
                        let spec = SvcSpec::parse(&st);
                        servers.insert(key.clone(), Server::start(&spec, 100));
                    }
                    let chunks: Vec<Vec<u8>> = ch.iter().map(|c| unhex(c)).collect();
                    socket_case(&servers[&key].addr, &chunks, delay)
                }
                "decode_request" => {
                    let f = unhex(rest[0]);
                    match serde_json::from_slice::<varlink::Request>(&f) {
                        Ok(q) => format!(
                            "ok more={} oneway={} upgrade={} method={} params={}",
                            opt_bool(q.more),
                            opt_bool(q.oneway),
                            opt_bool(q.upgrade),
                            hex(q.method.as_bytes()),
                            match q.parameters {
                                None => "none".to_string(),
                                Some(v) => hex(serde_json::to_string(&v).unwrap().as_bytes()),
                            }
                        ),
                        Err(_) => "err".to_string(),
                    }
                }
                "parse_value" => {
                    let f = unhex(rest[0]);
                    match serde_json::from_slice::<serde_json::Value>(&f) {
                        Ok(v) => format!("ok {}", hex(serde_json::to_string(&v).unwrap().as_bytes())),
                        Err(_) => "err".to_string(),
                    }
                }
                _ => "UNKNOWN-OP".to_string(),
            }
        }));
        let mut o = stdout.lock();
        match res {
            Ok(s) => writeln!(o, "{} {}", id, s).unwrap(),
            Err(_) => writeln!(o, "{} PANIC", id).unwrap(),
        }
    }
    drop(servers);
}
