//! Correspondence harness for the server side (C01-C06, C13 pieces).
//! Same line protocol as ml/driver.ml: `<id> <op> <tokens...>` in, `<id> <result>` out.
use std::io::{BufRead, Read, Write};
use std::os::unix::net::UnixStream;
use std::sync::atomic::Ordering;
use std::panic::{catch_unwind, AssertUnwindSafe};
use std::time::Duration;

use varlink::ConnectionHandler;
use vharness::*;

fn opt_bool(b: Option<bool>) -> &'static str {
    match b {
        None => "-",
        Some(true) => "t",
        Some(false) => "f",
    }
}

/// The careful caller of the documented API: feed chunk by chunk, prepending the
/// returned tail and whatever handle() left unread in the reader it was given.
fn feed(svc: &varlink::VarlinkService, chunks: &[Vec<u8>]) -> String {
    feed_with(svc, chunks, true)
}

/// `careful == false`: the reference caller of test.rs and the ping example: every buffer is a transient slice and
/// only the returned tail is kept for the next call.
/// A writer that, like a socket under pressure, takes at most `max` bytes per write() call (0 = no limit).
struct ShortWriter {
    buf: Vec<u8>,
    max: usize,
}

impl Write for ShortWriter {
    fn write(&mut self, b: &[u8]) -> std::io::Result<usize> {
        let n = if self.max == 0 { b.len() } else { b.len().min(self.max) };
        self.buf.extend_from_slice(&b[..n]);
        Ok(n)
    }
    fn flush(&mut self) -> std::io::Result<()> {
        Ok(())
    }
}

fn feed_with(svc: &varlink::VarlinkService, chunks: &[Vec<u8>], careful: bool) -> String {
    feed_with_writer(svc, chunks, careful, 0)
}

fn feed_with_writer(svc: &varlink::VarlinkService, chunks: &[Vec<u8>], careful: bool, max_write: usize) -> String {
    let mut tail: Vec<u8> = Vec::new();
    let mut upg: Option<String> = None;
    let mut out = ShortWriter { buf: Vec::new(), max: max_write };
    let mut closed = false;
    let mut err = String::from("-");
    let empty: Vec<u8> = Vec::new();
    for chunk in chunks.iter().chain(std::iter::once(&empty)) {
        let mut input = std::mem::take(&mut tail);
        input.extend_from_slice(chunk);
        let mut rd: &[u8] = &input;
        match svc.handle(&mut rd, &mut out, upg.clone()) {
            Ok((t, u)) => {
                tail = t;
                if careful {
                    tail.extend_from_slice(rd);
                }
                upg = u;
            }
            Err(e) => {
                closed = true;
                err = format!("{:?}", e.kind()).split('(').next().unwrap_or("?").to_string();
                break;
            }
        }
    }
    format!(
        "out={} closed={} upg={} tail={} err={}",
        hex(&out.buf),
        if closed { 1 } else { 0 },
        match upg {
            None => "none".to_string(),
            Some(i) => hex(i.as_bytes()),
        },
        hex(&tail),
        err
    )
}

/// One connection: write the chunks (delay_us between them), half-close, read to EOF.
fn socket_case(addr: &str, chunks: &[Vec<u8>], delay_us: u64) -> String {
    let s = match connect_abstract(addr) {
        Ok(s) => s,
        Err(e) => return format!("CONNECT-ERROR {}", e),
    };
    let mut rd = s.try_clone().unwrap();
    rd.set_read_timeout(Some(Duration::from_secs(10))).unwrap();
    let reader = std::thread::spawn(move || {
        let mut out = Vec::new();
        let mut buf = [0u8; 65536];
        let mut timed_out = false;
        loop {
            match rd.read(&mut buf) {
                Ok(0) => break,
                Ok(n) => out.extend_from_slice(&buf[..n]),
                Err(e) => {
                    if e.kind() == std::io::ErrorKind::WouldBlock || e.kind() == std::io::ErrorKind::TimedOut {
                        timed_out = true;
                    }
                    break;
                }
            }
        }
        (out, timed_out)
    });
    let mut w = s;
    let mut werr = false;
    for c in chunks {
        if c.is_empty() {
            continue;
        }
        if w.write_all(c).is_err() {
            werr = true;
            break;
        }
        let _ = w.flush();
        if delay_us > 0 {
            std::thread::sleep(Duration::from_micros(delay_us));
        }
    }
    let _ = w.shutdown(std::net::Shutdown::Write);
    let (out, timed_out) = reader.join().unwrap();
    format!(
        "out={} timeout={} werr={}",
        hex(&out),
        if timed_out { 1 } else { 0 },
        if werr { 1 } else { 0 }
    )
}

/// One run of varlink::listen with a timed client history (C15).
/// listen_run <idle_s> <stop: none|<ms>> <initial> <max> <svc..> | <t_ms>:<hold_ms>:<request chunk hex> ...
///   plus optional `steady:<from_ms>:<until_ms>:<every_ms>` clients that connect and close at once
/// stoprace <trials> <svc..> | <request>: in each trial listen() runs with a stop flag; once the accept loop has
/// settled in its poll the flag is set and a client connects at once and sends the request. A trial is conclusive
/// if the connection was established within 50 ms of the flag being set and before listen() returned; the unchanged
/// loop accepts such a connection and serves it to completion before returning.
fn stoprace(rest: &[&str]) -> String {
    use std::sync::atomic::{AtomicBool, Ordering};
    use std::sync::Arc;
    use std::time::Instant;
    let trials: usize = rest[0].parse().unwrap();
    let (st, reqs) = split_bar(&rest[1..]);
    let spec = SvcSpec::parse(&st);
    let req = unhex(reqs[0]);
    let dir = std::env::var("VH_TMP").unwrap_or("/verif/.build/tmp".to_string());
    let _ = std::fs::create_dir_all(&dir);
    let (mut conclusive, mut served) = (0usize, 0usize);
    let mut notes = Vec::new();
    for _ in 0..trials {
        let n = SOCK_N.fetch_add(1, Ordering::SeqCst);
        let path = format!("{}/r-{}-{}.sock", dir, std::process::id(), n);
        let addr = format!("unix:{}", path);
        let stop = Arc::new(AtomicBool::new(false));
        let svc = spec.build(false);
        let (a2, s2) = (addr.clone(), stop.clone());
        let t0 = Instant::now();
        let server = std::thread::spawn(move || {
            let _ = varlink::listen(
                svc,
                &a2,
                &varlink::ListenConfig { initial_worker_threads: 1, max_worker_threads: 4, idle_timeout: 0, stop_listening: Some(s2) },
            );
            t0.elapsed().as_micros()
        });
        let deadline = Instant::now() + Duration::from_secs(5);
        while !std::path::Path::new(&path).exists() && Instant::now() < deadline {
            std::thread::sleep(Duration::from_millis(2));
        }
        std::thread::sleep(Duration::from_millis(135));
        stop.store(true, Ordering::SeqCst);
        let t_flag = t0.elapsed().as_micros();
        let conn = UnixStream::connect(&path);
        let t_conn = t0.elapsed().as_micros();
        let mut got = Vec::new();
        if let Ok(mut s) = conn {
            let _ = s.write_all(&req);
            let _ = s.shutdown(std::net::Shutdown::Write);
            s.set_read_timeout(Some(Duration::from_secs(3))).unwrap();
            let _ = s.read_to_end(&mut got);
            let t_ret = server.join().unwrap_or(0);
            if t_conn - t_flag < 50_000 && t_conn < t_ret {
                conclusive += 1;
                if got.ends_with(&[0]) {
                    served += 1;
                }
            }
            notes.push(format!("{}us/{}", t_conn - t_flag, got.len()));
        } else {
            let _ = server.join();
            notes.push("refused".to_string());
        }
        let _ = std::fs::remove_file(&path);
    }
    format!("trials={} conclusive={} served={} notes={}", trials, conclusive, served, notes.join(","))
}

fn listen_run(rest: &[&str]) -> String {
    use std::sync::atomic::{AtomicBool, Ordering};
    use std::sync::Arc;
    use std::time::Instant;
    let idle: u64 = rest[0].parse().unwrap();
    let stop_at: Option<u64> = if rest[1] == "none" { None } else { Some(rest[1].parse().unwrap()) };
    let initial: usize = rest[2].parse().unwrap();
    let maxw: usize = rest[3].parse().unwrap();
    let (st, hist) = split_bar(&rest[4..]);
    let spec = SvcSpec::parse(&st);
    let n = SOCK_N.fetch_add(1, Ordering::SeqCst);
    let dir = std::env::var("VH_TMP").unwrap_or("/verif/.build/tmp".to_string());
    let _ = std::fs::create_dir_all(&dir);
    let path = format!("{}/l-{}-{}.sock", dir, std::process::id(), n);
    let addr = format!("unix:{}", path);
    let stop = stop_at.map(|_| Arc::new(AtomicBool::new(false)));
    let svc = spec.build(false);
    // the clock of the scenario starts when the server has bound its socket (on a busy machine the server thread may be
    // scheduled late; a client due at 0 ms must not find the socket missing for that reason)
    let t0_cell: Arc<std::sync::Mutex<Option<Instant>>> = Arc::new(std::sync::Mutex::new(None));
    let t0_srv = t0_cell.clone();
    let started = Instant::now();
    let (a2, s2) = (addr.clone(), stop.clone());
    let tid_cell: Arc<std::sync::Mutex<Option<libc::pthread_t>>> = Arc::new(std::sync::Mutex::new(None));
    let tid_srv = tid_cell.clone();
    let server = std::thread::spawn(move || {
        *tid_srv.lock().unwrap() = Some(unsafe { libc::pthread_self() });
        let r = varlink::listen(
            svc,
            &a2,
            &varlink::ListenConfig {
                initial_worker_threads: initial,
                max_worker_threads: maxw,
                idle_timeout: idle,
                stop_listening: s2,
            },
        );
        let t = t0_srv.lock().unwrap().unwrap_or(started).elapsed().as_millis();
        match r {
            Ok(()) => format!("ok@{}", t),
            Err(e) => format!("{}@{}", format!("{:?}", e.kind()).split('(').next().unwrap_or("?"), t),
        }
    });
    while !std::path::Path::new(&path).exists() && started.elapsed() < Duration::from_secs(10) && !server.is_finished() {
        std::thread::sleep(Duration::from_millis(1));
    }
    let t0 = Instant::now();
    *t0_cell.lock().unwrap() = Some(t0);
    let mut hs = Vec::new();
    for h in hist.iter() {
        let p: Vec<&str> = h.split(':').collect();
        let path = path.clone();
        if p[0] == "signal" {
            // signal:<at ms>: a handled signal (SIGUSR1, no-op handler, no SA_RESTART) is delivered to the thread that runs listen()
            let at: u64 = p[1].parse().unwrap();
            let tc = tid_cell.clone();
            hs.push(std::thread::spawn(move || -> String {
                extern "C" fn noop(_: libc::c_int) {}
                unsafe {
                    let mut sa: libc::sigaction = std::mem::zeroed();
                    sa.sa_sigaction = noop as usize;
                    libc::sigemptyset(&mut sa.sa_mask);
                    sa.sa_flags = 0;
                    libc::sigaction(libc::SIGUSR1, &sa, std::ptr::null_mut());
                }
                let t = t0.elapsed().as_millis() as u64;
                if at > t {
                    std::thread::sleep(Duration::from_millis(at - t));
                }
                let tid = *tc.lock().unwrap();
                if let Some(tid) = tid {
                    unsafe {
                        libc::pthread_kill(tid, libc::SIGUSR1);
                    }
                }
                format!("signal@{}", t0.elapsed().as_millis())
            }));
            continue;
        }
        if p[0] == "steady" {
            let (from, until, every): (u64, u64, u64) = (p[1].parse().unwrap(), p[2].parse().unwrap(), p[3].parse().unwrap());
            hs.push(std::thread::spawn(move || -> String {
                let mut n = 0;
                let mut last_ok = 0u128;
                loop {
                    let t = t0.elapsed().as_millis() as u64;
                    if t >= until {
                        break;
                    }
                    if t >= from {
                        if let Ok(s) = UnixStream::connect(&path) {
                            n += 1;
                            last_ok = t0.elapsed().as_millis();
                            drop(s);
                        }
                    }
                    std::thread::sleep(Duration::from_millis(every));
                }
                format!("steady:{}:{}", n, last_ok)
            }));
            continue;
        }
        let (at, hold): (u64, u64) = (p[0].parse().unwrap(), p[1].parse().unwrap());
        let req = unhex(p[2]);
        hs.push(std::thread::spawn(move || -> String {
            let t = t0.elapsed().as_millis() as u64;
            if at > t {
                std::thread::sleep(Duration::from_millis(at - t));
            }
            let mut s = match UnixStream::connect(&path) {
                Ok(s) => s,
                Err(_) => return format!("refused@{}", t0.elapsed().as_millis()),
            };
            let tc = t0.elapsed().as_millis();
            let _ = s.write_all(&req);
            std::thread::sleep(Duration::from_millis(hold));
            let _ = s.shutdown(std::net::Shutdown::Write);
            let mut out = Vec::new();
            s.set_read_timeout(Some(Duration::from_secs(8))).unwrap();
            let _ = s.read_to_end(&mut out);
            format!("conn@{}:closed@{}:{}", tc, t0.elapsed().as_millis(), hex(&out))
        }));
    }
    if let (Some(at), Some(flag)) = (stop_at, stop.as_ref()) {
        let t = t0.elapsed().as_millis() as u64;
        if at > t {
            std::thread::sleep(Duration::from_millis(at - t));
        }
        flag.store(true, Ordering::SeqCst);
    }
    let ret = server.join().unwrap_or("PANIC".into());
    let exists_after = std::path::Path::new(&path).exists();
    let conns: Vec<String> = hs.into_iter().map(|h| h.join().unwrap_or("PANIC".into())).collect();
    let _ = std::fs::remove_file(&path);
    format!("ret={} sock_exists={} conns={}", ret, exists_after as u8, if conns.is_empty() { "-".to_string() } else { conns.join(";") })
}

fn main() {
    let stdin = std::io::stdin();
    let stdout = std::io::stdout();
    let mut servers: std::collections::HashMap<String, Server> = std::collections::HashMap::new();
    std::panic::set_hook(Box::new(|_| {}));
    for line in stdin.lock().lines() {
        let line = line.unwrap();
        if line.is_empty() {
            continue;
        }
        let toks: Vec<&str> = line.split(' ').filter(|t| !t.is_empty()).collect();
        if toks.len() < 2 {
            println!("BAD-LINE");
            continue;
        }
        let (id, op, rest) = (toks[0], toks[1], &toks[2..]);
        let res = catch_unwind(AssertUnwindSafe(|| -> String {
            match op {
                "feed" => {
                    let (st, ch) = split_bar(rest);
                    let spec = SvcSpec::parse(&st);
                    let svc = spec.build(false);
                    let chunks: Vec<Vec<u8>> = ch.iter().map(|c| unhex(c)).collect();
                    feed(&svc, &chunks)
                }
                "feedl" => {
                    // like feed, with the upgraded handler in line mode (incomplete lines come back as unread bytes)
                    vharness::UPGRADED_LINES.store(true, std::sync::atomic::Ordering::SeqCst);
                    let (st, ch) = split_bar(rest);
                    let spec = SvcSpec::parse(&st);
                    let svc = spec.build(false);
                    let chunks: Vec<Vec<u8>> = ch.iter().map(|c| unhex(c)).collect();
                    let r = feed(&svc, &chunks);
                    vharness::UPGRADED_LINES.store(false, std::sync::atomic::Ordering::SeqCst);
                    r
                }
                "feedw" => {
                    // feedw <max bytes per write()> <svc..> | chunks
                    let k: usize = rest[0].parse().unwrap();
                    let (st, ch) = split_bar(&rest[1..]);
                    let spec = SvcSpec::parse(&st);
                    let svc = spec.build(false);
                    let chunks: Vec<Vec<u8>> = ch.iter().map(|c| unhex(c)).collect();
                    feed_with_writer(&svc, &chunks, true, k)
                }
                "feedcap" => {
                    let (st, ch) = split_bar(rest);
                    let spec = SvcSpec::parse(&st);
                    let svc = spec.build(false);
                    let chunks: Vec<Vec<u8>> = ch.iter().map(|c| unhex(c)).collect();
                    feed_with(&svc, &chunks, false)
                }
                "listen" | "listenu" => {
                    // listen <delay_us> <svc..> | chunks     (listenu: the upgraded handler returns after every unit)
                    vharness::UPGRADED_UNIT.store(op == "listenu", std::sync::atomic::Ordering::SeqCst);
                    let delay: u64 = rest[0].parse().unwrap();
                    let (st, ch) = split_bar(&rest[1..]);
                    let key = st.join(" ");
                    if !servers.contains_key(&key) {
                        let spec = SvcSpec::parse(&st);
                        servers.insert(key.clone(), Server::start(&spec, 100));
                    }
                    let chunks: Vec<Vec<u8>> = ch.iter().map(|c| unhex(c)).collect();
                    socket_case(&servers[&key].addr, &chunks, delay)
                }
                "par" => {
                    // par <max_workers> <svc..> | <kind>:<delay_us>:<chunk,chunk..> ...   (all connections concurrently)
                    let maxw: usize = rest[0].parse().unwrap();
                    let (st, conns) = split_bar(&rest[1..]);
                    let spec = SvcSpec::parse(&st);
                    let server = Server::start(&spec, maxw);
                    let addr = server.addr.clone();
                    let mut hs = Vec::new();
                    let hold = std::sync::Arc::new(std::sync::atomic::AtomicBool::new(true));
                    for c in conns.iter() {
                        let p: Vec<&str> = c.splitn(3, ':').collect();
                        let kind = p[0].to_string();
                        let delay: u64 = p[1].parse().unwrap();
                        let chunks: Vec<Vec<u8>> = if p[2].is_empty() { vec![] } else { p[2].split(',').map(|x| unhex(x)).collect() };
                        let addr = addr.clone();
                        let hold = hold.clone();
                        hs.push(std::thread::spawn(move || -> String {
                            match kind.as_str() {
                                "normal" => socket_case(&addr, &chunks, delay),
                                _ => {
                                    // idle / silent / midmsg peers: connect, maybe send part of a message, keep the
                                    // connection open until the others are done, then drop it abruptly
                                    let s = match connect_abstract(&addr) {
                                        Ok(s) => s,
                                        Err(e) => return format!("CONNECT-ERROR {}", e),
                                    };
                                    let mut w = s.try_clone().unwrap();
                                    for c in &chunks {
                                        let _ = w.write_all(c);
                                    }
                                    if kind == "midmsg" {
                                        drop(w);
                                        drop(s);
                                        return "out=- timeout=0 werr=0".to_string();
                                    }
                                    while hold.load(std::sync::atomic::Ordering::SeqCst) {
                                        std::thread::sleep(Duration::from_millis(5));
                                    }
                                    "out=- timeout=0 werr=0".to_string()
                                }
                            }
                        }));
                    }
                    let mut outs = Vec::new();
                    let kinds: Vec<String> = conns.iter().map(|c| c.split(':').next().unwrap().to_string()).collect();
                    // join the normal ones first, then release the lingering peers
                    let mut results: Vec<Option<String>> = (0..hs.len()).map(|_| None).collect();
                    let mut handles: Vec<Option<std::thread::JoinHandle<String>>> = hs.into_iter().map(Some).collect();
                    for (i, k) in kinds.iter().enumerate() {
                        if k == "normal" || k == "midmsg" {
                            results[i] = Some(handles[i].take().unwrap().join().unwrap_or("PANIC".into()));
                        }
                    }
                    hold.store(false, std::sync::atomic::Ordering::SeqCst);
                    for i in 0..handles.len() {
                        if let Some(h) = handles[i].take() {
                            results[i] = Some(h.join().unwrap_or("PANIC".into()));
                        }
                    }
                    for r in results {
                        let r = r.unwrap();
                        let f: Vec<&str> = r.split(' ').collect();
                        outs.push(format!("{}/{}", f[0].trim_start_matches("out="), f.get(1).unwrap_or(&"").trim_start_matches("timeout=")));
                    }
                    drop(server);
                    format!("outs={}", outs.join(";"))
                }
                "listen_run" => listen_run(rest),
                "stoprace" => stoprace(rest),
                "decode_request" => {
                    let f = unhex(rest[0]);
                    match serde_json::from_slice::<varlink::Request>(&f) {
                        Ok(q) => format!(
                            "ok more={} oneway={} upgrade={} method={} params={}",
                            opt_bool(q.more),
                            opt_bool(q.oneway),
                            opt_bool(q.upgrade),
                            hex(q.method.as_bytes()),
                            match q.parameters {
                                None => "none".to_string(),
                                Some(v) => hex(serde_json::to_string(&v).unwrap().as_bytes()),
                            }
                        ),
                        Err(_) => "err".to_string(),
                    }
                }
                "parse_value" => {
                    let f = unhex(rest[0]);
                    match serde_json::from_slice::<serde_json::Value>(&f) {
                        Ok(v) => format!("ok {}", hex(serde_json::to_string(&v).unwrap().as_bytes())),
                        Err(_) => "err".to_string(),
                    }
                }
                _ => "UNKNOWN-OP".to_string(),
            }
        }));
        let mut o = stdout.lock();
        match res {
            Ok(s) => writeln!(o, "{} {}", id, s).unwrap(),
            Err(_) => writeln!(o, "{} PANIC", id).unwrap(),
        }
    }
    drop(servers);
}
