//! A small scripted varlink service used as the target of socket activation / bridge commands.
//!   h_actsrv --listen <address> [--report <file>]   serve with varlink::listen (activation honoured by the library); --listen0: without idle timeout
//!   h_actsrv --stdio                                 serve stdin/stdout with VarlinkService::handle
//!   h_actsrv --probe <address>                       print what Listener::new decides, then exit
use std::io::{BufRead, Write};

use varlink::ConnectionHandler;
use vharness::*;

fn spec() -> SvcSpec {
    SvcSpec {
        vendor: "véndor".into(),
        product: "prod".into(),
        version: "1.0".into(),
        url: "http://x/".into(),
        ifaces: vec![
            ("org.example.a".into(), "interface org.example.a\nmethod Run(script: []string, tag: object) -> (i: int, tag: object)\nerror Failed (tag: object)\n".into(), true),
            ("org.example.b".into(), "# second\ninterface org.example.b\nmethod Run(script: []string) -> ()\n".into(), true),
        ],
    }
}

fn main() {
    let args: Vec<String> = std::env::args().collect();
    let mode = args.get(1).map(|s| s.as_str()).unwrap_or("");
    match mode {
        "--resolver" | "--resolver-cf" => {
            // --resolver <address> iface=address ...
            let table: Vec<(String, String)> = args[3..]
                .iter()
                .map(|a| {
                    let i = a.find('=').unwrap();
                    (a[..i].to_string(), a[i + 1..].to_string())
                })
                .collect();
            let svc = varlink::VarlinkService::new("rv", "rp", "1", "ru", vec![Box::new(ResolverIface { table, explicit_final: mode == "--resolver-cf" }) as Box<dyn varlink::Interface + Send + Sync>]);
            let _ = varlink::listen(svc, &args[2], &varlink::ListenConfig { idle_timeout: 300, ..Default::default() });
        }
        "--listen-one" | "--listen-one1" => {
            // --listen-one <address> <a|b> : only one of the two scripted interfaces, long idle timeout
            // --listen-one1: the same with a single worker thread (a service that serves one connection at a time)
            let mut sp = spec();
            sp.ifaces.retain(|(n, _, _)| n.ends_with(&args[3]));
            let mut cfg = varlink::ListenConfig { idle_timeout: 300, ..Default::default() };
            if mode == "--listen-one1" {
                cfg.initial_worker_threads = 1;
                cfg.max_worker_threads = 1;
            }
            let _ = varlink::listen(sp.build(false), &args[2], &cfg);
        }
        "--listen" | "--listen0" => {
            if let Some(i) = args.iter().position(|a| a == "--report") {
                let mut f = std::fs::File::create(&args[i + 1]).unwrap();
                let fd3 = unsafe { libc::fcntl(3, libc::F_GETFD) } != -1;
                writeln!(
                    f,
                    "pid={} LISTEN_PID={} LISTEN_FDS={} LISTEN_FDNAMES={} VARLINK_ADDRESS={} fd3={}",
                    std::process::id(),
                    std::env::var("LISTEN_PID").unwrap_or("-".into()),
                    std::env::var("LISTEN_FDS").unwrap_or("-".into()),
                    std::env::var("LISTEN_FDNAMES").unwrap_or("-".into()),
                    std::env::var("VARLINK_ADDRESS").unwrap_or("-".into()),
                    fd3 as u8
                )
                .unwrap();
            }
            // an activated service is free to log on its standard output and standard error; neither may end up in
            // the protocol stream of whoever activated it
            if std::env::var("VH_NOISY").is_ok() {
                println!("activated service: log line on stdout");
                eprintln!("activated service: log line on stderr");
            }
            let r = varlink::listen(
                spec().build(false),
                &args[2],
                // --listen0: the default configuration (no idle timeout), as a long-running activated service has it
                &varlink::ListenConfig { idle_timeout: if mode == "--listen0" { 0 } else { 1 }, ..Default::default() },
            );
            if let Err(e) = r {
                if *e.kind() != varlink::ErrorKind::Timeout {
                    eprintln!("listen: {:?}", e);
                    std::process::exit(1);
                }
            }
        }
        "--stdio" => {
            let svc = spec().build(false);
            let stdin = std::io::stdin();
            let mut br = std::io::BufReader::new(stdin.lock());
            let stdout = std::io::stdout();
            let mut w = stdout.lock();
            let mut iface: Option<String> = None;
            let mut tail: Vec<u8> = Vec::new();
            loop {
                let res = {
                    let mut chained = std::io::Read::chain(tail.as_slice(), &mut br);
                    svc.handle(&mut chained, &mut w, iface.clone())
                };
                match res {
                    Ok((t, i)) => {
                        iface = i;
                        tail = t;
                        if iface.is_some() && !tail.is_empty() {
                            continue;
                        }
                        match br.fill_buf() {
                            Ok(b) if !b.is_empty() => {}
                            _ => break,
                        }
                    }
                    Err(_) => break,
                }
            }
        }
        "--probe" => {
            let r = varlink::Listener::new(&args[2]);
            match r {
                Ok(varlink::Listener::UNIX(_, act)) => println!("unix activated={}", act as u8),
                Ok(varlink::Listener::TCP(_, act)) => println!("tcp activated={}", act as u8),
                Err(e) => println!("err {:?}", e.kind()),
            }
            // do not run destructors of a listener made from a foreign descriptor
            std::process::exit(0);
        }
        _ => {
            eprintln!("usage");
            std::process::exit(2);
        }
    }
}
