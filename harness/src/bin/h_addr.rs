//! Harness for addresses, transports and socket activation (C16).
use std::io::{BufRead, Read, Write};
use std::os::unix::io::AsRawFd;
use std::os::unix::process::CommandExt;
use std::sync::mpsc;
use std::time::Duration;

use vharness::*;

fn kind_of(e: &varlink::Error) -> String {
    match e.kind() {
        varlink::ErrorKind::InvalidAddress => "invalid".into(),
        varlink::ErrorKind::Io(_) => "io".into(),
        other => format!("other:{:?}", other).replace(' ', "_"),
    }
}

fn actsrv() -> String {
    let me = std::env::current_exe().unwrap();
    me.parent().unwrap().join("h_actsrv").to_string_lossy().to_string()
}

fn tmpdir() -> String {
    let d = std::env::var("VH_TMP").unwrap_or("/verif/.build/tmp".to_string());
    let _ = std::fs::create_dir_all(&d);
    d
}

/// raw exchange over a Connection: write everything, half-close, read to EOF
fn exchange(conn: std::sync::Arc<std::sync::RwLock<varlink::Connection>>, data: &[u8]) -> Vec<u8> {
    let (mut r, mut w, fd) = {
        let mut c = conn.write().unwrap();
        let fd = c.stream.as_ref().map(|s| s.as_raw_fd()).unwrap_or(-1);
        (c.reader.take().unwrap(), c.writer.take().unwrap(), fd)
    };
    let _ = w.write_all(data);
    let _ = w.flush();
    unsafe {
        libc::shutdown(fd, libc::SHUT_WR);
    }
    let mut out = Vec::new();
    let _ = r.read_to_end(&mut out);
    out
}

fn transport(kind: &str, data: &[u8], n: usize) -> String {
    let spec = SvcSpec {
        vendor: "véndor".into(),
        product: "prod".into(),
        version: "1.0".into(),
        url: "http://x/".into(),
        ifaces: vec![
            ("org.example.a".into(), "interface org.example.a\nmethod Run(script: []string, tag: object) -> (i: int, tag: object)\nerror Failed (tag: object)\n".into(), true),
            ("org.example.b".into(), "# second\ninterface org.example.b\nmethod Run(script: []string) -> ()\n".into(), true),
        ],
    };
    match kind {
        "unixpath" | "unixmode" | "unixstale" | "unixmodestale" | "abstract" | "tcp" | "tcp6" | "tcphost" => {
            if kind.ends_with("stale") {
                // a socket file left behind by an earlier instance that did not clean up (std's listener does not unlink)
                let p = format!("{}/t-{}-{}.sock", tmpdir(), std::process::id(), n);
                let _ = std::fs::remove_file(&p);
                drop(std::os::unix::net::UnixListener::bind(&p));
            }
            let addr = match kind {
                "unixpath" | "unixstale" => format!("unix:{}/t-{}-{}.sock", tmpdir(), std::process::id(), n),
                "unixmode" | "unixmodestale" => format!("unix:{}/t-{}-{}.sock;mode=0600", tmpdir(), std::process::id(), n),
                "abstract" => format!("unix:@vh-addr-{}-{}", std::process::id(), n),
                // a bracketed IPv6 literal and a host name are tcp addresses like a dotted quad
                "tcp6" => {
                    let l = std::net::TcpListener::bind("[::1]:0").unwrap();
                    let p = l.local_addr().unwrap().port();
                    drop(l);
                    format!("tcp:[::1]:{}", p)
                }
                "tcphost" => {
                    let l = std::net::TcpListener::bind("127.0.0.1:0").unwrap();
                    let p = l.local_addr().unwrap().port();
                    drop(l);
                    format!("tcp:localhost:{}", p)
                }
                _ => {
                    let l = std::net::TcpListener::bind("127.0.0.1:0").unwrap();
                    let p = l.local_addr().unwrap().port();
                    drop(l);
                    format!("tcp:127.0.0.1:{}", p)
                }
            };
            let stop = std::sync::Arc::new(std::sync::atomic::AtomicBool::new(false));
            let (a2, s2) = (addr.clone(), stop.clone());
            let svc = spec.build(false);
            let th = std::thread::spawn(move || {
                let _ = varlink::listen(
                    svc,
                    &a2,
                    &varlink::ListenConfig { stop_listening: Some(s2), ..Default::default() },
                );
            });
            let mut conn = None;
            for _ in 0..400 {
                match varlink::Connection::with_address(&addr) {
                    Ok(c) => {
                        conn = Some(c);
                        break;
                    }
                    Err(_) => std::thread::sleep(Duration::from_millis(5)),
                }
            }
            let res = match conn {
                Some(c) => format!("out={}", hex(&exchange(c, data))),
                None => "CONNECT-FAILED".to_string(),
            };
            stop.store(true, std::sync::atomic::Ordering::SeqCst);
            let _ = th.join();
            res
        }
        "activate" => {
            let report = format!("{}/act-{}-{}.txt", tmpdir(), std::process::id(), n);
            let cmd = format!("{} --listen $VARLINK_ADDRESS --report {}", actsrv(), report);
            match varlink::Connection::with_activate(&cmd) {
                Ok(c) => {
                    let pid = c.read().unwrap().child.as_ref().map(|ch| ch.id()).unwrap_or(0);
                    // the address an activated connection reports must stay usable for further connections
                    // (Connection::address() exists to clone such a connection)
                    let again = {
                        let a = c.read().unwrap().address();
                        match varlink::Connection::with_address(&a) {
                            Ok(c2) => hex(&exchange(c2, b"{\"method\":\"org.varlink.service.GetInfo\"}\0")),
                            Err(e) => format!("err:{}", kind_of(&e)),
                        }
                    };
                    // a third connection, opened while the activating one is alive and used after that one is gone: the
                    // service serves its connections independently of the connection object that started it
                    let c3 = {
                        let a = c.read().unwrap().address();
                        varlink::Connection::with_address(&a)
                    };
                    let out = exchange(c.clone(), data);
                    let rep = std::fs::read_to_string(&report).unwrap_or_default();
                    let _ = std::fs::remove_file(&report);
                    drop(c);
                    std::thread::sleep(Duration::from_millis(30));
                    let after = match c3 {
                        Ok(c3) => hex(&exchange(c3, b"{\"method\":\"org.varlink.service.GetInfo\"}\0")),
                        Err(e) => format!("err:{}", kind_of(&e)),
                    };
                    unsafe {
                        if pid > 0 {
                            libc::kill(pid as i32, libc::SIGKILL);
                            let mut st = 0;
                            libc::waitpid(pid as i32, &mut st, 0);
                        }
                    }
                    format!("out={} childpid={} report={} again={} afterdrop={}", hex(&out), pid, hex(rep.trim().as_bytes()), again, after)
                }
                Err(e) => format!("err:{}", kind_of(&e)),
            }
        }
        // activation by a foreign activator (systemd, libvarlink's `varlink --activate`, a multiplexing parent): it hands over
        // its own listening socket as descriptor 3, in whatever mode it used it itself (blocking, or O_NONBLOCK)
        "foreignact" | "foreignactnb" | "foreignactidle" => {
            let path = format!("{}/fa-{}-{}.sock", tmpdir(), std::process::id(), n);
            let _ = std::fs::remove_file(&path);
            let l = std::os::unix::net::UnixListener::bind(&path).unwrap();
            if kind == "foreignactnb" {
                l.set_nonblocking(true).unwrap();
            }
            let raw = l.as_raw_fd();
            let mut cmd = std::process::Command::new("sh");
            cmd.arg("-c")
                .arg(format!(
                    "LISTEN_PID=$$ exec {} {} 'unix:{}'",
                    actsrv(),
                    if kind == "foreignactidle" { "--listen" } else { "--listen0" },
                    path
                ))
                .env("LISTEN_FDS", "1")
                .env_remove("LISTEN_FDNAMES")
                .env_remove("VH_NOISY")
                .stdin(std::process::Stdio::null())
                .stdout(std::process::Stdio::null())
                .stderr(std::process::Stdio::null());
            unsafe {
                cmd.pre_exec(move || {
                    libc::dup2(raw, 10);
                    libc::dup2(10, 3);
                    libc::close(10);
                    Ok(())
                });
            }
            let mut child = match cmd.spawn() {
                Ok(c) => c,
                Err(e) => return format!("SPAWN-ERROR {}", e),
            };
            // (foreignactidle: the activator keeps its socket, as systemd does, and the service instance ends by idle timeout)
            let keep = if kind == "foreignactidle" { Some(l) } else { drop(l); None };
            // the service is up and waiting in accept() well before the first client arrives
            std::thread::sleep(Duration::from_millis(400));
            let addr = format!("unix:{}", path);
            let res = match varlink::Connection::with_address(&addr) {
                Ok(c) => {
                    let out = exchange(c, data);
                    // and it keeps serving: a second client
                    let again = match varlink::Connection::with_address(&addr) {
                        Ok(c2) => hex(&exchange(c2, b"{\"method\":\"org.varlink.service.GetInfo\"}\0")),
                        Err(e) => format!("err:{}", kind_of(&e)),
                    };
                    let mut alive = matches!(child.try_wait(), Ok(None));
                    let mut extra = String::new();
                    if keep.is_some() {
                        // wait for the instance to idle out; the activator's socket file must outlive it
                        let t = std::time::Instant::now();
                        while t.elapsed() < Duration::from_secs(6) && matches!(child.try_wait(), Ok(None)) {
                            std::thread::sleep(Duration::from_millis(50));
                        }
                        extra = format!(
                            " exited={} sockfile={}",
                            !matches!(child.try_wait(), Ok(None)) as u8,
                            std::path::Path::new(&path).exists() as u8
                        );
                        alive = true;
                    }
                    format!("out={} again2={} alive={}{}", hex(&out), again, alive as u8, extra)
                }
                Err(e) => format!("out=- connect_err={} alive={}", kind_of(&e), matches!(child.try_wait(), Ok(None)) as u8),
            };
            let _ = child.kill();
            let _ = child.wait();
            let _ = std::fs::remove_file(&path);
            res
        }
        "bridge" => {
            let cmd = format!("{} --stdio", actsrv());
            match varlink::Connection::with_bridge(&cmd) {
                Ok(c) => {
                    let out = exchange(c.clone(), data);
                    if let Some(ch) = c.write().unwrap().child.as_mut() {
                        let _ = ch.wait();
                    }
                    format!("out={}", hex(&out))
                }
                Err(e) => format!("err:{}", kind_of(&e)),
            }
        }
        _ => "UNKNOWN-TRANSPORT".to_string(),
    }
}

/// run `h_actsrv --probe <addr>` with a chosen LISTEN_* environment and listening sockets on 3,4,5
fn activation(fds: &str, pidmode: &str, names: &str, addr: &str) -> String {
    let dir = tmpdir();
    let mut ls = Vec::new();
    for i in 0..3 {
        let p = format!("{}/probe-{}-{}.sock", dir, std::process::id(), i);
        let _ = std::fs::remove_file(&p);
        ls.push((std::os::unix::net::UnixListener::bind(&p).unwrap(), p));
    }
    let raw: Vec<i32> = ls.iter().map(|(l, _)| l.as_raw_fd()).collect();
    let shell = match pidmode {
        "own" => format!("LISTEN_PID=$$ exec {} --probe '{}'", actsrv(), addr),
        "wrong" => format!("LISTEN_PID=1 exec {} --probe '{}'", actsrv(), addr),
        "garbage" => format!("LISTEN_PID=abc exec {} --probe '{}'", actsrv(), addr),
        _ => format!("exec {} --probe '{}'", actsrv(), addr),
    };
    let mut cmd = std::process::Command::new("sh");
    cmd.arg("-c").arg(shell).env_remove("LISTEN_PID").env_remove("LISTEN_FDS").env_remove("LISTEN_FDNAMES");
    if fds != "-" {
        cmd.env("LISTEN_FDS", fds);
    }
    if names != "-" {
        cmd.env("LISTEN_FDNAMES", names);
    }
    unsafe {
        cmd.pre_exec(move || {
            // move the three listeners to 10.. first so that 3,4,5 can be assigned in order
            for (i, fd) in raw.iter().enumerate() {
                libc::dup2(*fd, 10 + i as i32);
            }
            for i in 0..3 {
                libc::dup2(10 + i, 3 + i);
                libc::close(10 + i);
            }
            Ok(())
        });
    }
    let out = cmd.output();
    for (_, p) in &ls {
        let _ = std::fs::remove_file(p);
    }
    match out {
        Ok(o) => format!("probe={}", String::from_utf8_lossy(&o.stdout).trim().replace(' ', "_")),
        Err(e) => format!("SPAWN-ERROR {}", e),
    }
}

fn main() {
    let stdin = std::io::stdin();
    let stdout = std::io::stdout();
    std::panic::set_hook(Box::new(|_| {}));
    let mut n = 0usize;
    for line in stdin.lock().lines() {
        let line = line.unwrap();
        let toks: Vec<String> = line.split(' ').filter(|t| !t.is_empty()).map(|s| s.to_string()).collect();
        if toks.len() < 2 {
            continue;
        }
        n += 1;
        let id = toks[0].clone();
        let (tx, rx) = mpsc::channel::<String>();
        let t2 = toks.clone();
        let nn = n;
        std::thread::spawn(move || {
            let r = std::panic::catch_unwind(|| -> String {
                match t2[1].as_str() {
                    "connect" => {
                        let a = String::from_utf8_lossy(&unhex(&t2[2])).to_string();
                        match varlink::varlink_connect(&a) {
                            Ok(_) => "ok".into(),
                            Err(e) => kind_of(&e),
                        }
                    }
                    "listener" => {
                        let a = String::from_utf8_lossy(&unhex(&t2[2])).to_string();
                        match varlink::Listener::new(&a) {
                            Ok(varlink::Listener::UNIX(..)) => "ok:unix".into(),
                            Ok(varlink::Listener::TCP(..)) => "ok:tcp".into(),
                            Err(e) => kind_of(&e),
                        }
                    }
                    "transport" => transport(&t2[2], &unhex(&t2[3]), nn),
                    "activation" => activation(&t2[2], &t2[3], &t2[4], &String::from_utf8_lossy(&unhex(&t2[5]))),
                    _ => "UNKNOWN-OP".into(),
                }
            });
            let _ = tx.send(r.unwrap_or_else(|_| "PANIC".into()));
        });
        let res = rx.recv_timeout(Duration::from_secs(15)).unwrap_or_else(|_| "TIMEOUT".to_string());
        let mut o = stdout.lock();
        writeln!(o, "{} {}", id, res).unwrap();
    }
}
