//! Correspondence harness for the client side (C07, client halves of C04/C05).
use std::io::{BufRead, BufReader, Read, Write};
use std::os::unix::net::UnixStream;
use std::panic::{catch_unwind, AssertUnwindSafe};
use std::sync::{Arc, Mutex, RwLock};

use serde_derive::Deserialize;
use serde_json::{json, Value};
use varlink::{Connection, ErrorKind, MethodCall};
use vharness::*;

type VCall = MethodCall<Value, Value, varlink::Error>;

#[derive(Deserialize, Debug)]
struct Typed {
    #[allow(dead_code)]
    x: i64,
}
type TCall = MethodCall<Value, Typed, varlink::Error>;

fn kind_str(e: &varlink::Error) -> String {
    match e.kind() {
        ErrorKind::ConnectionBusy => "err:ConnectionBusy".into(),
        ErrorKind::MethodCalledAlready => "err:MethodCalledAlready".into(),
        ErrorKind::IteratorOldReply => "err:IteratorOldReply".into(),
        ErrorKind::ConnectionClosed => "err:ConnectionClosed".into(),
        ErrorKind::SerdeJsonDe(_) | ErrorKind::SerdeJsonSer(_) => "err:SerdeJsonDe".into(),
        ErrorKind::InterfaceNotFound(s) => format!("err:InterfaceNotFound:{}", hex(s.as_bytes())),
        ErrorKind::InvalidParameter(s) => format!("err:InvalidParameter:{}", hex(s.as_bytes())),
        ErrorKind::MethodNotFound(s) => format!("err:MethodNotFound:{}", hex(s.as_bytes())),
        ErrorKind::MethodNotImplemented(s) => format!("err:MethodNotImplemented:{}", hex(s.as_bytes())),
        ErrorKind::VarlinkErrorReply(r) => {
            format!("err:VarlinkErrorReply:{}", hex(serde_json::to_string(r).unwrap().as_bytes()))
        }
        other => format!("err:Other:{}", hex(format!("{:?}", other).as_bytes())),
    }
}

fn res_str(r: Result<Value, varlink::Error>) -> String {
    match r {
        Ok(v) => format!("ok:{}", hex(serde_json::to_string(&v).unwrap().as_bytes())),
        Err(e) => kind_str(&e),
    }
}

fn make_conn(client_end: UnixStream) -> Arc<RwLock<Connection>> {
    let r = client_end.try_clone().unwrap();
    let w = client_end;
    let mut c = Connection::default();
    c.reader = Some(BufReader::new(Box::new(r) as Box<dyn Read + Send + Sync>));
    c.writer = Some(Box::new(w) as Box<dyn Write + Send + Sync>);
    Arc::new(RwLock::new(c))
}

/// scripted run: the whole reply stream is written in advance, then the server end is
/// half-closed; afterwards everything the client wrote is collected.
fn script(inbox: &[u8], ops: &[&str]) -> String {
    // a genuine Connection (Connection::with_address over a unix socket: its `stream` is present, as in every real client)
    // to a fake service that has written the whole reply stream in advance and half-closed
    static N: std::sync::atomic::AtomicUsize = std::sync::atomic::AtomicUsize::new(0);
    let dir = std::env::var("VH_TMP").unwrap_or("/verif/.build/tmp".to_string());
    let _ = std::fs::create_dir_all(&dir);
    let path = format!("{}/hc-{}-{}.sock", dir, std::process::id(), N.fetch_add(1, std::sync::atomic::Ordering::SeqCst));
    let _ = std::fs::remove_file(&path);
    let listener = std::os::unix::net::UnixListener::bind(&path).unwrap();
    let inbox_v = inbox.to_vec();
    let server = std::thread::spawn(move || -> Vec<u8> {
        let (mut s, _) = listener.accept().unwrap();
        let _ = s.write_all(&inbox_v);
        let _ = s.shutdown(std::net::Shutdown::Write);
        let mut sent = Vec::new();
        let _ = s.read_to_end(&mut sent);
        sent
    });
    let conn = Connection::with_address(&format!("unix:{}", path)).unwrap();
    let mut calls: Vec<VCall> = Vec::new();
    let mut tcalls: Vec<Option<TCall>> = Vec::new();
    let mut outs: Vec<String> = Vec::new();
    for op in ops {
        let (name, k) = match op.find(':') {
            Some(i) => (&op[..i], op[i + 1..].parse::<usize>().unwrap()),
            None => (*op, 0usize),
        };
        match name {
            "new" => {
                let k = calls.len();
                calls.push(MethodCall::new(conn.clone(), format!("org.example.M{}", k), json!({ "k": k })));
                tcalls.push(None);
            }
            "newt" => {
                let k = calls.len();
                calls.push(MethodCall::new(conn.clone(), "unused", json!({})));
                tcalls.push(Some(MethodCall::new(conn.clone(), format!("org.example.M{}", k), json!({ "k": k }))));
            }
            "call" => {
                if let Some(Some(t)) = tcalls.get_mut(k) {
                    outs.push(match t.call() {
                        Ok(_) => "ok:typed".to_string(),
                        Err(e) => kind_str(&e),
                    });
                } else {
                    outs.push(res_str(calls[k].call()));
                }
            }
            "upgrade" => outs.push(res_str(calls[k].upgrade())),
            "oneway" => outs.push(match calls[k].oneway() {
                Ok(()) => "unit".into(),
                Err(e) => kind_str(&e),
            }),
            "more" => outs.push(match calls[k].more() {
                Ok(_) => "unit".into(),
                Err(e) => kind_str(&e),
            }),
            "next" => outs.push(match calls[k].next() {
                None => "none".into(),
                Some(r) => res_str(r),
            }),
            "recv" => outs.push(res_str(calls[k].recv())),
            // the call object goes out of scope (e.g. an iterator abandoned mid-stream); the index is not used afterwards
            "drop" => {
                let old = std::mem::replace(&mut calls[k], MethodCall::new(conn.clone(), "dropped", json!({})));
                drop(old);
                outs.push("unit".into());
            }
            _ => outs.push("BAD-OP".into()),
        }
    }
    let idle = {
        let c = conn.read().unwrap();
        c.reader.is_some() && c.writer.is_some()
    };
    drop(calls);
    drop(tcalls);
    {
        // whatever holds the stream now: make sure the fake service sees end-of-stream
        let mut c = conn.write().unwrap();
        if let Some(st) = c.stream.as_mut() {
            let _ = st.shutdown();
        }
    }
    drop(conn);
    let sent = server.join().unwrap_or_default();
    let _ = std::fs::remove_file(&path);
    format!("outs={} sent={} idle={}", if outs.is_empty() { "-".to_string() } else { outs.join(";") }, hex(&sent), idle as u8)
}

/// threads sharing one connection against an echoing server
fn threads(nthreads: usize, per_thread: usize, seed: u64) -> String {
    let (client_end, server_end) = UnixStream::pair().unwrap();
    let received: Arc<Mutex<Vec<Value>>> = Arc::new(Mutex::new(Vec::new()));
    let rec2 = received.clone();
    let server = std::thread::spawn(move || {
        let mut w = server_end.try_clone().unwrap();
        let mut br = BufReader::new(server_end);
        loop {
            let mut buf = Vec::new();
            match br.read_until(0, &mut buf) {
                Ok(0) | Err(_) => break,
                Ok(_) => {}
            }
            if buf.last() != Some(&0) {
                break;
            }
            buf.pop();
            let req: Value = match serde_json::from_slice(&buf) {
                Ok(v) => v,
                Err(_) => break,
            };
            rec2.lock().unwrap().push(req.clone());
            if req.get("oneway") == Some(&Value::Bool(true)) {
                continue;
            }
            let p = req.get("parameters").cloned().unwrap_or(Value::Null);
            if req.get("more") == Some(&Value::Bool(true)) {
                for i in 0..2 {
                    let y = json!({"continues": true, "parameters": {"echo": p, "i": i}});
                    let _ = w.write_all((serde_json::to_string(&y).unwrap() + "\0").as_bytes());
                }
            }
            let fail = p.get("fail") == Some(&Value::Bool(true));
            let y = if fail {
                json!({"error": "org.example.Failed", "parameters": {"echo": p}})
            } else {
                json!({"parameters": {"echo": p, "i": 2}})
            };
            let _ = w.write_all((serde_json::to_string(&y).unwrap() + "\0").as_bytes());
        }
    });
    let conn = make_conn(client_end.try_clone().unwrap());
    let mut hs = Vec::new();
    for t in 0..nthreads {
        let conn = conn.clone();
        hs.push(std::thread::spawn(move || {
            let mut st = seed.wrapping_add(0x9e3779b97f4a7c15u64.wrapping_mul(t as u64 + 1));
            let mut rnd = move || {
                st = st.wrapping_add(0x9e3779b97f4a7c15);
                let mut z = st;
                z = (z ^ (z >> 30)).wrapping_mul(0xbf58476d1ce4e5b9);
                z = (z ^ (z >> 27)).wrapping_mul(0x94d049bb133111eb);
                z ^ (z >> 31)
            };
            let mut log: Vec<Value> = Vec::new();
            for i in 0..per_thread {
                let mode = rnd() % 4;
                let fail = rnd() % 5 == 0;
                let tag = json!({"t": t, "i": i, "fail": fail});
                let mut c: VCall = MethodCall::new(conn.clone(), "org.example.Echo", tag.clone());
                if rnd() % 3 == 0 {
                    std::thread::yield_now();
                }
                let r: Value = match mode {
                    0 | 1 => match c.call() {
                        Ok(v) => json!({"op": "call", "ok": v}),
                        Err(e) => json!({"op": "call", "err": kind_str(&e)}),
                    },
                    2 => match c.oneway() {
                        Ok(()) => json!({"op": "oneway", "ok": null}),
                        Err(e) => json!({"op": "oneway", "err": kind_str(&e)}),
                    },
                    _ => match c.more() {
                        Err(e) => json!({"op": "more", "err": kind_str(&e)}),
                        Ok(it) => {
                            let mut items = Vec::new();
                            for x in it {
                                if rnd() % 2 == 0 {
                                    std::thread::yield_now();
                                }
                                items.push(match x {
                                    Ok(v) => json!({ "ok": v }),
                                    Err(e) => json!({"err": kind_str(&e)}),
                                });
                                if items.len() > 10 {
                                    break;
                                }
                            }
                            json!({"op": "more", "items": items})
                        }
                    },
                };
                log.push(json!({"tag": tag, "res": r}));
            }
            log
        }));
    }
    let mut logs = Vec::new();
    for h in hs {
        logs.push(Value::Array(h.join().unwrap()));
    }
    // the connection must be usable afterwards
    let mut fin: VCall = MethodCall::new(conn.clone(), "org.example.Echo", json!({"final": true}));
    let finr = res_str(fin.call());
    drop(fin);
    drop(conn);
    let _ = client_end.shutdown(std::net::Shutdown::Both);
    let _ = server.join();
    let rec = received.lock().unwrap().clone();
    format!(
        "logs={} received={} final={}",
        hex(serde_json::to_string(&logs).unwrap().as_bytes()),
        hex(serde_json::to_string(&rec).unwrap().as_bytes()),
        finr
    )
}

fn main() {
    let stdin = std::io::stdin();
    let stdout = std::io::stdout();
    std::panic::set_hook(Box::new(|_| {}));
    for line in stdin.lock().lines() {
        let line = line.unwrap();
        let toks: Vec<&str> = line.split(' ').filter(|t| !t.is_empty()).collect();
        if toks.len() < 2 {
            continue;
        }
        let (id, op, a) = (toks[0], toks[1], &toks[2..]);
        let res = catch_unwind(AssertUnwindSafe(|| -> String {
            match op {
                "client" => {
                    let (pre, ops) = split_bar(a);
                    let inbox = if pre.is_empty() { Vec::new() } else { unhex(pre[0]) };
                    script(&inbox, &ops)
                }
                "real" => {
                    // real <svc..> | call:<n> oneway:<n> more:<n> ... against varlink::listen
                    let (st, ops) = split_bar(a);
                    let spec = SvcSpec::parse(&st);
                    let server = Server::start(&spec, 10);
                    let conn = Connection::with_address(&server.addr).unwrap();
                    let mut outs = Vec::new();
                    for (n, op) in ops.iter().enumerate() {
                        let i = op.find(':').unwrap();
                        let (name, script) = (&op[..i], &op[i + 1..]);
                        let sc: Vec<&str> = if script.is_empty() { vec![] } else { script.split(',').collect() };
                        let mut c: VCall = MethodCall::new(conn.clone(), "org.example.a.Run", json!({"script": sc, "tag": n}));
                        match name {
                            "call" => outs.push(res_str(c.call())),
                            "oneway" => outs.push(match c.oneway() {
                                Ok(()) => "unit".into(),
                                Err(e) => kind_str(&e),
                            }),
                            "more" => match c.more() {
                                Err(e) => outs.push(kind_str(&e)),
                                Ok(it) => {
                                    let mut n = 0;
                                    for x in it {
                                        outs.push(res_str(x));
                                        n += 1;
                                        if n > 20 {
                                            break;
                                        }
                                    }
                                    outs.push("none".into());
                                }
                            },
                            _ => outs.push("BAD-OP".into()),
                        }
                    }
                    drop(conn);
                    drop(server);
                    format!("outs={}", if outs.is_empty() { "-".to_string() } else { outs.join(";") })
                }
                "threads" => threads(a[0].parse().unwrap(), a[1].parse().unwrap(), a[2].parse().unwrap()),
                _ => "UNKNOWN-OP".to_string(),
            }
        }));
        let mut o = stdout.lock();
        match res {
            Ok(s) => writeln!(o, "{} {}", id, s).unwrap(),
            Err(_) => writeln!(o, "{} PANIC", id).unwrap(),
        }
    }
}
