#!/bin/bash
# usage: tools/seedrun.sh <patch.diff> <ID> [<ID> ...]
# Applies a seeded change to /repo's working tree, runs the named checks (quick tier), and ALWAYS undoes
# the change afterwards. Never commits anything in /repo. Prints one line per check: <ID> exit=<n> <verdict line>.
set -u
patch="$1"; shift
cd /verif
if [ -n "$(git -C /repo status --porcelain)" ]; then echo "refusing: /repo working tree is not clean"; exit 2; fi
git -C /repo apply "$patch" || { echo "patch does not apply"; exit 2; }
# evidence written while a seeded change is applied describes the modified tree: keep the clean-tree records aside and
# put them back afterwards (the replay files of the seeded run stay under evidence/replay until removed)
keep=$(mktemp -d /verif/.build/evidence-keep.XXXXXX); cp /verif/evidence/*.json "$keep"/ 2>/dev/null
trap 'git -C /repo checkout -- . ; git -C /repo status --porcelain; cp "$keep"/*.json /verif/evidence/ 2>/dev/null; rm -rf "$keep"' EXIT
tier="${SEED_TIER:-quick}"
for id in "$@"; do
  out=$(./vcheck check "$id" --tier "$tier" 2>&1); rc=$?
  echo "== $id exit=$rc"
  echo "$out" | grep -E "VIOLATION|KNOWN-FINDING|PASS|ok|refus|broken" | head -8
done
