#!/bin/bash
# usage: tools/seedrun.sh <patch.diff> <ID> [<ID> ...]
# Applies a seeded change to /repo's working tree, runs the named checks (quick tier), and ALWAYS undoes
# the change afterwards. Never commits anything in /repo. Prints one line per check: <ID> exit=<n> <verdict line>.
set -u
patch="$1"; shift
cd /verif
if [ -n "$(git -C /repo status --porcelain)" ]; then echo "refusing: /repo working tree is not clean"; exit 2; fi
git -C /repo apply "$patch" || { echo "patch does not apply"; exit 2; }
trap 'git -C /repo checkout -- . ; git -C /repo status --porcelain' EXIT
tier="${SEED_TIER:-quick}"
for id in "$@"; do
  out=$(./vcheck check "$id" --tier "$tier" 2>&1); rc=$?
  echo "== $id exit=$rc"
  echo "$out" | grep -E "VIOLATION|KNOWN-FINDING|PASS|ok|refus|broken" | head -8
done
