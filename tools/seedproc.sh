#!/bin/bash
# usage: tools/seedproc.sh <seed id, e.g. C07e> <property> [<property> ...]
# verifies the seeded change in its scratch worktree, runs the named checks against it, prints a condensed summary
id="$1"; shift
echo "=== $id verify: $(timeout 1500 /verif/tools/seedverify.sh $id 2>&1 | grep -av '^\s*$' | grep -aE 'diff:|Summary|TIMEOUT|exit=' | tr '\n' ' ' | cut -c1-200)"
rm -f /verif/evidence/replay/*.json
/verif/tools/seedrun.sh /tmp/mut/$id-out/patch.diff "$@" | grep -v KNOWN | cut -c1-120
python3 - <<'PY'
import json,glob
for f in sorted(glob.glob('/verif/evidence/replay/*.json')):
    r=json.load(open(f))
    print('  ',f.split('/')[-1],{k:(len(v) if isinstance(v,list) else v) for k,v in r.items() if k not in ('property','seed','tier','note')})
    for k in ('failures','no_longer_checks'):
        for x in r.get(k,[])[:1]: print('      ',k, str(x)[:240].replace('\n',' | '))
PY
