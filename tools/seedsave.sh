#!/bin/bash
# usage: tools/seedsave.sh <ID> <dirname> '<json of my verification: {"caught_by":[...], "missed_by":[...], "ran": "...", "notes": "..."}>'
set -eu
id="$1"; name="$2"; mine="$3"
src=/tmp/mut/$id-out; dst=/verif/seeded/$name
mkdir -p "$dst"
cp "$src/patch.diff" "$dst/patch.diff"
rm -rf "$dst/demo"; mkdir -p "$dst/demo"
( cd "$src/demo" && tar --exclude=target --exclude='target-*' --exclude=Cargo.lock -cf - . ) | ( cd "$dst/demo" && tar xf - )
for f in demo_with_change.txt demo_without_change.txt demo_with_change.log demo_without_change.log; do [ -f "$src/$f" ] && cp "$src/$f" "$dst/" || true; done
python3 - "$src/meta.json" "$dst/meta.json" "$mine" "$id" <<'PY'
import json,sys
try: a=json.load(open(sys.argv[1]))
except Exception as e: a={"note":"agent meta unreadable: %s"%e}
m=json.loads(sys.argv[3])
import re
out={"property":re.match(r"C\d+",sys.argv[4]).group(0),"breaks":a.get("summary"),"needs_to_manifest":a.get("needs_to_manifest"),"files_changed":a.get("files_changed"),
     "agent_report":{k:a.get(k) for k in ("test_suite_before","test_suite_after","demo_without_change","demo_with_change")},
     "confirmed_by_me":m}
json.dump(out,open(sys.argv[2],"w"),indent=1)
PY
du -sh "$dst"
