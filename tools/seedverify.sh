#!/bin/bash
# usage: tools/seedverify.sh <ID>   -- confirm a seeded change in its scratch worktree /tmp/mut/<ID>:
#   (1) the worktree diff equals the patch, (2) workspace builds, (3) baseline suite result, (4) demo fails with / passes without
set -u
id="$1"; wt=/tmp/mut/$id; out=/tmp/mut/$id-out
cd "$wt" || exit 2
export CARGO_NET_OFFLINE=true; unset RUSTFLAGS
git diff > /tmp/mut/$id.cur.diff
if diff -q /tmp/mut/$id.cur.diff $out/patch.diff >/dev/null; then echo "diff: worktree == patch.diff"; else echo "diff: worktree differs from patch.diff"; fi
cargo build --workspace --offline 2>&1 | tail -1
cargo nextest run --workspace --no-fail-fast --tool-config-file pb:/w/lib/nextest.toml --profile pb --test-threads 8 --offline 2>&1 | grep -E "Summary|FAIL|TIMEOUT|SIGABRT" | sort | uniq | head -12
echo "--- demo WITH change"
( cd $out/demo && timeout 600 bash ./run.sh >/tmp/mut/$id.with.log 2>&1; echo "exit=$?"; tail -4 /tmp/mut/$id.with.log )
git stash -q || exit 3
echo "--- demo WITHOUT change"
( cd $out/demo && timeout 600 bash ./run.sh >/tmp/mut/$id.without.log 2>&1; echo "exit=$?"; tail -4 /tmp/mut/$id.without.log )
git stash pop -q
git diff --stat | tail -1
