(* Correspondence driver: reads one case per line on stdin, runs the extracted Coq
   model on it, prints one result line per case.  All payloads are hex strings.
   Hand-written glue (in the trusted base): conversions string <-> list N and
   the line protocol; every verdict printed comes from the extracted definitions. *)
open BinNums

let rec pos_of_int n =
  if n = 1 then Coq_xH
  else if n land 1 = 0 then Coq_xO (pos_of_int (n lsr 1))
  else Coq_xI (pos_of_int (n lsr 1))
let n_of_int n = if n = 0 then N0 else Npos (pos_of_int n)
let rec int_of_pos = function
  | Coq_xH -> 1
  | Coq_xO p -> 2 * int_of_pos p
  | Coq_xI p -> 2 * int_of_pos p + 1
let int_of_n = function N0 -> 0 | Npos p -> int_of_pos p
let rec nat_of_int n = if n = 0 then Datatypes.O else Datatypes.S (nat_of_int (n - 1))
let rec int_of_nat = function Datatypes.O -> 0 | Datatypes.S n -> 1 + int_of_nat n

let bytes_of_string (s : string) : coq_N list =
  let r = ref [] in
  for i = String.length s - 1 downto 0 do r := n_of_int (Char.code s.[i]) :: !r done;
  !r
let string_of_bytes (l : coq_N list) : string =
  let b = Buffer.create 64 in
  Stdlib.List.iter (fun n -> Buffer.add_char b (Char.chr ((int_of_n n) land 255))) l;
  Buffer.contents b

let hexval c = match c with
  | '0'..'9' -> Char.code c - 48 | 'a'..'f' -> Char.code c - 87 | 'A'..'F' -> Char.code c - 55
  | _ -> failwith "hex"
let unhex (s : string) : string =
  if s = "-" then "" else begin
    let n = String.length s / 2 in
    String.init n (fun i -> Char.chr (hexval s.[2*i] * 16 + hexval s.[2*i+1]))
  end
let hex (s : string) : string =
  if s = "" then "-" else begin
    let b = Buffer.create (2 * String.length s) in
    String.iter (fun c -> Buffer.add_string b (Printf.sprintf "%02x" (Char.code c))) s;
    Buffer.contents b
  end
let hb s = bytes_of_string (unhex s)
let bh l = hex (string_of_bytes l)

let split_on c s = if s = "" then [] else String.split_on_char c s

(* service spec: v=<hex> p=<hex> ver=<hex> url=<hex> if=<name>:<descr>:<echo> ... *)
let parse_service (toks : string list) : Service.service =
  let v = ref [] and p = ref [] and ver = ref [] and url = ref [] and ifs = ref [] in
  Stdlib.List.iter (fun t ->
      match String.index_opt t '=' with
      | None -> failwith ("bad service token " ^ t)
      | Some i ->
        let k = String.sub t 0 i and x = String.sub t (i+1) (String.length t - i - 1) in
        (match k with
         | "v" -> v := hb x | "p" -> p := hb x | "ver" -> ver := hb x | "url" -> url := hb x
         | "if" ->
           (match String.split_on_char ':' x with
            | [n; d; e] -> ifs := Script.script_iface (hb n) (hb d) (e = "1") :: !ifs
            | _ -> failwith "bad if token")
         | _ -> failwith ("bad service key " ^ k))) toks;
  { Service.s_vendor = !v; s_product = !p; s_version = !ver; s_url = !url; s_ifaces = Stdlib.List.rev !ifs }

let rec split_bar acc = function
  | [] -> (Stdlib.List.rev acc, [])
  | "|" :: r -> (Stdlib.List.rev acc, r)
  | x :: r -> split_bar (x :: acc) r

let res_tag = function Base.Ok _ -> "ok" | Base.Err -> "err" | Base.Fuel -> "FUEL"

let opt_bool = function None -> "-" | Some true -> "t" | Some false -> "f"

let handlers : (string, string list -> string) Hashtbl.t = Hashtbl.create 64
let register name f = Hashtbl.replace handlers name f

let () =
  (* feed <svc..> | <chunk> <chunk> ... *)
  register "feed" (fun toks ->
      let (st, chunks) = split_bar [] toks in
      let svc = parse_service st in
      let (fs, out) = Service.feed_all svc (Stdlib.List.map hb chunks) in
      Printf.sprintf "out=%s closed=%d upg=%s tail=%s" (bh out)
        (if fs.Service.fs_closed then 1 else 0)
        (match fs.Service.fs_upg with None -> "none" | Some i -> bh i)
        (bh fs.Service.fs_tail));
  (* spec <svc..> | <stream> *)
  register "spec" (fun toks ->
      let (st, s) = split_bar [] toks in
      let svc = parse_service st in
      let s = match s with [x] -> hb x | [] -> [] | _ -> failwith "spec: one stream" in
      let (a, out) = Service.arun svc (Service.ARun []) s in
      Printf.sprintf "out=%s state=%s" (bh out)
        (match a with Service.AClosed -> "closed" | Service.AUp i -> "up:" ^ bh i
                    | Service.ARun p -> "run:" ^ bh (Stdlib.List.rev p)));
  (* decode_request <frame> *)
  register "decode_request" (fun toks ->
      match toks with
      | [f] ->
        (match Wire.decode_request (hb f) with
         | Base.Ok q ->
           Printf.sprintf "ok more=%s oneway=%s upgrade=%s method=%s params=%s"
             (opt_bool q.Wire.r_more) (opt_bool q.Wire.r_oneway) (opt_bool q.Wire.r_upgrade)
             (bh q.Wire.r_method)
             (match q.Wire.r_params with None -> "none" | Some j -> bh (Json.print j))
         | r -> res_tag r)
      | _ -> failwith "decode_request: one frame");
  (* parse_value <text> : serde_json::from_slice::<Value> then to_string *)
  register "parse_value" (fun toks ->
      match toks with
      | [f] -> (match Json.parse_value (hb f) with
          | Base.Ok j -> "ok " ^ bh (Json.print j)
          | r -> res_tag r)
      | _ -> failwith "parse_value: one text")

let () =
  let tbl = handlers in
  (try
     while true do
       let line = input_line stdin in
       if line <> "" then begin
         match String.split_on_char ' ' line with
         | id :: op :: toks ->
           let toks = Stdlib.List.filter (fun t -> t <> "") toks in
           let out =
             match Hashtbl.find_opt tbl op with
             | None -> "UNKNOWN-OP"
             | Some f -> (try f toks with
                 | Stack_overflow -> "STACK"
                 | e -> "DRIVER-ERROR " ^ Printexc.to_string e) in
           print_string id; print_char ' '; print_endline out
         | _ -> print_endline "BAD-LINE"
       end
     done
   with End_of_file -> ())
