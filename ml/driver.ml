(* Correspondence driver: reads one case per line on stdin, runs the extracted Coq
   model on it, prints one result line per case.  All payloads are hex strings.
   Hand-written glue (in the trusted base): conversions string <-> list N and
   the line protocol; every verdict printed comes from the extracted definitions. *)
open BinNums

let rec pos_of_int n =
  if n = 1 then Coq_xH
  else if n land 1 = 0 then Coq_xO (pos_of_int (n lsr 1))
  else Coq_xI (pos_of_int (n lsr 1))
let n_of_int n = if n = 0 then N0 else Npos (pos_of_int n)
let rec int_of_pos = function
  | Coq_xH -> 1
  | Coq_xO p -> 2 * int_of_pos p
  | Coq_xI p -> 2 * int_of_pos p + 1
let int_of_n = function N0 -> 0 | Npos p -> int_of_pos p
let rec nat_of_int n = if n = 0 then Datatypes.O else Datatypes.S (nat_of_int (n - 1))
let rec int_of_nat = function Datatypes.O -> 0 | Datatypes.S n -> 1 + int_of_nat n

let bytes_of_string (s : string) : coq_N list =
  let r = ref [] in
  for i = String.length s - 1 downto 0 do r := n_of_int (Char.code s.[i]) :: !r done;
  !r
let string_of_bytes (l : coq_N list) : string =
  let b = Buffer.create 64 in
  Stdlib.List.iter (fun n -> Buffer.add_char b (Char.chr ((int_of_n n) land 255))) l;
  Buffer.contents b

let hexval c = match c with
  | '0'..'9' -> Char.code c - 48 | 'a'..'f' -> Char.code c - 87 | 'A'..'F' -> Char.code c - 55
  | _ -> failwith "hex"
let unhex (s : string) : string =
  if s = "-" then "" else begin
    let n = String.length s / 2 in
    String.init n (fun i -> Char.chr (hexval s.[2*i] * 16 + hexval s.[2*i+1]))
  end
let hex (s : string) : string =
  if s = "" then "-" else begin
    let b = Buffer.create (2 * String.length s) in
    String.iter (fun c -> Buffer.add_string b (Printf.sprintf "%02x" (Char.code c))) s;
    Buffer.contents b
  end
let hb s = bytes_of_string (unhex s)
let bh l = hex (string_of_bytes l)

let split_on c s = if s = "" then [] else String.split_on_char c s

(* service spec: v=<hex> p=<hex> ver=<hex> url=<hex> if=<name>:<descr>:<echo> ... *)
let parse_service (toks : string list) : Service.service =
  let v = ref [] and p = ref [] and ver = ref [] and url = ref [] and ifs = ref [] in
  Stdlib.List.iter (fun t ->
      match String.index_opt t '=' with
      | None -> failwith ("bad service token " ^ t)
      | Some i ->
        let k = String.sub t 0 i and x = String.sub t (i+1) (String.length t - i - 1) in
        (match k with
         | "v" -> v := hb x | "p" -> p := hb x | "ver" -> ver := hb x | "url" -> url := hb x
         | "if" ->
           (match String.split_on_char ':' x with
            | [n; d; e] -> ifs := Script.script_iface (hb n) (hb d) (e = "1") :: !ifs
            | _ -> failwith "bad if token")
         | _ -> failwith ("bad service key " ^ k))) toks;
  { Service.s_vendor = !v; s_product = !p; s_version = !ver; s_url = !url; s_ifaces = Stdlib.List.rev !ifs }

let rec split_bar acc = function
  | [] -> (Stdlib.List.rev acc, [])
  | "|" :: r -> (Stdlib.List.rev acc, r)
  | x :: r -> split_bar (x :: acc) r

let res_tag = function Base.Ok _ -> "ok" | Base.Err -> "err" | Base.Fuel -> "FUEL"

let opt_bool = function None -> "-" | Some true -> "t" | Some false -> "f"

let handlers : (string, string list -> string) Hashtbl.t = Hashtbl.create 64
let register name f = Hashtbl.replace handlers name f

let () =
  (* feed <svc..> | <chunk> <chunk> ... *)
  register "feed" (fun toks ->
      let (st, chunks) = split_bar [] toks in
      let svc = parse_service st in
      let (fs, out) = Service.feed_all svc (Stdlib.List.map hb chunks) in
      Printf.sprintf "out=%s closed=%d upg=%s tail=%s" (bh out)
        (if fs.Service.fs_closed then 1 else 0)
        (match fs.Service.fs_upg with None -> "none" | Some i -> bh i)
        (bh fs.Service.fs_tail));
  (* feedcap: the transient-slice caller against the inner block buffer (capacity = Service.bufreader_capacity) *)
  register "feedcap" (fun toks ->
      let (st, chunks) = split_bar [] toks in
      let svc = parse_service st in
      let (fs, out) = Service.feed_all_cap Service.bufreader_capacity svc (Stdlib.List.map hb chunks) in
      Printf.sprintf "out=%s closed=%d upg=%s tail=%s" (bh out)
        (if fs.Service.fs_closed then 1 else 0)
        (match fs.Service.fs_upg with None -> "none" | Some i -> bh i)
        (bh fs.Service.fs_tail));
  (* spec <svc..> | <stream> *)
  register "spec" (fun toks ->
      let (st, s) = split_bar [] toks in
      let svc = parse_service st in
      let s = match s with [x] -> hb x | [] -> [] | _ -> failwith "spec: one stream" in
      let (a, out) = Service.arun svc (Service.ARun []) s in
      Printf.sprintf "out=%s state=%s" (bh out)
        (match a with Service.AClosed -> "closed" | Service.AUp i -> "up:" ^ bh i
                    | Service.ARun p -> "run:" ^ bh (Stdlib.List.rev p)));
  (* decode_request <frame> *)
  register "decode_request" (fun toks ->
      match toks with
      | [f] ->
        (match Wire.decode_request (hb f) with
         | Base.Ok q ->
           Printf.sprintf "ok more=%s oneway=%s upgrade=%s method=%s params=%s"
             (opt_bool q.Wire.r_more) (opt_bool q.Wire.r_oneway) (opt_bool q.Wire.r_upgrade)
             (bh q.Wire.r_method)
             (match q.Wire.r_params with None -> "none" | Some j -> bh (Json.print j))
         | r -> res_tag r)
      | _ -> failwith "decode_request: one frame");
  (* parse_value <text> : serde_json::from_slice::<Value> then to_string *)
  register "parse_value" (fun toks ->
      match toks with
      | [f] -> (match Json.parse_value (hb f) with
          | Base.Ok j -> "ok " ^ bh (Json.print j)
          | r -> res_tag r)
      | _ -> failwith "parse_value: one text")

(* ---- wire types (C17) ---- *)
let ob = function "t" -> Some true | "f" -> Some false | _ -> None
let json_of_hex h = match Json.parse_value (hb h) with Base.Ok j -> j | _ -> failwith "param text must be JSON"
let ov = function "none" -> None | "somenull" -> Some Json.JNull | h -> Some (json_of_hex h)

let struct_text sch rc = Json.print (Schema.ser sch rc)
let struct_vtext sch rc = Json.print (Json.norm (Schema.ser sch rc))

let roundtrip_struct sch rc =
  let text = struct_text sch rc in
  let eq_text = (match Schema.de_text sch text with Base.Ok r2 -> struct_text sch r2 = text | _ -> false) in
  let eq_value = (match Schema.de_value sch (Json.norm (Schema.ser sch rc)) with Some r2 -> struct_text sch r2 = text | None -> false) in
  Printf.sprintf "text=%s same_bytes=1 vtext=%s eq_str=%d eq_slice=%d eq_value=%d" (bh text) (bh (struct_vtext sch rc))
    (if eq_text then 1 else 0) (if eq_text then 1 else 0) (if eq_value then 1 else 0)

let de_struct sch how input =
  match how with
  | "text" | "str" ->
    if how = "str" && not (Json.utf8_valid input) then "notutf8" else
      (match Schema.de_text sch input with Base.Ok r -> "ok " ^ bh (struct_text sch r) | Base.Err -> "err" | Base.Fuel -> "FUEL")
  | "value" ->
    (match Json.parse_value input with
     | Base.Ok j -> (match Schema.de_value sch j with Some r -> "ok " ^ bh (struct_text sch r) | None -> "err")
     | Base.Err -> "notjson" | Base.Fuel -> "FUEL")
  | _ -> failwith "how"

let sort_uniq_keys (l : coq_N list list) = Stdlib.List.sort_uniq compare (Stdlib.List.map string_of_bytes l)
let set_text keys = Json.print (WireSet.set_ser (Stdlib.List.map bytes_of_string keys))

let () =
  register "mk_req" (fun a ->
      match a with
      | [m; o; u; me; p] ->
        let q = { Wire.r_more = ob m; r_oneway = ob o; r_upgrade = ob u; r_method = hb me; r_params = ov p } in
        roundtrip_struct WireGen.schema_Request (Wire.record_of_request q)
      | _ -> failwith "mk_req");
  register "mk_reply" (fun a ->
      match a with
      | [c; e; p] ->
        let y = { Wire.y_continues = ob c; y_error = (if e = "none" then None else Some (hb e)); y_params = ov p } in
        roundtrip_struct WireGen.schema_Reply (Wire.record_of_reply y)
      | _ -> failwith "mk_reply");
  register "mk_info" (fun a ->
      match a with
      | v :: p :: ver :: url :: ifs ->
        roundtrip_struct WireGen.schema_ServiceInfo
          [Schema.VString (hb v); Schema.VString (hb p); Schema.VString (hb ver); Schema.VString (hb url);
           Schema.VVecString (Stdlib.List.map hb ifs)]
      | _ -> failwith "mk_info");
  register "mk_set" (fun a ->
      let keys = Stdlib.List.sort_uniq compare (Stdlib.List.map unhex a) in
      let text = set_text keys in
      let kb = Stdlib.List.map bytes_of_string keys in
      let eq_text = (match WireSet.set_de_text SetGen.set_visitor_consumes_value text with
          | Base.Ok k2 -> sort_uniq_keys k2 = keys | _ -> false) in
      let eq_value = (match WireSet.set_de_value (Json.norm (WireSet.set_ser kb)) with
          | Some k2 -> sort_uniq_keys k2 = keys | None -> false) in
      Printf.sprintf "text=%s same_bytes=1 vtext=%s eq_str=%d eq_slice=%d eq_value=%d" (bh text) (bh text)
        (if eq_text then 1 else 0) (if eq_text then 1 else 0) (if eq_value then 1 else 0));
  register "mk_map" (fun a ->
      let kvs = Stdlib.List.map (fun kv -> match String.split_on_char ':' kv with
          | [k; v] -> (hb k, Json.JStr (hb v)) | _ -> failwith "kv") a in
      let j = Json.norm (Json.JObj kvs) in
      let text = Json.print j in
      let eq_text = (match WireSet.map_de_text text with Base.Ok m -> Json.print (Json.norm (WireSet.map_ser m)) = text | _ -> false) in
      let eq_value = (match WireSet.map_de_value j with Some m -> Json.print (Json.norm (WireSet.map_ser m)) = text | None -> false) in
      Printf.sprintf "text=%s same_bytes=1 vtext=%s eq_str=%d eq_slice=%d eq_value=%d" (bh text) (bh text)
        (if eq_text then 1 else 0) (if eq_text then 1 else 0) (if eq_value then 1 else 0));
  let reg_de name sch = register name (fun a -> match a with [how; x] -> de_struct sch how (hb x) | _ -> failwith name) in
  reg_de "de_req" WireGen.schema_Request;
  reg_de "de_reply" WireGen.schema_Reply;
  reg_de "de_info" WireGen.schema_ServiceInfo;
  reg_de "de_descr_args" WireGen.schema_GetInterfaceDescriptionArgs;
  reg_de "de_descr_reply" WireGen.schema_GetInterfaceDescriptionReply;
  reg_de "de_err_iface" WireGen.schema_ErrorInterfaceNotFound;
  reg_de "de_err_param" WireGen.schema_ErrorInvalidParameter;
  reg_de "de_err_method" WireGen.schema_ErrorMethodNotFound;
  reg_de "de_err_notimpl" WireGen.schema_ErrorMethodNotImplemented;
  register "de_set" (fun a ->
      match a with
      | [how; x] ->
        let input = hb x in
        let fin keys = "ok " ^ bh (set_text (sort_uniq_keys keys)) in
        (match how with
         | "text" | "str" ->
           if how = "str" && not (Json.utf8_valid input) then "notutf8" else
             (match WireSet.set_de_text SetGen.set_visitor_consumes_value input with
              | Base.Ok k -> fin k | Base.Err -> "err" | Base.Fuel -> "FUEL")
         | _ ->
           (match Json.parse_value input with
            | Base.Ok j -> (match WireSet.set_de_value j with Some k -> fin k | None -> "err")
            | Base.Err -> "notjson" | Base.Fuel -> "FUEL"))
      | _ -> failwith "de_set");
  register "de_map" (fun a ->
      match a with
      | [how; x] ->
        let input = hb x in
        let fin m = "ok " ^ bh (Json.print (Json.norm (WireSet.map_ser m))) in
        (match how with
         | "text" | "str" ->
           if how = "str" && not (Json.utf8_valid input) then "notutf8" else
             (match WireSet.map_de_text input with Base.Ok m -> fin m | Base.Err -> "err" | Base.Fuel -> "FUEL")
         | _ ->
           (match Json.parse_value input with
            | Base.Ok j -> (match WireSet.map_de_value j with Some m -> fin m | None -> "err")
            | Base.Err -> "notjson" | Base.Fuel -> "FUEL"))
      | _ -> failwith "de_map")

(* ---- client (C07) ---- *)
let split_frames (s : string) : string list =
  (* NUL-terminated frames; a trailing partial frame is dropped *)
  let parts = String.split_on_char '\000' s in
  let rec drop_last = function [] -> [] | [_] -> [] | x :: r -> x :: drop_last r in
  drop_last parts

let err_str (e : Client.errkind) : string =
  match e with
  | Client.EBusy -> "err:ConnectionBusy"
  | Client.ECalledAlready -> "err:MethodCalledAlready"
  | Client.EOldReply -> "err:IteratorOldReply"
  | Client.EClosed -> "err:ConnectionClosed"
  | Client.EDecode -> "err:SerdeJsonDe"
  | Client.EStd (kind, arg) -> "err:" ^ string_of_bytes kind ^ ":" ^ bh arg
  | Client.EOther y -> "err:VarlinkErrorReply:" ^ bh (struct_text WireGen.schema_Reply (Wire.record_of_reply y))

let out_str (typed : bool) (o : Client.cout) : string =
  match o with
  | Client.RUnit -> "unit"
  | Client.RNone -> "none"
  | Client.RErr e -> err_str e
  | Client.ROk p ->
    if typed then
      (match p with
       | Json.JObj m ->
         (match Json.obj_get (bytes_of_string "x") m with
          | Some (Json.JInt z) ->
            (* i64 *)
            let s = string_of_bytes (Json.print (Json.JInt z)) in
            let neg = String.length s > 0 && s.[0] = '-' in
            let digits = if neg then String.sub s 1 (String.length s - 1) else s in
            let lim = if neg then "9223372036854775808" else "9223372036854775807" in
            if String.length digits < 19 || (String.length digits = 19 && digits <= lim) then "ok:typed" else "err:SerdeJsonDe"
          | _ -> "err:SerdeJsonDe")
       | Json.JArr [Json.JInt _] -> "ok:typed"
       | _ -> "err:SerdeJsonDe")
    else "ok:" ^ bh (Json.print p)

let () =
  register "client" (fun toks ->
      let (pre, ops) = split_bar [] toks in
      let inbox = match pre with [] -> "" | x :: _ -> unhex x in
      let frames = Stdlib.List.map (fun f ->
          match Wire.decode_reply (bytes_of_string f) with
          | Base.Ok y -> Client.FReply y
          | _ -> Client.FGarbage) (split_frames inbox) in
      let st = ref (Client.cs_init Datatypes.O frames) in
      let typed = ref [] in
      let ncalls = ref 0 in
      let outs = ref [] in
      let step o = let (s1, x) = Client.cstep !st o in st := s1; x in
      let is_typed k = (try Stdlib.List.nth (Stdlib.List.rev !typed) k with _ -> false) in
      Stdlib.List.iter (fun op ->
          let (name, k) = match String.index_opt op ':' with
            | Some i -> (String.sub op 0 i, int_of_string (String.sub op (i+1) (String.length op - i - 1)))
            | None -> (op, 0) in
          let kk = nat_of_int k in
          match name with
          | "new" | "newt" ->
            let s = !st in
            st := { s with Client.cs_calls = s.Client.cs_calls @ [Client.new_call] };
            typed := (name = "newt") :: !typed; incr ncalls
          | "call" | "upgrade" ->
            let x = step (Client.OSend (kk, false, false, name = "upgrade")) in
            (match x with
             | Client.RUnit -> outs := out_str (is_typed k) (step (Client.ORecv kk)) :: !outs
             | _ -> outs := out_str false x :: !outs)
          | "oneway" -> outs := out_str false (step (Client.OSend (kk, true, false, false))) :: !outs
          | "more" ->
            let _ = step (Client.OSetCont kk) in
            outs := out_str false (step (Client.OSend (kk, false, true, false))) :: !outs
          | "next" -> outs := out_str false (step (Client.ONext kk)) :: !outs
          | "recv" -> outs := out_str false (step (Client.ORecv kk)) :: !outs
          | "drop" -> outs := out_str false (step (Client.ODrop kk)) :: !outs
          | _ -> outs := "BAD-OP" :: !outs) ops;
      let s = !st in
      let sent = Stdlib.List.rev_map (fun (((k, ow), mo), up) ->
          let ki = int_of_nat k in
          let q = { Wire.r_more = (if mo then Some true else None); r_oneway = (if ow then Some true else None);
                    r_upgrade = (if up then Some true else None);
                    r_method = bytes_of_string (Printf.sprintf "org.example.M%d" ki);
                    r_params = Some (Json.JObj [ (bytes_of_string "k", Json.JInt (BinInt.Z.of_nat k)) ]) } in
          string_of_bytes (Wire.encode_request q) ^ "\000") s.Client.cs_sent in
      Printf.sprintf "outs=%s sent=%s idle=%d"
        (if !outs = [] then "-" else String.concat ";" (Stdlib.List.rev !outs))
        (hex (String.concat "" sent)) (if s.Client.cs_idle then 1 else 0))

(* ---- pool (C14): breadth-first search of the model's state space ---- *)
let ev_name = function
  | Pool.EAccept -> "accept" | Pool.EDecide -> "decide" | Pool.EDeq i -> Printf.sprintf "deq%d" (int_of_nat i)
  | Pool.EStart i -> Printf.sprintf "start%d" (int_of_nat i) | Pool.EFinish i -> Printf.sprintf "finish%d" (int_of_nat i)
  | Pool.EIdle i -> Printf.sprintf "idle%d" (int_of_nat i) | Pool.EDrop -> "drop"

let () =
  register "pool_bfs" (fun a ->
      match a with
      | [ini; mx; nj] ->
        let initial = int_of_string ini and max = int_of_string mx and njobs = int_of_string nj in
        let maxn = nat_of_int max in
        let s0 = PoolSrc.src_init (nat_of_int initial) maxn in
        let seen = Hashtbl.create 100000 in
        let q = Queue.create () in
        Hashtbl.replace seen s0 (); Queue.add (s0, []) q;
        let states = ref 0 and trans = ref 0 in
        let viol = ref None in
        while !viol = None && not (Queue.is_empty q) do
          let (s, path) = Queue.pop q in
          incr states;
          if not (Pool.bound_ok maxn s) then viol := Some ("bound", path)
          else if not (Pool.no_strand_ok maxn s) then viol := Some ("strand", path)
          else begin
            let nw = Stdlib.List.length s.Pool.workers in
            let evs = ref [] in
            if int_of_nat s.Pool.accepted < njobs then evs := Pool.EAccept :: !evs;
            evs := Pool.EDecide :: !evs;
            for i = 0 to nw - 1 do
              let n = nat_of_int i in
              evs := Pool.EDeq n :: Pool.EStart n :: Pool.EFinish n :: Pool.EIdle n :: !evs
            done;
            Stdlib.List.iter (fun e ->
                match PoolSrc.src_step maxn s e with
                | Some s1 ->
                  incr trans;
                  if not (Hashtbl.mem seen s1) then begin Hashtbl.replace seen s1 (); Queue.add (s1, e :: path) q end
                | None -> ()) !evs
          end
        done;
        Printf.sprintf "states=%d transitions=%d violation=%s" !states !trans
          (match !viol with None -> "none"
                          | Some (k, p) -> k ^ ":" ^ String.concat "," (Stdlib.List.rev_map ev_name p))
      | _ -> failwith "pool_bfs");
  (* listen_model <idle_s> <has_stop> <events: t<stop><busy> | a<stop>> *)
  register "listen_model" (fun a ->
      match a with
      | idle :: stop :: evs ->
        let c = PoolSrc.src_cfg (nat_of_int (int_of_string idle)) (stop = "1") in
        let es = Stdlib.List.map (fun t ->
            if t.[0] = 't' then Listen.Tick (t.[1] = '1', nat_of_int (int_of_string (String.sub t 2 (String.length t - 2))))
            else Listen.Acc (t.[1] = '1')) evs in
        let ((res, st), rest) = Listen.lrun c (Listen.linit c) es in
        Printf.sprintf "res=%s accepted=%d consumed=%d"
          (match res with None -> "running" | Some Listen.RTimeout -> "timeout" | Some Listen.RStopped -> "stopped")
          (int_of_nat st.Listen.naccepted) (Stdlib.List.length es - Stdlib.List.length rest)
      | _ -> failwith "listen_model")

(* ---- parser / formatter (C10-C12) ---- *)
(* UTF-8 -> code points (input is valid UTF-8: the harness only sends what Rust accepts as &str) *)
let codepoints (s : string) : coq_N list =
  let n = String.length s in
  let rec go i acc =
    if i >= n then Stdlib.List.rev acc else
      let c = Char.code s.[i] in
      if c < 0x80 then go (i+1) (n_of_int c :: acc)
      else if c < 0xE0 then go (i+2) (n_of_int (((c land 0x1F) lsl 6) lor (Char.code s.[i+1] land 0x3F)) :: acc)
      else if c < 0xF0 then go (i+3) (n_of_int (((c land 0x0F) lsl 12) lor ((Char.code s.[i+1] land 0x3F) lsl 6) lor (Char.code s.[i+2] land 0x3F)) :: acc)
      else go (i+4) (n_of_int (((c land 0x07) lsl 18) lor ((Char.code s.[i+1] land 0x3F) lsl 12) lor ((Char.code s.[i+2] land 0x3F) lsl 6) lor (Char.code s.[i+3] land 0x3F)) :: acc)
  in go 0 []
let utf8_of_cps (l : coq_N list) : coq_N list = Stdlib.List.concat (Stdlib.List.map Json.utf8_enc l)
let jstr (l : coq_N list) = Json.JStr (utf8_of_cps l)
let key s = bytes_of_string s

let rec jtype (t : Idl.vtype) : Json.json =
  match t with
  | Idl.TBool -> Json.JStr (key "bool") | Idl.TInt -> Json.JStr (key "int") | Idl.TFloat -> Json.JStr (key "float")
  | Idl.TString -> Json.JStr (key "string") | Idl.TObject -> Json.JStr (key "object")
  | Idl.TName n -> Json.JObj [ (key "name", jstr n) ]
  | Idl.TStruct fs -> Json.JObj [ (key "struct", jfields fs) ]
  | Idl.TEnum es -> Json.JObj [ (key "enum", Json.JArr (Stdlib.List.map jstr es)) ]
  | Idl.TArr t -> Json.JObj [ (key "array", jtype t) ]
  | Idl.TDict t -> Json.JObj [ (key "dict", jtype t) ]
  | Idl.TOpt t -> Json.JObj [ (key "option", jtype t) ]
and jfields fs = Json.JArr (Stdlib.List.map (fun (n, t) -> Json.JObj [ (key "name", jstr n); (key "type", jtype t) ]) fs)

let jidl (i : Idl.idl) : Json.json =
  let ms = i.Idl.i_members in
  let typedefs = Stdlib.List.filter_map (fun m -> match m with
      | Idl.MTypeS (n, d, fs) -> Some (Json.JObj [ (key "name", jstr n); (key "doc", jstr d); (key "struct", jfields fs) ])
      | Idl.MTypeE (n, d, es) -> Some (Json.JObj [ (key "name", jstr n); (key "doc", jstr d); (key "enum", Json.JArr (Stdlib.List.map jstr es)) ])
      | _ -> None) ms in
  let methods = Stdlib.List.filter_map (fun m -> match m with
      | Idl.MMethod (n, d, a, b) -> Some (Json.JObj [ (key "name", jstr n); (key "doc", jstr d); (key "input", jfields a); (key "output", jfields b) ])
      | _ -> None) ms in
  let errors = Stdlib.List.filter_map (fun m -> match m with
      | Idl.MError (n, d, fs) -> Some (Json.JObj [ (key "name", jstr n); (key "doc", jstr d); (key "struct", jfields fs) ])
      | _ -> None) ms in
  Json.JObj [ (key "name", jstr i.Idl.i_name); (key "doc", jstr i.Idl.i_doc); (key "typedefs", Json.JArr typedefs);
              (key "methods", Json.JArr methods); (key "errors", Json.JArr errors) ]

let kind_word = function Idl.KMethod -> "method " | Idl.KType -> "type " | Idl.KError -> "error "

let () =
  register "parse" (fun a ->
      match a with
      | [x] ->
        (match Idl.try_from (codepoints (unhex x)) with
         | Idl.OIdl i -> "ok " ^ bh (Json.print (jidl i))
         | Idl.OParseError -> "parse_error"
         | Idl.OOutOfFuel -> "FUEL"
         | Idl.ODuplicates ds ->
           (* the implementation's messages need the interface name: reparse is avoided by carrying names only *)
           "idl_error " ^ String.concat "," (Stdlib.List.sort_uniq compare (Stdlib.List.map (fun d -> match d with
               | Idl.DupCross n -> "x:" ^ string_of_bytes (utf8_of_cps n)
               | Idl.DupSame (k, n) -> (kind_word k) ^ ":" ^ string_of_bytes (utf8_of_cps n)) ds)))
      | _ -> failwith "parse");
  register "iname" (fun a ->
      match a with
      | [x] -> (match Idl.interface_name (codepoints (unhex x)) with Some [] -> "full" | Some _ -> "prefix" | None -> "none")
      | _ -> failwith "iname");
  register "format" (fun a ->
      match a with
      | [_mode; w; x] ->
        (match Idl.try_from (codepoints (unhex x)) with
         | Idl.OIdl i ->
           let width = (try int_of_string w with _ -> max_int) in
           (* widths beyond any text length behave alike: cap for the unary naturals of the model *)
           let width = if width > 100000 then 100000 else width in
           "ok " ^ bh (utf8_of_cps (Format.format_src (nat_of_int width) i))
         | _ -> "err")
      | _ -> failwith "format")

(* ---- generator (C08 static part, C09) ---- *)
let rec jrty (t : Gen.rty) : Json.json =
  match t with
  | Gen.RBool -> Json.JStr (key "bool") | Gen.RI64 -> Json.JStr (key "i64") | Gen.RF64 -> Json.JStr (key "f64")
  | Gen.RString -> Json.JStr (key "String") | Gen.RValue -> Json.JStr (key "serde_json::Value")
  | Gen.RNamed n -> Json.JObj [ (key "named", jstr n) ]
  | Gen.RVec t -> Json.JObj [ (key "Vec", jrty t) ]
  | Gen.RMap t -> Json.JObj [ (key "StringHashMap", jrty t) ]
  | Gen.RSet -> Json.JStr (key "StringHashSet")
  | Gen.ROpt t -> Json.JObj [ (key "Option", jrty t) ]

let () =
  register "gen_model" (fun a ->
      match a with
      | [x] ->
        (match Idl.try_from (codepoints (unhex x)) with
         | Idl.OIdl i ->
           let defs = Stdlib.List.map (fun (n, d) ->
               match d with
               | Gen.DStruct fs ->
                 Json.JObj [ (key "name", jstr n); (key "struct", Json.JArr (Stdlib.List.map (fun ((f, t), sk) ->
                     Json.JObj [ (key "name", jstr f); (key "type", jrty t); (key "skip", Json.JBool sk) ]) fs)) ]
               | Gen.DEnum es -> Json.JObj [ (key "name", jstr n); (key "enum", Json.JArr (Stdlib.List.map jstr es)) ])
               (Gen.emitted i) in
           "ok " ^ bh (Json.print (Json.JObj [ (key "panics", Json.JBool (Gen.generator_panics i)); (key "defs", Json.JArr defs);
                                               (key "fns", Json.JArr (Stdlib.List.map jstr (Gen.emitted_fn_names i)));
                                               (key "known", Json.JArr (Stdlib.List.map (fun c -> Json.JStr (key (match c with
                                                   | Gen.GReserved -> "ReservedIdent" | Gen.GDupType -> "DuplicateTypeName" | Gen.GDupFn -> "DuplicateFnName"
                                                   | Gen.GFixedName -> "TypedefShadowsGeneratedName" | Gen.GKeywordFn -> "MethodNameIsKeyword"
                                                   | Gen.GBindingVariant -> "ParameterNamedLikeEnumMember"
                                                   | Gen.GErrorName -> "ErrorNameClashes"))) (Gen.known_classes i))) ]))
         | Idl.OParseError | Idl.ODuplicates _ -> "err"
         | Idl.OOutOfFuel -> "FUEL")
      | _ -> failwith "gen_model")

(* ---- generated bindings on the wire (C08) ---- *)
let cps_of_ascii (s : string) : coq_N list = bytes_of_string s
let () =
  (* codec <idl> <kind: in|out|err> <name> <json> : read the JSON against the parameter struct of the
     method input / output / error, and write it back as the bindings put it on the wire *)
  register "codec" (fun a ->
      match a with
      | [x; kind; name; j] ->
        (match Idl.try_from (codepoints (unhex x)) with
         | Idl.OIdl i ->
           let env = Gen.typedefs_of i in
           let nm = cps_of_ascii name in
           let fields =
             if kind = "err" then
               (try Some (snd (Stdlib.List.find (fun (n, _) -> n = nm) (Gen.errors_of i))) with Not_found -> None)
             else
               (try let ((_, a), b) = Stdlib.List.find (fun ((n, _), _) -> n = nm) (Gen.methods_of i) in
                  Some (if kind = "in" then a else b) with Not_found -> None) in
           (match fields, Json.parse_value (hb j) with
            | Some fs, Base.Ok jv ->
              (match Codec.dec_top (Codec.dec_fuel jv) env fs jv with
               | Some vs ->
                 Printf.sprintf "ok wire=%s full=%s method=%s" (bh (Json.print (Json.norm (Codec.enc_top vs))))
                   (bh (Json.print (Json.norm (Json.JObj (Stdlib.List.map (fun (n, v) -> (utf8_of_cps n, Codec.enc v)) vs)))))
                   (bh (utf8_of_cps (Codec.wire_method i.Idl.i_name nm)))
               | None -> "invalid")
            | None, _ -> "nomethod"
            | _, _ -> "notjson")
         | _ -> "badidl")
      | _ -> failwith "codec")

(* ---- certification (C19) ---- *)
let () =
  (* cert_matches <idl> <method> <canonical params json> <params json> *)
  register "cert_matches" (fun a ->
      match a with
      | [x; name; cj; j] ->
        (match Idl.try_from (codepoints (unhex x)) with
         | Idl.OIdl i ->
           let env = Gen.typedefs_of i in
           let nm = cps_of_ascii name in
           (match (try Some (Stdlib.List.find (fun ((n, _), _) -> n = nm) (Gen.methods_of i)) with Not_found -> None),
                  Json.parse_value (hb cj), Json.parse_value (hb j) with
            | Some ((_, fs), _), Base.Ok canon, Base.Ok jv ->
              (match Cert.read_params env (fun _ -> fs) Datatypes.O jv with
               | None -> "invalid"
               | Some _ ->
                 if Cert.matches env (fun _ -> fs) (fun _ _ -> canon) Datatypes.O [] jv then "match" else "nomatch")
            | _, _, _ -> "badinput")
         | _ -> "badidl")
      | _ -> failwith "cert_matches")

let () =
  (* cert_run <idl> <client id> | <k> <method> <canonical params json> <request json> ...   (groups of four)
     one client, expected step 1 (just after Start); each call goes through the extracted state machine Cert.cert_call *)
  register "cert_run" (fun toks ->
      let (hd, calls) = split_bar [] toks in
      match hd with
      | [x; cid] ->
        (match Idl.try_from (codepoints (unhex x)) with
         | Idl.OIdl i ->
           let env = Gen.typedefs_of i in
           let cidb = hb cid in
           let rec groups = function
             | k :: name :: cj :: rq :: rest -> (int_of_string k, name, cj, rq) :: groups rest
             | [] -> []
             | _ -> failwith "cert_run: groups of four" in
           let gs = groups calls in
           let fields_of name =
             let nm = cps_of_ascii name in
             (match (try Some (Stdlib.List.find (fun ((n, _), _) -> n = nm) (Gen.methods_of i)) with Not_found -> None) with
              | Some ((_, fs), _) -> fs
              | None -> failwith ("cert_run: no method " ^ name)) in
           let names = Hashtbl.create 16 and canons = Hashtbl.create 16 in
           Stdlib.List.iter (fun (k, name, cj, _) ->
               Hashtbl.replace names k name;
               (match Json.parse_value (hb cj) with Base.Ok c -> Hashtbl.replace canons k c | _ -> failwith "cert_run: canonical json")) gs;
           let rec int_of_nat = function Datatypes.O -> 0 | Datatypes.S n -> 1 + int_of_nat n in
           let fields kn = (match Hashtbl.find_opt names (int_of_nat kn) with Some n -> fields_of n | None -> []) in
           let canon kn _ = (match Hashtbl.find_opt canons (int_of_nat kn) with Some c -> c | None -> Json.JNull) in
           let st = ref [ (cidb, nat_of_int 1) ] in
           let outs = Stdlib.List.map (fun (k, _, _, rq) ->
               match Wire.decode_request (hb rq) with
               | Base.Ok q ->
                 let (st', o) = CertSrc.src_cert_call env fields canon !st (nat_of_int k) q in
                 st := st';
                 (match o with Cert.CSuccess -> "S" | Cert.CClientIdError -> "I" | Cert.CCertError -> "C" | Cert.CInvalidParameter -> "P")
               | _ -> "X") gs in
           String.concat "" outs
         | _ -> "badidl")
      | _ -> failwith "cert_run")

let () =
  let tbl = handlers in
  (try
     while true do
       let line = input_line stdin in
       if line <> "" then begin
         match String.split_on_char ' ' line with
         | id :: op :: toks ->
           let toks = Stdlib.List.filter (fun t -> t <> "") toks in
           let out =
             match Hashtbl.find_opt tbl op with
             | None -> "UNKNOWN-OP"
             | Some f -> (try f toks with
                 | Stack_overflow -> "STACK"
                 | e -> "DRIVER-ERROR " ^ Printexc.to_string e) in
           print_string id; print_char ' '; print_endline out
         | _ -> print_endline "BAD-LINE"
       end
     done
   with End_of_file -> ())
