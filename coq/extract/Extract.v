(* Extraction of the executable models for the correspondence driver.
   Only ExtrOcamlBasic's directives are used (bool, option, list, prod, unit, sumbool
   mapped to OCaml's own types); N, Z, positive and nat stay extracted inductives. *)
From Coq Require Import ExtrOcamlBasic.
From VL Require Import Base Json Schema Wire WireSet Service Script Client PoolExpr Pool PoolSrc Listen Idl Format Gen Codec Cert CertSrc.
From VLG Require Import WireGen SetGen PoolGen CertGen.
Extraction Language OCaml.
Separate Extraction
  Base.beq_bytes Json.parse_value Json.parse_doc Json.print Json.norm
  Schema.de_text Schema.de_value Schema.ser
  Wire.decode_request Wire.encode_request Wire.decode_reply Wire.encode_reply
  Service.feed_all Service.feed_all_cap Service.bufreader_capacity Service.spec_out Service.spec_closed Service.handle Service.arun Service.serve
  Script.script_iface
  Json.utf8_valid Json.obj_insert
  WireGen.schema_Request WireGen.schema_Reply WireGen.schema_ServiceInfo
  WireGen.schema_GetInterfaceDescriptionArgs WireGen.schema_GetInterfaceDescriptionReply
  WireGen.schema_ErrorInterfaceNotFound WireGen.schema_ErrorInvalidParameter
  WireGen.schema_ErrorMethodNotImplemented WireGen.schema_ErrorMethodNotFound
  WireSet.set_ser WireSet.set_de_value WireSet.set_de_text WireSet.map_ser WireSet.map_de_value WireSet.map_de_text
  SetGen.set_visitor_consumes_value
  Client.cstep Client.cs_init Client.new_call
  PoolSrc.src_step PoolSrc.src_init Pool.bound_ok Pool.no_strand_ok PoolSrc.src_cfg Listen.lrun Listen.linit
  Idl.try_from Idl.interface_name Format.format_src Json.utf8_enc
  Gen.emitted Gen.generator_panics Gen.emitted_fn_names Gen.emitted_type_names Gen.known_classes Gen.typedefs_of Gen.methods_of Gen.errors_of
  Codec.enc Codec.enc_top Codec.dec_top Codec.dec_fuel Codec.wire_method
  Cert.matches Cert.read_params Cert.mode_ok Cert.mode_of CertSrc.src_cert_call.
