(* Extraction of the executable models for the correspondence driver.
   Only ExtrOcamlBasic's directives are used (bool, option, list, prod, unit, sumbool
   mapped to OCaml's own types); N, Z, positive and nat stay extracted inductives. *)
From Coq Require Import ExtrOcamlBasic.
From VL Require Import Base Json Schema Wire Service Script.
Extraction Language OCaml.
Separate Extraction
  Base.beq_bytes Json.parse_value Json.parse_doc Json.print Json.norm
  Schema.de_text Schema.de_value Schema.ser
  Wire.decode_request Wire.encode_request Wire.decode_reply Wire.encode_reply
  Service.feed_all Service.spec_out Service.spec_closed Service.handle Service.arun Service.serve
  Script.script_iface.
