(* The interface-name lexer (hand-modelled shape, regenerated character classes) accepts
   exactly the reverse-domain names of the varlink grammar. *)
From Coq Require Import List NArith Lia Bool Arith.
From VL Require Import Idl.
From VLG Require Import GrammarGen.
Import ListNotations.
Open Scope N_scope.
Arguments in_ranges : simpl never.

Definition alnum_tab : list (N * N) := [(65, 90); (97, 122); (48, 57)].
Definition letter_tab : list (N * N) := [(65, 90); (97, 122)].
Definition alnum (c : N) : bool := in_ranges alnum_tab c.
Definition letter (c : N) : bool := in_ranges letter_tab c.

(* the regenerated tables are the expected ones *)
Lemma iname_tables_ok :
  iname_first_hyphen_guarded = true /\ iname_first_start = letter_tab /\ iname_first_rest = alnum_tab /\
  iname_elem_start = alnum_tab /\ iname_elem_rest = alnum_tab.
Proof. vm_compute. repeat split; reflexivity. Qed.

(* ---- specification ---- *)
(* the part of an element after its first character: groups of hyphens each closed by an
   alphanumeric character *)
Inductive ElemTail : str -> Prop :=
| ET_nil : ElemTail []
| ET_grp h c t : Forall (fun x => x = 45) h -> alnum c = true -> ElemTail t -> ElemTail (h ++ c :: t).

Definition Elem (e : str) : Prop := exists c t, e = c :: t /\ alnum c = true /\ ElemTail t.
Definition FirstElem (e : str) : Prop := exists c t, e = c :: t /\ letter c = true /\ ElemTail t.

Definition dotted (es : list str) : str := flat_map (fun e => 46 :: e) es.

(* a reverse-domain interface name: at least two dot-separated elements over [A-Za-z0-9-], none
   beginning or ending with a hyphen, the first beginning with a letter *)
Definition IName (s : str) : Prop :=
  exists e0 es, FirstElem e0 /\ es <> [] /\ Forall Elem es /\ s = e0 ++ dotted es.

(* the element predicate in its everyday form *)
Definition elem_chars_ok (e : str) : Prop :=
  e <> [] /\ Forall (fun c => alnum c = true \/ c = 45) e /\ hd 0 e <> 45 /\ last e 0 <> 45.

Lemma alnum_not_hyphen c : alnum c = true -> c <> 45.
Proof. intros H ->. vm_compute in H. discriminate. Qed.

Lemma last_app_cons_ne : forall (h : str) c t, last (h ++ c :: t) 0 = last (c :: t) 0.
Proof. induction h as [|x h IH]; intros; simpl; [reflexivity|]. rewrite IH. destruct (h ++ c :: t) eqn:E; [destruct h; discriminate|reflexivity]. Qed.

Lemma ElemTail_chars t : ElemTail t -> Forall (fun c => alnum c = true \/ c = 45) t /\ (t <> [] -> last t 0 <> 45).
Proof.
  induction 1 as [|h c t Hh Hc Ht [IH1 IH2]]; [split; [constructor|congruence]|]. split.
  - apply Forall_app. split; [eapply Forall_impl; [|exact Hh]; intros; right; assumption|].
    constructor; [left; exact Hc|exact IH1].
  - intros _. rewrite last_app_cons_ne. destruct t as [|x t'].
    + simpl. apply alnum_not_hyphen. exact Hc.
    + change (last (c :: x :: t') 0) with (last (x :: t') 0). apply IH2. discriminate.
Qed.

Lemma chars_ElemTail : forall n t, (length t <= n)%nat -> Forall (fun c => alnum c = true \/ c = 45) t ->
  (t <> [] -> last t 0 <> 45) -> ElemTail t.
Proof.
  induction n as [|n IH]; intros t Hl Hf Hlast.
  - destruct t; [constructor|simpl in Hl; lia].
  - destruct t as [|x t]; [constructor|].
    (* split off the leading hyphens *)
    destruct (span (fun c => c =? 45) (x :: t)) as [h r] eqn:Sp.
    assert (Hs : x :: t = h ++ r /\ Forall (fun y => y = 45) h /\ match r with c :: _ => c <> 45 | [] => True end).
    { clear -Sp. revert h r Sp. generalize (x :: t). induction l as [|y l IHl]; intros h r Sp; simpl in Sp.
      - inversion Sp; subst. repeat split; constructor.
      - destruct (N.eqb_spec y 45).
        + destruct (span (fun c => c =? 45) l) as [h' r'] eqn:E. inversion Sp; subst.
          destruct (IHl h' r eq_refl) as (E1 & E2 & E3). rewrite E1 at 1. repeat split; auto.
        + inversion Sp; subst. repeat split; auto. }
    destruct Hs as (E & Hh & Hr). destruct r as [|c r].
    + (* all hyphens: contradicts the last character *)
      exfalso. rewrite app_nil_r in E. apply Hlast; [discriminate|]. rewrite E.
      assert (G : forall l : str, l <> [] -> Forall (fun y => y = 45) l -> last l 0 = 45).
      { clear. induction l as [|y l IHl]; intros Hn Hf; [congruence|]. inversion Hf; subst.
        destruct l; [reflexivity|]. change (last (45 :: n :: l) 0) with (last (n :: l) 0). apply IHl; [discriminate|assumption]. }
      apply G; [rewrite <- E; discriminate|exact Hh].
    + rewrite E. rewrite E in Hf. apply Forall_app in Hf. destruct Hf as [_ Hf]. inversion Hf as [|? ? Hc Hfr]; subst.
      constructor; [exact Hh| |].
      * destruct Hc as [Hc|Hc]; [exact Hc|contradiction].
      * apply IH.
        -- assert (length (x :: t) = length (h ++ c :: r)) by (rewrite E; reflexivity).
           rewrite app_length in H. simpl in H, Hl. lia.
        -- exact Hfr.
        -- intros Hne. specialize (Hlast ltac:(discriminate)). rewrite E, last_app_cons_ne in Hlast.
           destruct r; [congruence|]. exact Hlast.
Qed.

Theorem Elem_iff_chars e : Elem e <-> elem_chars_ok e.
Proof.
  split.
  - intros (c & t & -> & Hc & Ht). destruct (ElemTail_chars t Ht) as [F L]. repeat split.
    + discriminate.
    + constructor; [left; exact Hc|exact F].
    + simpl. apply alnum_not_hyphen. exact Hc.
    + destruct t as [|x t']; [simpl; apply alnum_not_hyphen; exact Hc|].
      change (last (c :: x :: t') 0) with (last (x :: t') 0). apply L. discriminate.
  - intros (Hne & F & Hh & Hl). destruct e as [|c t]; [congruence|]. inversion F as [|? ? Hc Ft]; subst.
    exists c, t. split; [reflexivity|]. split; [destruct Hc; [assumption|contradiction]|].
    apply (chars_ElemTail (length t)); [lia|exact Ft|].
    intros Hn. destruct t as [|x t']; [congruence|]. exact Hl.
Qed.

(* ---- the lexer against the specification ---- *)
Definition hy_stop (r : str) : Prop :=
  match snd (span (fun c => c =? 45) r) with c :: _ => alnum c = false | [] => True end.

Lemma span_hyphens h : forall r, Forall (fun x => x = 45) h -> match r with c :: _ => c <> 45 | [] => True end ->
  span (fun c => c =? 45) (h ++ r) = (h, r).
Proof.
  induction h as [|x h IH]; intros r Hh Hr; simpl.
  - destruct r as [|c r]; [reflexivity|]. simpl. destruct (N.eqb_spec c 45); [contradiction|reflexivity].
  - inversion Hh; subst. simpl. rewrite IH; auto.
Qed.

Lemma hy_elems_complete t : ElemTail t -> forall f r, (length t <= f)%nat -> hy_stop r ->
  hy_elems f alnum_tab (t ++ r) = r.
Proof.
  induction 1 as [|h c t Hh Hc Ht IH]; intros f r Hf Hr.
  - simpl. destruct f as [|f]; [reflexivity|]. simpl. unfold hy_stop in Hr.
    destruct (span (fun c => c =? 45) r) as [h' r'] eqn:E. simpl in Hr.
    destruct r' as [|c r']; [reflexivity|]. fold (alnum c). rewrite Hr. reflexivity.
  - destruct f as [|f]; [rewrite app_length in Hf; simpl in Hf; lia|].
    rewrite <- app_assoc. cbn [hy_elems]. rewrite (span_hyphens h ((c :: t) ++ r) Hh).
    2:{ simpl. apply alnum_not_hyphen. exact Hc. }
    cbn [app]. fold (alnum c). rewrite Hc. apply IH; [|exact Hr]. rewrite app_length in Hf. simpl in Hf. lia.
Qed.

Lemma hy_elems_sound f : forall s, exists t, ElemTail t /\ s = t ++ hy_elems f alnum_tab s.
Proof.
  induction f as [|f IH]; intros s; simpl.
  - exists []. split; [constructor|reflexivity].
  - destruct (span (fun c => c =? 45) s) as [h r] eqn:Sp.
    assert (Hs : s = h ++ r /\ Forall (fun y => y = 45) h).
    { clear -Sp. revert h r Sp. induction s as [|y l IHl]; intros h r Sp; simpl in Sp.
      - inversion Sp; subst. split; constructor.
      - destruct (N.eqb_spec y 45).
        + destruct (span (fun c => c =? 45) l) as [h' r'] eqn:E. inversion Sp; subst.
          destruct (IHl h' r eq_refl) as (E1 & E2). rewrite E1 at 1. split; auto.
        + inversion Sp; subst. split; auto. }
    destruct Hs as [E Hh]. destruct r as [|c r]; [exists []; split; [constructor|reflexivity]|].
    fold (alnum c). destruct (alnum c) eqn:Hc; [|exists []; split; [constructor|reflexivity]].
    destruct (IH r) as (t & Ht & Et). exists (h ++ c :: t). split; [constructor; assumption|].
    rewrite E at 1. rewrite <- app_assoc. simpl. rewrite Et at 1. reflexivity.
Qed.

Lemma dot_elems_complete es : Forall Elem es -> forall f seen, (length (dotted es) <= f)%nat ->
  (es <> [] \/ seen = true) -> dot_elems f (dotted es) seen = Some [].
Proof.
  destruct iname_tables_ok as (_ & _ & _ & Es & Er).
  induction 1 as [|e es He Hes IH]; intros f seen Hf Hs.
  - simpl. destruct Hs as [Hs | ->]; [congruence|]. destruct f; reflexivity.
  - destruct He as (c & t & -> & Hc & Ht). simpl in Hf |- *. destruct f as [|f]; [lia|].
    simpl. rewrite Es, Er. fold (alnum c). rewrite Hc.
    assert (Hstop : hy_stop (dotted es)).
    { unfold hy_stop. destruct es as [|e' es']; [exact I|]. simpl. reflexivity. }
    rewrite (hy_elems_complete t Ht _ (dotted es)); [|rewrite app_length; lia|exact Hstop].
    apply IH; [rewrite app_length in Hf; lia|right; reflexivity].
Qed.

Lemma dot_elems_sound f : forall s seen, dot_elems f s seen = Some [] ->
  exists es, Forall Elem es /\ s = dotted es /\ (seen = false -> es <> []).
Proof.
  destruct iname_tables_ok as (_ & _ & _ & Es & Er).
  induction f as [|f IH]; intros s seen H; simpl in H.
  - destruct seen; [|discriminate]. inversion H; subst. exists []. repeat split; [constructor|congruence].
  - assert (Stop : forall s, (if seen then Some s else None) = Some [] ->
              exists es : list str, Forall Elem es /\ s = dotted es /\ (seen = false -> es <> [])).
    { intros s0 H0. destruct seen; [|discriminate]. inversion H0; subst. exists []. repeat split; [constructor|congruence]. }
    destruct s as [|d s]; [apply Stop; exact H|].
    destruct (N.eqb_spec d 46) as [->|Hd].
    2:{ apply Stop. destruct d as [|p]; [exact H|]. do 6 (destruct p as [p|p|]; try exact H). congruence. }
    destruct s as [|c r]; [apply Stop; exact H|].
    rewrite Es, Er in H. fold (alnum c) in H. destruct (alnum c) eqn:Hc; [|apply Stop; exact H].
    destruct (hy_elems_sound (length r) r) as (t & Ht & Et).
    destruct (IH _ _ H) as (es & Hes & Ees & _).
    exists ((c :: t) :: es). split; [constructor; [exists c, t; auto|exact Hes]|]. split; [|discriminate].
    simpl. rewrite <- Ees. rewrite Et at 1. reflexivity.
Qed.

(* MAIN: the lexer consumes a whole string exactly when it is a reverse-domain interface name *)
Theorem interface_name_spec s : interface_name s = Some [] <-> IName s.
Proof.
  destruct iname_tables_ok as (Hg & Fs & Fr & _ & _). unfold interface_name. rewrite Hg, Fs, Fr. split.
  - destruct s as [|c r]; [discriminate|]. fold (letter c). destruct (letter c) eqn:Hc; [|discriminate].
    intros H. destruct (hy_elems_sound (length r) r) as (t & Ht & Et).
    destruct (dot_elems_sound _ _ _ H) as (es & Hes & Ees & Hne).
    exists (c :: t), es. split; [exists c, t; auto|]. split; [apply Hne; reflexivity|]. split; [exact Hes|].
    simpl. rewrite <- Ees. rewrite Et at 1. reflexivity.
  - intros (e0 & es & (c & t & -> & Hc & Ht) & Hne & Hes & ->). simpl. fold (letter c). rewrite Hc.
    assert (Hstop : hy_stop (dotted es)).
    { unfold hy_stop. destruct es as [|e' es']; [exact I|]. simpl. reflexivity. }
    rewrite (hy_elems_complete t Ht _ (dotted es)); [|rewrite app_length; lia|exact Hstop].
    apply dot_elems_complete; [exact Hes|lia|left; exact Hne].
Qed.
