(* The accept loop of varlink::listen as a transition system over abstract events.
   The constants and the places where the stop flag is consulted are regenerated from
   server.rs:listen (gen/PoolGen.v). *)
From Coq Require Import List Arith Lia Bool.
Import ListNotations.

Record lcfg := mkcfg {
  idle_s : nat;                (* ListenConfig::idle_timeout, seconds *)
  has_stop : bool;             (* stop_listening is Some *)
  quantum : nat;               (* poll quantum in ms when a stop flag exists *)
  check_after_accept : bool }. (* the flag is also tested once per accepted connection *)

(* what the environment does in one turn of the inner loop *)
Inductive lev :=
| Tick (stop : bool) (busy : nat)   (* accept() timed out after wait_time ms; the flag and counter as read then *)
| Acc (stop : bool).                (* accept() returned a connection; the flag as read after handing it to the pool *)

Inductive lres := RTimeout | RStopped.

Record lst := mkl { to_wait : nat; waited : nat (* ghost: ms waited since the countdown was last re-armed *);
                    naccepted : nat (* ghost *) }.

Definition full (c : lcfg) : nat := idle_s c * 1000.
Definition wait_time (c : lcfg) : nat := if has_stop c then quantum c else full c.
Definition linit (c : lcfg) : lst := mkl (full c) 0 0.

Definition lstep (c : lcfg) (s : lst) (e : lev) : lst + lres :=
  match e with
  | Tick stop busy =>
      if has_stop c && stop then inr RStopped
      else if has_stop c && (idle_s c =? 0) then inl (mkl (to_wait s) (waited s + wait_time c) (naccepted s))
      else if to_wait s <=? wait_time c then
             (if busy =? 0 then inr RTimeout else inl (mkl (full c) 0 (naccepted s)))
           else inl (mkl (to_wait s - wait_time c) (waited s + wait_time c) (naccepted s))
  | Acc stop =>
      if check_after_accept c && has_stop c && stop then inr RStopped
      else inl (mkl (full c) 0 (S (naccepted s)))
  end.

(* run a trace; returns the result (if the loop returned), the state and the unconsumed events *)
Fixpoint lrun (c : lcfg) (s : lst) (es : list lev) : option lres * lst * list lev :=
  match es with
  | [] => (None, s, [])
  | e :: r => match lstep c s e with
              | inl s1 => lrun c s1 r
              | inr res => (Some res, s, r)
              end
  end.

Definition ev_stop (e : lev) : bool := match e with Tick st _ => st | Acc st => st end.
Definition is_acc (e : lev) : bool := match e with Acc _ => true | _ => false end.

(* once set, the flag stays set *)
Fixpoint stop_monotone (es : list lev) : Prop :=
  match es with
  | [] => True
  | e :: r => (ev_stop e = true -> Forall (fun x => ev_stop x = true) r) /\ stop_monotone r
  end.
