(* The varlink wire structs, as instances of the regenerated schemas. *)
From VL Require Import Base Json Schema.
From VLG Require Import WireGen.
Open Scope N_scope.

Definition k_more : bytes := [109; 111; 114; 101].
Definition k_oneway : bytes := [111; 110; 101; 119; 97; 121].
Definition k_upgrade : bytes := [117; 112; 103; 114; 97; 100; 101].
Definition k_method : bytes := [109; 101; 116; 104; 111; 100].
Definition k_parameters : bytes := [112; 97; 114; 97; 109; 101; 116; 101; 114; 115].
Definition k_continues : bytes := [99; 111; 110; 116; 105; 110; 117; 101; 115].
Definition k_error : bytes := [101; 114; 114; 111; 114].

Record request := mkreq {
  r_more : option bool; r_oneway : option bool; r_upgrade : option bool;
  r_method : bytes; r_params : option json }.

Definition opt_bool_of (o : option fval) : option (option bool) :=
  match o with Some (VOptBool b) => Some b | _ => None end.

Definition request_of_record (r : record) : option request :=
  match opt_bool_of (get_field schema_Request r k_more),
        opt_bool_of (get_field schema_Request r k_oneway),
        opt_bool_of (get_field schema_Request r k_upgrade),
        get_field schema_Request r k_method,
        get_field schema_Request r k_parameters with
  | Some m, Some o, Some u, Some (VString me), Some (VOptValue p) => Some (mkreq m o u me p)
  | _, _, _, _, _ => None
  end.

(* serde_json::from_slice::<Request>(frame) *)
Definition decode_request (frame : bytes) : res request :=
  do r <- de_text schema_Request frame;
  match request_of_record r with Some q => Ok q | None => Err end.

Definition record_of_request (q : request) : record :=
  map (fun f =>
         if beq_bytes (f_name f) k_more then VOptBool (r_more q)
         else if beq_bytes (f_name f) k_oneway then VOptBool (r_oneway q)
         else if beq_bytes (f_name f) k_upgrade then VOptBool (r_upgrade q)
         else if beq_bytes (f_name f) k_method then VString (r_method q)
         else VOptValue (r_params q)) schema_Request.

Definition encode_request (q : request) : bytes := print (ser schema_Request (record_of_request q)).

Record reply := mkreply { y_continues : option bool; y_error : option bytes; y_params : option json }.

Definition record_of_reply (y : reply) : record :=
  map (fun f =>
         if beq_bytes (f_name f) k_continues then VOptBool (y_continues y)
         else if beq_bytes (f_name f) k_error then VOptString (y_error y)
         else VOptValue (y_params y)) schema_Reply.

(* what reply_struct / reply_parameters put on the wire: the JSON text and the NUL *)
Definition encode_reply (y : reply) : bytes := print (ser schema_Reply (record_of_reply y)) ++ [0].

Definition reply_of_record (r : record) : option reply :=
  match opt_bool_of (get_field schema_Reply r k_continues),
        get_field schema_Reply r k_error,
        get_field schema_Reply r k_parameters with
  | Some c, Some (VOptString e), Some (VOptValue p) => Some (mkreply c e p)
  | _, _, _ => None
  end.

Definition decode_reply (frame : bytes) : res reply :=
  do r <- de_text schema_Reply frame;
  match reply_of_record r with Some y => Ok y | None => Err end.

Definition wants_more (q : request) : bool := match r_more q with Some true => true | _ => false end.
Definition is_oneway (q : request) : bool := match r_oneway q with Some true => true | _ => false end.
