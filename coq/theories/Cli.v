(* `varlink call`: splitting the URL argument, and what is printed / the exit status as a function
   of the replies the service sends.  `varlink bridge` (resolver mode): the per-request routing
   state machine and its transparency. *)
From VL Require Import Base Json Schema Wire Service.
From VLG Require Import WireGen.
Open Scope N_scope.

(* split at the last occurrence of c *)
Fixpoint rsplit_at (c : N) (s : bytes) : option (bytes * bytes) :=
  match s with
  | [] => None
  | x :: r =>
      match rsplit_at c r with
      | Some (a, b) => Some (x :: a, b)
      | None => if x =? c then Some ([], r) else None
      end
  end.

Definition contains (c : N) (s : bytes) : bool := existsb (N.eqb c) s.

Inductive target := Direct (addr method : bytes) | ViaResolver (iface method : bytes) | BadUrl.

Definition split_url (url : bytes) : target :=
  match rsplit_at 47 url with
  | Some (addr, m) => if contains 46 m then Direct addr m else BadUrl
  | None => match rsplit_at 46 url with
            | Some (i, _) => ViaResolver i url
            | None => BadUrl
            end
  end.

Lemma rsplit_at_none c s : rsplit_at c s = None <-> ~ In c s.
Proof.
  induction s as [|x s IH]; simpl; [tauto|].
  destruct (rsplit_at c s) as [[a b]|] eqn:E.
  - split; [discriminate|]. intros H. exfalso.
    assert (X : ~ In c s) by (intros Hi; apply H; right; exact Hi).
    apply IH in X. discriminate.
  - destruct (N.eqb_spec x c).
    + split; [discriminate|]. intros H. exfalso. apply H. left. assumption.
    + split; [|reflexivity]. intros _ [H|H]; [congruence|]. apply (proj1 IH eq_refl). exact H.
Qed.

Lemma rsplit_at_app c a m : ~ In c m -> rsplit_at c (a ++ c :: m) = Some (a, m).
Proof.
  intros Hn. induction a as [|x a IH]; simpl.
  - rewrite (proj2 (rsplit_at_none c m) Hn). rewrite N.eqb_refl. reflexivity.
  - rewrite IH. reflexivity.
Qed.

(* every address form works: the URL is split at the LAST slash *)
Theorem split_url_direct addr m : ~ In 47 m -> contains 46 m = true ->
  split_url (addr ++ 47 :: m) = Direct addr m.
Proof. intros Hs Hd. unfold split_url. rewrite (rsplit_at_app 47 addr m Hs), Hd. reflexivity. Qed.

Theorem split_url_resolver i m : ~ In 47 (i ++ 46 :: m) -> ~ In 46 m ->
  split_url (i ++ 46 :: m) = ViaResolver i (i ++ 46 :: m).
Proof.
  intros Hs Hd. unfold split_url. rewrite (proj2 (rsplit_at_none 47 _) Hs), (rsplit_at_app 46 i m Hd). reflexivity.
Qed.

(* ---- what `varlink call` prints and returns ---- *)
Definition printed_of (y : reply) : json := match y_params y with Some p => p | None => JObj [] end.
Definition is_err (y : reply) : bool := match y_error y with Some _ => true | None => false end.
Definition continues (y : reply) : bool := match y_continues y with Some true => true | _ => false end.

(* replies in arrival order; the end of the list is the connection closing *)
Fixpoint more_outcome (l : list reply) : list json * bool :=
  match l with
  | [] => ([], false)
  | y :: r =>
      if is_err y then ([], false)
      else if continues y then let '(p, ok) := more_outcome r in (printed_of y :: p, ok)
      else ([printed_of y], true)
  end.

Definition call_outcome (more : bool) (l : list reply) : list json * bool :=
  if more then more_outcome l
  else match l with
       | [] => ([], false)
       | y :: _ => if is_err y then ([], false) else ([printed_of y], true)
       end.

(* exit status 0 exactly when the stream is continues-replies followed by a non-error final reply *)
Theorem more_exit_zero_iff l : snd (more_outcome l) = true <->
  exists cs f rest, l = cs ++ f :: rest /\ Forall (fun y => is_err y = false /\ continues y = true) cs /\
                    is_err f = false /\ continues f = false.
Proof.
  induction l as [|y r IH]; simpl.
  - split; [discriminate|]. intros (cs & f & rest & E & _). destruct cs; discriminate.
  - destruct (is_err y) eqn:Ey; simpl.
    + split; [discriminate|]. intros (cs & f & rest & E & Hc & Hf1 & Hf2).
      destruct cs as [|c cs]; simpl in E; inversion E; subst; [congruence|]. inversion Hc as [|? ? [H1 _] _]; subst. congruence.
    + destruct (continues y) eqn:Cy.
      * destruct (more_outcome r) as [p ok] eqn:M. simpl in *. rewrite IH. split.
        -- intros (cs & f & rest & -> & Hc & Hf). exists (y :: cs), f, rest. split; [reflexivity|]. split; [constructor; auto|exact Hf].
        -- intros (cs & f & rest & E & Hc & Hf1 & Hf2). destruct cs as [|c cs]; simpl in E; inversion E; subst; [congruence|].
           inversion Hc; subst. exists cs, f, rest. auto.
      * simpl. split; [|reflexivity]. intros _. exists [], y, r. repeat split; auto.
Qed.

(* the printed values are exactly the parameters of the successful replies, in order, up to and
   including the final one (absent parameters print as the empty object) *)
Theorem more_printed l cs f rest : l = cs ++ f :: rest ->
  Forall (fun y => is_err y = false /\ continues y = true) cs -> is_err f = false -> continues f = false ->
  fst (more_outcome l) = map printed_of (cs ++ [f]).
Proof.
  intros -> Hc Hf1 Hf2. induction Hc as [|c cs [H1 H2] Hc IH]; simpl.
  - rewrite Hf1, Hf2. reflexivity.
  - rewrite H1, H2. destruct (more_outcome (cs ++ f :: rest)) as [p ok]. simpl in *. rewrite IH. reflexivity.
Qed.

Theorem error_stops_printing cs e rest :
  Forall (fun y => is_err y = false /\ continues y = true) cs -> is_err e = true ->
  more_outcome (cs ++ e :: rest) = (map printed_of cs, false).
Proof.
  intros Hc He. induction Hc as [|c cs [H1 H2] Hc IH]; simpl.
  - rewrite He. reflexivity.
  - rewrite H1, H2, IH. reflexivity.
Qed.

(* ---- the bridge in resolver mode ---- *)
Record bworld := mkworld {
  w_resolve : bytes -> option nat;              (* the resolver's table: interface -> service index *)
  w_services : list service;
  w_resolver : service }.                       (* the resolver itself (answers service-info queries) *)

(* the bridge keeps ONE address (the resolver's own, or the one it looked up last) and the interface it believes
   that address belongs to *)
Inductive baddr := ARes | ASvc (k : nat).
Record bstate := mkbs { b_last : option bytes; b_addr : option baddr }.

Definition target_iface (q : request) : option bytes :=
  if beq_bytes (r_method q) m_getdescr then
    match r_params q with
    | Some (JObj m) => match obj_get p_unknown_iface m with Some (JStr i) => Some i | _ => None end
    | _ => None
    end
  else match rsplit_dot (r_method q) with Some (i, _) => Some i | None => None end.

Definition s_resolver_getinfo : bytes :=
  [111;114;103;46;118;97;114;108;105;110;107;46;114;101;115;111;108;118;101;114;46;71;101;116;73;110;102;111].
Definition s_resolver_name : bytes := [111;114;103;46;118;97;114;108;105;110;107;46;114;101;115;111;108;118;101;114].

Definition rewrite_req (q : request) : request :=
  if beq_bytes (r_method q) m_getinfo then mkreq (r_more q) (r_oneway q) (r_upgrade q) s_resolver_getinfo (r_params q) else q.

(* what the service a request is routed to answers *)
Definition direct (w : bworld) (q : request) : option bytes :=
  let q' := rewrite_req q in
  match target_iface q' with
  | None => None
  | Some i =>
      if beq_bytes i s_resolver_name then Some (fst (serve (w_resolver w) q'))
      else match w_resolve w i with
           | Some k => match nth_error (w_services w) k with
                       | Some svc => Some (fst (serve svc q'))
                       | None => None
                       end
           | None => None
           end
  end.

Section Bridge.
(* read from proxy.rs: is the remembered interface updated whenever the address is (true), or only after a resolver
   lookup (false)? *)
Variable key_always : bool.

(* the bridge's step: the address is chosen anew only when the interface differs from the remembered one *)
Definition bstep (w : bworld) (st : bstate) (q : request) : bstate * option bytes :=
  let q' := rewrite_req q in
  match target_iface q' with
  | None => (st, None)
  | Some i =>
      let same := match b_last st with Some l => beq_bytes i l | None => false end in
      let chosen :=
        if same then Some st
        else if beq_bytes i s_resolver_name
             then Some (mkbs (if key_always then Some i else b_last st) (Some ARes))
             else match w_resolve w i with
                  | Some k => Some (mkbs (Some i) (Some (ASvc k)))
                  | None => None
                  end in
      match chosen with
      | None => (st, None)
      | Some st1 =>
          match b_addr st1 with
          | Some ARes => (st1, Some (fst (serve (w_resolver w) q')))
          | Some (ASvc k) => match nth_error (w_services w) k with
                             | Some svc => (st1, Some (fst (serve svc q')))
                             | None => (st, None)
                             end
          | None => (st, None)
          end
      end
  end.

Fixpoint brun (w : bworld) (st : bstate) (qs : list request) : bytes :=
  match qs with
  | [] => []
  | q :: r => match bstep w st q with
              | (st', Some o) => o ++ brun w st' r
              | (_, None) => []
              end
  end.

Fixpoint direct_all (w : bworld) (qs : list request) : bytes :=
  match qs with
  | [] => []
  | q :: r => match direct w q with Some o => o ++ direct_all w r | None => [] end
  end.

(* the cache never goes stale: the remembered address is the one that belongs to the remembered interface *)
Definition addr_of (w : bworld) (l : bytes) : option baddr :=
  if beq_bytes l s_resolver_name then Some ARes else option_map ASvc (w_resolve w l).
Definition binv (w : bworld) (st : bstate) : Prop :=
  match b_last st with
  | Some l => b_addr st = addr_of w l
  | None => True
  end.

Lemma bstep_direct w st q : key_always = true -> binv w st ->
  snd (bstep w st q) = direct w q /\ binv w (fst (bstep w st q)).
Proof.
  intros K I. unfold bstep, direct. destruct (target_iface (rewrite_req q)) as [i|]; [|split; [reflexivity|exact I]].
  destruct (b_last st) as [l|] eqn:L.
  - destruct (beq_bytes_spec i l) as [->|Hne].
    + (* same interface: the remembered address is used *)
      assert (A : b_addr st = addr_of w l) by (unfold binv in I; rewrite L in I; exact I).
      rewrite A. unfold addr_of. destruct (beq_bytes l s_resolver_name) eqn:R.
      * split; [reflexivity|exact I].
      * destruct (w_resolve w l) as [k|]; cbn [option_map]; [|split; [reflexivity|exact I]].
        destruct (nth_error (w_services w) k); split; try reflexivity; exact I.
    + destruct (beq_bytes i s_resolver_name) eqn:R.
      * rewrite K. cbn [b_addr]. split; [reflexivity|]. unfold binv. cbn [fst b_last b_addr]. unfold addr_of. rewrite R. reflexivity.
      * destruct (w_resolve w i) as [k|] eqn:Rk; [|split; [reflexivity|exact I]].
        cbn [b_addr]. destruct (nth_error (w_services w) k); [|split; [reflexivity|exact I]].
        split; [reflexivity|]. unfold binv. cbn [fst b_last b_addr]. unfold addr_of. rewrite R, Rk. reflexivity.
  - destruct (beq_bytes i s_resolver_name) eqn:R.
    + rewrite K. cbn [b_addr]. split; [reflexivity|]. unfold binv. cbn [fst b_last b_addr]. unfold addr_of. rewrite R. reflexivity.
    + destruct (w_resolve w i) as [k|] eqn:Rk; [|split; [reflexivity|exact I]].
      cbn [b_addr]. destruct (nth_error (w_services w) k); [|split; [reflexivity|exact I]].
      split; [reflexivity|]. unfold binv. cbn [fst b_last b_addr]. unfold addr_of. rewrite R, Rk. reflexivity.
Qed.

(* C18: through the bridge the client sees, request by request, what the service each request is
   routed to answers (service-info queries: the resolver), for every request sequence, until the
   first request that cannot be routed *)
Theorem bridge_transparent w qs : key_always = true -> forall st, binv w st -> brun w st qs = direct_all w qs.
Proof.
  intros K. induction qs as [|q r IH]; intros st I; cbn [brun direct_all]; [reflexivity|].
  destruct (bstep_direct w st q K I) as [E I']. destruct (bstep w st q) as [st' o]. cbn [fst snd] in *. subst o.
  destruct (direct w q); [|reflexivity]. rewrite (IH st' I'). reflexivity.
Qed.

Lemma binv_init w : binv w (mkbs None None).
Proof. exact I. Qed.
End Bridge.

(* with the key updated only after a lookup the cache does go stale: call a, ask the resolver, call a again *)
Section Stale.
Variable w : bworld.
Variables (qa qr : request) (a : bytes) (k : nat) (svc : service).
Hypothesis Ha : target_iface (rewrite_req qa) = Some a.
Hypothesis Hr : target_iface (rewrite_req qr) = Some s_resolver_name.
Hypothesis Hne : beq_bytes a s_resolver_name = false.
Hypothesis Hk : w_resolve w a = Some k.
Hypothesis Hs : nth_error (w_services w) k = Some svc.

Lemma stale_cache_misroutes :
  brun false w (mkbs None None) [qa; qr; qa] =
  fst (serve svc (rewrite_req qa)) ++ fst (serve (w_resolver w) (rewrite_req qr)) ++ fst (serve (w_resolver w) (rewrite_req qa)) ++ [].
Proof.
  cbn [brun]. unfold bstep at 1. rewrite Ha. cbn [b_last]. rewrite Hne, Hk. cbn [b_addr]. rewrite Hs.
  unfold bstep at 1. rewrite Hr. cbn [b_last].
  destruct (beq_bytes_spec s_resolver_name a) as [E|_]; [subst a; rewrite beq_bytes_refl in Hne; discriminate|].
  rewrite beq_bytes_refl. cbn [b_addr b_last].
  unfold bstep at 1. rewrite Ha. cbn [b_last]. rewrite beq_bytes_refl. cbn [b_addr]. reflexivity.
Qed.
End Stale.

(* ---- the process's exit status: main() of varlink-cli ----
   do_main returns the command's Result; `on_err debug` is what the error block of main ends the process with on the
   --debug path and on the ordinary one (None: the block falls off its end, main returns, status 0). The term is
   regenerated from main.rs (gen/CliGen.v, main_exit_on_error); `propagates` says the call arm hands varlink_call's
   error on with `?`. *)
Definition cli_exit (on_err : bool -> option N) (propagates debug ok : bool) : N :=
  if ok then 0%N
  else if propagates then match on_err debug with Some c => c | None => 0%N end
  else 0%N.

Definition exits_nonzero (on_err : bool -> option N) : Prop := forall d, exists c, on_err d = Some c /\ c <> 0%N.

Lemma cli_exit_zero_iff on_err : exits_nonzero on_err -> forall debug ok,
  cli_exit on_err true debug ok = 0%N <-> ok = true.
Proof.
  intros H debug ok. unfold cli_exit. destruct ok; [split; reflexivity|].
  destruct (H debug) as [c [E Hc]]. rewrite E. split; [intro; contradiction | discriminate].
Qed.

(* the status does not depend on --debug *)
Lemma cli_exit_debug_irrelevant on_err : (forall d, on_err d = on_err false) -> forall p d ok,
  cli_exit on_err p d ok = cli_exit on_err p false ok.
Proof. intros H p d ok. unfold cli_exit. rewrite (H d). reflexivity. Qed.

(* what goes wrong otherwise: an error block that only exits on the ordinary path reports success for a failed --debug call *)
Example debug_path_without_exit_reports_success :
  cli_exit (fun d => if d then None else Some 1%N) true true false = 0%N.
Proof. reflexivity. Qed.
Example unpropagated_error_reports_success : cli_exit (fun _ => Some 1%N) false false false = 0%N.
Proof. reflexivity. Qed.
