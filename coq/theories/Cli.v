(* `varlink call`: splitting the URL argument, and what is printed / the exit status as a function
   of the replies the service sends.  `varlink bridge` (resolver mode): the per-request routing
   state machine and its transparency. *)
From VL Require Import Base Json Schema Wire Service.
From VLG Require Import WireGen.
Open Scope N_scope.

(* split at the last occurrence of c *)
Fixpoint rsplit_at (c : N) (s : bytes) : option (bytes * bytes) :=
  match s with
  | [] => None
  | x :: r =>
      match rsplit_at c r with
      | Some (a, b) => Some (x :: a, b)
      | None => if x =? c then Some ([], r) else None
      end
  end.

Definition contains (c : N) (s : bytes) : bool := existsb (N.eqb c) s.

Inductive target := Direct (addr method : bytes) | ViaResolver (iface method : bytes) | BadUrl.

Definition split_url (url : bytes) : target :=
  match rsplit_at 47 url with
  | Some (addr, m) => if contains 46 m then Direct addr m else BadUrl
  | None => match rsplit_at 46 url with
            | Some (i, _) => ViaResolver i url
            | None => BadUrl
            end
  end.

Lemma rsplit_at_none c s : rsplit_at c s = None <-> ~ In c s.
Proof.
  induction s as [|x s IH]; simpl; [tauto|].
  destruct (rsplit_at c s) as [[a b]|] eqn:E.
  - split; [discriminate|]. intros H. exfalso.
    assert (X : ~ In c s) by (intros Hi; apply H; right; exact Hi).
    apply IH in X. discriminate.
  - destruct (N.eqb_spec x c).
    + split; [discriminate|]. intros H. exfalso. apply H. left. assumption.
    + split; [|reflexivity]. intros _ [H|H]; [congruence|]. apply (proj1 IH eq_refl). exact H.
Qed.

Lemma rsplit_at_app c a m : ~ In c m -> rsplit_at c (a ++ c :: m) = Some (a, m).
Proof.
  intros Hn. induction a as [|x a IH]; simpl.
  - rewrite (proj2 (rsplit_at_none c m) Hn). rewrite N.eqb_refl. reflexivity.
  - rewrite IH. reflexivity.
Qed.

(* every address form works: the URL is split at the LAST slash *)
Theorem split_url_direct addr m : ~ In 47 m -> contains 46 m = true ->
  split_url (addr ++ 47 :: m) = Direct addr m.
Proof. intros Hs Hd. unfold split_url. rewrite (rsplit_at_app 47 addr m Hs), Hd. reflexivity. Qed.

Theorem split_url_resolver i m : ~ In 47 (i ++ 46 :: m) -> ~ In 46 m ->
  split_url (i ++ 46 :: m) = ViaResolver i (i ++ 46 :: m).
Proof.
  intros Hs Hd. unfold split_url. rewrite (proj2 (rsplit_at_none 47 _) Hs), (rsplit_at_app 46 i m Hd). reflexivity.
Qed.

(* ---- what `varlink call` prints and returns ---- *)
Definition printed_of (y : reply) : json := match y_params y with Some p => p | None => JObj [] end.
Definition is_err (y : reply) : bool := match y_error y with Some _ => true | None => false end.
Definition continues (y : reply) : bool := match y_continues y with Some true => true | _ => false end.

(* replies in arrival order; the end of the list is the connection closing *)
Fixpoint more_outcome (l : list reply) : list json * bool :=
  match l with
  | [] => ([], false)
  | y :: r =>
      if is_err y then ([], false)
      else if continues y then let '(p, ok) := more_outcome r in (printed_of y :: p, ok)
      else ([printed_of y], true)
  end.

Definition call_outcome (more : bool) (l : list reply) : list json * bool :=
  if more then more_outcome l
  else match l with
       | [] => ([], false)
       | y :: _ => if is_err y then ([], false) else ([printed_of y], true)
       end.

(* exit status 0 exactly when the stream is continues-replies followed by a non-error final reply *)
Theorem more_exit_zero_iff l : snd (more_outcome l) = true <->
  exists cs f rest, l = cs ++ f :: rest /\ Forall (fun y => is_err y = false /\ continues y = true) cs /\
                    is_err f = false /\ continues f = false.
Proof.
  induction l as [|y r IH]; simpl.
  - split; [discriminate|]. intros (cs & f & rest & E & _). destruct cs; discriminate.
  - destruct (is_err y) eqn:Ey; simpl.
    + split; [discriminate|]. intros (cs & f & rest & E & Hc & Hf1 & Hf2).
      destruct cs as [|c cs]; simpl in E; inversion E; subst; [congruence|]. inversion Hc as [|? ? [H1 _] _]; subst. congruence.
    + destruct (continues y) eqn:Cy.
      * destruct (more_outcome r) as [p ok] eqn:M. simpl in *. rewrite IH. split.
        -- intros (cs & f & rest & -> & Hc & Hf). exists (y :: cs), f, rest. split; [reflexivity|]. split; [constructor; auto|exact Hf].
        -- intros (cs & f & rest & E & Hc & Hf1 & Hf2). destruct cs as [|c cs]; simpl in E; inversion E; subst; [congruence|].
           inversion Hc; subst. exists cs, f, rest. auto.
      * simpl. split; [|reflexivity]. intros _. exists [], y, r. repeat split; auto.
Qed.

(* the printed values are exactly the parameters of the successful replies, in order, up to and
   including the final one (absent parameters print as the empty object) *)
Theorem more_printed l cs f rest : l = cs ++ f :: rest ->
  Forall (fun y => is_err y = false /\ continues y = true) cs -> is_err f = false -> continues f = false ->
  fst (more_outcome l) = map printed_of (cs ++ [f]).
Proof.
  intros -> Hc Hf1 Hf2. induction Hc as [|c cs [H1 H2] Hc IH]; simpl.
  - rewrite Hf1, Hf2. reflexivity.
  - rewrite H1, H2. destruct (more_outcome (cs ++ f :: rest)) as [p ok]. simpl in *. rewrite IH. reflexivity.
Qed.

Theorem error_stops_printing cs e rest :
  Forall (fun y => is_err y = false /\ continues y = true) cs -> is_err e = true ->
  more_outcome (cs ++ e :: rest) = (map printed_of cs, false).
Proof.
  intros Hc He. induction Hc as [|c cs [H1 H2] Hc IH]; simpl.
  - rewrite He. reflexivity.
  - rewrite H1, H2, IH. reflexivity.
Qed.

(* ---- the bridge in resolver mode ---- *)
Record bworld := mkworld {
  w_resolve : bytes -> option nat;              (* the resolver's table: interface -> service index *)
  w_services : list service;
  w_resolver : service }.                       (* the resolver itself (answers service-info queries) *)

Record bstate := mkbs { b_last : option bytes; b_target : option nat }.

Definition target_iface (q : request) : option bytes :=
  if beq_bytes (r_method q) m_getdescr then
    match r_params q with
    | Some (JObj m) => match obj_get p_unknown_iface m with Some (JStr i) => Some i | _ => None end
    | _ => None
    end
  else match rsplit_dot (r_method q) with Some (i, _) => Some i | None => None end.

Definition s_resolver_getinfo : bytes :=
  [111;114;103;46;118;97;114;108;105;110;107;46;114;101;115;111;108;118;101;114;46;71;101;116;73;110;102;111].
Definition s_resolver_name : bytes := [111;114;103;46;118;97;114;108;105;110;107;46;114;101;115;111;108;118;101;114].

Definition rewrite_req (q : request) : request :=
  if beq_bytes (r_method q) m_getinfo then mkreq (r_more q) (r_oneway q) (r_upgrade q) s_resolver_getinfo (r_params q) else q.

(* what the service a request is routed to answers *)
Definition direct (w : bworld) (q : request) : option bytes :=
  let q' := rewrite_req q in
  match target_iface q' with
  | None => None
  | Some i =>
      if beq_bytes i s_resolver_name then Some (fst (serve (w_resolver w) q'))
      else match w_resolve w i with
           | Some k => match nth_error (w_services w) k with
                       | Some svc => Some (fst (serve svc q'))
                       | None => None
                       end
           | None => None
           end
  end.

(* the bridge's step: it resolves only when the interface differs from the previous request's *)
Definition bstep (w : bworld) (st : bstate) (q : request) : bstate * option bytes :=
  let q' := rewrite_req q in
  match target_iface q' with
  | None => (st, None)
  | Some i =>
      if beq_bytes i s_resolver_name then (mkbs (Some i) (b_target st), Some (fst (serve (w_resolver w) q')))
      else
        let tgt := match b_last st with
                   | Some l => if beq_bytes i l then b_target st else w_resolve w i
                   | None => w_resolve w i
                   end in
        match tgt with
        | Some k => match nth_error (w_services w) k with
                    | Some svc => (mkbs (Some i) (Some k), Some (fst (serve svc q')))
                    | None => (st, None)
                    end
        | None => (st, None)
        end
  end.

Fixpoint brun (w : bworld) (st : bstate) (qs : list request) : bytes :=
  match qs with
  | [] => []
  | q :: r => match bstep w st q with
              | (st', Some o) => o ++ brun w st' r
              | (_, None) => []
              end
  end.

Fixpoint direct_all (w : bworld) (qs : list request) : bytes :=
  match qs with
  | [] => []
  | q :: r => match direct w q with Some o => o ++ direct_all w r | None => [] end
  end.

(* the cache never goes stale: the remembered target is what the resolver says for the remembered
   interface *)
Definition binv (w : bworld) (st : bstate) : Prop :=
  match b_last st with
  | Some l => beq_bytes l s_resolver_name = true \/ b_target st = w_resolve w l
  | None => True
  end.

Lemma bstep_direct w st q : binv w st ->
  snd (bstep w st q) = direct w q /\ binv w (fst (bstep w st q)).
Proof.
  intros I. unfold bstep, direct. destruct (target_iface (rewrite_req q)) as [i|]; [|split; [reflexivity|exact I]].
  destruct (beq_bytes i s_resolver_name) eqn:R.
  - simpl. split; [reflexivity|]. unfold binv. simpl. left. exact R.
  - assert (T : (match b_last st with
                 | Some l => if beq_bytes i l then b_target st else w_resolve w i
                 | None => w_resolve w i end) = w_resolve w i).
    { unfold binv in I. destruct (b_last st) as [l|]; [|reflexivity].
      destruct (beq_bytes_spec i l) as [->|]; [|reflexivity].
      destruct I as [I|I]; [congruence|exact I]. }
    rewrite T. destruct (w_resolve w i) as [k|] eqn:Rk; [|split; [reflexivity|exact I]].
    destruct (nth_error (w_services w) k) as [svc|]; [|split; [reflexivity|exact I]].
    simpl. split; [reflexivity|]. unfold binv. simpl. right. symmetry. exact Rk.
Qed.

(* C18: through the bridge the client sees, request by request, what the service each request is
   routed to answers (service-info queries: the resolver), for every request sequence, until the
   first request that cannot be routed *)
Theorem bridge_transparent w qs : forall st, binv w st -> brun w st qs = direct_all w qs.
Proof.
  induction qs as [|q r IH]; intros st I; simpl; [reflexivity|].
  destruct (bstep_direct w st q I) as [E I']. destruct (bstep w st q) as [st' o]. simpl in *. subst o.
  destruct (direct w q); [|reflexivity]. rewrite (IH st' I'). reflexivity.
Qed.

Lemma binv_init w : binv w (mkbs None None).
Proof. exact I. Qed.
