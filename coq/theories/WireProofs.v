(* Round-trip theorems for the wire types (C17). *)
From VL Require Import Base Json JsonProofs Schema Wire WireSet WireFacts.
From VLG Require Import WireGen SetGen.
Open Scope N_scope.

(* ---------------- string sets ---------------- *)

Lemma set_shape keys k : In k keys -> In (k, JObj []) (match set_ser keys with JObj m => m | _ => [] end).
Proof. intros H. cbn. apply (in_map (fun k => (k, JObj []))) in H. exact H. Qed.

Lemma set_only_empty_objects keys k v :
  In (k, v) (match set_ser keys with JObj m => m | _ => [] end) -> v = JObj [] /\ In k keys.
Proof. cbn. rewrite in_map_iff. intros (x & E & H). inversion E; subst. auto. Qed.

Theorem set_value_roundtrip keys : set_de_value (set_ser keys) = Some keys.
Proof. cbn. rewrite map_map. cbn. rewrite map_id. reflexivity. Qed.

Definition keys_ok (keys : list bytes) : Prop := Forall (fun k => utf8_valid k = true) keys.

Lemma lenient_empty_object rest f : (2 <= f)%nat -> parse_val f false 0 (123 :: 125 :: rest) = Ok (JObj [], rest).
Proof. intros H. destruct f as [|f]; [lia|]. reflexivity. Qed.

Lemma set_keys_text_roundtrip keys : keys <> [] -> keys_ok keys ->
  forall f rest acc, (length keys <= f)%nat ->
  set_keys_text f true (print_members print (map (fun k => (k, JObj [])) keys) ++ 125 :: rest) acc
  = Ok (rev acc ++ keys, rest).
Proof.
  induction keys as [|k r IH]; intros Hne Hk f rest acc Hf; [congruence|].
  inversion Hk as [|? ? Uk Hr]; subst. destruct f as [|f]; [cbn in Hf; lia|].
  cbn [set_keys_text]. destruct r as [|k2 r'].
  - cbn [map print_members]. rewrite print_str_shape. cbn [app]. rewrite <- !app_assoc. cbn [app].
    rewrite skip_ws_head by (unfold head_ok; tauto).
    rewrite (parse_string_roundtrip k _ Uk). cbn [rbind skip_ws]. change (is_ws 58) with false. cbv iota.
    cbn [print print_members app]. rewrite lenient_empty_object by (unfold val_fuel; cbn [length]; lia).
    cbn [rbind skip_ws]. change (is_ws 125) with false. cbv iota. cbn [rev]. reflexivity.
  - change (print_members print (map (fun k => (k, JObj [])) (k :: k2 :: r'))) with
      (print_str k ++ 58 :: print (JObj []) ++ 44 :: print_members print (map (fun k => (k, JObj [])) (k2 :: r'))).
    rewrite print_str_shape. cbn [app]. rewrite <- !app_assoc. cbn [app]. rewrite <- !app_assoc. cbn [app].
    rewrite skip_ws_head by (unfold head_ok; tauto).
    rewrite (parse_string_roundtrip k _ Uk). cbn [rbind skip_ws]. change (is_ws 58) with false. cbv iota.
    cbn [print print_members app]. rewrite lenient_empty_object by (unfold val_fuel; cbn [length]; lia).
    cbn [rbind skip_ws]. change (is_ws 44) with false. cbv iota.
    rewrite (IH ltac:(discriminate) Hr f rest (k :: acc)) by (cbn [length] in Hf |- *; lia).
    cbn [rev]. rewrite <- app_assoc. reflexivity.
Qed.

(* a set written as text is read back: for every set of valid strings *)
Theorem set_text_roundtrip keys : keys_ok keys ->
  set_de_text true (print (set_ser keys)) = Ok keys.
Proof.
  intros Hk. unfold set_de_text, set_ser. cbn [print]. cbn [app skip_ws]. change (is_ws 123) with false. cbv iota.
  destruct keys as [|k r].
  - cbn [map print_members app skip_ws]. change (is_ws 125) with false. cbv iota. reflexivity.
  - assert (Hs : exists t, skip_ws (print_members print (map (fun k => (k, JObj [])) (k :: r)) ++ [125]) = 34 :: t).
    { destruct r as [|k2 r']; [cbn [map print_members]|
        change (print_members print (map (fun k => (k, JObj [])) (k :: k2 :: r'))) with
          (print_str k ++ 58 :: print (JObj []) ++ 44 :: print_members print (map (fun k => (k, JObj [])) (k2 :: r')))];
        rewrite print_str_shape; cbn [app]; rewrite skip_ws_head by (unfold head_ok; tauto); eexists; reflexivity. }
    destruct Hs as (t & Es). rewrite Es.
    rewrite (set_keys_text_roundtrip (k :: r) ltac:(discriminate) Hk _ [] []).
    + reflexivity.
    + rewrite app_length. cbn [length].
      assert (H : (length (k :: r) <= length (print_members print (map (fun k => (k, JObj [])) (k :: r))))%nat).
      { clear. generalize (k :: r). intros l. induction l as [|x l IH]; [cbn; lia|].
        destruct l as [|y l'].
        - cbn [map print_members length]. rewrite app_length. cbn. lia.
        - change (print_members print (map (fun k => (k, JObj [])) (x :: y :: l'))) with
            (print_str x ++ 58 :: print (JObj []) ++ 44 :: print_members print (map (fun k => (k, JObj [])) (y :: l'))).
          rewrite app_length. cbn [length print print_members app]. cbn [length] in IH |- *. lia. }
      cbn [length] in H. lia.
Qed.

(* instantiated at what the source's visitor does *)
Lemma visitor_consumes : set_visitor_consumes_value = true.
Proof. vm_compute. reflexivity. Qed.

Theorem set_text_roundtrip_src keys : keys_ok keys ->
  set_de_text set_visitor_consumes_value (print (set_ser keys)) = Ok keys.
Proof. rewrite visitor_consumes. apply set_text_roundtrip. Qed.

(* the visitor that does not consume the value (the pinned tree's) rejects every non-empty set *)
Theorem set_text_refuted_v0 : exists keys, keys_ok keys /\ set_de_text false (print (set_ser keys)) = Err.
Proof. exists [[97]]. split; [repeat constructor|vm_compute; reflexivity]. Qed.

(* ---------------- structs: Serialize then Deserialize from a Value ---------------- *)

Fixpoint names_distinct (sch : schema) : bool :=
  match sch with
  | [] => true
  | f :: r => negb (existsb (fun g => beq_bytes (f_name f) (f_name g)) r) && names_distinct r
  end.

(* the one value class that does not survive: Some(Value::Null) in an Option<Value> member
   (serde reads a null member of type Option<_> as None).  Every other value must be a
   normalised Value. *)
Definition fval_rt_ok (v : fval) : Prop :=
  match v with
  | VOptValue (Some j) => j <> JNull /\ norm j = j
  | _ => True
  end.

Lemma all_strs_map l : all_strs (map JStr l) = Some l.
Proof. induction l as [|x l IH]; cbn; [reflexivity|]. rewrite IH. reflexivity. Qed.

Lemma typed_fval_json k v : fval_kind_ok k v = true -> fval_rt_ok v -> typed k (fval_json v) = Some v.
Proof.
  destruct k, v as [[b|]|[s|]|s|[j|]|l]; cbn; intros H R; try discriminate; try reflexivity.
  - destruct R as [Hn Hnorm]. destruct j; try congruence; rewrite ?Hnorm; try reflexivity.
  - rewrite all_strs_map. reflexivity.
Qed.

Lemma missing_none k v : fval_kind_ok k v = true -> fval_is_none v = true -> missing k = Some v.
Proof. destruct k, v as [[b|]|[s|]|s|[j|]|l]; cbn; intros; try discriminate; reflexivity. Qed.

Lemma obj_get_not_in k m : (forall v, ~ In (k, v) m) -> obj_get k m = None.
Proof.
  induction m as [|[k' v'] m IH]; intros H; cbn; [reflexivity|].
  destruct (beq_bytes_spec k k') as [->|Hne]; [exfalso; apply (H v'); left; reflexivity|].
  apply IH. intros v Hin. apply (H v). right. exact Hin.
Qed.

Lemma ser_members_keys sch r k v : In (k, v) (ser_members sch r) -> exists f, In f sch /\ f_name f = k.
Proof.
  revert r. induction sch as [|f sch IH]; intros [|x r]; cbn; try tauto.
  destruct (f_skip f && fval_is_none x).
  - intros H. destruct (IH r H) as (g & Hg & E). exists g. auto.
  - intros [H|H]; [inversion H; subst; exists f; auto|].
    destruct (IH r H) as (g & Hg & E). exists g. auto.
Qed.

(* Deserialize(Serialize(v)) = v through an in-memory Value: for every schema with distinct
   member names, every record of the right shape outside the Some(null) class *)
Theorem de_value_ser sch : names_distinct sch = true -> forall r, record_ok sch r = true ->
  Forall fval_rt_ok r -> forall pre, (forall f, In f sch -> forall v, ~ In (f_name f, v) pre) ->
  de_fields_obj sch (pre ++ ser_members sch r) = Some r.
Proof.
  induction sch as [|f sch IH]; intros ND [|x r] Hok HR pre Hpre; cbn in Hok; try discriminate.
  - reflexivity.
  - cbn [names_distinct] in ND. apply andb_true_iff in ND. destruct ND as [ND1 ND].
    apply andb_true_iff in Hok. destruct Hok as [Hk Hok]. inversion HR as [|? ? Rx Rr]; subst.
    assert (Hfresh : forall v, ~ In (f_name f, v) (ser_members sch r)).
    { intros v Hin. destruct (ser_members_keys _ _ _ _ Hin) as (g & Hg & E).
      apply negb_true_iff in ND1. assert (X : existsb (fun g => beq_bytes (f_name f) (f_name g)) sch = true).
      { apply existsb_exists. exists g. split; [exact Hg|]. rewrite E. apply beq_bytes_refl. }
      congruence. }
    cbn [de_fields_obj ser_members].
    assert (Hget : forall l, (forall v, ~ In (f_name f, v) l) -> forall v t, obj_get (f_name f) (l ++ (f_name f, v) :: t) = Some v).
    { induction l as [|[k' v'] l IHl]; intros Hl v t; cbn.
      - rewrite beq_bytes_refl. reflexivity.
      - destruct (beq_bytes_spec (f_name f) k') as [E|_]; [exfalso; apply (Hl v'); left; rewrite E; reflexivity|].
        apply IHl. intros v0 H0. apply (Hl v0). right. exact H0. }
    destruct (f_skip f && fval_is_none x) eqn:Sk.
    + apply andb_true_iff in Sk. destruct Sk as [_ Hn].
      rewrite obj_get_not_in.
      2:{ intros v Hin. apply in_app_or in Hin. destruct Hin as [Hin|Hin];
            [exact (Hpre f (or_introl eq_refl) v Hin)|exact (Hfresh v Hin)]. }
      rewrite (missing_none _ _ Hk Hn).
      rewrite (IH ND r Hok Rr pre); [reflexivity|]. intros g Hg. apply Hpre. right. exact Hg.
    + rewrite (Hget pre (Hpre f (or_introl eq_refl))). rewrite (typed_fval_json _ _ Hk Rx).
      replace (pre ++ (f_name f, fval_json x) :: ser_members sch r) with ((pre ++ [(f_name f, fval_json x)]) ++ ser_members sch r)
        by (rewrite <- app_assoc; reflexivity).
      rewrite (IH ND r Hok Rr (pre ++ [(f_name f, fval_json x)])); [reflexivity|].
      intros g Hg v Hin. apply in_app_or in Hin. destruct Hin as [Hin|[Hin|[]]].
      * exact (Hpre g (or_intror Hg) v Hin).
      * inversion Hin; subst. apply negb_true_iff in ND1.
        assert (X : existsb (fun g => beq_bytes (f_name f) (f_name g)) sch = true).
        { apply existsb_exists. exists g. split; [exact Hg|]. rewrite H0. apply beq_bytes_refl. }
        congruence.
Qed.

Corollary de_value_ser_top sch r : names_distinct sch = true -> record_ok sch r = true ->
  Forall fval_rt_ok r -> de_value sch (ser sch r) = Some r.
Proof. intros ND Hok HR. unfold de_value, ser. apply (de_value_ser sch ND r Hok HR []). intros f _ v []. Qed.

(* unset optional members with skip_serializing_if are omitted from the output *)
Theorem skipped_when_none sch r f v : names_distinct sch = true ->
  In (f, v) (combine sch r) -> f_skip f = true -> fval_is_none v = true ->
  forall j, ~ In (f_name f, j) (ser_members sch r).
Proof.
  revert r. induction sch as [|g sch IH]; intros [|x r] ND Hin Hs Hn j; cbn in Hin; try tauto.
  cbn [names_distinct] in ND. apply andb_true_iff in ND. destruct ND as [ND1 ND].
  cbn [ser_members]. destruct Hin as [E|Hin].
  - inversion E; subst. rewrite Hs, Hn. cbn [andb]. intros H.
    destruct (ser_members_keys _ _ _ _ H) as (h & Hh & Eh). apply negb_true_iff in ND1.
    assert (X : existsb (fun g => beq_bytes (f_name f) (f_name g)) sch = true).
    { apply existsb_exists. exists h. split; [exact Hh|]. rewrite Eh. apply beq_bytes_refl. }
    congruence.
  - assert (Hfs : In f sch) by (apply in_combine_l in Hin; exact Hin).
    destruct (f_skip g && fval_is_none x).
    + apply IH; auto.
    + intros [H|H]; [|revert H; apply IH; auto]. inversion H; subst. apply negb_true_iff in ND1.
      assert (X : existsb (fun h => beq_bytes (f_name g) (f_name h)) sch = true).
      { apply existsb_exists. exists f. split; [exact Hfs|]. rewrite H1. apply beq_bytes_refl. }
      congruence.
Qed.

(* instantiated at the regenerated schemas *)
Lemma request_names_distinct : names_distinct schema_Request = true. Proof. vm_compute. reflexivity. Qed.
Lemma reply_names_distinct : names_distinct schema_Reply = true. Proof. vm_compute. reflexivity. Qed.
Lemma info_names_distinct : names_distinct schema_ServiceInfo = true. Proof. vm_compute. reflexivity. Qed.

Theorem request_value_roundtrip r : record_ok schema_Request r = true -> Forall fval_rt_ok r ->
  de_value schema_Request (ser schema_Request r) = Some r.
Proof. apply de_value_ser_top. exact request_names_distinct. Qed.
Theorem reply_value_roundtrip r : record_ok schema_Reply r = true -> Forall fval_rt_ok r ->
  de_value schema_Reply (ser schema_Reply r) = Some r.
Proof. apply de_value_ser_top. exact reply_names_distinct. Qed.
Theorem info_value_roundtrip r : record_ok schema_ServiceInfo r = true -> Forall fval_rt_ok r ->
  de_value schema_ServiceInfo (ser schema_ServiceInfo r) = Some r.
Proof. apply de_value_ser_top. exact info_names_distinct. Qed.

(* the excluded class is real: Some(null) comes back as None *)
Theorem some_null_is_lost :
  exists r, record_ok schema_Request r = true /\
            de_value schema_Request (ser schema_Request r) <> Some r.
Proof.
  exists (record_of_request (mkreq None None None [97; 46; 98] (Some JNull))).
  split; [vm_compute; reflexivity|vm_compute; discriminate].
Qed.
