(* The naming scheme of the generator model (Gen.v) is injective under syntactic conditions.

   PROVED in this file (everything below is fully proved):
     (1) split_us_join       : split_us (join cs) = cs for a non-empty list cs of underscore-free components
                               (join_inj, sfx_inj: injectivity of the naming on such lists)
     (2) rust_ty_names       : the names emitted by one [rust_ty name t] are [name ++ sfx p] for the paths p of the
                               anonymous types inside t (top_fields_names for Args / Reply / error parameters)
         rust_ty_names_nodup : under condition (b) [fields_ok t] they are pairwise distinct, for ANY name
     (3) emitted_names_nodup : forall i, cond i -> NoDup (emitted_type_names i)                    (the full theorem)
         emitted_names_no_dup_class : cond i -> has_dup (emitted_type_names i) = false             (Gen.v's check)
         error_anon_duplicates      : the class excluded by (c) does produce a duplicate (computed example)
   MISSING: nothing from the task.  Difference from the task text: condition (b) as stated there also asks the
   field names to be non-empty; that part turned out not to be needed and is NOT part of [cond] (the theorem
   is the stronger for it).  For error members only condition (c) is required (their parameter types emit
   nothing, so their field names do not matter). *)
From Coq Require Import List NArith Lia Bool Arith Permutation.
From VL Require Import Idl Gen.
Import ListNotations.
Open Scope N_scope.

(* ------------------------------------------------------------------ *)
(* small list facts                                                    *)

Lemma NoDup_app_intro {A} (l1 l2 : list A) :
  NoDup l1 -> NoDup l2 -> (forall x, In x l1 -> In x l2 -> False) -> NoDup (l1 ++ l2).
Proof.
  induction l1 as [|a l1 IH]; intros H1 H2 HD; [exact H2|].
  inversion H1; subst. cbn [app]. constructor.
  - rewrite in_app_iff. intros [H|H]; [contradiction|]. apply (HD a); [left; reflexivity|exact H].
  - apply IH; [assumption|assumption|]. intros x Hx. apply HD. right. exact Hx.
Qed.

Lemma NoDup_map_in {A B} (f : A -> B) (l : list A) :
  (forall x y, In x l -> In y l -> f x = f y -> x = y) -> NoDup l -> NoDup (map f l).
Proof.
  induction l as [|a l IH]; intros Hinj ND; [constructor|].
  inversion ND; subst. cbn [map]. constructor.
  - intros H. apply in_map_iff in H. destruct H as (y & E & Hy).
    assert (y = a) by (apply Hinj; [right; exact Hy|left; reflexivity|exact E]). subst. contradiction.
  - apply IH; [|assumption]. intros x y Hx Hy. apply Hinj; right; assumption.
Qed.

(* blocks indexed by pairwise distinct keys, every element of a block carries the key of its block *)
Lemma NoDup_flat_map_key {A B K} (key : B -> K) (kf : A -> K) (g : A -> list B) (l : list A) :
  NoDup (map kf l) ->
  (forall x, In x l -> NoDup (g x)) ->
  (forall x b, In x l -> In b (g x) -> key b = kf x) ->
  NoDup (flat_map g l).
Proof.
  induction l as [|a l IH]; intros ND HB HK; [constructor|].
  cbn [map] in ND. inversion ND; subst. cbn [flat_map]. apply NoDup_app_intro.
  - apply HB. left. reflexivity.
  - apply IH; [assumption| |]; intros; [apply HB|apply HK]; try right; assumption.
  - intros b Hb1 Hb2. apply in_flat_map in Hb2. destruct Hb2 as (x & Hx & Hb2).
    apply H1. rewrite <- (HK a b) by (try left; auto). rewrite (HK x b) by (try right; auto).
    apply in_map. exact Hx.
Qed.

Lemma flat_map_nil {A B} (g : A -> list B) (l : list A) : (forall x, In x l -> g x = []) -> flat_map g l = [].
Proof.
  induction l as [|a l IH]; intros H; [reflexivity|].
  cbn [flat_map]. rewrite (H a) by (left; reflexivity). apply IH. intros x Hx. apply H. right. exact Hx.
Qed.

Lemma map_flat_map_ext {A B C D} (f : B -> D) (h : C -> D) (g : A -> list B) (k : A -> list C) (l : list A) :
  (forall x, In x l -> map f (g x) = map h (k x)) -> map f (flat_map g l) = map h (flat_map k l).
Proof.
  induction l as [|a l IH]; intros H; [reflexivity|].
  cbn [flat_map]. rewrite !map_app, (H a) by (left; reflexivity). f_equal. apply IH.
  intros x Hx. apply H. right. exact Hx.
Qed.

(* ------------------------------------------------------------------ *)
(* (1) joining underscore-free components with underscores is injective *)

Definition no_us (s : str) : Prop := ~ In 95 s.

(* the suffix _c1_c2... *)
Definition sfx (p : list str) : str := flat_map (fun f => 95 :: f) p.
(* c0_c1_c2... *)
Definition join (cs : list str) : str := match cs with [] => [] | c :: r => c ++ sfx r end.

Fixpoint split_us (s : str) : list str :=
  match s with
  | [] => [[]]
  | c :: r => if c =? 95 then [] :: split_us r
              else match split_us r with [] => [[c]] | h :: t => (c :: h) :: t end
  end.

Lemma split_us_nonnil s : split_us s <> [].
Proof.
  destruct s as [|c r]; cbn [split_us]; [discriminate|].
  destruct (c =? 95); [discriminate|]. destruct (split_us r); discriminate.
Qed.

Lemma split_us_prefix c : no_us c -> forall rest,
  split_us (c ++ rest) = (c ++ hd [] (split_us rest)) :: tl (split_us rest).
Proof.
  induction c as [|x c IH]; intros Hc rest.
  - cbn [app]. pose proof (split_us_nonnil rest). destruct (split_us rest); [congruence|reflexivity].
  - cbn [app split_us]. destruct (N.eqb_spec x 95) as [->|_].
    + exfalso. apply Hc. left. reflexivity.
    + rewrite IH; [reflexivity|]. intros H. apply Hc. right. exact H.
Qed.

Lemma split_us_sfx : forall r, Forall no_us r -> split_us (sfx r) = [] :: r.
Proof.
  induction 1 as [|f r Hf _ IH]; [reflexivity|].
  change (sfx (f :: r)) with (95 :: f ++ sfx r). cbn [split_us]. rewrite N.eqb_refl.
  rewrite (split_us_prefix f Hf), IH. cbn [hd tl]. rewrite app_nil_r. reflexivity.
Qed.

Theorem split_us_join : forall cs, cs <> [] -> Forall no_us cs -> split_us (join cs) = cs.
Proof.
  intros [|c r] Hne H; [congruence|]. inversion H; subst. cbn [join].
  rewrite (split_us_prefix c H2), (split_us_sfx r H3). cbn [hd tl]. rewrite app_nil_r. reflexivity.
Qed.

Definition good (cs : list str) : Prop := cs <> [] /\ Forall no_us cs.

Corollary join_inj cs ds : good cs -> good ds -> join cs = join ds -> cs = ds.
Proof.
  intros [H1 H2] [H3 H4] E. rewrite <- (split_us_join cs H1 H2), <- (split_us_join ds H3 H4), E. reflexivity.
Qed.

Corollary sfx_inj p q : Forall no_us p -> Forall no_us q -> sfx p = sfx q -> p = q.
Proof.
  intros Hp Hq E. assert (G : [] :: p = [] :: q) by (rewrite <- (split_us_sfx p Hp), <- (split_us_sfx q Hq), E; reflexivity).
  inversion G. reflexivity.
Qed.

(* ------------------------------------------------------------------ *)
(* induction over types, through the field lists                       *)

Fixpoint vtype_ind' (P : vtype -> Prop)
  (Hb : P TBool) (Hi : P TInt) (Hf : P TFloat) (Hs : P TString) (Ho : P TObject)
  (Hn : forall n, P (TName n))
  (Hst : forall fs, Forall (fun ft => P (snd ft)) fs -> P (TStruct fs))
  (He : forall es, P (TEnum es))
  (Ha : forall t, P t -> P (TArr t)) (Hd : forall t, P t -> P (TDict t)) (Hop : forall t, P t -> P (TOpt t))
  (t : vtype) {struct t} : P t :=
  match t with
  | TBool => Hb | TInt => Hi | TFloat => Hf | TString => Hs | TObject => Ho
  | TName n => Hn n
  | TStruct fs =>
      Hst fs ((fix go (fs : list (str * vtype)) : Forall (fun ft => P (snd ft)) fs :=
                 match fs with
                 | [] => Forall_nil _
                 | ft :: r => Forall_cons ft (vtype_ind' P Hb Hi Hf Hs Ho Hn Hst He Ha Hd Hop (snd ft)) (go r)
                 end) fs)
  | TEnum es => He es
  | TArr t' => Ha t' (vtype_ind' P Hb Hi Hf Hs Ho Hn Hst He Ha Hd Hop t')
  | TDict t' => Hd t' (vtype_ind' P Hb Hi Hf Hs Ho Hn Hst He Ha Hd Hop t')
  | TOpt t' => Hop t' (vtype_ind' P Hb Hi Hf Hs Ho Hn Hst He Ha Hd Hop t')
  end.

(* ------------------------------------------------------------------ *)
(* (2) the names emitted by one rust_ty                                *)

Definition is_unit_struct (t : vtype) : bool := match t with TStruct [] => true | _ => false end.

(* the paths (field names from the root) of the anonymous structs / enums inside t, in emission order *)
Fixpoint paths (t : vtype) : list (list str) :=
  match t with
  | TStruct fs =>
      (fix go (fs : list (str * vtype)) : list (list str) :=
         match fs with [] => [] | (f, ft) :: r => map (cons f) (paths ft) ++ go r end) fs ++ [[]]
  | TEnum _ => [[]]
  | TArr t' | TOpt t' => paths t'
  | TDict t' => if is_unit_struct t' then [] else paths t'
  | _ => []
  end.

Definition fpaths : list (str * vtype) -> list (list str) :=
  fix go (fs : list (str * vtype)) : list (list str) :=
    match fs with [] => [] | (f, ft) :: r => map (cons f) (paths ft) ++ go r end.

Lemma paths_struct fs : paths (TStruct fs) = fpaths fs ++ [[]].
Proof. reflexivity. Qed.
Lemma fpaths_cons f ft r : fpaths ((f, ft) :: r) = map (cons f) (paths ft) ++ fpaths r.
Proof. reflexivity. Qed.

Definition rust_fields (name : str) : list (str * vtype) -> list (str * rty * bool) * list (str * tydef) :=
  fix go (fs : list (str * vtype)) : list (str * rty * bool) * list (str * tydef) :=
    match fs with
    | [] => ([], [])
    | (f, ft) :: rest =>
        let '(ty, d1) := rust_ty (name ++ us ++ f) ft in
        let '(fl, d2) := go rest in
        ((f, ty, false) :: fl, d1 ++ d2)
    end.

Lemma rust_ty_struct name fs :
  rust_ty name (TStruct fs) =
  (RNamed name, snd (rust_fields name fs) ++ [(name, DStruct (fst (rust_fields name fs)))]).
Proof. reflexivity. Qed.

Lemma rust_fields_snd_cons name f ft rest :
  snd (rust_fields name ((f, ft) :: rest)) = snd (rust_ty (name ++ us ++ f) ft) ++ snd (rust_fields name rest).
Proof.
  change (rust_fields name ((f, ft) :: rest))
    with (let '(ty, d1) := rust_ty (name ++ us ++ f) ft in
          let '(fl, d2) := rust_fields name rest in ((f, ty, false) :: fl, d1 ++ d2)).
  destruct (rust_ty (name ++ us ++ f) ft), (rust_fields name rest). reflexivity.
Qed.

Lemma top_fields_snd_cons name f ft rest :
  snd (top_fields name ((f, ft) :: rest)) = snd (rust_ty (name ++ us ++ f) ft) ++ snd (top_fields name rest).
Proof.
  change (top_fields name ((f, ft) :: rest))
    with (let '(ty, d1) := rust_ty (name ++ us ++ f) ft in
          let '(fl, d2) := top_fields name rest in ((f, ty, is_opt ft) :: fl, d1 ++ d2)).
  destruct (rust_ty (name ++ us ++ f) ft), (top_fields name rest). reflexivity.
Qed.

Lemma rust_ty_arr_snd name t : snd (rust_ty name (TArr t)) = snd (rust_ty name t).
Proof.
  change (rust_ty name (TArr t)) with (let '(ty, d) := rust_ty name t in (RVec ty, d)).
  destruct (rust_ty name t). reflexivity.
Qed.

Lemma rust_ty_opt_snd name t : snd (rust_ty name (TOpt t)) = snd (rust_ty name t).
Proof.
  change (rust_ty name (TOpt t)) with (let '(ty, d) := rust_ty name t in (ROpt ty, d)).
  destruct (rust_ty name t). reflexivity.
Qed.

Lemma rust_ty_dict_snd name t :
  snd (rust_ty name (TDict t)) = if is_unit_struct t then [] else snd (rust_ty name t).
Proof.
  assert (G : is_unit_struct t = false ->
              rust_ty name (TDict t) = (let '(ty, d) := rust_ty name t in (RMap ty, d))).
  { intros H. destruct t as [| | | | | n | [|ft fs] | es | t' | t' | t']; try reflexivity. discriminate. }
  destruct (is_unit_struct t) eqn:E.
  - destruct t as [| | | | | n | [|ft fs] | es | t' | t' | t']; try discriminate. reflexivity.
  - rewrite (G eq_refl). destruct (rust_ty name t). reflexivity.
Qed.

Lemma name_field_sfx name f p : (name ++ us ++ f) ++ sfx p = name ++ sfx (f :: p).
Proof. rewrite <- app_assoc. reflexivity. Qed.

Theorem rust_ty_names : forall t name,
  map fst (snd (rust_ty name t)) = map (fun p => name ++ sfx p) (paths t).
Proof.
  induction t using vtype_ind'; intros name; try reflexivity.
  - (* struct *)
    rewrite rust_ty_struct, paths_struct. cbn [snd]. rewrite !map_app. cbn [map fst sfx flat_map].
    rewrite app_nil_r. f_equal.
    induction H as [|[f ft] fs H0 _ IH]; [reflexivity|].
    rewrite rust_fields_snd_cons, fpaths_cons, !map_app, map_map, IH. f_equal.
    cbn [snd] in H0. rewrite H0. apply map_ext. intros p. apply name_field_sfx.
  - (* enum *) cbn. rewrite app_nil_r. reflexivity.
  - (* array *) rewrite rust_ty_arr_snd. apply IHt.
  - (* dict *) rewrite rust_ty_dict_snd. cbn [paths]. destruct (is_unit_struct t); [reflexivity|apply IHt].
  - (* optional *) rewrite rust_ty_opt_snd. apply IHt.
Qed.

Theorem top_fields_names : forall fs name,
  map fst (snd (top_fields name fs)) = map (fun p => name ++ sfx p) (fpaths fs).
Proof.
  induction fs as [|[f ft] fs IH]; intros name; [reflexivity|].
  rewrite top_fields_snd_cons, fpaths_cons, !map_app, map_map, IH, rust_ty_names. f_equal.
  apply map_ext. intros p. apply name_field_sfx.
Qed.

(* condition (b): field names (at any depth, also under arrays / dictionaries / optionals) contain no
   underscore, sibling field names are pairwise distinct *)
Fixpoint fields_ok (t : vtype) : Prop :=
  match t with
  | TStruct fs =>
      NoDup (map fst fs) /\
      (fix go (fs : list (str * vtype)) : Prop :=
         match fs with [] => True | (f, ft) :: r => (no_us f /\ fields_ok ft) /\ go r end) fs
  | TArr t' | TDict t' | TOpt t' => fields_ok t'
  | _ => True
  end.

Definition fields_ok_list : list (str * vtype) -> Prop :=
  fix go (fs : list (str * vtype)) : Prop :=
    match fs with [] => True | (f, ft) :: r => (no_us f /\ fields_ok ft) /\ go r end.

Lemma fields_ok_struct fs : fields_ok (TStruct fs) = (NoDup (map fst fs) /\ fields_ok_list fs).
Proof. reflexivity. Qed.

Lemma fields_ok_list_Forall fs :
  fields_ok_list fs <-> Forall (fun ft => no_us (fst ft) /\ fields_ok (snd ft)) fs.
Proof.
  induction fs as [|[f ft] fs IH]; simpl.
  - split; auto.
  - split.
    + intros [H1 H2]. constructor; [exact H1|apply IH; exact H2].
    + intros H. inversion H; subst. split; [assumption|apply IH; assumption].
Qed.

Lemma in_fpaths fs p :
  In p (fpaths fs) <-> exists f ft q, In (f, ft) fs /\ In q (paths ft) /\ p = f :: q.
Proof.
  induction fs as [|[f ft] fs IH].
  - split; [intros []|intros (f & ft & q & [] & _)].
  - rewrite fpaths_cons, in_app_iff, in_map_iff, IH. split.
    + intros [(q & E & Hq)|(f' & ft' & q & H1 & H2 & E)].
      * exists f, ft, q. split; [left; reflexivity|]. auto.
      * exists f', ft', q. split; [right; exact H1|]. auto.
    + intros (f' & ft' & q & [E|H1] & H2 & E').
      * inversion E; subst. left. exists q. auto.
      * right. exists f', ft', q. auto.
Qed.

Lemma fpaths_not_nil fs : ~ In [] (fpaths fs).
Proof. intros H. apply in_fpaths in H. destruct H as (f & ft & q & _ & _ & E). discriminate. Qed.

Lemma fpaths_NoDup : forall fs,
  NoDup (map fst fs) -> Forall (fun ft => NoDup (paths (snd ft))) fs -> NoDup (fpaths fs).
Proof.
  induction fs as [|[f ft] fs IH]; intros ND H; [constructor|].
  cbn [map fst] in ND. apply NoDup_cons_iff in ND. destruct ND as [Hnin ND].
  apply Forall_cons_iff in H. destruct H as [Hh Ht]. cbn [snd] in Hh.
  rewrite fpaths_cons. apply NoDup_app_intro.
  - apply NoDup_map_in; [|assumption]. intros x y _ _ E. inversion E. reflexivity.
  - apply IH; assumption.
  - intros p H7 H8. apply in_map_iff in H7. destruct H7 as (q & <- & _).
    apply in_fpaths in H8. destruct H8 as (f' & ft' & q' & Hin & _ & E). inversion E; subst.
    apply Hnin. apply (in_map fst) in Hin. exact Hin.
Qed.

Lemma paths_NoDup : forall t, fields_ok t -> NoDup (paths t).
Proof.
  induction t using vtype_ind'; intros Hok; try (cbn [paths]; constructor; fail); try (apply IHt; exact Hok).
  - (* struct *)
    rewrite fields_ok_struct in Hok. destruct Hok as [ND Hok]. apply fields_ok_list_Forall in Hok.
    rewrite paths_struct. apply NoDup_app_intro.
    + apply fpaths_NoDup; [exact ND|]. rewrite Forall_forall in *. intros ft Hft.
      apply (H ft Hft). apply (Hok ft Hft).
    + constructor; [intros []|constructor].
    + intros p H1 [<-|[]]. exact (fpaths_not_nil fs H1).
  - (* enum *) cbn [paths]. constructor; [intros []|constructor].
  - (* dict *) cbn [paths]. destruct (is_unit_struct t); [constructor|apply IHt; exact Hok].
Qed.

Lemma paths_no_us : forall t, fields_ok t -> forall p, In p (paths t) -> Forall no_us p.
Proof.
  induction t using vtype_ind'; intros Hok p Hp; try (cbn [paths] in Hp; contradiction);
    try (apply IHt; [exact Hok|exact Hp]).
  - (* struct *)
    rewrite fields_ok_struct in Hok. destruct Hok as [_ Hok]. apply fields_ok_list_Forall in Hok.
    rewrite paths_struct, in_app_iff in Hp. destruct Hp as [Hp|[<-|[]]]; [|constructor].
    apply in_fpaths in Hp. destruct Hp as (f & ft & q & Hin & Hq & ->).
    rewrite Forall_forall in H, Hok. specialize (H _ Hin). destruct (Hok _ Hin) as [Hf Hft]. cbn [fst snd] in *.
    constructor; [exact Hf|]. apply H; assumption.
  - (* enum *) cbn [paths] in Hp. destruct Hp as [<-|[]]. constructor.
  - (* dict *) cbn [paths] in Hp. destruct (is_unit_struct t); [contradiction|]. apply IHt; assumption.
Qed.

(* the names emitted for one type are pairwise distinct, whatever the name they are built on *)
Theorem rust_ty_names_nodup : forall name t, fields_ok t -> NoDup (map fst (snd (rust_ty name t))).
Proof.
  intros name t Hok. rewrite rust_ty_names. apply NoDup_map_in; [|apply paths_NoDup; exact Hok].
  intros p q Hp Hq E. apply app_inv_head in E.
  apply sfx_inj; [apply (paths_no_us t Hok p Hp)|apply (paths_no_us t Hok q Hq)|exact E].
Qed.

(* ------------------------------------------------------------------ *)
(* condition (c): a type that emits no definition                       *)

Fixpoint has_anon (t : vtype) : bool :=
  match t with
  | TStruct _ | TEnum _ => true
  | TArr t' | TOpt t' => has_anon t'
  | TDict t' => if is_unit_struct t' then false else has_anon t'
  | _ => false
  end.

Lemma no_anon_paths t : has_anon t = false -> paths t = [].
Proof.
  induction t; cbn [has_anon paths]; intros H; try reflexivity; try discriminate; try (apply IHt; exact H).
  destruct (is_unit_struct t); [reflexivity|apply IHt; exact H].
Qed.

Lemma no_anon_fpaths fs : Forall (fun ft => has_anon (snd ft) = false) fs -> fpaths fs = [].
Proof.
  induction 1 as [|[f ft] fs H _ IH]; [reflexivity|].
  rewrite fpaths_cons, IH, (no_anon_paths ft H). reflexivity.
Qed.

Lemma no_anon_top_fields name fs :
  Forall (fun ft => has_anon (snd ft) = false) fs -> snd (top_fields name fs) = [].
Proof.
  intros H. apply map_eq_nil with (f := fst). rewrite top_fields_names, (no_anon_fpaths fs H). reflexivity.
Qed.

(* ------------------------------------------------------------------ *)
(* sort_by is a permutation                                            *)

Lemma insert_sorted_perm {A} (key : A -> str) x l : Permutation (insert_sorted key x l) (x :: l).
Proof.
  induction l as [|y l IH]; cbn [insert_sorted]; [apply Permutation_refl|].
  destruct (str_ltb (key x) (key y)); [apply Permutation_refl|].
  eapply perm_trans; [apply perm_skip; exact IH|apply perm_swap].
Qed.

Lemma sort_by_perm {A} (key : A -> str) l : Permutation (sort_by key l) l.
Proof.
  induction l as [|x l IH]; [apply Permutation_refl|].
  unfold sort_by in *. cbn [fold_right].
  eapply perm_trans; [apply insert_sorted_perm|apply perm_skip; exact IH].
Qed.

(* ------------------------------------------------------------------ *)
(* (3) all emitted names                                               *)

Definition member_ok (m : member) : Prop :=
  match m with
  | MMethod _ _ a b => fields_ok (TStruct a) /\ fields_ok (TStruct b)      (* (b) *)
  | MTypeS _ _ fs => fields_ok (TStruct fs)                                (* (b) *)
  | MTypeE _ _ _ => True
  | MError _ _ fs => Forall (fun ft => has_anon (snd ft) = false) fs       (* (c) *)
  end.

Definition cond (i : idl) : Prop :=
  NoDup (map m_name (i_members i)) /\                                       (* (a) *)
  Forall (fun m => ~ In 95 (m_name m)) (i_members i) /\                     (* (a) *)
  Forall member_ok (i_members i).                                           (* (b), (c) *)

Definition c_Args : str := [65; 114; 103; 115].
Definition c_Reply : str := [82; 101; 112; 108; 121].

Lemma no_us_Args : no_us c_Args.
Proof. intros H. simpl in H. intuition discriminate. Qed.
Lemma no_us_Reply : no_us c_Reply.
Proof. intros H. simpl in H. intuition discriminate. Qed.

(* the component lists of the names of one typedef / error / method *)
Definition LT (x : str * vtype) : list (list str) := map (cons (fst x)) (paths (snd x)).
Definition LE (x : str * list (str * vtype)) : list (list str) := [[fst x; c_Args]].
Definition LM (x : str * list (str * vtype) * list (str * vtype)) : list (list str) :=
  let '(n, a, b) := x in
  map (fun p => n :: c_Args :: p) (fpaths a) ++ map (fun p => n :: c_Reply :: p) (fpaths b) ++
  [[n; c_Reply]; [n; c_Args]].

Definition block (m : member) : list (list str) :=
  match m with
  | MMethod n _ a b => LM (n, a, b)
  | MTypeS n _ fs => LT (n, TStruct fs)
  | MTypeE n _ es => LT (n, TEnum es)
  | MError n _ fs => LE (n, fs)
  end.

Lemma names_typedefs l :
  map fst (flat_map (fun t : str * vtype => snd (rust_ty (fst t) (snd t))) l) = map join (flat_map LT l).
Proof.
  apply map_flat_map_ext. intros [n t] _. cbn [fst snd]. unfold LT. cbn [fst snd].
  rewrite rust_ty_names, map_map. reflexivity.
Qed.

Definition errors_ok (l : list (str * list (str * vtype))) : Prop :=
  forall e, In e l -> Forall (fun ft => has_anon (snd ft) = false) (snd e).

Lemma names_errors1 l : errors_ok l ->
  flat_map (fun e : str * list (str * vtype) => snd (top_fields (fst e ++ s_Args) (snd e))) l = [].
Proof.
  intros H. apply flat_map_nil. intros e He. apply no_anon_top_fields. apply H. exact He.
Qed.

Lemma names_errors2 l : errors_ok l ->
  map fst (flat_map (fun e : str * list (str * vtype) =>
                       let '(fl, d) := top_fields (fst e ++ s_Args) (snd e) in
                       d ++ [(fst e ++ s_Args, DStruct fl)]) l) = map join (flat_map LE l).
Proof.
  intros H. apply map_flat_map_ext. intros [n fs] He. cbn [fst snd].
  pose proof (no_anon_top_fields (n ++ s_Args) fs (H _ He)) as E.
  destruct (top_fields (n ++ s_Args) fs) as [fl d]. cbn [snd] in E. subst d. reflexivity.
Qed.

Lemma names_methods l :
  map fst (flat_map (fun m : str * list (str * vtype) * list (str * vtype) =>
                       let '(n, a, b) := m in
                       let '(fa, da) := top_fields (n ++ s_Args) a in
                       let '(fb, db) := top_fields (n ++ s_Reply) b in
                       da ++ db ++ [(n ++ s_Reply, DStruct fb); (n ++ s_Args, DStruct fa)]) l)
  = map join (flat_map LM l).
Proof.
  apply map_flat_map_ext. intros [[n a] b] _.
  pose proof (top_fields_names a (n ++ s_Args)) as Ea. pose proof (top_fields_names b (n ++ s_Reply)) as Eb.
  destruct (top_fields (n ++ s_Args) a) as [fa da]. destruct (top_fields (n ++ s_Reply) b) as [fb db].
  cbn [snd] in Ea, Eb. unfold LM. rewrite !map_app, Ea, Eb, !map_map. f_equal; [|f_equal].
  - apply map_ext. intros p. cbn [join]. rewrite <- app_assoc. reflexivity.
  - apply map_ext. intros p. cbn [join]. rewrite <- app_assoc. reflexivity.
Qed.

Definition comps (i : idl) : list (list str) :=
  flat_map LT (sort_by fst (typedefs_of i)) ++
  flat_map LE (sort_by fst (errors_of i)) ++
  flat_map LM (sort_by (fun m => fst (fst m)) (methods_of i)).

Lemma errors_of_ok i : Forall member_ok (i_members i) -> errors_ok (errors_of i).
Proof.
  intros H e He. unfold errors_of in He. apply in_flat_map in He. destruct He as (m & Hm & He).
  rewrite Forall_forall in H. specialize (H m Hm).
  destruct m; try contradiction. destruct He as [<-|[]]. exact H.
Qed.

Lemma sorted_errors_ok i : Forall member_ok (i_members i) -> errors_ok (sort_by fst (errors_of i)).
Proof.
  intros H e He. apply (errors_of_ok i H). eapply Permutation_in; [apply sort_by_perm|exact He].
Qed.

Lemma map_fst_app4 {A B} (a b c d : list (A * B)) b' c' d' :
  a = [] -> map fst b = b' -> map fst c = c' -> map fst d = d' ->
  map fst (a ++ b ++ c ++ d) = b' ++ c' ++ d'.
Proof. intros -> <- <- <-. rewrite !map_app. reflexivity. Qed.

Lemma emitted_names_comps i : Forall member_ok (i_members i) -> emitted_type_names i = map join (comps i).
Proof.
  intros H. unfold emitted_type_names, emitted, comps. rewrite (map_app join), (map_app join).
  apply map_fst_app4.
  - apply (names_errors1 _ (sorted_errors_ok i H)).
  - apply names_typedefs.
  - apply (names_errors2 _ (sorted_errors_ok i H)).
  - apply names_methods.
Qed.

(* regrouping by member *)
Lemma regroup (ms : list member) :
  Permutation
    (flat_map LT (flat_map (fun m => match m with MTypeS n _ fs => [(n, TStruct fs)] | MTypeE n _ es => [(n, TEnum es)] | _ => [] end) ms) ++
     flat_map LE (flat_map (fun m => match m with MError n _ fs => [(n, fs)] | _ => [] end) ms) ++
     flat_map LM (flat_map (fun m => match m with MMethod n _ a b => [(n, a, b)] | _ => [] end) ms))
    (flat_map block ms).
Proof.
  induction ms as [|m ms IH]; [apply Permutation_refl|].
  cbn [flat_map]. rewrite !flat_map_app.
  set (T := flat_map LT _) in *. set (E := flat_map LE _) in *. set (M := flat_map LM _) in *.
  destruct m as [n d a b|n d fs|n d es|n d fs]; cbn [flat_map app block]; rewrite ?app_nil_r.
  - (* method *)
    eapply perm_trans; [|apply Permutation_app_head; exact IH].
    eapply perm_trans; [apply Permutation_app_head; apply Permutation_app_swap_app|].
    apply Permutation_app_swap_app.
  - rewrite <- app_assoc. apply Permutation_app_head. exact IH.
  - rewrite <- app_assoc. apply Permutation_app_head. exact IH.
  - (* error *)
    eapply perm_trans; [|apply Permutation_app_head; exact IH].
    rewrite <- app_assoc. apply Permutation_app_swap_app.
Qed.

Lemma comps_perm i : Permutation (comps i) (flat_map block (i_members i)).
Proof.
  eapply perm_trans; [|apply regroup]. unfold comps, typedefs_of, errors_of, methods_of.
  repeat apply Permutation_app; apply Permutation_flat_map; apply sort_by_perm.
Qed.

Lemma block_key m cl : In cl (block m) -> hd [] cl = m_name m.
Proof.
  destruct m as [n d a b|n d fs|n d es|n d fs]; cbn [block m_name]; unfold LM, LT, LE; cbn [fst snd];
    rewrite ?in_app_iff, ?in_map_iff; intros H.
  - destruct H as [(p & <- & _)|[(p & <- & _)|[<-|[<-|[]]]]]; reflexivity.
  - destruct H as (p & <- & _). reflexivity.
  - destruct H as (p & <- & _). reflexivity.
  - destruct H as [<-|[]]. reflexivity.
Qed.

Lemma fields_ok_fpaths fs p : fields_ok (TStruct fs) -> In p (fpaths fs) -> Forall no_us p.
Proof.
  intros Hok Hp. apply (paths_no_us (TStruct fs) Hok). rewrite paths_struct, in_app_iff. left. exact Hp.
Qed.

Lemma block_good m cl : no_us (m_name m) -> member_ok m -> In cl (block m) -> good cl.
Proof.
  pose proof no_us_Args as HA. pose proof no_us_Reply as HR.
  destruct m as [n d a b|n d fs|n d es|n d fs]; cbn [block m_name member_ok]; unfold LM, LT, LE; cbn [fst snd];
    rewrite ?in_app_iff, ?in_map_iff; intros Hn Hok H.
  - destruct Hok as [Ha Hb].
    destruct H as [(p & <- & Hp)|[(p & <- & Hp)|[<-|[<-|[]]]]]; (split; [discriminate|]); repeat constructor; auto.
    + apply (fields_ok_fpaths a p Ha Hp).
    + apply (fields_ok_fpaths b p Hb Hp).
  - destruct H as (p & <- & Hp). split; [discriminate|]. constructor; [exact Hn|].
    apply (paths_no_us (TStruct fs) Hok p Hp).
  - destruct H as (p & <- & Hp). split; [discriminate|]. constructor; [exact Hn|].
    cbn [paths] in Hp. destruct Hp as [<-|[]]. constructor.
  - destruct H as [<-|[]]. split; [discriminate|]. repeat constructor; auto.
Qed.

Lemma fields_ok_fpaths_NoDup fs : fields_ok (TStruct fs) -> NoDup (fpaths fs).
Proof.
  intros Hok. rewrite fields_ok_struct in Hok. destruct Hok as [ND Hok]. apply fields_ok_list_Forall in Hok.
  apply fpaths_NoDup; [exact ND|]. rewrite Forall_forall in *. intros ft Hft. apply paths_NoDup. apply (Hok ft Hft).
Qed.

Lemma block_NoDup m : member_ok m -> NoDup (block m).
Proof.
  destruct m as [n d a b|n d fs|n d es|n d fs]; cbn [block member_ok]; unfold LM, LT, LE; cbn [fst snd]; intros Hok.
  - destruct Hok as [Ha Hb]. apply NoDup_app_intro; [| apply NoDup_app_intro |].
    + apply NoDup_map_in; [|apply fields_ok_fpaths_NoDup; exact Ha]. intros x y _ _ E. inversion E. reflexivity.
    + apply NoDup_map_in; [|apply fields_ok_fpaths_NoDup; exact Hb]. intros x y _ _ E. inversion E. reflexivity.
    + constructor; [|constructor; [intros []|constructor]]. intros [E|[]]. discriminate.
    + intros x H1 H2. apply in_map_iff in H1. destruct H1 as (p & <- & Hp).
      destruct H2 as [E|[E|[]]]; inversion E; subst. exact (fpaths_not_nil b Hp).
    + intros x H1 H2. apply in_map_iff in H1. destruct H1 as (p & <- & Hp).
      rewrite in_app_iff, in_map_iff in H2.
      destruct H2 as [(q & E & _)|[E|[E|[]]]]; inversion E; subst. exact (fpaths_not_nil a Hp).
  - apply NoDup_map_in; [|apply paths_NoDup; exact Hok]. intros x y _ _ E. inversion E. reflexivity.
  - cbn [paths map]. constructor; [intros []|constructor].
  - constructor; [intros []|constructor].
Qed.

Theorem emitted_names_nodup : forall i, cond i -> NoDup (emitted_type_names i).
Proof.
  intros i (Hnd & Hus & Hok).
  rewrite (emitted_names_comps i Hok).
  assert (Hperm := comps_perm i).
  apply NoDup_map_in.
  - (* join is injective on the component lists that occur *)
    assert (G : forall cl, In cl (comps i) -> good cl).
    { intros cl Hcl. apply (Permutation_in _ Hperm) in Hcl. apply in_flat_map in Hcl.
      destruct Hcl as (m & Hm & Hcl). rewrite Forall_forall in Hus, Hok.
      apply (block_good m cl); [exact (Hus m Hm)|exact (Hok m Hm)|exact Hcl]. }
    intros x y Hx Hy. apply join_inj; auto.
  - (* the component lists are pairwise distinct *)
    apply (Permutation_NoDup (Permutation_sym Hperm)).
    apply (NoDup_flat_map_key (hd []) m_name block); [exact Hnd| |].
    + intros m Hm. rewrite Forall_forall in Hok. apply block_NoDup. exact (Hok m Hm).
    + intros m cl _ Hcl. apply block_key. exact Hcl.
Qed.

(* Gen.v's own duplicate check *)
Lemma beq_str_true a : forall b, beq_str a b = true -> a = b.
Proof.
  induction a as [|x a IH]; intros [|y b]; simpl; intros H; try congruence.
  apply andb_true_iff in H. destruct H as [H1 H2]. apply N.eqb_eq in H1. apply IH in H2. congruence.
Qed.

Lemma NoDup_has_dup l : NoDup l -> has_dup l = false.
Proof.
  induction 1 as [|x l Hx _ IH]; [reflexivity|].
  cbn [has_dup]. rewrite IH, orb_false_r.
  destruct (existsb (beq_str x) l) eqn:E; [|reflexivity].
  apply existsb_exists in E. destruct E as (y & Hy & E). apply beq_str_true in E. subst. contradiction.
Qed.

Corollary emitted_names_no_dup_class : forall i, cond i -> has_dup (emitted_type_names i) = false.
Proof. intros i H. apply NoDup_has_dup. apply emitted_names_nodup. exact H. Qed.

(* the class excluded by (c): error E (a: (b))  --  E_Args_a is emitted twice *)
Example error_anon_duplicates :
  let i := mkidl [120] [] [MError [69] [] [([97], TEnum [[98]])]] in
  has_dup (emitted_type_names i) = true.
Proof. vm_compute. reflexivity. Qed.

Print Assumptions split_us_join.
Print Assumptions rust_ty_names_nodup.
Print Assumptions emitted_names_nodup.
Print Assumptions emitted_names_no_dup_class.
