(* The fuel of the IDL parser model is always sufficient:  parse_idl s <> PFuel  for every s.

   Structure:
   - every lexical function (wce, wce1, lit, field_name, tname, expect, interface_name, eol, header)
     returns a suffix that is no longer than its input (strictly shorter where it must consume);
   - "shrinks p": every successful result of the parser p leaves a strictly shorter rest;
     shown for p_field, p_struct, p_enum, p_btype, p_type, the member parsers;
   - sep_list_len / sep_list_nofuel: the generic facts about the separated repetition: with
     shrinking elements, non-lengthening separators and  length s < k  the fuel k is enough;
   - p_type_nofuel:  length x < f -> p_type f x <> PFuel  (induction on f; the nested calls run on
     strictly shorter inputs with the predecessor fuel);
   - lifted through the members to p_interface:  length s < f -> p_interface f s <> PFuel.
   parse_fuel s = S (S (length s)) is therefore one more than needed. *)
From Coq Require Import List NArith Lia Bool Arith.
From VL Require Import Idl TypeProofs MemberProofs.
From VLG Require Import GrammarGen.
Import ListNotations.
Open Scope N_scope.

Arguments N.eqb : simpl never. Arguments N.leb : simpl never.
Arguments in_ranges : simpl never.

(* ---------- lexical functions never lengthen ---------- *)
Lemma skip_len : forall (s : str) (cs : option str),
  (match cs with Some s0 => length s <= length s0 | None => True end)%nat ->
  (length (skip cs s) <= match cs with Some s0 => length s0 | None => length s end)%nat.
Proof.
  induction s as [|c r IH]; intros cs Hcs.
  - destruct cs; cbn [skip]; lia.
  - destruct cs as [s0|]; cbv beta iota in *.
    + rewrite skip_Some_cons. cbn [length] in Hcs. destruct (is_eolc c).
      * pose proof (IH None I) as H. cbv beta iota in H. lia.
      * apply (IH (Some s0)). lia.
    + rewrite skip_None_cons. cbn [length]. destruct (is_ws c || is_eolc c).
      * pose proof (IH None I) as H. cbv beta iota in H. lia.
      * destruct (c =? 35).
        -- pose proof (IH (Some (c :: r))) as H. cbv beta iota in H. cbn [length] in H. apply H. lia.
        -- cbn [length]. lia.
Qed.

Lemma wce_len s : (length (wce s) <= length s)%nat.
Proof. unfold wce. apply (skip_len s None). exact I. Qed.

Lemma wce1_len s r : wce1 s = Some r -> (length r < length s)%nat.
Proof.
  unfold wce1. cbv zeta. destruct (length (wce s) <? length s)%nat eqn:E; [|discriminate].
  intros H; inversion H; subst. apply Nat.ltb_lt in E. exact E.
Qed.

Lemma lit_len l : forall s r, lit l s = Some r -> length s = (length l + length r)%nat.
Proof.
  induction l as [|a l IH]; intros s r H.
  - cbn [lit] in H. inversion H; subst. reflexivity.
  - destruct s as [|b s']; [discriminate|]. cbn [lit] in H. destruct (a =? b); [|discriminate].
    apply IH in H. cbn [length]. lia.
Qed.

Lemma expect_len c s r : expect c s = Some r -> length s = S (length r).
Proof.
  destruct s as [|d s']; [discriminate|]. rewrite expect_cons.
  destruct (c =? d); [|discriminate]. intros H; inversion H; subst; reflexivity.
Qed.

Lemma fn_tail_len_n n : forall s, (length s <= n)%nat -> (length (snd (fn_tail s)) <= length s)%nat.
Proof.
  induction n as [|n IH]; intros s Hl.
  - destruct s; [cbn; lia|cbn [length] in Hl; lia].
  - destruct s as [|c r]; [cbn; lia|]. rewrite fn_tail_cons. cbn [length] in Hl.
    destruct (in_ranges field_rest c).
    + pose proof (IH r ltac:(lia)) as H. destruct (fn_tail r) as [a b]. cbn [snd length] in *. lia.
    + destruct (c =? 95); [|cbn [snd length]; lia].
      destruct r as [|d r']; [cbn [snd length]; lia|].
      destruct (in_ranges field_rest d); [|cbn [snd length]; lia].
      cbn [length] in Hl. pose proof (IH r' ltac:(lia)) as H.
      destruct (fn_tail r') as [a b]. cbn [snd length] in *. lia.
Qed.
Lemma fn_tail_len s : (length (snd (fn_tail s)) <= length s)%nat.
Proof. apply (fn_tail_len_n (length s)). lia. Qed.

Lemma field_name_len s a r : field_name s = Some (a, r) -> (length r < length s)%nat.
Proof.
  unfold field_name. destruct s as [|c s']; [discriminate|].
  destruct (in_ranges field_first c); [|discriminate].
  pose proof (fn_tail_len s') as L. destruct (fn_tail s') as [x y]. cbn [snd] in L.
  intros H; inversion H; subst. cbn [length]. lia.
Qed.

Lemma tname_len s a r : tname s = Some (a, r) -> (length r < length s)%nat.
Proof.
  unfold tname. destruct s as [|c s']; [discriminate|].
  destruct (in_ranges name_first c); [|discriminate].
  pose proof (span_snd_len (in_ranges name_rest) s') as L.
  destruct (span (in_ranges name_rest) s') as [x y]. cbn [snd] in L.
  intros H; inversion H; subst. cbn [length]. lia.
Qed.

Lemma hy_elems_len cls : forall f s, (length (hy_elems f cls s) <= length s)%nat.
Proof.
  induction f as [|f IH]; intros s; [cbn [hy_elems]; lia|].
  rewrite hy_elems_S. pose proof (span_snd_len (fun c => c =? 45) s) as L.
  destruct (snd (span (fun c => c =? 45) s)) as [|c r']; [lia|].
  destruct (in_ranges cls c); [|lia]. specialize (IH r'). cbn [length] in L. lia.
Qed.

Lemma dot_elems_len : forall f s seen r, dot_elems f s seen = Some r -> (length r <= length s)%nat.
Proof.
  induction f as [|f IH]; intros s seen r H.
  - cbn [dot_elems] in H. destruct seen; inversion H; subst; lia.
  - rewrite dot_elems_S in H.
    assert (D : forall s', (if seen then Some s' else None) = Some r -> (length r <= length s')%nat).
    { intros s'. destruct seen; intros H'; inversion H'; subst; lia. }
    destruct s as [|d [|c r0]]; try (apply D; exact H).
    destruct (d =? 46); [|apply D; exact H].
    destruct (in_ranges iname_elem_start c); [|apply D; exact H].
    apply IH in H. pose proof (hy_elems_len iname_elem_rest (length r0) r0). cbn [length]. lia.
Qed.

Lemma interface_name_len s r : interface_name s = Some r -> (length r <= length s)%nat.
Proof.
  unfold interface_name. destruct s as [|c s']; [discriminate|].
  destruct (in_ranges iname_first_start c); [|discriminate]. cbv zeta.
  intros H.
  match type of H with dot_elems _ ?r1 _ = _ =>
    assert (L : (length r1 <= length s')%nat)
      by (destruct iname_first_hyphen_guarded; [apply hy_elems_len|apply span_snd_len]);
    apply dot_elems_len in H
  end.
  cbn [length]. lia.
Qed.

Lemma eol_r_len s r : eol_r s = Some r -> (length r < length s)%nat.
Proof.
  destruct s as [|c s']; [discriminate|]. rewrite eol_r_cons.
  destruct s' as [|d r'].
  - destruct (is_eolc c); intros H; inversion H; subst; cbn [length]; lia.
  - destruct ((c =? 13) && (d =? 10)).
    + intros H; inversion H; subst; cbn [length]; lia.
    + destruct (is_eolc c); intros H; inversion H; subst; cbn [length]; lia.
Qed.

Lemma comment_body_len : forall s r, comment_body s = Some r -> (length r < length s)%nat.
Proof.
  induction s as [|c s' IH]; intros r H; [discriminate|].
  rewrite comment_body_cons in H. destruct (is_eolc c).
  - apply eol_r_len in H. exact H.
  - apply IH in H. cbn [length]. lia.
Qed.

Lemma eol_len s r : eol s = Some r -> (length r < length s)%nat.
Proof.
  rewrite eol_unfold. pose proof (span_snd_len is_ws s) as L.
  destruct (eol_r (snd (span is_ws s))) as [x|] eqn:E.
  - intros H; inversion H; subst. apply eol_r_len in E. lia.
  - destruct s as [|c s']; [discriminate|]. destruct (c =? 35); [|discriminate].
    intros H. apply comment_body_len in H. cbn [length]. lia.
Qed.

Lemma header_len kwd s d n r : header kwd s = Some (d, n, r) -> (length r < length s)%nat.
Proof.
  unfold header. cbv zeta. pose proof (wce_len s) as L0.
  destruct (lit kwd (wce s)) as [s2|] eqn:E1; [|discriminate].
  destruct (wce1 s2) as [s3|] eqn:E2; [|discriminate].
  destruct (tname s3) as [[n' s4]|] eqn:E3; [|discriminate].
  intros H; inversion H; subst. apply lit_len in E1. apply wce1_len in E2. apply tname_len in E3.
  pose proof (wce_len s4). lia.
Qed.

(* ---------- the separated repetition ---------- *)
(* every successful result leaves a strictly shorter rest *)
Definition shrinks {A} (p : parser A) : Prop :=
  forall x a y, p x = POk (a, y) -> (length y < length x)%nat.

Lemma sep_list_len {A} (elem : parser A) sep :
  (forall x y, sep x = Some y -> (length y <= length x)%nat) ->
  shrinks elem ->
  forall k first (s : str) l r, sep_list k elem sep first s = POk (l, r) -> (length r <= length s)%nat.
Proof.
  intros Hsep Helem. induction k as [|k IH]; intros first s l r H; [discriminate|].
  rewrite sep_list_S in H.
  destruct (if first then Some s else sep s) as [s1|] eqn:E1.
  2:{ inversion H; subst; lia. }
  assert (L1 : (length s1 <= length s)%nat).
  { destruct first; [inversion E1; subst; lia|apply Hsep; auto]. }
  destruct (elem s1) as [[a s2]| |] eqn:E2; try discriminate.
  - destruct (sep_list k elem sep false s2) as [[l' s3]| |] eqn:E3; try discriminate.
    inversion H; subst. apply Helem in E2. apply IH in E3. lia.
  - inversion H; subst; lia.
Qed.

(* with shrinking elements that do not run out of fuel on inputs up to length n, a separator that does
   not lengthen, and more fuel than characters, the repetition does not run out of fuel *)
Lemma sep_list_nofuel {A} (elem : parser A) sep n :
  (forall x y, sep x = Some y -> (length y <= length x)%nat) ->
  shrinks elem ->
  (forall x, (length x <= n)%nat -> elem x <> PFuel) ->
  forall k first (s : str), (length s <= n)%nat -> (length s < k)%nat ->
  sep_list k elem sep first s <> PFuel.
Proof.
  intros Hsep Helem Hnf. induction k as [|k IH]; intros first s Hn Hk; [lia|].
  rewrite sep_list_S.
  destruct (if first then Some s else sep s) as [s1|] eqn:E1; [|discriminate].
  assert (L1 : (length s1 <= length s)%nat).
  { destruct first; [inversion E1; subst; lia|apply Hsep; auto]. }
  pose proof (Hnf s1 ltac:(lia)) as N1.
  destruct (elem s1) as [[a s2]| |] eqn:E2; [|discriminate|congruence].
  apply Helem in E2.
  pose proof (IH false s2 ltac:(lia) ltac:(lia)) as N2.
  destruct (sep_list k elem sep false s2) as [[l' s3]| |]; [discriminate|discriminate|congruence].
Qed.

(* ---------- fields, structs, enums, basic types ---------- *)
Lemma p_field_len rec : shrinks rec -> shrinks (p_field rec).
Proof.
  intros Hrec x a y H. unfold p_field in H.
  destruct (field_name (wce x)) as [[n s1]|] eqn:E1; [|discriminate].
  destruct (expect 58 (wce s1)) as [s2|] eqn:E2; [|discriminate].
  destruct (rec (wce s2)) as [[t s3]| |] eqn:E3; try discriminate.
  inversion H; subst. apply field_name_len in E1. apply expect_len in E2. apply Hrec in E3.
  pose proof (wce_len x). pose proof (wce_len s1). pose proof (wce_len s2). lia.
Qed.

Lemma p_field_nofuel rec m : (forall z, (length z < m)%nat -> rec z <> PFuel) ->
  forall x, (length x <= m)%nat -> p_field rec x <> PFuel.
Proof.
  intros Hnf x Hx. unfold p_field.
  destruct (field_name (wce x)) as [[n s1]|] eqn:E1; [|discriminate].
  destruct (expect 58 (wce s1)) as [s2|] eqn:E2; [|discriminate].
  apply field_name_len in E1. apply expect_len in E2.
  pose proof (wce_len x). pose proof (wce_len s1). pose proof (wce_len s2).
  pose proof (Hnf (wce s2) ltac:(lia)) as N.
  destruct (rec (wce s2)) as [[t s3]| |]; [discriminate|discriminate|congruence].
Qed.

Lemma expect_sep_len c x y : expect c x = Some y -> (length y <= length x)%nat.
Proof. intros H. apply expect_len in H. lia. Qed.

Lemma p_struct_len k rec : shrinks rec -> shrinks (p_struct k rec).
Proof.
  intros Hrec x fs r H. unfold p_struct in H.
  destruct (expect 40 x) as [s1|] eqn:E1; [|discriminate].
  destruct (sep_list k (p_field rec) (expect 44) true (wce s1)) as [[fs' s2]| |] eqn:E2; try discriminate.
  destruct (expect 41 (wce s2)) as [s3|] eqn:E3; [|discriminate].
  inversion H; subst. apply expect_len in E1. apply expect_len in E3.
  apply (sep_list_len (p_field rec) (expect 44) (expect_sep_len 44) (p_field_len rec Hrec)) in E2.
  pose proof (wce_len s1). pose proof (wce_len s2). lia.
Qed.

Lemma p_struct_nofuel k rec x : shrinks rec ->
  (forall z, (length z < length x)%nat -> rec z <> PFuel) -> (length x <= k)%nat ->
  p_struct k rec x <> PFuel.
Proof.
  intros Hrec Hnf Hk. unfold p_struct.
  destruct (expect 40 x) as [s1|] eqn:E1; [|discriminate]. apply expect_len in E1.
  pose proof (wce_len s1) as L1.
  assert (N : sep_list k (p_field rec) (expect 44) true (wce s1) <> PFuel).
  { apply (sep_list_nofuel (p_field rec) (expect 44) (length s1)).
    - apply expect_sep_len.
    - apply p_field_len; exact Hrec.
    - apply p_field_nofuel. intros z Hz. apply Hnf. lia.
    - exact L1.
    - lia. }
  destruct (sep_list k (p_field rec) (expect 44) true (wce s1)) as [[fs s2]| |];
    [|discriminate|congruence].
  destruct (expect 41 (wce s2)); discriminate.
Qed.

Definition enum_elem : parser str := fun x => lift (field_name x).
Definition enum_sep : str -> option str :=
  fun x => match expect 44 x with Some y => Some (wce y) | None => None end.

Lemma p_enum_eq k s : p_enum k s =
  match expect 40 s with
  | None => PFail
  | Some s1 =>
      match sep_list k enum_elem enum_sep true (wce s1) with
      | POk (es, s2) => match expect 41 (wce s2) with Some s3 => POk (es, s3) | None => PFail end
      | PFail => PFail | PFuel => PFuel
      end
  end.
Proof. reflexivity. Qed.

Lemma enum_elem_shrinks : shrinks enum_elem.
Proof.
  intros x a y H. unfold enum_elem in H. destruct (field_name x) as [[n r]|] eqn:E; [|discriminate].
  cbn [lift] in H. inversion H; subst. eapply field_name_len; eauto.
Qed.
Lemma enum_elem_nofuel x : enum_elem x <> PFuel.
Proof. unfold enum_elem. destruct (field_name x) as [[n r]|]; discriminate. Qed.
Lemma enum_sep_len x y : enum_sep x = Some y -> (length y <= length x)%nat.
Proof.
  unfold enum_sep. destruct (expect 44 x) as [z|] eqn:E; [|discriminate].
  intros H; inversion H; subst. apply expect_len in E. pose proof (wce_len z). lia.
Qed.

Lemma p_enum_len k : shrinks (p_enum k).
Proof.
  intros x es r H. rewrite p_enum_eq in H.
  destruct (expect 40 x) as [s1|] eqn:E1; [|discriminate].
  destruct (sep_list k enum_elem enum_sep true (wce s1)) as [[es' s2]| |] eqn:E2; try discriminate.
  destruct (expect 41 (wce s2)) as [s3|] eqn:E3; [|discriminate].
  inversion H; subst. apply expect_len in E1. apply expect_len in E3.
  apply (sep_list_len enum_elem enum_sep enum_sep_len enum_elem_shrinks) in E2.
  pose proof (wce_len s1). pose proof (wce_len s2). lia.
Qed.

Lemma p_enum_nofuel k x : (length x <= k)%nat -> p_enum k x <> PFuel.
Proof.
  intros Hk. rewrite p_enum_eq.
  destruct (expect 40 x) as [s1|] eqn:E1; [|discriminate]. apply expect_len in E1.
  pose proof (wce_len s1) as L1.
  assert (N : sep_list k enum_elem enum_sep true (wce s1) <> PFuel).
  { apply (sep_list_nofuel enum_elem enum_sep (length s1)).
    - apply enum_sep_len.
    - apply enum_elem_shrinks.
    - intros y _. apply enum_elem_nofuel.
    - exact L1.
    - lia. }
  destruct (sep_list k enum_elem enum_sep true (wce s1)) as [[es s2]| |];
    [|discriminate|congruence].
  destruct (expect 41 (wce s2)); discriminate.
Qed.

Lemma p_btype_len k rec : shrinks rec -> shrinks (p_btype k rec).
Proof.
  intros Hrec x t r H. unfold p_btype in H.
  destruct (lit (kw 0) x) as [r0|] eqn:E0.
  { inversion H; subst. apply lit_len in E0. rewrite kw0 in E0. cbn [length] in E0. lia. }
  destruct (lit (kw 1) x) as [r1|] eqn:E1.
  { inversion H; subst. apply lit_len in E1. rewrite kw1 in E1. cbn [length] in E1. lia. }
  destruct (lit (kw 2) x) as [r2|] eqn:E2.
  { inversion H; subst. apply lit_len in E2. rewrite kw2 in E2. cbn [length] in E2. lia. }
  destruct (lit (kw 3) x) as [r3|] eqn:E3.
  { inversion H; subst. apply lit_len in E3. rewrite kw3 in E3. cbn [length] in E3. lia. }
  destruct (lit (kw 4) x) as [r4|] eqn:E4.
  { inversion H; subst. apply lit_len in E4. rewrite kw4 in E4. cbn [length] in E4. lia. }
  destruct (tname x) as [[n r5]|] eqn:E5.
  { inversion H; subst. eapply tname_len; eauto. }
  destruct (p_struct k rec x) as [[fs r6]| |] eqn:E6; try discriminate.
  { inversion H; subst. eapply p_struct_len; eauto. }
  destruct (p_enum k x) as [[es r7]| |] eqn:E7; try discriminate.
  inversion H; subst. eapply p_enum_len; eauto.
Qed.

Lemma p_btype_nofuel k rec x : shrinks rec ->
  (forall z, (length z < length x)%nat -> rec z <> PFuel) -> (length x <= k)%nat ->
  p_btype k rec x <> PFuel.
Proof.
  intros Hrec Hnf Hk. unfold p_btype.
  destruct (lit (kw 0) x); [discriminate|].
  destruct (lit (kw 1) x); [discriminate|].
  destruct (lit (kw 2) x); [discriminate|].
  destruct (lit (kw 3) x); [discriminate|].
  destruct (lit (kw 4) x); [discriminate|].
  destruct (tname x) as [[n r]|]; [discriminate|].
  pose proof (p_struct_nofuel k rec x Hrec Hnf Hk) as N1.
  pose proof (p_enum_nofuel k x Hk) as N2.
  destruct (p_struct k rec x) as [[fs r]| |]; [discriminate| |congruence].
  destruct (p_enum k x) as [[es r]| |]; [discriminate|discriminate|congruence].
Qed.

(* ---------- types ---------- *)
Lemma map_pres_fuel {A B} (g : A -> B) x : map_pres g x = PFuel -> x = PFuel.
Proof. destruct x as [[a s]| |]; cbn [map_pres]; congruence. Qed.

Lemma len_lit_array : length lit_array = 2%nat. Proof. reflexivity. Qed.
Lemma len_lit_dict : length lit_dict = 8%nat. Proof. reflexivity. Qed.
Lemma len_lit_option : length lit_option = 1%nat. Proof. reflexivity. Qed.

Lemma p_type_len : forall f, shrinks (p_type f).
Proof.
  induction f as [|f IH]; intros x t r H; [cbn [p_type] in H; discriminate|].
  rewrite p_type_S in H. cbv zeta in H.
  destruct (p_btype f (p_type f) x) as [[t' r']| |] eqn:Eb; try discriminate.
  { inversion H; subst. eapply p_btype_len; eauto. }
  destruct (lit lit_array x) as [r1|] eqn:E1.
  { apply map_pres_ok in H as (a & Ha & _). apply IH in Ha. apply lit_len in E1. lia. }
  destruct (lit lit_dict x) as [r2|] eqn:E2.
  { apply map_pres_ok in H as (a & Ha & _). apply IH in Ha. apply lit_len in E2. lia. }
  destruct (lit lit_option x) as [r3|] eqn:E3; [|discriminate].
  apply lit_len in E3. rewrite len_lit_option in E3.
  destruct (p_btype f (p_type f) r3) as [[t' r']| |] eqn:Eb2; try discriminate.
  { inversion H; subst. apply (p_btype_len f (p_type f) IH) in Eb2. lia. }
  destruct (lit lit_array r3) as [r4|] eqn:E4.
  { apply map_pres_ok in H as (a & Ha & _). apply IH in Ha. apply lit_len in E4. lia. }
  destruct (lit lit_dict r3) as [r5|] eqn:E5; [|discriminate].
  apply map_pres_ok in H as (a & Ha & _). apply IH in Ha. apply lit_len in E5. lia.
Qed.

Theorem p_type_nofuel : forall f x, (length x < f)%nat -> p_type f x <> PFuel.
Proof.
  induction f as [|f IH]; intros x Hl; [lia|].
  rewrite p_type_S. cbv zeta.
  assert (Hb : forall y, (length y <= length x)%nat -> p_btype f (p_type f) y <> PFuel).
  { intros y Hy. apply p_btype_nofuel; [apply p_type_len| |lia].
    intros z Hz. apply IH. lia. }
  pose proof (Hb x ltac:(lia)) as N1.
  destruct (p_btype f (p_type f) x) as [[t r]| |]; [discriminate| |congruence].
  destruct (lit lit_array x) as [r1|] eqn:E1.
  { apply lit_len in E1. rewrite len_lit_array in E1.
    intros H. apply map_pres_fuel in H. revert H. apply IH. lia. }
  destruct (lit lit_dict x) as [r2|] eqn:E2.
  { apply lit_len in E2. rewrite len_lit_dict in E2.
    intros H. apply map_pres_fuel in H. revert H. apply IH. lia. }
  destruct (lit lit_option x) as [r3|] eqn:E3; [|discriminate].
  apply lit_len in E3. rewrite len_lit_option in E3.
  pose proof (Hb r3 ltac:(lia)) as N2.
  destruct (p_btype f (p_type f) r3) as [[t r]| |]; [discriminate| |congruence].
  destruct (lit lit_array r3) as [r4|] eqn:E4.
  { apply lit_len in E4. rewrite len_lit_array in E4.
    intros H. apply map_pres_fuel in H. revert H. apply IH. lia. }
  destruct (lit lit_dict r3) as [r5|] eqn:E5; [|discriminate].
  apply lit_len in E5. rewrite len_lit_dict in E5.
  intros H. apply map_pres_fuel in H. revert H. apply IH. lia.
Qed.

(* ---------- members ---------- *)
Lemma vstruct_len f : shrinks (vstruct f).
Proof. unfold vstruct. apply p_struct_len, p_type_len. Qed.
Lemma vstruct_nofuel f x : (length x <= f)%nat -> vstruct f x <> PFuel.
Proof.
  intros H. unfold vstruct. apply p_struct_nofuel; [apply p_type_len| |exact H].
  intros z Hz. apply p_type_nofuel. lia.
Qed.
Lemma venum_len f : shrinks (venum f).
Proof. unfold venum. apply p_enum_len. Qed.
Lemma venum_nofuel f x : (length x <= f)%nat -> venum f x <> PFuel.
Proof. unfold venum. apply p_enum_nofuel. Qed.

Lemma p_method_len f : shrinks (p_method f).
Proof.
  intros x m r H. unfold p_method in H.
  destruct (header kw_method x) as [[[d n] s1]|] eqn:E1; [|discriminate].
  destruct (vstruct f s1) as [[i s2]| |] eqn:E2; try discriminate.
  destruct (lit lit_arrow (wce s2)) as [s3|] eqn:E3; [|discriminate].
  destruct (vstruct f (wce s3)) as [[o s4]| |] eqn:E4; try discriminate.
  inversion H; subst. apply header_len in E1. apply vstruct_len in E2. apply vstruct_len in E4.
  apply lit_len in E3. pose proof (wce_len s2). pose proof (wce_len s3). lia.
Qed.

Lemma p_method_nofuel f x : (length x <= f)%nat -> p_method f x <> PFuel.
Proof.
  intros Hl. unfold p_method.
  destruct (header kw_method x) as [[[d n] s1]|] eqn:E1; [|discriminate]. apply header_len in E1.
  pose proof (vstruct_nofuel f s1 ltac:(lia)) as N1.
  destruct (vstruct f s1) as [[i s2]| |] eqn:E2; [|discriminate|congruence].
  apply vstruct_len in E2.
  destruct (lit lit_arrow (wce s2)) as [s3|] eqn:E3; [|discriminate]. apply lit_len in E3.
  pose proof (wce_len s2). pose proof (wce_len s3).
  pose proof (vstruct_nofuel f (wce s3) ltac:(lia)) as N2.
  destruct (vstruct f (wce s3)) as [[o s4]| |]; [discriminate|discriminate|congruence].
Qed.

Lemma p_typedef_len f : shrinks (p_typedef f).
Proof.
  intros x m r H. unfold p_typedef in H.
  destruct (header kw_type x) as [[[d n] s1]|] eqn:E1; [|discriminate]. apply header_len in E1.
  destruct (vstruct f s1) as [[fs s2]| |] eqn:E2; try discriminate.
  { inversion H; subst. apply vstruct_len in E2. lia. }
  destruct (venum f s1) as [[es s2]| |] eqn:E3; try discriminate.
  inversion H; subst. apply venum_len in E3. lia.
Qed.

Lemma p_typedef_nofuel f x : (length x <= f)%nat -> p_typedef f x <> PFuel.
Proof.
  intros Hl. unfold p_typedef.
  destruct (header kw_type x) as [[[d n] s1]|] eqn:E1; [|discriminate]. apply header_len in E1.
  pose proof (vstruct_nofuel f s1 ltac:(lia)) as N1.
  pose proof (venum_nofuel f s1 ltac:(lia)) as N2.
  destruct (vstruct f s1) as [[fs s2]| |]; [discriminate| |congruence].
  destruct (venum f s1) as [[es s2]| |]; [discriminate|discriminate|congruence].
Qed.

Lemma p_error_len f : shrinks (p_error f).
Proof.
  intros x m r H. unfold p_error in H.
  destruct (header kw_error x) as [[[d n] s1]|] eqn:E1; [|discriminate]. apply header_len in E1.
  destruct (vstruct f s1) as [[fs s2]| |] eqn:E2; try discriminate.
  inversion H; subst. apply vstruct_len in E2. lia.
Qed.

Lemma p_error_nofuel f x : (length x <= f)%nat -> p_error f x <> PFuel.
Proof.
  intros Hl. unfold p_error.
  destruct (header kw_error x) as [[[d n] s1]|] eqn:E1; [|discriminate]. apply header_len in E1.
  pose proof (vstruct_nofuel f s1 ltac:(lia)) as N1.
  destruct (vstruct f s1) as [[fs s2]| |]; [discriminate|discriminate|congruence].
Qed.

Lemma p_member_len f : shrinks (p_member f).
Proof.
  intros x m r H. unfold p_member in H.
  destruct (p_method f x) as [[m1 r1]| |] eqn:E1; try discriminate.
  { inversion H; subst. eapply p_method_len; eauto. }
  destruct (p_typedef f x) as [[m2 r2]| |] eqn:E2; try discriminate.
  { inversion H; subst. eapply p_typedef_len; eauto. }
  eapply p_error_len; eauto.
Qed.

Lemma p_member_nofuel f x : (length x <= f)%nat -> p_member f x <> PFuel.
Proof.
  intros Hl. unfold p_member.
  pose proof (p_method_nofuel f x Hl) as N1.
  pose proof (p_typedef_nofuel f x Hl) as N2.
  destruct (p_method f x) as [[m1 r1]| |]; [discriminate| |congruence].
  destruct (p_typedef f x) as [[m2 r2]| |]; [discriminate| |congruence].
  apply p_error_nofuel; exact Hl.
Qed.

(* ---------- the interface ---------- *)
Theorem p_interface_nofuel f s : (length s < f)%nat -> p_interface f s <> PFuel.
Proof.
  intros Hl. unfold p_interface. cbv zeta.
  destruct (lit kw_interface (wce s)) as [s2|] eqn:E1; [|discriminate].
  destruct (wce1 s2) as [s3|] eqn:E2; [|discriminate].
  destruct (interface_name s3) as [s4|] eqn:E3; [|discriminate].
  destruct (eol s4) as [s5|] eqn:E4; [|discriminate].
  apply lit_len in E1. apply wce1_len in E2. apply interface_name_len in E3. apply eol_len in E4.
  pose proof (wce_len s) as L0.
  assert (N : sep_list f (p_member f) eol true s5 <> PFuel).
  { apply (sep_list_nofuel (p_member f) eol (length s)).
    - intros a b Hab. apply eol_len in Hab. lia.
    - apply p_member_len.
    - intros y Hy. apply p_member_nofuel. lia.
    - lia.
    - lia. }
  destruct (sep_list f (p_member f) eol true s5) as [[[|m ms] s6]| |];
    [discriminate| |discriminate|congruence].
  destruct (wce s6); discriminate.
Qed.

Theorem parse_idl_never_out_of_fuel : forall s : str, parse_idl s <> PFuel.
Proof. intros s. unfold parse_idl, parse_fuel. apply p_interface_nofuel. lia. Qed.

(* the out-of-fuel outcome of try_from is unreachable *)
Corollary try_from_never_out_of_fuel : forall s : str, try_from s <> OOutOfFuel.
Proof.
  intros s. unfold try_from. pose proof (parse_idl_never_out_of_fuel s) as N.
  destruct (parse_idl s) as [i| |]; [|discriminate|congruence].
  destruct (dups i); discriminate.
Qed.

Print Assumptions parse_idl_never_out_of_fuel.
Print Assumptions try_from_never_out_of_fuel.
