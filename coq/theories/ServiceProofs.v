(* Proofs about the server model: handle()/feed refine the byte automaton for every
   chunking; pipelines are answered in order; oneway, continues gate, malformed input,
   routing. *)
From VL Require Import Base Json Schema Wire Service.
From VLG Require Import WireGen.
Open Scope N_scope.
(* the regenerated facts about the writers are used only through hypotheses / rewriting *)
Opaque reply_struct_checks_oneway reply_parameters_checks_oneway oneway_checked_after_gate.

(* ------------------------------------------------------------------ *)
(* cut_nul                                                             *)

Lemma cut_nul_some s fr rest : cut_nul s = Some (fr, rest) -> s = fr ++ 0 :: rest /\ ~ In 0 fr.
Proof.
  revert fr rest. induction s as [|c s IH]; intros fr rest H; simpl in H; [discriminate|].
  destruct (N.eqb_spec c 0) as [->|Hc].
  - inversion H; subst. split; [reflexivity|intros []].
  - destruct (cut_nul s) as [[a x]|] eqn:E; [|discriminate]. inversion H; subst.
    destruct (IH a rest eq_refl) as [-> Hn]. split; [reflexivity|].
    intros [Hx|Hx]; [congruence|auto].
Qed.

Lemma cut_nul_none s : cut_nul s = None -> ~ In 0 s.
Proof.
  induction s as [|c s IH]; intros H; simpl in *; [intros []|].
  destruct (N.eqb_spec c 0); [discriminate|].
  destruct (cut_nul s) as [[a x]|]; [discriminate|].
  intros [Hx|Hx]; [congruence|]. apply IH; auto.
Qed.

Lemma cut_nul_app_nonul fr rest : ~ In 0 fr -> cut_nul (fr ++ 0 :: rest) = Some (fr, rest).
Proof.
  induction fr as [|c fr IH]; intros H; simpl.
  - reflexivity.
  - destruct (N.eqb_spec c 0) as [->|Hc]; [exfalso; apply H; left; reflexivity|].
    rewrite IH; [reflexivity|]. intros Hx. apply H. right. exact Hx.
Qed.

Lemma cut_nul_length s fr rest : cut_nul s = Some (fr, rest) -> (length rest < length s)%nat.
Proof.
  intros H. apply cut_nul_some in H. destruct H as [-> _]. rewrite app_length. simpl. lia.
Qed.

(* ------------------------------------------------------------------ *)
(* the automaton                                                       *)

Lemma arun_app svc st a b :
  arun svc st (a ++ b) =
  let '(st1, o1) := arun svc st a in let '(st2, o2) := arun svc st1 b in (st2, o1 ++ o2).
Proof.
  revert st. induction a as [|c a IH]; intros st; simpl.
  - destruct (arun svc st b); reflexivity.
  - destruct (astep svc st c) as [st1 o1]. rewrite IH.
    destruct (arun svc st1 a) as [st2 o2]. destruct (arun svc st2 b) as [st3 o3].
    rewrite app_assoc. reflexivity.
Qed.

Lemma arun_closed svc s : arun svc AClosed s = (AClosed, []).
Proof. induction s as [|c s IH]; simpl; [reflexivity|]. rewrite IH. reflexivity. Qed.

Lemma upgraded_out_cons svc i c s :
  upgraded_out svc i (c :: s) = upgraded_out svc i [c] ++ upgraded_out svc i s.
Proof.
  unfold upgraded_out. destruct (beq_bytes i builtin_name); [reflexivity|].
  destruct (lookup_iface (s_ifaces svc) i) as [it|]; [|reflexivity].
  destruct (if_echo it); reflexivity.
Qed.

Lemma upgraded_out_nil svc i : upgraded_out svc i [] = [].
Proof.
  unfold upgraded_out. destruct (beq_bytes i builtin_name); [reflexivity|].
  destruct (lookup_iface (s_ifaces svc) i) as [it|]; [|reflexivity].
  destruct (if_echo it); reflexivity.
Qed.

Lemma arun_up svc i s : arun svc (AUp i) s = (AUp i, upgraded_out svc i s).
Proof.
  induction s as [|c s IH]; simpl.
  - rewrite upgraded_out_nil. reflexivity.
  - rewrite IH. rewrite <- upgraded_out_cons. reflexivity.
Qed.

Lemma arun_run_nonul svc s : forall p, ~ In 0 s -> arun svc (ARun p) s = (ARun (rev s ++ p), []).
Proof.
  induction s as [|c s IH]; intros p H; simpl; [reflexivity|].
  destruct (N.eqb_spec c 0) as [->|Hc]; [exfalso; apply H; left; reflexivity|].
  rewrite IH by (intros Hx; apply H; right; exact Hx).
  simpl. rewrite <- app_assoc. reflexivity.
Qed.

Lemma arun_frame svc fr rest p : ~ In 0 fr ->
  arun svc (ARun p) (fr ++ 0 :: rest) =
  let '(a, o) := on_frame svc (rev p ++ fr) in
  let '(a2, o2) := arun svc a rest in (a2, o ++ o2).
Proof.
  intros H. rewrite arun_app. rewrite arun_run_nonul by exact H. simpl.
  rewrite rev_app_distr, rev_involutive.
  destruct (on_frame svc (rev p ++ fr)) as [a o]. destruct (arun svc a rest) as [a2 o2]. reflexivity.
Qed.

(* ------------------------------------------------------------------ *)
(* handle() refines the automaton                                      *)

Definition base (u : option bytes) : astate := match u with Some i => AUp i | None => ARun [] end.

(* what the automaton still owes for a returned (tail, upgraded) pair *)
Definition owed svc (r : hres) : astate * bytes :=
  match r with
  | HOk t u => arun svc (base u) t
  | HErr => (AClosed, [])
  | HFuel => (AClosed, [])
  end.

Lemma handle_loop_arun svc f : forall s o r, (length s < f)%nat ->
  handle_loop f svc s = (o, r) ->
  r <> HFuel /\ arun svc (ARun []) s = let '(a, o') := owed svc r in (a, o ++ o').
Proof.
  induction f as [|f IH]; intros s o r Hl H; [lia|].
  simpl in H. destruct (cut_nul s) as [[fr rest]|] eqn:C.
  - pose proof (cut_nul_length _ _ _ C) as Hlen.
    destruct (cut_nul_some _ _ _ C) as [-> Hn].
    rewrite (arun_frame svc fr rest [] Hn). simpl rev. simpl app at 1.
    unfold on_frame.
    destruct (decode_request fr) as [q| |] eqn:D.
    + destruct (serve svc q) as [o1 oc] eqn:S. destruct oc as [|i|].
      * destruct (handle_loop f svc rest) as [o2 r2] eqn:HL. inversion H; subst.
        destruct (IH rest o2 r ltac:(lia) HL) as [Hnf Har]. split; [exact Hnf|].
        rewrite Har. destruct (owed svc r) as [a o']. rewrite app_assoc. reflexivity.
      * inversion H; subst. split; [discriminate|]. simpl. destruct (arun svc (AUp i) rest). reflexivity.
      * inversion H; subst. split; [discriminate|]. simpl. rewrite arun_closed. reflexivity.
    + inversion H; subst. split; [discriminate|]. simpl. rewrite arun_closed. reflexivity.
    + inversion H; subst. split; [discriminate|]. simpl. rewrite arun_closed. reflexivity.
  - inversion H; subst. split; [discriminate|]. simpl. destruct (arun svc (ARun []) s). reflexivity.
Qed.

Lemma handle_arun svc u s o r : handle svc u s = (o, r) ->
  r <> HFuel /\ arun svc (base u) s = let '(a, o') := owed svc r in (a, o ++ o').
Proof.
  unfold handle. destruct u as [i|]; intros H.
  - inversion H; subst. split; [discriminate|]. simpl. rewrite arun_up. rewrite app_nil_r. reflexivity.
  - apply (handle_loop_arun svc (S (length s))); [lia|exact H].
Qed.

(* totality of the handle loop: the fuel never runs out *)
Theorem handle_never_out_of_fuel svc u s : snd (handle svc u s) <> HFuel.
Proof. destruct (handle svc u s) as [o r] eqn:H. apply handle_arun in H. tauto. Qed.

(* a returned tail with no upgrade is an incomplete message: it contains no NUL *)
Lemma handle_loop_tail_nonul svc f : forall s o t, handle_loop f svc s = (o, HOk t None) -> ~ In 0 t.
Proof.
  induction f as [|f IH]; intros s o t H; simpl in H; [discriminate|].
  destruct (cut_nul s) as [[fr rest]|] eqn:C.
  - destruct (decode_request fr) as [q| |]; try discriminate.
    destruct (serve svc q) as [o1 oc]. destruct oc; try discriminate.
    destruct (handle_loop f svc rest) as [o2 r2] eqn:HL. inversion H; subst. eapply IH; eauto.
  - inversion H; subst. apply cut_nul_none. exact C.
Qed.

(* ------------------------------------------------------------------ *)
(* feed refines the automaton, for every chunking                      *)

Definition fs_owed svc (st : fstate) : astate * bytes :=
  if fs_closed st then (AClosed, []) else arun svc (base (fs_upg st)) (fs_tail st).

Lemma feed_step_arun svc st c st' o : feed_step svc st c = (st', o) ->
  let '(a, p) := fs_owed svc st in
  let '(a', p') := fs_owed svc st' in
  exists oa, arun svc a c = (a', oa) /\ p ++ oa = o ++ p'.
Proof.
  unfold feed_step, fs_owed. destruct (fs_closed st) eqn:Cl.
  - intros H. inversion H; subst. rewrite Cl. exists []. rewrite arun_closed. split; reflexivity.
  - destruct (handle svc (fs_upg st) (fs_tail st ++ c)) as [o1 r] eqn:H. intros E.
    destruct (handle_arun _ _ _ _ _ H) as [Hnf Har].
    rewrite arun_app in Har.
    destruct (arun svc (base (fs_upg st)) (fs_tail st)) as [a p].
    destruct (arun svc a c) as [a2 oa] eqn:A2.
    destruct r as [t u| |]; inversion E; subst; simpl in *.
    + destruct (arun svc (base u) t) as [a' p']. inversion Har; subst. exists oa. split; reflexivity.
    + inversion Har; subst. exists oa. split; [reflexivity|]. rewrite ?app_nil_r. reflexivity.
    + congruence.
Qed.

Lemma feed_arun svc chunks : forall st st' o, feed svc st chunks = (st', o) ->
  let '(a, p) := fs_owed svc st in
  let '(a', p') := fs_owed svc st' in
  exists oa, arun svc a (concat chunks) = (a', oa) /\ p ++ oa = o ++ p'.
Proof.
  induction chunks as [|c cs IH]; intros st st' o H; simpl in H.
  - inversion H; subst. destruct (fs_owed svc st') as [a p]. exists []. simpl. split; [reflexivity|].
    rewrite app_nil_r. reflexivity.
  - destruct (feed_step svc st c) as [st1 o1] eqn:S1.
    destruct (feed svc st1 cs) as [st2 o2] eqn:S2. inversion H; subst.
    pose proof (feed_step_arun _ _ _ _ _ S1) as F1. pose proof (IH _ _ _ S2) as F2.
    destruct (fs_owed svc st) as [a p]. destruct (fs_owed svc st1) as [a1 p1].
    destruct (fs_owed svc st') as [a' p'].
    destruct F1 as (oa1 & E1 & Q1). destruct F2 as (oa2 & E2 & Q2).
    exists (oa1 ++ oa2). simpl concat. rewrite arun_app, E1, E2. split; [reflexivity|].
    rewrite app_assoc, Q1, <- app_assoc, Q2, app_assoc. reflexivity.
Qed.

(* states the caller can be in between calls *)
Definition fs_wf (st : fstate) : Prop :=
  st = mkfs [] None true \/
  (fs_closed st = false /\ (fs_upg st <> None \/ ~ In 0 (fs_tail st))).

Lemma feed_step_wf svc st c st' o : feed_step svc st c = (st', o) -> fs_wf st -> fs_wf st'.
Proof.
  unfold feed_step. destruct (fs_closed st) eqn:Cl.
  - intros H W. inversion H; subst. exact W.
  - destruct (handle svc (fs_upg st) (fs_tail st ++ c)) as [o1 r] eqn:H. intros E _.
    destruct r as [t u| |]; inversion E; subst; try (left; reflexivity).
    right. split; [reflexivity|]. simpl.
    destruct u as [i|]; [left; discriminate|].
    right. unfold handle in H. destruct (fs_upg st); [inversion H|].
    eapply handle_loop_tail_nonul; eauto.
Qed.

Lemma feed_wf svc chunks : forall st st' o, feed svc st chunks = (st', o) -> fs_wf st -> fs_wf st'.
Proof.
  induction chunks as [|c cs IH]; intros st st' o H W; simpl in H.
  - inversion H; subst. exact W.
  - destruct (feed_step svc st c) as [st1 o1] eqn:S1.
    destruct (feed svc st1 cs) as [st2 o2] eqn:S2. inversion H; subst.
    eapply IH; eauto. eapply feed_step_wf; eauto.
Qed.

Lemma feed_app svc a b st :
  feed svc st (a ++ b) =
  let '(st1, o1) := feed svc st a in let '(st2, o2) := feed svc st1 b in (st2, o1 ++ o2).
Proof.
  revert st. induction a as [|c a IH]; intros st; simpl.
  - destruct (feed svc st b). reflexivity.
  - destruct (feed_step svc st c) as [st1 o1]. rewrite IH.
    destruct (feed svc st1 a) as [st2 o2]. destruct (feed svc st2 b) as [st3 o3].
    rewrite app_assoc. reflexivity.
Qed.

Lemma cut_nul_nonul s : ~ In 0 s -> cut_nul s = None.
Proof.
  induction s as [|c s IH]; intros H; simpl; [reflexivity|].
  destruct (N.eqb_spec c 0) as [->|Hc]; [exfalso; apply H; left; reflexivity|].
  rewrite IH; [reflexivity|]. intros Hx. apply H. right. exact Hx.
Qed.

(* the caller state that corresponds to an automaton state *)
Definition fs_of_astate (a : astate) : fstate :=
  match a with
  | ARun p => mkfs (rev p) None false
  | AUp i => mkfs [] (Some i) false
  | AClosed => mkfs [] None true
  end.

(* after the final call with nothing new, nothing is owed and the caller state is
   determined by the automaton state *)
Lemma flush_state svc st st' o : fs_wf st -> feed_step svc st [] = (st', o) ->
  exists a, fs_owed svc st' = (a, []) /\ st' = fs_of_astate a.
Proof.
  intros [->|[Cl W]] H.
  - unfold feed_step in H. simpl in H. inversion H; subst. exists AClosed. split; reflexivity.
  - unfold feed_step in H. rewrite Cl in H. rewrite app_nil_r in H.
    destruct (fs_upg st) as [i|] eqn:U.
    + simpl in H. inversion H; subst. exists (AUp i). split; reflexivity.
    + destruct W as [W|W]; [congruence|].
      unfold handle in H. simpl in H. rewrite (cut_nul_nonul _ W) in H. inversion H; subst.
      exists (ARun (rev (fs_tail st))). unfold fs_owed. simpl.
      rewrite (arun_run_nonul svc _ [] W), app_nil_r. split; [reflexivity|].
      rewrite rev_involutive. reflexivity.
Qed.

Lemma fs_init_wf : fs_wf fs_init.
Proof. right. split; [reflexivity|]. right. intros []. Qed.

(* MAIN: feeding any segmentation (with the end-of-input call) gives the automaton's
   output on the concatenation, and leaves the caller in the automaton's state *)
Theorem feed_all_spec svc chunks :
  feed_all svc chunks =
  (fs_of_astate (fst (arun svc (ARun []) (concat chunks))), spec_out svc (concat chunks)).
Proof.
  unfold feed_all, spec_out. rewrite feed_app.
  destruct (feed svc fs_init chunks) as [st1 o1] eqn:F1.
  simpl. destruct (feed_step svc st1 []) as [st2 o2] eqn:F2.
  pose proof (feed_wf _ _ _ _ _ F1 fs_init_wf) as W1.
  destruct (flush_state _ _ _ _ W1 F2) as (a2 & O2 & E2).
  pose proof (feed_arun _ _ _ _ _ F1) as A1. pose proof (feed_step_arun _ _ _ _ _ F2) as A2.
  unfold fs_owed at 1 in A1. simpl in A1.
  destruct (fs_owed svc st1) as [a1 p1]. rewrite O2 in A2.
  destruct A1 as (oa1 & R1 & Q1). destruct A2 as (oa2 & R2 & Q2).
  simpl in R2. inversion R2; subst a2 oa2.
  rewrite R1. simpl. rewrite !app_nil_r in *. subst. reflexivity.
Qed.

(* C02 (i): the result does not depend on how the stream is cut *)
Corollary feed_all_chunking svc chunks : feed_all svc chunks = feed_all svc [concat chunks].
Proof. rewrite !feed_all_spec. simpl. rewrite app_nil_r. reflexivity. Qed.

(* C02 (ii): the returned tail is what follows the last NUL, when nothing closed or upgraded *)
Fixpoint after_last_nul (acc s : bytes) : bytes :=
  match s with
  | [] => rev acc
  | c :: r => if c =? 0 then after_last_nul [] r else after_last_nul (c :: acc) r
  end.

Lemma arun_partial svc s : forall st p, arun svc st s = (ARun p, snd (arun svc st s)) ->
  forall p0, st = ARun p0 -> rev p = after_last_nul p0 s.
Proof.
  induction s as [|c s IH]; intros st p H p0 ->; simpl in *.
  - inversion H; subst. reflexivity.
  - destruct (N.eqb_spec c 0) as [->|Hc].
    + destruct (on_frame svc (rev p0)) as [a1 o1] eqn:OF. destruct (arun svc a1 s) as [a2 o2] eqn:AR.
      simpl in H. inversion H; subst a2.
      destruct a1 as [p1|i|].
      * unfold on_frame in OF. destruct (decode_request (rev p0)) as [q| |]; try discriminate.
        destruct (serve svc q) as [o oc]. destruct oc; inversion OF; subst.
        eapply (IH (ARun [])); [|reflexivity]. rewrite AR. reflexivity.
      * rewrite arun_up in AR. discriminate.
      * rewrite arun_closed in AR. discriminate.
    + destruct (arun svc (ARun (c :: p0)) s) as [a2 o2] eqn:AR. simpl in H. inversion H; subst a2.
      eapply (IH (ARun (c :: p0))); [|reflexivity]. rewrite AR. reflexivity.
Qed.

Theorem feed_all_tail svc chunks st o : feed_all svc chunks = (st, o) ->
  fs_closed st = false -> fs_upg st = None -> fs_tail st = after_last_nul [] (concat chunks).
Proof.
  rewrite feed_all_spec. intros H Cl U. inversion H; subst. clear H.
  destruct (arun svc (ARun []) (concat chunks)) as [a oo] eqn:A. simpl in *.
  destruct a as [p|i|]; simpl in *; try discriminate.
  eapply arun_partial; [|reflexivity]. rewrite A. reflexivity.
Qed.

(* C02 (iii): once upgraded, every later byte goes to the upgraded handler, in order, once *)
Theorem upgrade_hands_over_everything svc pre rest i o :
  arun svc (ARun []) pre = (AUp i, o) ->
  spec_out svc (pre ++ rest) = o ++ upgraded_out svc i rest.
Proof.
  intros H. unfold spec_out. rewrite arun_app, H, arun_up. reflexivity.
Qed.

(* ------------------------------------------------------------------ *)
(* pipelines: replies in request order, up to the first request that ends the session *)

Definition frame_of (f : bytes) : bytes := f ++ [0].
Definition wire (fs : list bytes) : bytes := flat_map frame_of fs.

(* serve decoded requests one after the other until one does not return OCont *)
Fixpoint serve_seq (svc : service) (qs : list request) : bytes * astate :=
  match qs with
  | [] => ([], ARun [])
  | q :: r =>
      let '(o, oc) := serve svc q in
      match oc with
      | OCont => let '(o2, a) := serve_seq svc r in (o ++ o2, a)
      | OUpgrade i => (o, AUp i)
      | OFail => (o, AClosed)
      end
  end.

(* frames that are NUL-free and decode to the given requests *)
Fixpoint decodes (fs : list bytes) (qs : list request) : Prop :=
  match fs, qs with
  | [], [] => True
  | f :: fs', q :: qs' => ~ In 0 f /\ decode_request f = Ok q /\ decodes fs' qs'
  | _, _ => False
  end.

(* number of requests served before the session leaves the request/reply mode *)
Fixpoint served (svc : service) (qs : list request) : nat :=
  match qs with
  | [] => O
  | q :: r => match snd (serve svc q) with OCont => S (served svc r) | _ => 1%nat end
  end.

Lemma arun_wire_run svc : forall fs qs, decodes fs qs ->
  arun svc (ARun []) (wire fs) =
  match snd (serve_seq svc qs) with
  | ARun _ => (ARun [], fst (serve_seq svc qs))
  | AUp i => (AUp i, fst (serve_seq svc qs) ++
                upgraded_out svc i (wire (skipn (served svc qs) fs)))
  | AClosed => (AClosed, fst (serve_seq svc qs))
  end.
Proof.
  induction fs as [|f fs IH]; intros [|q qs] D; simpl in D; try contradiction.
  - reflexivity.
  - destruct D as (Hn & Hd & D). simpl wire. unfold frame_of at 1. rewrite <- app_assoc. simpl app.
    rewrite (arun_frame svc f (wire fs) [] Hn). simpl rev. simpl app at 1.
    unfold on_frame. rewrite Hd. simpl serve_seq. simpl served.
    destruct (serve svc q) as [o oc]. destruct oc as [|i|]; simpl.
    + rewrite (IH qs D). destruct (serve_seq svc qs) as [o2 a]. simpl.
      destruct a; try reflexivity. rewrite app_assoc. reflexivity.
    + rewrite arun_up. reflexivity.
    + rewrite arun_closed. rewrite app_nil_r. reflexivity.
Qed.

(* C01: the output for a pipeline is the concatenation, in request order, of what each
   request yields on its own, for exactly the requests up to and including the first one
   that closes or upgrades the session *)
Theorem pipeline_in_order svc fs qs : decodes fs qs ->
  (forall q, In q qs -> snd (serve svc q) <> OFail -> forall i, snd (serve svc q) <> OUpgrade i) ->
  spec_out svc (wire fs) = flat_map (fun q => fst (serve svc q)) (firstn (served svc qs) qs).
Proof.
  intros D NoUp. unfold spec_out. rewrite (arun_wire_run svc fs qs D).
  assert (G : forall qs, (forall q, In q qs -> snd (serve svc q) <> OFail -> forall i, snd (serve svc q) <> OUpgrade i) ->
              fst (serve_seq svc qs) = flat_map (fun q => fst (serve svc q)) (firstn (served svc qs) qs)
              /\ (forall i, snd (serve_seq svc qs) <> AUp i)).
  { clear. induction qs as [|q qs IH]; intros NoUp; simpl.
    - split; [reflexivity|discriminate].
    - pose proof (NoUp q (or_introl eq_refl)) as Hq.
      destruct (serve svc q) as [o oc] eqn:S. simpl in *. destruct oc as [|i|]; simpl.
      + destruct (IH (fun q' H => NoUp q' (or_intror H))) as [E1 E2].
        destruct (serve_seq svc qs) as [o2 a]. simpl in *. rewrite E1. rewrite ?S. simpl. split; [reflexivity|exact E2].
      + exfalso. apply (Hq ltac:(discriminate) i). reflexivity.
      + rewrite ?S. simpl. rewrite app_nil_r. split; [reflexivity|discriminate]. }
  destruct (G qs NoUp) as [E1 E2]. destruct (serve_seq svc qs) as [o a]. simpl in *.
  destruct a as [p|i|]; simpl; try exact E1. exfalso. apply (E2 i). reflexivity.
Qed.

(* no request is skipped while the connection stays open: if the session is still in
   request/reply mode after the pipeline, every request was served *)
Theorem nothing_skipped svc fs qs : decodes fs qs ->
  (exists p, fst (arun svc (ARun []) (wire fs)) = ARun p) -> served svc qs = length qs.
Proof.
  intros D [p H]. rewrite (arun_wire_run svc fs qs D) in H.
  assert (G : forall qs, (exists p, snd (serve_seq svc qs) = ARun p) -> served svc qs = length qs).
  { clear. induction qs as [|q qs IH]; intros [p H]; simpl in *; [reflexivity|].
    destruct (serve svc q) as [o oc]. simpl. destruct oc; simpl in *; try discriminate.
    destruct (serve_seq svc qs) as [o2 a] eqn:S. simpl in *. rewrite IH; [reflexivity|]. exists p. exact H. }
  apply G. destruct (snd (serve_seq svc qs)) as [p'|i|] eqn:S; simpl in H; try discriminate.
  exists p'. reflexivity.
Qed.

(* ------------------------------------------------------------------ *)
(* oneway (C04) and the continues gate (C05)                           *)

Section Writers.
Hypothesis Hrs : reply_struct_checks_oneway = true.
Hypothesis Hrp : reply_parameters_checks_oneway = true.

Lemma reply_struct_oneway q cont y l : is_oneway q = true -> reply_struct q cont y = WWrote l -> l = [].
Proof.
  unfold reply_struct. intros O. rewrite Hrs, O. simpl.
  destruct (cont && negb (wants_more q)); [destruct oneway_checked_after_gate; simpl|]; congruence.
Qed.

Lemma run_actions_oneway q : is_oneway q = true ->
  forall l cont upg, fst (fst (run_actions q cont upg l)) = [].
Proof.
  intros O. induction l as [|a l IH]; intros cont upg; simpl; [reflexivity|].
  destruct a as [b|p|n p| |]; simpl; auto.
  - destruct (reply_struct q cont (mkreply None None p)) as [w|] eqn:R; [|reflexivity].
    apply reply_struct_oneway in R; auto. subst. specialize (IH cont upg).
    destruct (run_actions q cont upg l) as [[o ok] u]. simpl in *. exact IH.
  - destruct (reply_struct q cont (mkreply None (Some n) p)) as [w|] eqn:R; [|reflexivity].
    apply reply_struct_oneway in R; auto. subst. specialize (IH cont upg).
    destruct (run_actions q cont upg l) as [[o ok] u]. simpl in *. exact IH.
Qed.

Lemma builtin_oneway svc q : is_oneway q = true -> fst (fst (builtin_call svc q)) = [].
Proof.
  intros O. unfold builtin_call, reply_parameters. rewrite Hrp, O. cbn [andb].
  destruct (beq_bytes (r_method q) m_getinfo); [reflexivity|].
  destruct (beq_bytes (r_method q) m_getdescr).
  - destruct (r_params q) as [p|]; [|apply run_actions_oneway; exact O].
    destruct (de_value schema_GetInterfaceDescriptionArgs p) as [[|[] []]|]; try reflexivity.
    destruct (beq_bytes s builtin_name); [reflexivity|].
    destruct (lookup_iface (s_ifaces svc) s); [reflexivity|]. apply run_actions_oneway; exact O.
  - apply run_actions_oneway; exact O.
Qed.

(* C04: a oneway request produces no reply bytes, whatever it names and whatever the
   method implementation does *)
Theorem oneway_never_replies svc q : is_oneway q = true -> fst (serve svc q) = [].
Proof.
  intros O. unfold serve, serve_r.
  assert (D : forall i, fst (fst (dispatch svc i q)) = []).
  { intros i. unfold dispatch. destruct (beq_bytes i builtin_name); [apply builtin_oneway; exact O|].
    destruct (lookup_iface (s_ifaces svc) i); apply run_actions_oneway; exact O. }
  destruct (rsplit_dot (r_method q)) as [[i m]|].
  - specialize (D i). destruct (dispatch svc i q) as [[o ok] u]. simpl in *. subst. reflexivity.
  - pose proof (run_actions_oneway q O [a_interface_not_found (r_method q)] false false) as R.
    destruct (run_actions q false false [a_interface_not_found (r_method q)]) as [[o ok] u].
    simpl in *. subst. reflexivity.
Qed.

(* the reply stream of a pipeline is unchanged by deleting the oneway requests that do not
   end the session *)
Corollary oneway_transparent svc q : is_oneway q = true -> snd (serve svc q) = OCont ->
  forall qs1 qs2, fst (serve_seq svc (qs1 ++ q :: qs2)) = fst (serve_seq svc (qs1 ++ qs2)).
Proof.
  intros O C qs1 qs2. induction qs1 as [|q1 qs1 IH]; simpl.
  - pose proof (oneway_never_replies svc q O) as E. destruct (serve svc q) as [o oc]. simpl in *. subst.
    destruct (serve_seq svc qs2) as [o2 a]. reflexivity.
  - destruct (serve svc q1) as [o1 oc1]. destruct oc1; try reflexivity.
    destruct (serve_seq svc (qs1 ++ q :: qs2)) as [oa aa]. destruct (serve_seq svc (qs1 ++ qs2)) as [ob ab].
    simpl in *. rewrite IH. reflexivity.
Qed.
End Writers.

(* C05: a reply carrying continues=true is only ever written for a request with more=true;
   the attempt to do otherwise is an error and writes nothing *)
Lemma reply_struct_continues q cont y l r : reply_struct q cont y = WWrote l -> In r l ->
  y_continues r = Some true -> wants_more q = true.
Proof.
  unfold reply_struct. destruct cont; simpl.
  - destruct (wants_more q); simpl; [reflexivity|].
    destruct (reply_struct_checks_oneway && negb oneway_checked_after_gate && is_oneway q); intros H; inversion H; subst; intros [].
  - destruct (reply_struct_checks_oneway && is_oneway q); intros H; inversion H; subst.
    + intros [].
    + intros [<-|[]]. simpl. discriminate.
Qed.

Lemma reply_struct_gate q y : wants_more q = false -> is_oneway q = false ->
  reply_struct q true y = WGate.
Proof.
  unfold reply_struct. intros -> O. simpl. rewrite O. rewrite !andb_false_r. reflexivity.
Qed.

Theorem continues_only_answers_more q : forall l cont upg r,
  In r (fst (fst (run_actions q cont upg l))) -> y_continues r = Some true -> wants_more q = true.
Proof.
  induction l as [|a l IH]; intros cont upg r; simpl; [intros []|].
  destruct a as [b|p|n p| |]; simpl; eauto; try (intros []).
  - destruct (reply_struct q cont (mkreply None None p)) as [w|] eqn:R; [|intros []].
    specialize (IH cont upg r). destruct (run_actions q cont upg l) as [[o ok] u]. simpl in *.
    intros H. apply in_app_or in H. destruct H as [H|H]; [eapply reply_struct_continues; eauto|auto].
  - destruct (reply_struct q cont (mkreply None (Some n) p)) as [w|] eqn:R; [|intros []].
    specialize (IH cont upg r). destruct (run_actions q cont upg l) as [[o ok] u]. simpl in *.
    intros H. apply in_app_or in H. destruct H as [H|H]; [eapply reply_struct_continues; eauto|auto].
Qed.

(* once the gate trips, the script stops in error and nothing further is written *)
Theorem gate_stops_script q l upg p : wants_more q = false -> is_oneway q = false ->
  run_actions q true upg (AReply p :: l) = ([], false, upg).
Proof. intros M O. simpl. rewrite (reply_struct_gate q _ M O). reflexivity. Qed.

(* ------------------------------------------------------------------ *)
(* malformed input (C06)                                               *)

(* the first frame that does not decode: nothing is written for it, everything before it
   is answered as if it were alone, and the session is closed *)
Theorem malformed_contained svc fs qs bad rest :
  decodes fs qs -> ~ In 0 bad -> (forall q, decode_request bad <> Ok q) ->
  (forall q, In q qs -> snd (serve svc q) = OCont) ->
  arun svc (ARun []) (wire fs ++ frame_of bad ++ rest) =
  (AClosed, flat_map (fun q => fst (serve svc q)) qs).
Proof.
  intros D Hb Hd AllC. rewrite arun_app. rewrite (arun_wire_run svc fs qs D).
  assert (G : forall qs, (forall q, In q qs -> snd (serve svc q) = OCont) ->
              serve_seq svc qs = (flat_map (fun q => fst (serve svc q)) qs, ARun [])).
  { clear. induction qs as [|q qs IH]; intros AllC; simpl; [reflexivity|].
    pose proof (AllC q (or_introl eq_refl)) as Hq. destruct (serve svc q) as [o oc]. simpl in *. subst.
    rewrite IH by (intros q' H; apply AllC; right; exact H). reflexivity. }
  rewrite (G qs AllC). simpl. unfold frame_of. rewrite <- app_assoc. simpl app.
  rewrite (arun_frame svc bad rest [] Hb). simpl rev. simpl app at 1. unfold on_frame.
  destruct (decode_request bad) as [q| |] eqn:E; [exfalso; apply (Hd q); reflexivity| |];
    rewrite arun_closed; rewrite !app_nil_r; reflexivity.
Qed.

(* ------------------------------------------------------------------ *)
(* routing (C03)                                                       *)

Lemma rsplit_dot_spec s i m : rsplit_dot s = Some (i, m) <-> s = i ++ 46 :: m /\ ~ In 46 m.
Proof.
  revert i m. induction s as [|c s IH]; intros i m; simpl.
  - split; [discriminate|]. intros [H _]. destruct i; discriminate.
  - destruct (rsplit_dot s) as [[a b]|] eqn:E.
    + split.
      * intros H. inversion H; subst. destruct (proj1 (IH a m) eq_refl) as [-> Hn]. split; [reflexivity|exact Hn].
      * intros [H Hn]. destruct i as [|c' i'].
        -- simpl in H. inversion H; subst. exfalso.
           destruct (proj1 (IH a b) eq_refl) as [Hs _]. apply Hn. rewrite Hs. apply in_or_app. right. left. reflexivity.
        -- simpl in H. inversion H; subst.
           assert (X : Some (a, b) = Some (i', m)) by (apply IH; split; auto). inversion X; subst. reflexivity.
    + destruct (N.eqb_spec c 46) as [->|Hc].
      * split.
        -- intros H. inversion H; subst. split; [reflexivity|].
           intros Hin. apply in_split in Hin. destruct Hin as (l1 & l2 & ->).
           assert (X : rsplit_dot (l1 ++ 46 :: l2) <> None).
           { clear. induction l1 as [|x l1 IHl]; simpl.
             - destruct (rsplit_dot l2) as [[? ?]|]; discriminate.
             - destruct (rsplit_dot (l1 ++ 46 :: l2)) as [[? ?]|]; [discriminate|contradiction]. }
           contradiction.
        -- intros [H Hn]. destruct i as [|c' i'].
           ++ simpl in H. inversion H; subst. reflexivity.
           ++ simpl in H. inversion H; subst. exfalso.
              assert (X : None = Some (i', m)) by (apply IH; split; auto). discriminate.
      * split; [discriminate|]. intros [H Hn]. destruct i as [|c' i'].
        -- simpl in H. inversion H; subst. contradiction.
        -- simpl in H. inversion H; subst. exfalso.
           assert (X : None = Some (i', m)) by (apply IH; split; auto). discriminate.
Qed.

(* a call to i.m reaches exactly the interface registered as i, with the request unchanged *)
Theorem routed_to_registered svc q i m it :
  r_method q = i ++ 46 :: m -> ~ In 46 m -> i <> builtin_name ->
  lookup_iface (s_ifaces svc) i = Some it ->
  fst (serve_r svc q) = fst (fst (run_actions q false false (if_call it q))).
Proof.
  intros Hm Hn Hb L. unfold serve_r.
  rewrite (proj2 (rsplit_dot_spec (r_method q) i m) (conj Hm Hn)).
  unfold dispatch. destruct (beq_bytes_spec i builtin_name); [contradiction|]. rewrite L.
  destruct (run_actions q false false (if_call it q)) as [[o ok] u]. reflexivity.
Qed.

Lemma lookup_iface_name l n it : lookup_iface l n = Some it -> if_name it = n /\ In it l.
Proof.
  induction l as [|x l IH]; simpl; [discriminate|].
  destruct (lookup_iface l n) as [j|] eqn:E.
  - intros H. inversion H; subst. destruct (IH eq_refl) as [H1 H2]. split; [exact H1|right; exact H2].
  - destruct (beq_bytes_spec n (if_name x)); [|discriminate]. intros H. inversion H; subst. split; [reflexivity|left; reflexivity].
Qed.

Lemma lookup_iface_none l n : lookup_iface l n = None <-> ~ In n (map if_name l).
Proof.
  induction l as [|x l IH]; simpl; [tauto|].
  destruct (lookup_iface l n) as [j|] eqn:E.
  - split; [discriminate|]. intros H. exfalso. apply H. right.
    apply lookup_iface_name in E. destruct E as [<- Hin]. apply in_map. exact Hin.
  - destruct (beq_bytes_spec n (if_name x)).
    + split; [discriminate|]. intros H. exfalso. apply H. left. congruence.
    + split; [|reflexivity]. intros _ [H|H]; [congruence|]. apply (proj1 IH eq_refl). exact H.
Qed.

(* otherwise the reply is InterfaceNotFound naming the interface (unless oneway) *)
Theorem unknown_interface_reply svc q i m :
  r_method q = i ++ 46 :: m -> ~ In 46 m -> i <> builtin_name ->
  ~ In i (map if_name (s_ifaces svc)) -> is_oneway q = false ->
  serve_r svc q =
  ([mkreply None (Some err_interface_not_found)
      (Some (JObj [(err_interface_not_found_member, JStr i)]))], OCont).
Proof.
  intros Hm Hn Hb Hni O. unfold serve_r.
  rewrite (proj2 (rsplit_dot_spec (r_method q) i m) (conj Hm Hn)).
  unfold dispatch. destruct (beq_bytes_spec i builtin_name); [contradiction|].
  rewrite (proj2 (lookup_iface_none _ _) Hni). simpl. unfold reply_struct. simpl. rewrite O.
  rewrite andb_false_r. reflexivity.
Qed.

(* a method name without a dot is answered InterfaceNotFound and the session goes on *)
Theorem dotless_method_reply svc q : ~ In 46 (r_method q) -> is_oneway q = false ->
  serve_r svc q =
  ([mkreply None (Some err_interface_not_found)
      (Some (JObj [(err_interface_not_found_member, JStr (r_method q))]))], OCont).
Proof.
  intros Hn O. unfold serve_r.
  assert (E : rsplit_dot (r_method q) = None).
  { destruct (rsplit_dot (r_method q)) as [[i m]|] eqn:E; [|reflexivity].
    apply rsplit_dot_spec in E. destruct E as [E _]. exfalso. apply Hn. rewrite E.
    apply in_or_app. right. left. reflexivity. }
  rewrite E. simpl. unfold reply_struct. simpl. rewrite O. rewrite andb_false_r. reflexivity.
Qed.

(* GetInfo tells the truth *)
Theorem getinfo_reply svc q : r_method q = m_getinfo -> is_oneway q = false ->
  serve_r svc q = ([mkreply None None (Some (info_json svc))], OCont).
Proof.
  intros Hm O. unfold serve_r. rewrite Hm.
  assert (E : rsplit_dot m_getinfo = Some (builtin_name, [71; 101; 116; 73; 110; 102; 111])) by (vm_compute; reflexivity).
  rewrite E. unfold dispatch. rewrite beq_bytes_refl. unfold builtin_call. rewrite Hm, beq_bytes_refl.
  unfold reply_parameters. rewrite O, andb_false_r. reflexivity.
Qed.

Lemma dedup_names_NoDup l : NoDup (dedup_names l).
Proof.
  induction l as [|n l IH]; simpl; [constructor|].
  destruct (mem_bytes n l) eqn:M; [exact IH|].
  constructor; [|exact IH]. intros H.
  assert (X : forall l, In n (dedup_names l) -> In n l).
  { clear. induction l as [|x l IHl]; simpl; [tauto|].
    destruct (mem_bytes x l); simpl; intuition. }
  apply X in H. apply mem_bytes_In in H. congruence.
Qed.

Lemma dedup_names_In l n : In n (dedup_names l) <-> In n l.
Proof.
  induction l as [|x l IH]; simpl; [tauto|].
  destruct (mem_bytes x l) eqn:M; simpl.
  - rewrite IH. split; [tauto|]. intros [->|H]; [apply mem_bytes_In; exact M|exact H].
  - rewrite IH. tauto.
Qed.

(* every registered interface is advertised exactly once *)
Theorem advertised_once svc : NoDup (table_names svc) /\
  forall n, In n (table_names svc) <-> In n (map if_name (s_ifaces svc)).
Proof. split; [apply dedup_names_NoDup|intros n; apply dedup_names_In]. Qed.
