From Coq Require Import List Arith Lia Bool.
From VL Require Import Listen.
Import ListNotations.

Section L.
Variable c : lcfg.

(* the countdown and the time waited add up to the configured idle period *)
Definition LInv (s : lst) : Prop :=
  (has_stop c && (idle_s c =? 0) = false -> to_wait s + waited s = full c) /\ to_wait s <= full c.

Lemma linv_init : LInv (linit c).
Proof. unfold LInv, linit; simpl. split; intros; lia. Qed.

Lemma linv_step s e s' : LInv s -> lstep c s e = inl s' -> LInv s'.
Proof.
  intros [I1 I2] H. destruct e as [stop busy|stop]; simpl in H.
  - destruct (has_stop c && stop); [discriminate|].
    destruct (has_stop c && (idle_s c =? 0)) eqn:Z.
    + inversion H; subst. unfold LInv; simpl. rewrite Z. split; [discriminate|exact I2].
    + specialize (I1 eq_refl). destruct (Nat.leb_spec (to_wait s) (wait_time c)).
      * destruct (busy =? 0); [discriminate|]. inversion H; subst. unfold LInv; simpl. split; intros; lia.
      * inversion H; subst. unfold LInv; simpl. split; intros; lia.
  - destruct (check_after_accept c && has_stop c && stop); [discriminate|]. inversion H; subst.
    unfold LInv; simpl. split; intros; lia.
Qed.

(* Timeout is returned only after at least the whole idle period has been waited since the
   countdown was last re-armed (by a new connection or by busy workers), and only when the
   pool's counter is zero at that moment *)
Theorem timeout_only_after_idle_period s stop busy : LInv s ->
  lstep c s (Tick stop busy) = inr RTimeout ->
  busy = 0 /\ full c <= waited s + wait_time c /\ (has_stop c = true -> stop = false).
Proof.
  intros [I1 I2] H. simpl in H. destruct (has_stop c && stop) eqn:S; [discriminate|].
  destruct (has_stop c && (idle_s c =? 0)) eqn:Z; [discriminate|]. specialize (I1 eq_refl).
  destruct (Nat.leb_spec (to_wait s) (wait_time c)); [|discriminate].
  destruct (Nat.eqb_spec busy 0); [|discriminate]. split; [assumption|]. split; [lia|].
  intros Hs. rewrite Hs in S. simpl in S. exact S.
Qed.

Lemma lrun_inv es : forall s res s' rest, LInv s -> lrun c s es = (Some res, s', rest) -> LInv s'.
Proof.
  induction es as [|e es IH]; intros s res s' rest I H; simpl in H; [discriminate|].
  destruct (lstep c s e) as [s1|r] eqn:St.
  - apply (IH s1 res s' rest); [eapply linv_step; eauto|exact H].
  - inversion H; subst. exact I.
Qed.

(* on any trace from the start *)
Theorem timeout_sound es s' rest : lrun c (linit c) es = (Some RTimeout, s', rest) ->
  full c <= waited s' + wait_time c.
Proof.
  intros H. pose proof (lrun_inv es _ _ _ _ linv_init H) as I.
  assert (G : forall es s, lrun c s es = (Some RTimeout, s', rest) -> exists stop busy, lstep c s' (Tick stop busy) = inr RTimeout).
  { clear. induction es as [|e es IH]; intros s H; simpl in H; [discriminate|].
    destruct (lstep c s e) as [s1|r] eqn:St; [eapply IH; eauto|]. inversion H; subst.
    destruct e as [stop busy|stop]; [eauto|]. simpl in St.
    destruct (check_after_accept c && has_stop c && stop); discriminate. }
  destruct (G _ _ H) as (stop & busy & T). apply (timeout_only_after_idle_period _ _ _ I T).
Qed.

(* the stop flag is honoured at the first accept timeout that sees it *)
Theorem stop_honoured_on_tick s busy : has_stop c = true -> lstep c s (Tick true busy) = inr RStopped.
Proof. intros H. simpl. rewrite H. reflexivity. Qed.

(* with the flag also tested per accepted connection: no connection is accepted once an event
   has seen the flag set (the one during which it was set is still served) *)
Theorem at_most_one_accept_after_stop : check_after_accept c = true -> has_stop c = true ->
  forall es s, Forall (fun e => ev_stop e = true) es ->
  naccepted (snd (fst (lrun c s es))) = naccepted s.
Proof.
  intros Hc Hs. induction es as [|e es IH]; intros s F; simpl; [reflexivity|].
  inversion F as [|? ? He Fr]; subst. destruct e as [stop busy|stop]; simpl in He; subst; simpl; rewrite Hs, ?Hc; simpl; reflexivity.
Qed.
End L.

(* without the per-accept test the loop can accept any number of connections after the flag was
   set, as long as they arrive less than a quantum apart (the pinned tree's behaviour) *)
Theorem stop_starved_without_accept_check : forall n,
  exists es, Forall (fun e => ev_stop e = true) es /\
    naccepted (snd (fst (lrun (mkcfg 0 true 100 false) (linit (mkcfg 0 true 100 false)) es))) = n /\
    fst (fst (lrun (mkcfg 0 true 100 false) (linit (mkcfg 0 true 100 false)) es)) = None.
Proof.
  intros n. exists (repeat (Acc true) n). split; [apply Forall_forall; intros x Hx; apply repeat_spec in Hx; subst; reflexivity|].
  assert (G : forall n s, lrun (mkcfg 0 true 100 false) s (repeat (Acc true) n) =
                          (None, mkl (if n then to_wait s else 0) (if n then waited s else 0) (n + naccepted s), [])).
  { induction n0 as [|n0 IH]; intros s; simpl; [destruct s; reflexivity|].
    rewrite IH. simpl. f_equal. f_equal. destruct n0; simpl; f_equal; lia. }
  rewrite G. simpl. split; [lia|reflexivity].
Qed.
