(* Rendered types parse to their syntax tree: a declarative rendering relation for the type
   sub-grammar of the varlink IDL (RType / RField / RFields, with arbitrary legal trivia) and the
   proof that the parser model of Idl.v returns exactly the rendered tree (render_parse).
   Port of proto/TyProof.v to the definitions of Idl.v / GrammarGen.v. *)
From Coq Require Import List NArith Lia Bool Arith.
From VL Require Import Idl.
From VLG Require Import GrammarGen.
Import ListNotations.
Open Scope N_scope.

Arguments N.eqb : simpl never. Arguments N.leb : simpl never.
Arguments in_ranges : simpl never.

(* ---------- character tables ---------- *)
Lemma in_ranges_cons lo hi r c :
  in_ranges ((lo, hi) :: r) c = ((lo <=? c) && (c <=? hi)) || in_ranges r c.
Proof. reflexivity. Qed.
Lemma in_ranges_nil c : in_ranges [] c = false.
Proof. reflexivity. Qed.

Definition trivc c := is_ws c || is_eolc c.

Ltac tables :=
  unfold trivc, is_ws, is_eolc, ws_ranges, comment_stop_ranges, field_first, field_rest,
    name_first, name_rest in *;
  rewrite ?in_ranges_cons, ?in_ranges_nil in *.
Ltac bools :=
  rewrite ?orb_true_iff, ?orb_false_iff, ?andb_true_iff, ?andb_false_iff,
    ?N.leb_le, ?N.leb_gt, ?N.eqb_eq, ?N.eqb_neq in *.

Lemma field_rest_name_rest : field_rest = name_rest.
Proof. reflexivity. Qed.

(* a trivia character is not a name character and none of the punctuation characters *)
Lemma triv_facts c : trivc c = true ->
  in_ranges name_rest c = false /\ in_ranges field_rest c = false /\
  in_ranges field_first c = false /\ in_ranges name_first c = false /\
  c <> 95 /\ c <> 44 /\ c <> 58 /\ c <> 40 /\ c <> 41 /\ c <> 35 /\ c <> 45.
Proof. intros H. tables. bools. lia. Qed.

Lemma first_facts c : in_ranges field_first c = true ->
  trivc c = false /\ c <> 35 /\ c <> 40 /\ c <> 41 /\ c <> 44 /\ c <> 58 /\ c <> 63 /\ c <> 91.
Proof. intros H. tables. bools. lia. Qed.

Lemma upper_first c : in_ranges name_first c = true -> in_ranges field_first c = true.
Proof. intros H. tables. bools. lia. Qed.

Lemma upper_facts c : in_ranges name_first c = true ->
  c <> 98 /\ c <> 105 /\ c <> 102 /\ c <> 115 /\ c <> 111.
Proof. intros H. tables. bools. lia. Qed.

(* ---------- trivia ---------- *)
Inductive Trivia : str -> Prop :=
| T_nil : Trivia []
| T_ws c t : trivc c = true -> Trivia t -> Trivia (c :: t)
| T_comment body e t : Forall (fun c => is_eolc c = false) body -> is_eolc e = true ->
    Trivia t -> Trivia (35 :: body ++ e :: t).

(* r starts a token: not whitespace, not eol, not '#' ; or r is empty *)
Definition tokstart (r : str) : Prop :=
  match r with [] => True | c :: _ => trivc c = false /\ c <> 35 end.

Lemma hash_not_triv : trivc 35 = false. Proof. reflexivity. Qed.

Lemma skip_None_cons c r :
  skip None (c :: r) = if is_ws c || is_eolc c then skip None r
                       else if c =? 35 then skip (Some (c :: r)) r else c :: r.
Proof. reflexivity. Qed.
Lemma skip_Some_cons s0 c r :
  skip (Some s0) (c :: r) = if is_eolc c then skip None r else skip (Some s0) r.
Proof. reflexivity. Qed.

Lemma skip_comment body : forall e t s0 r,
  Forall (fun c => is_eolc c = false) body -> is_eolc e = true ->
  skip (Some s0) (body ++ e :: t ++ r) = skip None (t ++ r).
Proof.
  induction body as [|b body IH]; intros e t s0 r Hb He; cbn [app]; rewrite skip_Some_cons.
  - rewrite He. reflexivity.
  - inversion Hb as [|b' body' Hb1 Hb2]; subst. rewrite Hb1. apply IH; auto.
Qed.

Lemma wce_trivia t : Trivia t -> forall r, tokstart r -> wce (t ++ r) = r.
Proof.
  unfold wce. induction 1 as [|c t Hc Ht IH|body e t Hb He Ht IH]; intros r Hr.
  - cbn [app]. destruct r as [|c r]; [reflexivity|]. destruct Hr as [H1 H2].
    rewrite skip_None_cons. unfold trivc in H1. rewrite H1. apply N.eqb_neq in H2. rewrite H2. reflexivity.
  - cbn [app]. rewrite skip_None_cons. unfold trivc in Hc. rewrite Hc. apply IH; auto.
  - cbn [app]. rewrite skip_None_cons. change (is_ws 35 || is_eolc 35) with false.
    change (35 =? 35) with true. cbv iota.
    rewrite <- app_assoc. cbn [app]. rewrite skip_comment; auto.
Qed.

Lemma wce_tok r : tokstart r -> wce r = r.
Proof. intros H. apply (wce_trivia [] T_nil r H). Qed.

(* ---------- names ---------- *)
Definition follow (r : str) : Prop :=
  match r with [] => True | c :: _ => in_ranges name_rest c = false /\ c <> 95 end.

Lemma fn_tail_cons c r : fn_tail (c :: r) =
  if in_ranges field_rest c then let '(a, b) := fn_tail r in (c :: a, b)
  else if c =? 95 then
    match r with
    | d :: r' => if in_ranges field_rest d then let '(a, b) := fn_tail r' in (c :: d :: a, b) else ([], c :: r)
    | [] => ([], c :: r)
    end
  else ([], c :: r).
Proof. reflexivity. Qed.

Lemma fn_tail_follow r : follow r -> fn_tail r = ([], r).
Proof.
  destruct r as [|d r]; [reflexivity|]. intros [H1 H2]. rewrite fn_tail_cons.
  rewrite field_rest_name_rest, H1. apply N.eqb_neq in H2. rewrite H2. reflexivity.
Qed.

Lemma fn_tail_app_n k : forall a b r, (length a <= k)%nat -> fn_tail a = (b, []) -> follow r ->
  fn_tail (a ++ r) = (b, r).
Proof.
  induction k as [|k IH]; intros [|c a] b r Hl H Hr; cbn [length] in Hl; try lia.
  - cbn in H. inversion H; subst. cbn [app]. apply fn_tail_follow; auto.
  - cbn in H. inversion H; subst. cbn [app]. apply fn_tail_follow; auto.
  - cbn [app]. rewrite fn_tail_cons in *. destruct (in_ranges field_rest c).
    + destruct (fn_tail a) as [x y] eqn:E. inversion H; subst.
      rewrite (IH a x r ltac:(lia) E Hr). reflexivity.
    + destruct (c =? 95).
      * destruct a as [|d a]; [discriminate|]. cbn [app]. destruct (in_ranges field_rest d); [|discriminate].
        destruct (fn_tail a) as [x y] eqn:E. inversion H; subst.
        cbn [length] in Hl. rewrite (IH a x r ltac:(lia) E Hr). reflexivity.
      * discriminate.
Qed.
Lemma fn_tail_app a b r : fn_tail a = (b, []) -> follow r -> fn_tail (a ++ r) = (b, r).
Proof. apply (fn_tail_app_n (length a)); lia. Qed.

Definition FName (n : str) := field_name n = Some (n, []).
Lemma field_name_app n r : FName n -> follow r -> field_name (n ++ r) = Some (n, r).
Proof.
  unfold FName, field_name. destruct n as [|c n]; [discriminate|]. cbn [app].
  destruct (in_ranges field_first c); [|discriminate]. destruct (fn_tail n) as [x y] eqn:E. intros H Hr.
  inversion H; subst. rewrite (fn_tail_app n n r E Hr). reflexivity.
Qed.

Lemma span_app p a : forall r, span p a = (a, []) -> (match r with [] => True | c :: _ => p c = false end) ->
  span p (a ++ r) = (a, r).
Proof.
  induction a as [|c a IH]; intros r H Hr; cbn [app span] in *.
  - destruct r; cbn [span]; auto. rewrite Hr. reflexivity.
  - destruct (p c); [|discriminate]. destruct (span p a) as [x y] eqn:E. inversion H; subst.
    rewrite (IH r eq_refl Hr). reflexivity.
Qed.

Definition TNameOk (n : str) := tname n = Some (n, []).
Lemma tname_app n r : TNameOk n -> follow r -> tname (n ++ r) = Some (n, r).
Proof.
  unfold TNameOk, tname. destruct n as [|c n]; [discriminate|]. cbn [app].
  destruct (in_ranges name_first c); [|discriminate].
  destruct (span (in_ranges name_rest) n) as [x y] eqn:E. intros H Hr.
  inversion H; subst. rewrite (span_app (in_ranges name_rest) n r E); auto.
  destruct r; auto. destruct Hr; auto.
Qed.

(* ---------- rendering relation ---------- *)
Definition not_opt t := match t with TOpt _ => False | _ => True end.

Inductive REnumRest : list str -> str -> Prop :=
| RE0 : REnumRest [] []
| RES e es t s : Trivia t -> FName e -> REnumRest es s -> REnumRest (e :: es) (44 :: t ++ e ++ s).

Inductive RType : vtype -> str -> Prop :=
| R_bool : RType TBool (kw 0)
| R_int : RType TInt (kw 1)
| R_float : RType TFloat (kw 2)
| R_string : RType TString (kw 3)
| R_object : RType TObject (kw 4)
| R_name n : TNameOk n -> RType (TName n) n
| R_struct0 t : Trivia t -> RType (TStruct []) (40 :: t ++ [41])
| R_structS fs s t : RFields fs s -> Trivia t -> RType (TStruct fs) (40 :: s ++ t ++ [41])
| R_enum e es t0 s t : Trivia t0 -> FName e -> REnumRest es s -> Trivia t ->
    RType (TEnum (e :: es)) (40 :: t0 ++ e ++ s ++ t ++ [41])
| R_arr t s : RType t s -> RType (TArr t) (lit_array ++ s)
| R_dict t s : RType t s -> RType (TDict t) (lit_dict ++ s)
| R_opt t s : not_opt t -> RType t s -> RType (TOpt t) (lit_option ++ s)
with RField : (str * vtype) -> str -> Prop :=
| RF n t tf tn tc s : Trivia tf -> FName n -> Trivia tn -> Trivia tc -> RType t s ->
    RField (n, t) (tf ++ n ++ tn ++ 58 :: tc ++ s)
with RFields : list (str * vtype) -> str -> Prop :=
| RFs1 f s : RField f s -> RFields [f] s
| RFsS f s fs s' : RField f s -> RFields fs s' -> RFields (f :: fs) (s ++ 44 :: s')
.

Scheme RType_ind' := Minimality for RType Sort Prop
with RField_ind' := Minimality for RField Sort Prop
with RFields_ind' := Minimality for RFields Sort Prop.
Combined Scheme R_mutind from RType_ind', RField_ind', RFields_ind'.

Lemma lit_app l r : lit l (l ++ r) = Some r.
Proof. induction l as [|a l IH]; cbn [lit app]; auto. rewrite N.eqb_refl. auto. Qed.

Lemma FName_head n : FName n -> exists c tl, n = c :: tl /\ in_ranges field_first c = true.
Proof.
  unfold FName, field_name. destruct n as [|c tl]; [discriminate|].
  destruct (in_ranges field_first c) eqn:E; [|discriminate]. eauto.
Qed.
Lemma TName_head n : TNameOk n -> exists c tl, n = c :: tl /\ in_ranges name_first c = true.
Proof.
  unfold TNameOk, tname. destruct n as [|c tl]; [discriminate|].
  destruct (in_ranges name_first c) eqn:E; [|discriminate]. eauto.
Qed.

Lemma alpha_tok c tl : in_ranges field_first c = true -> tokstart (c :: tl).
Proof. intros H. destruct (first_facts c H) as (H1 & H2 & _). split; auto. Qed.

(* ---------- unfolding lemmas ---------- *)
Lemma p_type_S f s : p_type (S f) s =
  let rec := p_type f in
  match p_btype f rec s with
  | POk x => POk x | PFuel => PFuel
  | PFail =>
      match lit lit_array s with
      | Some r => map_pres TArr (rec r)
      | None =>
      match lit lit_dict s with
      | Some r => map_pres TDict (rec r)
      | None =>
      match lit lit_option s with
      | None => PFail
      | Some r =>
          match p_btype f rec r with
          | POk (t, r') => POk (TOpt t, r')
          | PFuel => PFuel
          | PFail =>
              match lit lit_array r with
              | Some r2 => map_pres (fun t => TOpt (TArr t)) (rec r2)
              | None =>
              match lit lit_dict r with
              | Some r2 => map_pres (fun t => TOpt (TDict t)) (rec r2)
              | None => PFail end end
          end
      end end end
  end.
Proof. reflexivity. Qed.

Lemma sep_list_S {A} k (elem : parser A) sep first s : sep_list (S k) elem sep first s =
  match (if first then Some s else sep s) with
  | None => POk ([], s)
  | Some s1 =>
      match elem s1 with
      | PFuel => PFuel | PFail => POk ([], s)
      | POk (a, s2) => match sep_list k elem sep false s2 with
                      | POk (l, s3) => POk (a :: l, s3) | PFail => PFail | PFuel => PFuel end
      end
  end.
Proof. reflexivity. Qed.

Lemma expect_cons c d r : expect c (d :: r) = if c =? d then Some r else None.
Proof. reflexivity. Qed.
Lemma expect_same c x : expect c (c :: x) = Some x.
Proof. rewrite expect_cons, N.eqb_refl. reflexivity. Qed.
Lemma expect_ne c d x : c <> d -> expect c (d :: x) = None.
Proof. intros H. rewrite expect_cons. apply N.eqb_neq in H. rewrite H. reflexivity. Qed.

(* ---------- small facts about heads ---------- *)
(* a trivia text followed by y either is empty or starts with a trivia character or '#' *)
Lemma trivia_head_gen t y : Trivia t ->
  t = [] \/ exists c z, t ++ y = c :: z /\ (trivc c = true \/ c = 35).
Proof.
  intros [|c t' Hc _|body e t' _ _ _]; [left; reflexivity|right..].
  - exists c, (t' ++ y). split; [reflexivity|auto].
  - exists 35, ((body ++ e :: t') ++ y). split; [reflexivity|auto].
Qed.

Lemma trivia_head t x : Trivia t -> exists c y, t ++ 41 :: x = c :: y /\
  in_ranges name_rest c = false /\ c <> 95 /\ c <> 44 /\ c <> 58 /\ in_ranges field_first c = false.
Proof.
  intros H. destruct (trivia_head_gen t (41 :: x) H) as [->|(c & z & E & [Hc| ->])].
  - exists 41, x. repeat split; try reflexivity; lia.
  - exists c, z. split; [exact E|]. destruct (triv_facts c Hc) as (?&?&?&?&?&?&?&?). auto.
  - exists 35, z. split; [exact E|]. repeat split; try reflexivity; lia.
Qed.

Lemma trivia_follow_gen t y : Trivia t -> follow y -> follow (t ++ y).
Proof.
  intros H Hy. destruct (trivia_head_gen t y H) as [->|(c & z & E & [Hc| ->])]; [exact Hy|..]; rewrite E.
  - destruct (triv_facts c Hc) as (?&?&?&?&?&?). split; auto.
  - split; [reflexivity|lia].
Qed.

Lemma trivia_follow t x : Trivia t -> follow (t ++ 41 :: x).
Proof. intros H. apply trivia_follow_gen; auto. split; [reflexivity|lia]. Qed.

Lemma follow_comma x : follow (44 :: x).
Proof. split; [reflexivity|lia]. Qed.
Lemma follow_colon x : follow (58 :: x).
Proof. split; [reflexivity|lia]. Qed.

Lemma tokstart_RP x : tokstart (41 :: x). Proof. split; [reflexivity|lia]. Qed.
Lemma tokstart_COMMA x : tokstart (44 :: x). Proof. split; [reflexivity|lia]. Qed.
Lemma tokstart_COLON x : tokstart (58 :: x). Proof. split; [reflexivity|lia]. Qed.

Lemma expect_trivia_none c t x : c = 44 \/ c = 58 -> Trivia t -> expect c (t ++ 41 :: x) = None.
Proof.
  intros Hc H. destruct (trivia_head t x H) as (d & y & E & _ & _ & H3 & H4 & _). rewrite E.
  apply expect_ne. destruct Hc; congruence.
Qed.

Lemma kw0 : kw 0 = [98; 111; 111; 108]. Proof. reflexivity. Qed.
Lemma kw1 : kw 1 = [105; 110; 116]. Proof. reflexivity. Qed.
Lemma kw2 : kw 2 = [102; 108; 111; 97; 116]. Proof. reflexivity. Qed.
Lemma kw3 : kw 3 = [115; 116; 114; 105; 110; 103]. Proof. reflexivity. Qed.
Lemma kw4 : kw 4 = [111; 98; 106; 101; 99; 116]. Proof. reflexivity. Qed.

(* RType texts start with a token *)
Lemma RType_tok t s : RType t s -> forall r, tokstart (s ++ r).
Proof.
  destruct 1 as [| | | | |n Hn| | | | | |]; intros r; try (split; [reflexivity|lia]).
  destruct (TName_head n Hn) as (c & tl & -> & Hc). change ((c :: tl) ++ r) with (c :: (tl ++ r)).
  apply alpha_tok. apply upper_first; auto.
Qed.

Lemma length_app_lt {A} (a b : list A) n : (length (a ++ b) < n)%nat -> (length b < n)%nat.
Proof. rewrite app_length. lia. Qed.

(* ---------- ordered-choice bookkeeping ---------- *)
Lemma lit_head_ne l0 l c x : l0 <> c -> lit (l0 :: l) (c :: x) = None.
Proof. intros H. cbn [lit]. destruct (N.eqb_spec l0 c); congruence. Qed.

Lemma tname_not_upper c x : in_ranges name_first c = false -> tname (c :: x) = None.
Proof. intros H. unfold tname. rewrite H. reflexivity. Qed.

Lemma p_btype_nonkw k rec c x :
  c <> 98 -> c <> 105 -> c <> 102 -> c <> 115 -> c <> 111 -> in_ranges name_first c = false ->
  p_btype k rec (c :: x) =
  match p_struct k rec (c :: x) with
  | POk (fs, r) => POk (TStruct fs, r)
  | PFuel => PFuel
  | PFail => match p_enum k (c :: x) with POk (es, r) => POk (TEnum es, r) | PFail => PFail | PFuel => PFuel end
  end.
Proof.
  intros. unfold p_btype. rewrite kw0, kw1, kw2, kw3, kw4.
  rewrite !lit_head_ne by congruence. rewrite tname_not_upper by assumption. reflexivity.
Qed.

Lemma p_btype_fail_nonparen k rec c x :
  c <> 98 -> c <> 105 -> c <> 102 -> c <> 115 -> c <> 111 -> in_ranges name_first c = false -> c <> 40 ->
  p_btype k rec (c :: x) = PFail.
Proof.
  intros. rewrite p_btype_nonkw by assumption. unfold p_struct, p_enum.
  rewrite expect_ne by congruence. reflexivity.
Qed.

Definition PT (t : vtype) (s : str) := forall r f, follow r ->
  (length (s ++ r) < f)%nat -> p_type f (s ++ r) = POk (t, r).
Definition PF (fl : str * vtype) (s : str) := forall r f, follow r ->
  (length (s ++ r) < f)%nat -> p_field (p_type f) (s ++ r) = POk (fl, r).
Definition PFs (fs : list (str * vtype)) (s : str) := forall t x f k first, Trivia t ->
  (length fs < k)%nat -> (length (s ++ t ++ 41%N :: x) < f)%nat ->
  sep_list k (p_field (p_type f)) (expect 44) first
     ((if first then [] else [44]) ++ s ++ t ++ 41 :: x) = POk (fs, t ++ 41 :: x).
Definition PE (es : list str) (s : str) := forall t x k, Trivia t ->
  (length es < k)%nat ->
  sep_list k (fun y => lift (field_name y))
     (fun y => match expect 44 y with Some z => Some (wce z) | None => None end) false
     (s ++ t ++ 41 :: x) = POk (es, t ++ 41 :: x).

Lemma FName_tok n x : FName n -> tokstart (n ++ x).
Proof. intros H. destruct (FName_head n H) as (c & tl & -> & Hc). apply (alpha_tok c (tl ++ x) Hc). Qed.

Lemma REnumRest_follow es s t x : REnumRest es s -> Trivia t -> follow (s ++ t ++ 41 :: x).
Proof.
  intros Hr Ht. destruct Hr; cbn [app].
  - apply trivia_follow; auto.
  - apply follow_comma.
Qed.

Lemma PE_all : forall es s, REnumRest es s -> PE es s.
Proof.
  induction 1 as [|e es t s Ht He Hr IH]; unfold PE in *; intros t' x k Ht' Hk.
  - destruct k; [cbn in Hk; lia|]. rewrite sep_list_S. cbn [app].
    rewrite expect_trivia_none; auto.
  - destruct k; [cbn in Hk; lia|]. rewrite sep_list_S.
    change ((44 :: t ++ e ++ s) ++ t' ++ 41 :: x) with (44 :: ((t ++ e ++ s) ++ t' ++ 41 :: x)).
    rewrite expect_same. rewrite <- !app_assoc.
    rewrite wce_trivia by (auto using FName_tok).
    rewrite field_name_app; auto.
    + cbn [lift]. rewrite IH; auto. cbn [length] in Hk. lia.
    + eapply REnumRest_follow; eauto.
Qed.

(* ---------- wce idempotence, p_field ignores leading trivia ---------- *)
Lemma skip_unterminated body : forall s0, Forall (fun c => is_eolc c = false) body -> skip (Some s0) body = s0.
Proof.
  induction body as [|b body IH]; intros s0 H; [reflexivity|]. rewrite skip_Some_cons.
  inversion H as [|b' body' H1 H2]; subst. rewrite H1. auto.
Qed.

Lemma skip_fix : forall s cs,
  (match cs with
   | Some s0 => exists body, s0 = 35 :: body ++ s /\ Forall (fun c => is_eolc c = false) body
   | None => True end) ->
  skip None (skip cs s) = skip cs s.
Proof.
  induction s as [|c r IH]; intros cs Hcs.
  - destruct cs as [s0|]; [|reflexivity].
    destruct Hcs as (body & -> & Hb). rewrite app_nil_r.
    cbn [skip]. change (is_ws 35 || is_eolc 35) with false. change (35 =? 35) with true. cbv iota.
    apply skip_unterminated; auto.
  - destruct cs as [s0|].
    + rewrite skip_Some_cons. destruct Hcs as (body & -> & Hb). destruct (is_eolc c) eqn:E.
      * apply IH. exact I.
      * apply IH. exists (body ++ [c]). rewrite <- app_assoc. split; auto.
        apply Forall_app; split; auto.
    + rewrite skip_None_cons. destruct (is_ws c || is_eolc c) eqn:E; [apply IH; exact I|].
      destruct (N.eqb_spec c 35) as [->|Hne].
      * apply (IH (Some (35 :: r))). exists []. split; auto.
      * rewrite skip_None_cons. rewrite E. destruct (N.eqb_spec c 35); [congruence|]. reflexivity.
Qed.
Lemma wce_idem s : wce (wce s) = wce s.
Proof. unfold wce. apply skip_fix. exact I. Qed.

Lemma p_field_wce rec s : p_field rec (wce s) = p_field rec s.
Proof. unfold p_field. rewrite wce_idem. reflexivity. Qed.

Lemma sep_list_first_wce k rec sep y a l z :
  sep_list k (p_field rec) sep true y = POk (a :: l, z) ->
  sep_list k (p_field rec) sep true (wce y) = POk (a :: l, z).
Proof.
  destruct k; [discriminate|]. rewrite !sep_list_S. rewrite p_field_wce.
  destruct (p_field rec y) as [[a' s2]| |]; try discriminate; auto.
Qed.

(* ---------- inversion of p_type results ---------- *)
Definition is_b t := match t with TArr _ | TDict _ | TOpt _ => False | _ => True end.

Lemma map_pres_ok {A B} (f : A -> B) x b r : map_pres f x = POk (b, r) -> exists a, x = POk (a, r) /\ b = f a.
Proof. destruct x as [[a s]| |]; cbn [map_pres]; try discriminate. intros H; inversion H; subst; eauto. Qed.

Lemma opt_of_inner f x t r : not_opt t -> p_type (S f) x = POk (t, r) ->
  p_type (S f) (lit_option ++ x) = POk (TOpt t, r).
Proof.
  intros Hn H. rewrite p_type_S in *. cbv zeta in *.
  change (lit_option ++ x) with (63 :: x).
  rewrite (p_btype_fail_nonparen f (p_type f) 63 x) by (try lia; reflexivity).
  change (lit lit_array (63 :: x)) with (@None str). change (lit lit_dict (63 :: x)) with (@None str).
  change (63 :: x) with (lit_option ++ x). rewrite lit_app.
  destruct (p_btype f (p_type f) x) as [[t' r']| |]; try discriminate.
  - inversion H; subst; reflexivity.
  - destruct (lit lit_array x) as [r2|].
    { apply map_pres_ok in H as (a & Ha & ->). rewrite Ha. reflexivity. }
    destruct (lit lit_dict x) as [r2|].
    { apply map_pres_ok in H as (a & Ha & ->). rewrite Ha. reflexivity. }
    destruct (lit lit_option x) as [s|]; [|discriminate].
    destruct (p_btype f (p_type f) s) as [[t' r']| |]; try discriminate.
    + inversion H; subst. destruct Hn.
    + destruct (lit lit_array s). { apply map_pres_ok in H as (a & _ & ->). destruct Hn. }
      destruct (lit lit_dict s); [|discriminate]. apply map_pres_ok in H as (a & _ & ->). destruct Hn.
Qed.

(* ---------- the main direction: grammar texts are parsed to their AST ---------- *)
Lemma kw_bool k rec r : p_btype k rec (kw 0 ++ r) = POk (TBool, r). Proof. reflexivity. Qed.
Lemma kw_int k rec r : p_btype k rec (kw 1 ++ r) = POk (TInt, r). Proof. reflexivity. Qed.
Lemma kw_float k rec r : p_btype k rec (kw 2 ++ r) = POk (TFloat, r). Proof. reflexivity. Qed.
Lemma kw_string k rec r : p_btype k rec (kw 3 ++ r) = POk (TString, r). Proof. reflexivity. Qed.
Lemma kw_object k rec r : p_btype k rec (kw 4 ++ r) = POk (TObject, r). Proof. reflexivity. Qed.

Lemma p_type_of_btype f x v : p_btype f (p_type f) x = POk v -> p_type (S f) x = POk v.
Proof. intros H. rewrite p_type_S. cbv zeta. rewrite H. reflexivity. Qed.

Lemma RField_len fl s : RField fl s -> (1 <= length s)%nat.
Proof.
  intros H. destruct H as [n t tf tn tc s Htf Hn Htn Htc Hs]. rewrite !app_length.
  destruct (FName_head n Hn) as (c & tl & -> & _). cbn [length]. lia.
Qed.

Lemma RFields_len fs s : RFields fs s -> (length fs <= length s)%nat.
Proof.
  induction 1 as [fl s0 H|fl s0 fs0 s1 H Hrest IHr].
  - apply RField_len in H. cbn [length]. lia.
  - apply RField_len in H. rewrite app_length. cbn [length]. lia.
Qed.

Lemma REnumRest_len es s : REnumRest es s -> (length es <= length s)%nat.
Proof. induction 1; cbn [length]; auto. rewrite !app_length. lia. Qed.

Ltac lens := repeat (rewrite ?app_length in *; cbn [length app] in * ); lia.
Ltac fuelS f Hl :=
  destruct f as [|f];
  [exfalso; let H := fresh in pose proof Hl as H; rewrite ?kw0, ?kw1, ?kw2, ?kw3, ?kw4 in H;
            unfold lit_array, lit_dict, lit_option in H;
            repeat (rewrite ?app_length in H; cbn [length app] in H); lia|].

Theorem render_parse :
  (forall t s, RType t s -> PT t s) /\
  (forall fl s, RField fl s -> PF fl s) /\
  (forall fs s, RFields fs s -> PFs fs s).
Proof.
  apply R_mutind; unfold PT, PF, PFs.
  - (* bool *) intros r f Hr Hl. fuelS f Hl. apply p_type_of_btype, kw_bool.
  - intros r f Hr Hl. fuelS f Hl. apply p_type_of_btype, kw_int.
  - intros r f Hr Hl. fuelS f Hl. apply p_type_of_btype, kw_float.
  - intros r f Hr Hl. fuelS f Hl. apply p_type_of_btype, kw_string.
  - intros r f Hr Hl. fuelS f Hl. apply p_type_of_btype, kw_object.
  - (* name *) intros n Hn r f Hr Hl.
    destruct (TName_head n Hn) as (c & tl & E & Hc). destruct (upper_facts c Hc) as (?&?&?&?&?).
    destruct f as [|f]; [exfalso; lia|]. apply p_type_of_btype.
    unfold p_btype. rewrite kw0, kw1, kw2, kw3, kw4. rewrite E. cbn [app].
    rewrite !lit_head_ne by congruence. change (c :: tl ++ r) with ((c :: tl) ++ r). rewrite <- E.
    rewrite tname_app; auto.
  - (* struct0 *) intros t Ht r f Hr Hl. fuelS f Hl. apply p_type_of_btype.
    cbn [app]. rewrite p_btype_nonkw by (try lia; reflexivity).
    unfold p_struct. rewrite expect_same. rewrite <- app_assoc. cbn [app].
    rewrite wce_trivia by (auto using tokstart_RP).
    fuelS f Hl. rewrite sep_list_S. unfold p_field at 1.
    rewrite (wce_tok (41 :: r)) by apply tokstart_RP.
    change (field_name (41 :: r)) with (@None (str * str)). cbv iota.
    rewrite (wce_tok (41 :: r)) by apply tokstart_RP. rewrite expect_same. reflexivity.
  - (* structS *) intros fs s t Hfs IH Ht r f Hr Hl. fuelS f Hl. apply p_type_of_btype.
    cbn [app]. rewrite p_btype_nonkw by (try lia; reflexivity).
    unfold p_struct. rewrite expect_same. rewrite <- !app_assoc. cbn [app].
    assert (Hk : (length fs < f)%nat).
    { pose proof (RFields_len fs s Hfs) as Hle. clear - Hle Hl. lens. }
    specialize (IH t r f f true Ht Hk). cbn [app] in IH.
    assert (Hl' : (length (s ++ t ++ 41%N :: r) < f)%nat) by (clear - Hl; lens).
    specialize (IH Hl').
    destruct fs as [|a l]; [inversion Hfs|].
    rewrite (sep_list_first_wce _ _ _ _ _ _ _ IH).
    rewrite wce_trivia by (auto using tokstart_RP). rewrite expect_same. reflexivity.
  - (* enum *) intros e es t0 s t Ht0 He Hes Ht r f Hr Hl. fuelS f Hl. apply p_type_of_btype.
    cbn [app]. rewrite p_btype_nonkw by (try lia; reflexivity).
    assert (Hfol : follow (s ++ t ++ 41 :: r)) by (eapply REnumRest_follow; eauto).
    assert (Hnocolon : expect 58 (wce (s ++ t ++ 41 :: r)) = None).
    { destruct Hes as [|e' es' t' s' Ht' He' Hes']; cbn [app].
      - rewrite wce_trivia by (auto using tokstart_RP). reflexivity.
      - rewrite wce_tok by apply tokstart_COMMA. reflexivity. }
    (* p_struct fails *)
    unfold p_struct. rewrite expect_same. rewrite <- !app_assoc. cbn [app].
    rewrite wce_trivia by (auto using FName_tok).
    fuelS f Hl. rewrite sep_list_S. unfold p_field at 1.
    rewrite (wce_tok (e ++ _)) by (auto using FName_tok).
    rewrite field_name_app by auto. rewrite Hnocolon.
    rewrite (wce_tok (e ++ _)) by (auto using FName_tok).
    destruct (FName_head e He) as (c & tl & Ee & Hc).
    assert (HnoRP : expect 41 (e ++ s ++ t ++ 41 :: r) = None).
    { rewrite Ee. cbn [app]. apply expect_ne. destruct (first_facts c Hc) as (?&?&?&?&?). congruence. }
    rewrite HnoRP.
    (* p_enum succeeds *)
    unfold p_enum. rewrite expect_same.
    rewrite wce_trivia by (auto using FName_tok).
    rewrite sep_list_S. rewrite field_name_app by auto. cbn [lift].
    assert (Hk : (length es < f)%nat).
    { pose proof (REnumRest_len es s Hes) as Hle.
      clear - Hle Hl Ee. rewrite Ee in Hl. lens. }
    rewrite (PE_all es s Hes t r f Ht Hk).
    rewrite wce_trivia by (auto using tokstart_RP). rewrite expect_same. reflexivity.
  - (* arr *) intros t s Hs IH r f Hr Hl. fuelS f Hl. rewrite p_type_S. cbv zeta.
    rewrite <- app_assoc.
    change (lit_array ++ s ++ r) with (91 :: 93 :: s ++ r).
    rewrite p_btype_fail_nonparen by (try lia; reflexivity).
    change (91 :: 93 :: s ++ r) with (lit_array ++ (s ++ r)). rewrite lit_app.
    rewrite IH; auto. clear - Hl. rewrite <- app_assoc in Hl. unfold lit_array in Hl. lens.
  - (* dict *) intros t s Hs IH r f Hr Hl. fuelS f Hl. rewrite p_type_S. cbv zeta.
    rewrite <- app_assoc.
    change (lit_dict ++ s ++ r) with (91 :: 115 :: 116 :: 114 :: 105 :: 110 :: 103 :: 93 :: s ++ r).
    rewrite p_btype_fail_nonparen by (try lia; reflexivity).
    change (lit lit_array (91 :: 115 :: 116 :: 114 :: 105 :: 110 :: 103 :: 93 :: s ++ r)) with (@None str).
    change (91 :: 115 :: 116 :: 114 :: 105 :: 110 :: 103 :: 93 :: s ++ r) with (lit_dict ++ (s ++ r)). rewrite lit_app.
    rewrite IH; auto. clear - Hl. rewrite <- app_assoc in Hl. unfold lit_dict in Hl. lens.
  - (* opt *) intros t s Hn Hs IH r f Hr Hl. fuelS f Hl. rewrite <- app_assoc.
    apply opt_of_inner; auto. apply IH; auto.
    clear - Hl. rewrite <- app_assoc in Hl. unfold lit_option in Hl. lens.
  - (* field *) intros n t tf tn tc s Htf Hn Htn Htc Hs IH r f Hr Hl.
    unfold p_field. rewrite <- !app_assoc.
    rewrite wce_trivia by (auto using FName_tok).
    rewrite field_name_app; auto.
    2:{ apply trivia_follow_gen; auto. apply follow_colon. }
    cbn [app]. rewrite <- ?app_assoc. rewrite wce_trivia by (auto using tokstart_COLON). rewrite expect_same.
    rewrite (wce_trivia tc Htc (s ++ r)) by (eapply RType_tok; eauto).
    rewrite IH; auto.
    clear - Hl. lens.
  - (* fields: one *) intros fl s Hf IH t x f k first Ht Hk Hl.
    fuelS k Hk.
    assert (E : sep_list (S k) (p_field (p_type f)) (expect 44) first
                  ((if first then [] else [44]) ++ s ++ t ++ 41 :: x) =
                match p_field (p_type f) (s ++ t ++ 41 :: x) with
                | PFuel => PFuel | PFail => POk ([], (if first then [] else [44]) ++ s ++ t ++ 41 :: x)
                | POk (a, s2) => match sep_list k (p_field (p_type f)) (expect 44) false s2 with
                                | POk (l, s3) => POk (a :: l, s3) | PFail => PFail | PFuel => PFuel end
                end).
    { rewrite sep_list_S. destruct first; cbn [app]; rewrite ?expect_same; reflexivity. }
    rewrite E. clear E. rewrite IH; auto using trivia_follow.
    fuelS k Hk. rewrite sep_list_S. rewrite expect_trivia_none; auto.
  - (* fields: more *) intros fl s fs s' Hf IHf Hfs IHfs t x f k first Ht Hk Hl.
    fuelS k Hk.
    assert (E : sep_list (S k) (p_field (p_type f)) (expect 44) first
                  ((if first then [] else [44]) ++ (s ++ 44 :: s') ++ t ++ 41 :: x) =
                match p_field (p_type f) (s ++ 44 :: s' ++ t ++ 41 :: x) with
                | PFuel => PFuel | PFail => POk ([], (if first then [] else [44]) ++ (s ++ 44 :: s') ++ t ++ 41 :: x)
                | POk (a, s2) => match sep_list k (p_field (p_type f)) (expect 44) false s2 with
                                | POk (l, s3) => POk (a :: l, s3) | PFail => PFail | PFuel => PFuel end
                end).
    { rewrite sep_list_S. destruct first; cbn [app]; rewrite <- ?app_assoc; cbn [app]; rewrite ?expect_same; reflexivity. }
    rewrite E. clear E. rewrite IHf; auto using follow_comma.
    2:{ rewrite <- app_assoc in Hl. cbn [app] in Hl. exact Hl. }
    specialize (IHfs t x f k false Ht). cbn [app] in IHfs. rewrite IHfs; auto.
    + cbn [length] in Hk. lia.
    + clear - Hl. lens.
Qed.

(* the statement in expanded form *)
Corollary render_parse_type t s : RType t s -> forall r f, follow r ->
  (length (s ++ r) < f)%nat -> p_type f (s ++ r) = POk (t, r).
Proof. exact (proj1 render_parse t s). Qed.

Print Assumptions render_parse.
