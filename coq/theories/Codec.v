(* Values of IDL types and their JSON wire shape as the generated bindings (serde derive on the
   emitted structs / enums) produce and accept it. *)
From VL Require Import Base Json Idl.
Open Scope N_scope.

Inductive ival :=
| IBool (b : bool) | IInt (z : Z) | IFloat (lex : bytes) | IStr (s : bytes) | IObj (j : json)
| IStruct (fs : list (str * ival))          (* in declaration order *)
| IEnum (e : str)
| IArr (l : list ival)
| IMap (m : list (bytes * ival))
| ISet (k : list bytes)
| INone | ISome (v : ival).

Definition env := list (str * vtype).       (* typedefs *)
Fixpoint lookup (e : env) (n : str) : option vtype :=
  match e with
  | [] => None
  | (k, t) :: r => if beq_str n k then Some t else lookup r n
  end.

(* serialisation does not need the type: serde writes what the value is *)
Fixpoint enc (v : ival) : json :=
  match v with
  | IBool b => JBool b
  | IInt z => JInt z
  | IFloat lex => JFloat lex
  | IStr s => JStr s
  | IObj j => j
  | IStruct fs => JObj (map (fun nv => (fst nv, enc (snd nv))) fs)
  | IEnum e => JStr e
  | IArr l => JArr (map enc l)
  | IMap m => JObj (map (fun kv => (fst kv, enc (snd kv))) m)
  | ISet k => JObj (map (fun x => (x, JObj [])) k)
  | INone => JNull
  | ISome x => enc x
  end.

(* the Args / Reply / error-parameter structs: unset optional members are omitted *)
Definition enc_top (fs : list (str * ival)) : json :=
  JObj (flat_map (fun nv => match snd nv with INone => [] | x => [(fst nv, enc x)] end) fs).

Definition i64_ok (z : Z) : bool := ((- 9223372036854775808 <=? z) && (z <=? 9223372036854775807))%Z.

Definition is_empty_struct (t : vtype) : bool := match t with TStruct [] => true | _ => false end.

(* deserialisation is driven by the type *)
Fixpoint dec (f : nat) (e : env) (t : vtype) (j : json) {struct f} : option ival :=
  match f with
  | O => None
  | S f' =>
      match t with
      | TBool => match j with JBool b => Some (IBool b) | _ => None end
      | TInt => match j with JInt z => if i64_ok z then Some (IInt z) else None | _ => None end
      | TFloat => match j with JFloat lex => Some (IFloat lex) | JInt z => Some (IFloat (print_Z z)) | _ => None end
      | TString => match j with JStr s => Some (IStr s) | _ => None end
      | TObject => Some (IObj j)
      | TName n => match lookup e n with Some t' => dec f' e t' j | None => None end
      | TStruct fs =>
          match j with
          | JObj m =>
              option_map IStruct ((fix go (fs : list (str * vtype)) : option (list (str * ival)) :=
                 match fs with
                 | [] => Some []
                 | (n, ft) :: r =>
                     match (match obj_get n m with
                            | Some x => dec f' e ft x
                            | None => match ft with TOpt _ => Some INone | _ => None end
                            end), go r with
                     | Some v, Some vs => Some ((n, v) :: vs)
                     | _, _ => None
                     end
                 end) fs)
          | _ => None
          end
      | TEnum es => match j with JStr s => if existsb (beq_str s) es then Some (IEnum s) else None | _ => None end
      | TArr t' =>
          match j with
          | JArr l =>
              option_map IArr ((fix go (l : list json) : option (list ival) :=
                 match l with
                 | [] => Some []
                 | x :: r => match dec f' e t' x, go r with Some v, Some vs => Some (v :: vs) | _, _ => None end
                 end) l)
          | _ => None
          end
      | TDict t' =>
          match j with
          | JObj m =>
              if is_empty_struct t' then Some (ISet (map fst m))
              else
                option_map IMap ((fix go (m : list (bytes * json)) : option (list (bytes * ival)) :=
                   match m with
                   | [] => Some []
                   | (k, x) :: r => match dec f' e t' x, go r with Some v, Some vs => Some ((k, v) :: vs) | _, _ => None end
                   end) m)
          | _ => None
          end
      | TOpt t' => match j with JNull => Some INone | _ => option_map ISome (dec f' e t' j) end
      end
  end.

(* the parameters of a call / reply / error: a struct at top level (missing optional members
   read as unset; a missing or ill-typed required member is a failure = InvalidParameter) *)
Definition dec_top (f : nat) (e : env) (fs : list (str * vtype)) (j : json) : option (list (str * ival)) :=
  match dec f e (TStruct fs) j with Some (IStruct vs) => Some vs | _ => None end.

Fixpoint jsize (j : json) : nat :=
  match j with
  | JArr l => S ((fix go (l : list json) : nat := match l with [] => O | x :: r => (jsize x + go r)%nat end) l)
  | JObj m => S ((fix go (m : list (bytes * json)) : nat := match m with [] => O | (_, x) :: r => (jsize x + go r)%nat end) m)
  | _ => 1%nat
  end.
Definition dec_fuel (j : json) : nat := (2 * jsize j + 2)%nat.

(* the method string on the wire *)
Definition wire_method (iface mname : str) : str := iface ++ 46 :: mname.
