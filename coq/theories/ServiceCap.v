(* The transient-slice caller and handle()'s inner BufReader (capacity [cap]): as long as no buffer handed to
   handle() is longer than [cap], the block-buffered handle is the unbounded one, so every theorem about [feed_all]
   applies to it; beyond [cap] an upgrading call can drop bytes (witness below). *)
From VL Require Import Base Json Schema Wire Service ServiceProofs.
Require Import Lia.

Lemma cut_nul_len s fr rest : cut_nul s = Some (fr, rest) -> length s = (length fr + 1 + length rest)%nat.
Proof.
  intros H. apply cut_nul_some in H. destruct H as [-> _]. rewrite app_length. cbn [length]. lia.
Qed.

Lemma block_room_fits cap pos n : (0 < pos)%nat -> (pos + n <= cap)%nat -> (n <= block_room cap pos)%nat.
Proof.
  intros Hp Hle. unfold block_room. destruct cap as [|c]; [lia|].
  destruct (Nat.eq_dec pos (S c)) as [->|Hne].
  - rewrite Nat.mod_same by lia. lia.
  - rewrite Nat.mod_small by lia. destruct pos as [|p]; [lia|]. lia.
Qed.

Lemma handle_loop_cap_eq cap svc f : forall pos s, (pos + length s <= cap)%nat ->
  handle_loop_cap cap f svc pos s = handle_loop f svc s.
Proof.
  induction f as [|f IH]; intros pos s Hle; cbn [handle_loop_cap handle_loop]; [reflexivity|].
  destruct (cut_nul s) as [[fr rest]|] eqn:Hc; [|reflexivity].
  pose proof (cut_nul_len _ _ _ Hc) as Hl.
  destruct (decode_request fr) as [q| |]; try reflexivity.
  destruct (serve svc q) as [o oc]. destruct oc as [|i|].
  - rewrite IH by lia. reflexivity.
  - rewrite firstn_all2; [reflexivity|]. apply block_room_fits; lia.
  - reflexivity.
Qed.

Lemma handle_cap_eq cap svc u s : (length s <= cap)%nat -> handle_cap cap svc u s = handle svc u s.
Proof.
  intros H. unfold handle_cap, handle. destruct u; [reflexivity|]. apply handle_loop_cap_eq. lia.
Qed.

(* the tail handle returns is never longer than what it was given *)
Lemma handle_loop_tail_len svc f : forall s o t u, handle_loop f svc s = (o, HOk t u) -> (length t <= length s)%nat.
Proof.
  induction f as [|f IH]; intros s o t u H; cbn [handle_loop] in H; [discriminate|].
  destruct (cut_nul s) as [[fr rest]|] eqn:Hc.
  - pose proof (cut_nul_len _ _ _ Hc) as Hl.
    destruct (decode_request fr) as [q| |]; try discriminate.
    destruct (serve svc q) as [o1 oc]. destruct oc as [|i|].
    + destruct (handle_loop f svc rest) as [o2 r] eqn:Hr. inversion H; subst. apply IH in Hr. lia.
    + inversion H; subst. lia.
    + discriminate.
  - inversion H; subst. lia.
Qed.

Lemma handle_tail_len svc u s o t u' : handle svc u s = (o, HOk t u') -> (length t <= length s)%nat.
Proof.
  unfold handle. destruct u.
  - intros H; inversion H; subst. cbn [length]. lia.
  - apply handle_loop_tail_len.
Qed.

Definition total (chunks : list bytes) : nat := length (concat chunks).

Lemma feed_cap_eq cap svc chunks : forall st, (length (fs_tail st) + total chunks <= cap)%nat ->
  feed_cap cap svc st chunks = feed svc st chunks.
Proof.
  induction chunks as [|c r IH]; intros st Hle; cbn [feed_cap feed]; [reflexivity|].
  unfold total in Hle. cbn [concat] in Hle. rewrite app_length in Hle.
  assert (Hs : feed_step_cap cap svc st c = feed_step svc st c).
  { unfold feed_step_cap, feed_step. destruct (fs_closed st); [reflexivity|].
    rewrite handle_cap_eq; [reflexivity|]. rewrite app_length. lia. }
  rewrite Hs. destruct (feed_step svc st c) as [st1 o1] eqn:Hf.
  rewrite IH; [reflexivity|].
  unfold feed_step in Hf. destruct (fs_closed st) eqn:Hcl.
  - inversion Hf; subst. unfold total. lia.
  - destruct (handle svc (fs_upg st) (fs_tail st ++ c)) as [o r0] eqn:Hh.
    destruct r0 as [t u| |]; inversion Hf; subst; cbn [fs_tail length]; unfold total; try lia.
    apply handle_tail_len in Hh. rewrite app_length in Hh. lia.
Qed.

(* the transient-slice caller realises the specification whenever the stream fits the inner buffer *)
Theorem feed_all_cap_small cap svc chunks : (total chunks <= cap)%nat ->
  feed_all_cap cap svc chunks = feed_all svc chunks.
Proof.
  intros H. unfold feed_all_cap, feed_all. apply feed_cap_eq.
  unfold total in *. rewrite concat_app. cbn [concat]. rewrite !app_nil_r. cbn [fs_tail fs_init length]. lia.
Qed.

Corollary feed_all_cap_chunking cap svc chunks : (total chunks <= cap)%nat ->
  feed_all_cap cap svc chunks = feed_all_cap cap svc [concat chunks].
Proof.
  intros H. rewrite !feed_all_cap_small; [apply feed_all_chunking| |exact H].
  unfold total in *. cbn [concat]. rewrite app_nil_r. exact H.
Qed.

(* ---- the careful caller loses nothing, whatever the capacity of the inner buffer ---- *)
Lemma handle_loop_cap_rem_eq cap svc f : forall pos s,
  match handle_loop_cap_rem cap f svc pos s, handle_loop f svc s with
  | (o, HOk t u, rem), (o', HOk t' u') => o = o' /\ u = u' /\ t ++ rem = t'
  | (o, HErr, _), (o', HErr) => o = o'
  | (o, HFuel, _), (o', HFuel) => o = o'
  | _, _ => False
  end.
Proof.
  induction f as [|f IH]; intros pos s; cbn [handle_loop_cap_rem handle_loop]; [reflexivity|].
  destruct (cut_nul s) as [[fr rest]|] eqn:Hc.
  - destruct (decode_request fr) as [q| |]; try reflexivity.
    destruct (serve svc q) as [o oc]. destruct oc as [|i|].
    + specialize (IH (pos + S (length fr))%nat rest).
      destruct (handle_loop_cap_rem cap f svc (pos + S (length fr)) rest) as [[o2 r] rem].
      destruct (handle_loop f svc rest) as [o2' r'].
      destruct r as [t u| |]; destruct r' as [t' u'| |]; try contradiction.
      * destruct IH as (-> & -> & <-). auto.
      * subst. reflexivity.
      * subst. reflexivity.
    + split; [reflexivity|]. split; [reflexivity|]. apply firstn_skipn.
    + reflexivity.
  - split; [reflexivity|]. split; [reflexivity|]. apply app_nil_r.
Qed.

Lemma feed_step_careful_eq cap svc st c : feed_step_careful cap svc st c = feed_step svc st c.
Proof.
  unfold feed_step_careful, feed_step. destruct (fs_closed st); [reflexivity|].
  unfold handle_cap_rem, handle. destruct (fs_upg st) as [i|].
  - rewrite app_nil_r. reflexivity.
  - pose proof (handle_loop_cap_rem_eq cap svc (S (length (fs_tail st ++ c))) O (fs_tail st ++ c)) as H.
    destruct (handle_loop_cap_rem cap (S (length (fs_tail st ++ c))) svc 0 (fs_tail st ++ c)) as [[o r] rem].
    destruct (handle_loop (S (length (fs_tail st ++ c))) svc (fs_tail st ++ c)) as [o' r'].
    destruct r as [t u| |]; destruct r' as [t' u'| |]; try contradiction.
    + destruct H as (-> & -> & <-). reflexivity.
    + subst. reflexivity.
    + subst. reflexivity.
Qed.

Theorem feed_all_careful_eq cap svc chunks : feed_all_careful cap svc chunks = feed_all svc chunks.
Proof.
  unfold feed_all_careful, feed_all. generalize fs_init. generalize (chunks ++ [[]]).
  intros l. induction l as [|c r IH]; intros st; cbn [feed_careful feed]; [reflexivity|].
  rewrite feed_step_careful_eq. destruct (feed_step svc st c) as [st1 o1]. rewrite IH. reflexivity.
Qed.
