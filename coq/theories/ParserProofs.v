(* Theorems about the parser model: duplicate reporting (C11), error positions (C12). *)
From Coq Require Import List NArith Lia Bool Arith.
From VL Require Import Idl.
Import ListNotations.
Open Scope N_scope.

Lemma beq_str_eq a : forall b, beq_str a b = true <-> a = b.
Proof.
  induction a as [|x a IH]; intros [|y b]; simpl; split; intros H; try congruence; try reflexivity.
  - apply andb_true_iff in H. destruct H as [H1 H2]. apply N.eqb_eq in H1. apply IH in H2. congruence.
  - inversion H; subst. rewrite N.eqb_refl. simpl. apply IH. reflexivity.
Qed.

(* ---------- duplicates ---------- *)

Definition names (seen : list (kind * str)) : list str := map snd seen.

Lemma seen_name_iff seen k n :
  existsb (fun e => negb (kind_eqb (fst e) k) && beq_str (snd e) n) seen ||
  existsb (fun e => kind_eqb (fst e) k && beq_str (snd e) n) seen = true <-> In n (names seen).
Proof.
  unfold names. rewrite orb_true_iff, !existsb_exists, in_map_iff. split.
  - intros [(e & He & H)|(e & He & H)]; apply andb_true_iff in H; destruct H as [_ H]; apply beq_str_eq in H;
      exists e; split; auto.
  - intros (e & E & He). destruct (kind_eqb (fst e) k) eqn:K.
    + right. exists e. split; [exact He|]. rewrite K. simpl. apply beq_str_eq. exact E.
    + left. exists e. split; [exact He|]. rewrite K. simpl. apply beq_str_eq. exact E.
Qed.

Lemma fold_dups_nil seen ms :
  fold_dups seen ms = [] <-> (forall m, In m ms -> ~ In (m_name m) (names seen)) /\ NoDup (map m_name ms).
Proof.
  revert seen. induction ms as [|m r IH]; intros seen; simpl.
  - split; [intros _; split; [intros m []|constructor]|reflexivity].
  - set (c1 := existsb (fun e => negb (kind_eqb (fst e) (m_kind m)) && beq_str (snd e) (m_name m)) seen).
    set (c2 := existsb (fun e => kind_eqb (fst e) (m_kind m) && beq_str (snd e) (m_name m)) seen).
    pose proof (seen_name_iff seen (m_kind m) (m_name m)) as S. fold c1 c2 in S.
    split.
    + intros H. apply app_eq_nil in H. destruct H as [H1 H]. apply app_eq_nil in H. destruct H as [H2 H3].
      assert (Hn : ~ In (m_name m) (names seen)).
      { intros Hin. apply S in Hin. destruct c1; [discriminate|]. destruct c2; [discriminate|]. discriminate. }
      apply IH in H3. destruct H3 as [H3 H4]. split.
      * intros m' [<-|Hm']; [exact Hn|]. intros Hin. apply (H3 m' Hm'). simpl. right. exact Hin.
      * constructor; [|exact H4]. intros Hin. apply in_map_iff in Hin. destruct Hin as (m' & E & Hm').
        apply (H3 m' Hm'). simpl. left. symmetry. exact E.
    + intros [H1 H2]. inversion H2 as [|? ? Hni Hnd]; subst.
      assert (Hn : ~ In (m_name m) (names seen)) by (apply H1; left; reflexivity).
      assert (c1 || c2 = false) as Hc.
      { destruct (c1 || c2) eqn:E; [|reflexivity]. exfalso. apply Hn. apply S. reflexivity. }
      apply orb_false_iff in Hc. destruct Hc as [-> ->]. simpl. apply IH. split; [|exact Hnd].
      intros m' Hm' [E|Hin].
      * apply Hni. apply in_map_iff. exists m'. split; [symmetry; exact E|exact Hm'].
      * apply (H1 m' (or_intror Hm')). exact Hin.
Qed.

(* the definition is rejected for duplicates exactly when two members share a name, whatever
   their kinds *)
Theorem duplicates_iff i : dups i = [] <-> NoDup (map m_name (i_members i)).
Proof.
  unfold dups. rewrite fold_dups_nil. split; [tauto|]. intros H. split; [|exact H]. intros m _ [].
Qed.

Definition dup_name (d : dup) : str := match d with DupCross n | DupSame _ n => n end.

Lemma fold_dups_names seen ms n :
  (In n (names seen) /\ In n (map m_name ms)) \/ (exists a b c, map m_name ms = a ++ n :: b ++ n :: c) ->
  In n (map dup_name (fold_dups seen ms)).
Proof.
  revert seen. induction ms as [|m r IH]; intros seen H.
  - destruct H as [[_ []]|(a & b & c & E)]. destruct a; discriminate.
  - simpl.
    set (c1 := existsb (fun e => negb (kind_eqb (fst e) (m_kind m)) && beq_str (snd e) (m_name m)) seen).
    set (c2 := existsb (fun e => kind_eqb (fst e) (m_kind m) && beq_str (snd e) (m_name m)) seen).
    pose proof (seen_name_iff seen (m_kind m) (m_name m)) as S. fold c1 c2 in S.
    rewrite !map_app, !in_app_iff.
    destruct H as [[Hs Hin]|(a & b & c & E)].
    + simpl in Hin. destruct Hin as [E|Hin].
      * subst n. apply S in Hs. apply orb_true_iff in Hs. destruct Hs as [->| ->]; simpl; auto.
      * right. right. apply IH. left. split; [simpl; right; exact Hs|exact Hin].
    + simpl in E. destruct a as [|x a]; simpl in E; inversion E; subst.
      * right. right. apply IH. left. split; [simpl; left; reflexivity|].
        rewrite H1. apply in_or_app. right. left. reflexivity.
      * right. right. apply IH. right. exists a, b, c. exact H1.
Qed.

(* every name that is defined twice is named in the error *)
Theorem every_duplicate_reported i n a b c :
  map m_name (i_members i) = a ++ n :: b ++ n :: c -> In n (map dup_name (dups i)).
Proof. intros E. unfold dups. apply fold_dups_names. right. exists a, b, c. exact E. Qed.

(* ---------- error positions ---------- *)

(* lines of a text, split at '\n' (like str::split) *)
Fixpoint lines_acc (acc : str) (s : str) : list str :=
  match s with
  | [] => [rev acc]
  | c :: r => if c =? 10 then rev acc :: lines_acc [] r else lines_acc (c :: acc) r
  end.
Definition lines (s : str) : list str := lines_acc [] s.

(* peg's position -> (line, column): line = 1 + number of '\n' before the position, column =
   1 + number of characters after the last '\n' before the position *)
Fixpoint line_col (line col : nat) (p : nat) (s : str) : nat * nat :=
  match p, s with
  | O, _ => (line, col)
  | S p', c :: r => if c =? 10 then line_col (S line) 1 p' r else line_col line (S col) p' r
  | S _, [] => (line, col)
  end.

Lemma lines_acc_pos acc s : forall p k, (p <= length s)%nat ->
  let '(l, c) := line_col k (S (length acc)) p s in
  exists ln, nth_error (lines_acc acc s) (l - k) = Some ln /\ (c - 1 <= length ln)%nat /\ (k <= l)%nat.
Proof.
  revert acc. induction s as [|x s IH]; intros acc p k Hp.
  - simpl in Hp. assert (p = O) by lia. subst. simpl. exists (rev acc). rewrite Nat.sub_diag. simpl.
    rewrite rev_length. repeat split; lia.
  - destruct p as [|p].
    + simpl. destruct (x =? 10).
      * exists (rev acc). rewrite Nat.sub_diag. simpl. rewrite rev_length. repeat split; lia.
      * specialize (IH (x :: acc) O k ltac:(lia)). simpl in IH. destruct IH as (ln & E & Hc & Hk).
        exists ln. rewrite Nat.sub_diag in *. repeat split; try lia; auto.
    + simpl in Hp. simpl. destruct (x =? 10).
      * specialize (IH [] p (S k) ltac:(lia)). simpl in IH.
        destruct (line_col (S k) 1 p s) as [l c]. destruct IH as (ln & E & Hc & Hk).
        exists ln. replace (l - k)%nat with (S (l - S k)) by lia. simpl. repeat split; try lia; auto.
      * specialize (IH (x :: acc) p k ltac:(lia)). simpl in IH.
        destruct (line_col k (S (S (length acc))) p s) as [l c]. exact IH.
Qed.

(* whatever position the parser reports (anything from 0 to the length of the input): the line
   exists in the input and the column lies within it (one past the end allowed) - so the lookup
   in try_from cannot fail and the caret padding is bounded by the line *)
Theorem error_position_in_input s p : (p <= length s)%nat ->
  let '(l, c) := line_col 1 1 p s in
  exists ln, nth_error (lines s) (l - 1) = Some ln /\ (1 <= c)%nat /\ (c - 1 <= length ln)%nat.
Proof.
  intros Hp. pose proof (lines_acc_pos [] s p 1%nat Hp) as H. simpl in H.
  destruct (line_col 1 1 p s) as [l c] eqn:E. destruct H as (ln & E1 & Hc & Hk).
  exists ln. split; [exact E1|]. split; [|exact Hc].
  assert (G : forall t q l0 c0 l' c', (1 <= c0)%nat -> line_col l0 c0 q t = (l', c') -> (1 <= c')%nat).
  { clear. induction t as [|x t IH]; intros [|q] l0 c0 l' c' Hc H; simpl in H; try (inversion H; subst; lia).
    destruct (x =? 10); eapply IH; try exact H; lia. }
  eapply G; [|exact E]. lia.
Qed.
