(* The build-script front ends of the generator (cargo_build*, varlink_generator/src/lib.rs): what is in the output
   file afterwards, as a function of how the file is opened (regenerated: gen/GenFrontGen.v), of what was in it
   before (an earlier build of another version of the interface) and of the emitted code. *)
From Coq Require Import List NArith Lia.
Import ListNotations.
Open Scope N_scope.

Inductive open_mode := OCreate | OKeep | OAppend.

(* OCreate: the file is created or truncated; OKeep: opened for writing at offset 0 with its old contents kept;
   OAppend: every write goes to the end *)
Definition file_after (m : open_mode) (old out : list N) : list N :=
  match m with
  | OCreate => out
  | OKeep => out ++ skipn (length out) old
  | OAppend => old ++ out
  end.

Theorem create_leaves_exactly_the_output : forall old out, file_after OCreate old out = out.
Proof. reflexivity. Qed.

(* ... and it is the only mode with that property: whatever the earlier contents *)
Theorem only_create_is_exact : forall m, (forall old out, file_after m old out = out) -> m = OCreate.
Proof.
  intros m H. destruct m; [reflexivity | |].
  - specialize (H [1; 2] [0]). cbn in H. discriminate.
  - specialize (H [1] []). cbn in H. discriminate.
Qed.

(* a rebuild after the interface got shorter: the tail of the earlier output survives *)
Example keep_leaves_a_stale_tail : file_after OKeep [10; 11; 12; 13] [20; 21] = [20; 21; 12; 13].
Proof. reflexivity. Qed.

(* when the new output is at least as long as the old file nothing of it survives, which is why a first build and
   every growing rebuild look fine *)
Lemma keep_is_exact_when_growing : forall old out, (length old <= length out)%nat -> file_after OKeep old out = out.
Proof. intros old out H. cbn. rewrite skipn_all2 by exact H. apply app_nil_r. Qed.
