(* The listen worker pool as an executable labelled transition system.  Atomic steps are
   the lock-protected sections of the implementation: the acceptor's enqueue and its growth
   decision; each worker's dequeue, mark-busy, (the job finishing: environment), mark-idle;
   dropping the pool (Terminate messages behind the queued jobs). *)
From Coq Require Import List Arith Lia Bool.
From VL Require Import PoolExpr.
Import ListNotations.

Inductive wst := WIdle | WDeq | WRun | WDone | WExit.
Inductive qitem := QJob | QTerm.

Record pst := mkp {
  workers : list wst;
  counter : nat;               (* num_busy *)
  queue : list qitem;          (* mpsc channel, oldest first *)
  acc_sent : bool;             (* the acceptor is between enqueue and growth decision *)
  dropped : bool;              (* ThreadPool::drop has sent the Terminate messages *)
  accepted : nat;              (* ghost: jobs handed to execute() *)
  finished : nat }.            (* ghost: jobs that ran to completion *)

Inductive pev := EAccept | EDecide | EDeq (i : nat) | EStart (i : nat) | EFinish (i : nat) | EIdle (i : nat) | EDrop.

Fixpoint set_nth (i : nat) (w : wst) (ws : list wst) : list wst :=
  match ws, i with
  | [], _ => []
  | _ :: r, O => w :: r
  | x :: r, S j => x :: set_nth j w r
  end.

Section Pool.
Variable cae : bool.           (* counter incremented at enqueue (true) or by the worker after dequeuing (false) *)
Variable cond : bexp.          (* growth condition *)
Variable max : nat.

Definition pstep (s : pst) (e : pev) : option pst :=
  match e with
  | EAccept =>
      if acc_sent s || dropped s then None
      else Some (mkp (workers s) (if cae then S (counter s) else counter s) (queue s ++ [QJob]) true false
                     (S (accepted s)) (finished s))
  | EDecide =>
      if negb (acc_sent s) then None
      else Some (mkp (if beval cond (counter s) (length (workers s)) max then workers s ++ [WIdle] else workers s)
                     (counter s) (queue s) false (dropped s) (accepted s) (finished s))
  | EDeq i =>
      match nth_error (workers s) i, queue s with
      | Some WIdle, QJob :: q =>
          Some (mkp (set_nth i WDeq (workers s)) (counter s) q (acc_sent s) (dropped s) (accepted s) (finished s))
      | Some WIdle, QTerm :: q =>
          Some (mkp (set_nth i WExit (workers s)) (counter s) q (acc_sent s) (dropped s) (accepted s) (finished s))
      | _, _ => None
      end
  | EStart i =>
      match nth_error (workers s) i with
      | Some WDeq => Some (mkp (set_nth i WRun (workers s)) (if cae then counter s else S (counter s)) (queue s)
                               (acc_sent s) (dropped s) (accepted s) (finished s))
      | _ => None
      end
  | EFinish i =>
      match nth_error (workers s) i with
      | Some WRun => Some (mkp (set_nth i WDone (workers s)) (counter s) (queue s) (acc_sent s) (dropped s)
                               (accepted s) (S (finished s)))
      | _ => None
      end
  | EIdle i =>
      match nth_error (workers s) i with
      | Some WDone => Some (mkp (set_nth i WIdle (workers s)) (pred (counter s)) (queue s) (acc_sent s) (dropped s)
                                (accepted s) (finished s))
      | _ => None
      end
  | EDrop =>
      if acc_sent s || dropped s then None
      else Some (mkp (workers s) (counter s) (queue s ++ repeat QTerm (length (workers s))) false true
                     (accepted s) (finished s))
  end.

Fixpoint prun (s : pst) (es : list pev) : option pst :=
  match es with
  | [] => Some s
  | e :: r => match pstep s e with Some s1 => prun s1 r | None => None end
  end.
End Pool.

Definition pinit (n : nat) : pst := mkp (repeat WIdle n) 0 [] false false 0 0.

(* the number of workers ThreadPool::new starts *)
Definition effective_initial (clamped : bool) (initial max : nat) : nat :=
  if clamped then Nat.min initial (Nat.max max 1) else initial.

Definition cnt (p : wst -> bool) (ws : list wst) := length (filter p ws).
Definition isIdle w := match w with WIdle => true | _ => false end.
Definition isDeq w := match w with WDeq => true | _ => false end.
Definition isRun w := match w with WRun => true | _ => false end.
Definition isDone w := match w with WDone => true | _ => false end.
Definition isExit w := match w with WExit => true | _ => false end.
Definition isJob q := match q with QJob => true | QTerm => false end.
Definition njobs (q : list qitem) := length (filter isJob q).

Definition nI s := cnt isIdle (workers s).
Definition nD s := cnt isDeq (workers s).
Definition nR s := cnt isRun (workers s).
Definition nF s := cnt isDone (workers s).
Definition nX s := cnt isExit (workers s).

(* the two safety properties, as decidable checks on a state (used by the state-space search) *)
Definition bound_ok (max : nat) (s : pst) : bool := length (workers s) <=? max.
Definition no_strand_ok (max : nat) (s : pst) : bool :=
  if acc_sent s || dropped s then true
  else Nat.min (njobs (queue s)) (max - (nD s + nR s)) <=? nI s + nF s.
