(* Round trip of the JSON writer through the JSON reader model, NUL-freedom of the writer. *)
From VL Require Import Base Json.
Open Scope N_scope.
Arguments N.add : simpl never.
Arguments N.mul : simpl never.
Arguments N.div : simpl never.
Arguments N.modulo : simpl never.
Arguments N.pow : simpl never.
Arguments N.sub : simpl never.
Arguments N.ltb : simpl never.
Arguments N.leb : simpl never.
Arguments N.eqb : simpl never.

(* ------------------------------------------------------------------ *)
(* decimal digits                                                      *)

Lemma is_digit_spec c : is_digit c = true <-> 48 <= c <= 57.
Proof. unfold is_digit. rewrite andb_true_iff, !N.leb_le. tauto. Qed.

Lemma digits_val_app a d1 d2 : digits_val a (d1 ++ d2) = digits_val (digits_val a d1) d2.
Proof. revert a. induction d1 as [|c d1 IH]; intros a; simpl; auto. Qed.

Definition digits_ok (d : bytes) : Prop := Forall (fun c => 48 <= c <= 57) d.

Lemma pdf_spec f : forall n acc, n < 10 ^ N.of_nat f -> (1 <= f)%nat ->
  exists d, pos_digits_fuel f n acc = d ++ acc /\ digits_ok d /\ d <> [] /\
            (forall a, digits_val a d = a * 10 ^ N.of_nat (length d) + n) /\
            (0 < n -> forall c r, d = c :: r -> c <> 48).
Proof.
  induction f as [|f IH]; intros n acc Hn Hf; [lia|].
  cbn [pos_digits_fuel]. destruct (N.ltb_spec n 10) as [L|L].
  - exists [48 + n]. split; [reflexivity|]. split; [constructor; [lia|constructor]|].
    split; [discriminate|]. split.
    + intros a. cbn [digits_val length]. change (N.of_nat 1) with 1. rewrite N.pow_1_r. lia.
    + intros Hp c r E. inversion E; subst. lia.
  - assert (Hf' : (1 <= f)%nat).
    { destruct f; [|lia]. change (N.of_nat 1) with 1 in Hn. rewrite N.pow_1_r in Hn. lia. }
    assert (Hq : n / 10 < 10 ^ N.of_nat f).
    { apply N.div_lt_upper_bound; [lia|]. rewrite Nat2N.inj_succ, N.pow_succ_r' in Hn. lia. }
    destruct (IH (n / 10) ((48 + n mod 10) :: acc) Hq Hf') as (d & E & Hd & Hne & Hv & Hh).
    exists (d ++ [48 + n mod 10]). split; [rewrite E, <- app_assoc; reflexivity|].
    pose proof (N.mod_lt n 10 ltac:(lia)) as Hm.
    split; [apply Forall_app; split; [exact Hd|constructor; [clear - Hm; revert Hm; generalize (n mod 10); intros; lia|constructor]]|].
    split; [destruct d; discriminate|]. split.
    + intros a. rewrite digits_val_app, Hv. cbn [digits_val]. rewrite app_length. cbn [length].
      rewrite Nat.add_1_r, Nat2N.inj_succ, N.pow_succ_r'.
      pose proof (N.div_mod n 10 ltac:(lia)) as Hdm.
      replace (48 + n mod 10 - 48) with (n mod 10) by (clear; generalize (n mod 10); intros; lia).
      rewrite Hdm at 3. ring.
    + intros Hp c r Ec. destruct d as [|c0 d0]; [congruence|]. inversion Ec; subst.
      apply (Hh ltac:(apply N.div_str_pos; lia) c d0 eq_refl).
Qed.

Lemma print_N_spec n :
  exists d, print_N n = d /\ digits_ok d /\ d <> [] /\ digits_val 0 d = n /\
            (0 < n -> forall c r, d = c :: r -> c <> 48).
Proof.
  unfold print_N.
  assert (Hn : n < 10 ^ N.of_nat (S (N.to_nat (N.log2 n)))).
  { rewrite Nat2N.inj_succ, N2Nat.id. destruct (N.eq_dec n 0) as [->|Hz]; [reflexivity|].
    destruct (N.log2_spec n ltac:(lia)) as [_ H2].
    eapply N.lt_le_trans; [exact H2|]. apply N.pow_le_mono_l. lia. }
  destruct (pdf_spec _ n [] Hn ltac:(lia)) as (d & E & Hd & Hne & Hv & Hh).
  exists d. rewrite E, app_nil_r. split; [reflexivity|]. split; [exact Hd|]. split; [exact Hne|].
  split; [rewrite Hv; lia|exact Hh].
Qed.

(* the characters that may follow a value inside a document *)
Definition follow_ok (r : bytes) : Prop :=
  match r with [] => True | c :: _ => c = 44 \/ c = 93 \/ c = 125 end.

Lemma follow_not_digit r : follow_ok r -> match r with c :: _ => is_digit c = false | [] => True end.
Proof.
  destruct r as [|c r]; [auto|]. intros [-> | [-> | ->]]; reflexivity.
Qed.

Lemma take_digits_app d r : digits_ok d ->
  match r with c :: _ => is_digit c = false | [] => True end -> take_digits (d ++ r) = (d, r).
Proof.
  intros Hd Hr. induction Hd as [|c d Hc Hd IH]; cbn [app take_digits].
  - destruct r as [|c r]; [reflexivity|]. cbn [take_digits]. rewrite Hr. reflexivity.
  - assert (is_digit c = true) as -> by (apply is_digit_spec; exact Hc). rewrite IH. reflexivity.
Qed.

Definition int_ok (z : Z) : Prop := (- 9223372036854775808 <= z < 18446744073709551616)%Z.

Lemma exp_part_follow r : follow_ok r -> exp_part r = Ok (0%Z, [], r).
Proof.
  destruct r as [|c r]; [reflexivity|]. intros [-> | [-> | ->]]; reflexivity.
Qed.

Lemma frac_part_follow r : follow_ok r -> frac_part r = Ok ([], [], r).
Proof. destruct r as [|c r]; [reflexivity|]. intros [-> | [-> | ->]]; reflexivity. Qed.

Lemma sign_part_digit c d : 48 <= c <= 57 -> sign_part (c :: d) = (false, c :: d).
Proof.
  intros H. unfold sign_part. destruct c as [|pc]; [reflexivity|].
  do 6 (destruct pc as [pc|pc|]; try reflexivity). lia.
Qed.

Lemma int_part_digits c d r : 48 <= c <= 57 -> c <> 48 -> digits_ok d ->
  match r with x :: _ => is_digit x = false | [] => True end ->
  int_part (c :: d ++ r) = Ok (c :: d, r).
Proof.
  intros Hc Hc0 Hd Hr. unfold int_part.
  assert (c =? 48 = false) as -> by (apply N.eqb_neq; exact Hc0).
  assert (is_digit c = true) as -> by (apply is_digit_spec; exact Hc).
  rewrite (take_digits_app d r Hd Hr). reflexivity.
Qed.

Lemma int_part_zero r : match r with x :: _ => is_digit x = false | [] => True end ->
  int_part (48 :: r) = Ok ([48], r).
Proof.
  intros Hr. unfold int_part. change (48 =? 48) with true. cbv iota.
  destruct r as [|x r]; [reflexivity|]. rewrite Hr. reflexivity.
Qed.

Lemma parse_num_int z r : int_ok z -> follow_ok r ->
  parse_num true (print_Z z ++ r) = Ok (JInt z, r).
Proof.
  intros Hz Hr. pose proof (follow_not_digit r Hr) as Hnd. unfold int_ok in Hz.
  destruct z as [|p|p]; cbn [print_Z].
  - unfold parse_num. cbn [app]. rewrite (sign_part_digit 48 r ltac:(lia)).
    rewrite (int_part_zero r Hnd). cbn [rbind]. rewrite (frac_part_follow r Hr). cbn [rbind].
    rewrite (exp_part_follow r Hr). cbn [rbind]. reflexivity.
  - destruct (print_N_spec (Npos p)) as (d & E & Hd & Hne & Hv & Hh).
    rewrite E. destruct d as [|c d]; [congruence|]. inversion Hd as [|? ? Hc Hd']; subst.
    pose proof (Hh ltac:(lia) c d eq_refl) as Hc0.
    unfold parse_num. cbn [app]. rewrite (sign_part_digit c (d ++ r) Hc).
    rewrite (int_part_digits c d r Hc Hc0 Hd' Hnd). cbn [rbind]. rewrite (frac_part_follow r Hr). cbn [rbind].
    rewrite (exp_part_follow r Hr). cbn [rbind]. unfold num_value. rewrite Hv.
    assert (N.pos p <? 18446744073709551616 = true) as -> by (apply N.ltb_lt; lia).
    reflexivity.
  - destruct (print_N_spec (Npos p)) as (d & E & Hd & Hne & Hv & Hh).
    rewrite E. destruct d as [|c d]; [congruence|]. inversion Hd as [|? ? Hc Hd']; subst.
    pose proof (Hh ltac:(lia) c d eq_refl) as Hc0.
    unfold parse_num. cbn [app sign_part].
    rewrite (int_part_digits c d r Hc Hc0 Hd' Hnd). cbn [rbind]. rewrite (frac_part_follow r Hr). cbn [rbind].
    rewrite (exp_part_follow r Hr). cbn [rbind]. unfold num_value. rewrite Hv.
    assert (N.pos p =? 0 = false) as -> by (apply N.eqb_neq; lia).
    assert (9223372036854775808 <? N.pos p = false) as -> by (apply N.ltb_ge; lia).
    reflexivity.
Qed.

(* ------------------------------------------------------------------ *)
(* strings                                                             *)

Lemma unhex_hexdig n : n < 16 -> unhex (hexdig n) = Some n.
Proof.
  intros H. unfold hexdig, unhex. destruct (N.ltb_spec n 10).
  - replace ((48 <=? 48 + n) && (48 + n <=? 57)) with true. f_equal; lia.
    symmetry. rewrite andb_true_iff, !N.leb_le. lia.
  - replace ((48 <=? 87 + n) && (87 + n <=? 57)) with false.
    replace ((97 <=? 87 + n) && (87 + n <=? 102)) with true. f_equal; lia.
    symmetry. rewrite andb_true_iff, !N.leb_le. lia.
    symmetry. rewrite andb_false_iff, !N.leb_gt. lia.
Qed.

Lemma esc_first c rest : exists h tl, esc c ++ rest = h :: tl /\
  ( (h <> 34 /\ h <> 92 /\ 32 <= h /\ h = c /\ tl = rest) \/
    (h = 92 /\ unescape true tl = Ok ([c], rest)) ).
Proof.
  unfold esc.
  destruct (N.eqb_spec c 34) as [->|N1]. { exists 92, (34 :: rest). split; [reflexivity|]. right. split; reflexivity. }
  destruct (N.eqb_spec c 92) as [->|N2]. { exists 92, (92 :: rest). split; [reflexivity|]. right. split; reflexivity. }
  destruct (N.eqb_spec c 8) as [->|N3]. { exists 92, (98 :: rest). split; [reflexivity|]. right. split; reflexivity. }
  destruct (N.eqb_spec c 12) as [->|N4]. { exists 92, (102 :: rest). split; [reflexivity|]. right. split; reflexivity. }
  destruct (N.eqb_spec c 10) as [->|N5]. { exists 92, (110 :: rest). split; [reflexivity|]. right. split; reflexivity. }
  destruct (N.eqb_spec c 13) as [->|N6]. { exists 92, (114 :: rest). split; [reflexivity|]. right. split; reflexivity. }
  destruct (N.eqb_spec c 9) as [->|N7]. { exists 92, (116 :: rest). split; [reflexivity|]. right. split; reflexivity. }
  destruct (N.ltb_spec c 32) as [L|L].
  - eexists 92, _. split; [reflexivity|]. right. split; auto.
    unfold unescape. cbn [app]. change (117 =? 34) with false. change (117 =? 92) with false.
    change (117 =? 47) with false. change (117 =? 98) with false. change (117 =? 102) with false.
    change (117 =? 110) with false. change (117 =? 114) with false. change (117 =? 116) with false.
    change (117 =? 117) with true. cbv iota. unfold hex4. change (unhex 48) with (Some 0).
    assert (Hd : c / 16 < 16) by (apply N.div_lt_upper_bound; lia).
    assert (Hm : c mod 16 < 16) by (apply N.mod_lt; lia).
    rewrite (unhex_hexdig _ Hd), (unhex_hexdig _ Hm).
    assert (E : ((0 * 16 + 0) * 16 + c / 16) * 16 + c mod 16 = c).
    { pose proof (N.div_mod c 16 ltac:(lia)) as Hdm. rewrite Hdm at 3. ring. }
    rewrite E. cbn [negb]. cbv iota.
    assert ((56320 <=? c) && (c <=? 57343) = false) as ->.
    { apply andb_false_iff. left. apply N.leb_gt. lia. }
    assert ((c <? 55296) || (56319 <? c) = true) as ->.
    { apply orb_true_iff. left. apply N.ltb_lt. lia. }
    unfold utf8_enc. assert (c <? 128 = true) as -> by (apply N.ltb_lt; lia). reflexivity.
  - exists c, rest. split; [reflexivity|]. left. repeat split; auto.
Qed.

Lemma esc_nonempty c : (1 <= length (esc c))%nat.
Proof. unfold esc. repeat match goal with |- context [if ?b then _ else _] => destruct b end; simpl; lia. Qed.

Lemma str_body_roundtrip s : forall rest f, (length (flat_map esc s) < f)%nat ->
  parse_str_body f true (flat_map esc s ++ 34 :: rest) = Ok (s, rest).
Proof.
  induction s as [|c s IH]; intros rest f Hf.
  - destruct f; [simpl in Hf; lia|]. reflexivity.
  - cbn [flat_map] in *. rewrite <- app_assoc.
    destruct (esc_first c (flat_map esc s ++ 34 :: rest)) as (h & tl & E & [ (H1 & H2 & H3 & H4 & H5) | (H1 & H2) ]).
    + rewrite E. destruct f; [simpl in Hf; lia|]. cbn [parse_str_body].
      destruct (N.eqb_spec h 34); [congruence|]. destruct (N.eqb_spec h 92); [congruence|].
      destruct (N.ltb_spec h 32); [lia|]. subst. rewrite IH; [reflexivity|].
      rewrite app_length in Hf. pose proof (esc_nonempty c). lia.
    + rewrite E. destruct f; [simpl in Hf; lia|]. cbn [parse_str_body]. subst h.
      change (92 =? 34) with false. change (92 =? 92) with true. cbv iota.
      rewrite H2. cbn [rbind]. rewrite IH; [reflexivity|].
      rewrite app_length in Hf. pose proof (esc_nonempty c). lia.
Qed.

Lemma parse_string_roundtrip s rest : utf8_valid s = true ->
  parse_string true (flat_map esc s ++ 34 :: rest) = Ok (s, rest).
Proof.
  intros U. unfold parse_string. rewrite str_body_roundtrip by (rewrite app_length; simpl; lia).
  cbn [rbind]. rewrite U. reflexivity.
Qed.

(* the writer never emits a NUL: so NUL framing is unambiguous *)
Lemma hexdig_pos n : hexdig n <> 0.
Proof. unfold hexdig. destruct (n <? 10); lia. Qed.

Lemma esc_no_nul c : ~ In 0 (esc c).
Proof.
  unfold esc.
  destruct (N.eqb_spec c 34); [simpl; intuition lia|].
  destruct (N.eqb_spec c 92); [simpl; intuition lia|].
  destruct (N.eqb_spec c 8); [simpl; intuition lia|].
  destruct (N.eqb_spec c 12); [simpl; intuition lia|].
  destruct (N.eqb_spec c 10); [simpl; intuition lia|].
  destruct (N.eqb_spec c 13); [simpl; intuition lia|].
  destruct (N.eqb_spec c 9); [simpl; intuition lia|].
  destruct (N.ltb_spec c 32).
  - pose proof (hexdig_pos (c / 16)). pose proof (hexdig_pos (c mod 16)). simpl. intuition lia.
  - simpl. intuition lia.
Qed.

(* ------------------------------------------------------------------ *)
(* values                                                              *)

Section JsonInd.
  Variable P : json -> Prop.
  Hypothesis Hnull : P JNull.
  Hypothesis Hbool : forall b, P (JBool b).
  Hypothesis Hint : forall z, P (JInt z).
  Hypothesis Hfloat : forall l, P (JFloat l).
  Hypothesis Hstr : forall s, P (JStr s).
  Hypothesis Harr : forall l, Forall P l -> P (JArr l).
  Hypothesis Hobj : forall m, Forall (fun kv => P (snd kv)) m -> P (JObj m).
  Fixpoint json_ind' (j : json) : P j :=
    match j with
    | JNull => Hnull
    | JBool b => Hbool b
    | JInt z => Hint z
    | JFloat l => Hfloat l
    | JStr s => Hstr s
    | JArr l => Harr l ((fix go (l : list json) : Forall P l :=
                           match l with [] => Forall_nil _ | x :: r => Forall_cons _ (json_ind' x) (go r) end) l)
    | JObj m => Hobj m ((fix go (m : list (bytes * json)) : Forall (fun kv => P (snd kv)) m :=
                           match m with [] => Forall_nil _ | kv :: r => Forall_cons _ (json_ind' (snd kv)) (go r) end) m)
    end.
End JsonInd.

(* a float lexeme the reader maps to itself (what Rust prints is such a lexeme: trusted) *)
Definition float_lex_ok (lex : bytes) : Prop :=
  (exists c t, lex = c :: t /\ (c = 45 \/ 48 <= c <= 57)) /\ ~ In 0 lex /\
  forall r, follow_ok r -> parse_num true (lex ++ r) = Ok (JFloat lex, r).

Fixpoint wf (j : json) : Prop :=
  match j with
  | JInt z => int_ok z
  | JFloat lex => float_lex_ok lex
  | JStr s => utf8_valid s = true
  | JArr l => (fix all (l : list json) : Prop := match l with [] => True | x :: r => wf x /\ all r end) l
  | JObj m => (fix all (m : list (bytes * json)) : Prop :=
                 match m with [] => True | (k, v) :: r => utf8_valid k = true /\ wf v /\ all r end) m
  | _ => True
  end.

Fixpoint size (j : json) : nat :=
  match j with
  | JArr l => S ((fix go (l : list json) : nat := match l with [] => O | x :: r => S (size x + go r) end) l)
  | JObj m => S ((fix go (m : list (bytes * json)) : nat := match m with [] => O | (_, v) :: r => S (size v + go r) end) m)
  | _ => 1%nat
  end.
Definition list_size (l : list json) : nat :=
  (fix go (l : list json) : nat := match l with [] => O | x :: r => S (size x + go r) end) l.
Definition members_size (m : list (bytes * json)) : nat :=
  (fix go (m : list (bytes * json)) : nat := match m with [] => O | (_, v) :: r => S (size v + go r) end) m.

Fixpoint height (j : json) : nat :=
  match j with
  | JArr l => S ((fix go (l : list json) : nat := match l with [] => O | x :: r => Nat.max (height x) (go r) end) l)
  | JObj m => S ((fix go (m : list (bytes * json)) : nat := match m with [] => O | (_, v) :: r => Nat.max (height v) (go r) end) m)
  | _ => O
  end.
Definition list_height (l : list json) : nat :=
  (fix go (l : list json) : nat := match l with [] => O | x :: r => Nat.max (height x) (go r) end) l.
Definition members_height (m : list (bytes * json)) : nat :=
  (fix go (m : list (bytes * json)) : nat := match m with [] => O | (_, v) :: r => Nat.max (height v) (go r) end) m.

(* first character of a printed value: never whitespace, never a closing bracket or comma *)
Definition head_ok (c : N) : Prop :=
  c = 110 \/ c = 116 \/ c = 102 \/ c = 34 \/ c = 45 \/ 48 <= c <= 57 \/ c = 91 \/ c = 123.

Lemma print_head j : wf j -> exists c t, print j = c :: t /\ head_ok c.
Proof.
  unfold head_ok. destruct j as [|[]|z|lex|s|l|m]; cbn [print wf]; intros W.
  - eexists _, _. split; [reflexivity|]. tauto.
  - eexists _, _. split; [reflexivity|]. tauto.
  - eexists _, _. split; [reflexivity|]. tauto.
  - destruct z as [|p|p]; cbn [print_Z].
    + eexists _, _. split; [reflexivity|]. right. right. right. right. right. left. lia.
    + destruct (print_N_spec (Npos p)) as (d & E & Hd & Hne & _). rewrite E.
      destruct d as [|c d]; [congruence|]. inversion Hd; subst. eexists _, _. split; [reflexivity|]. tauto.
    + eexists _, _. split; [reflexivity|]. tauto.
  - destruct W as [(c & t & -> & Hc) _]. eexists _, _. split; [reflexivity|]. tauto.
  - eexists _, _. split; [reflexivity|]. tauto.
  - eexists _, _. split; [reflexivity|]. tauto.
  - eexists _, _. split; [reflexivity|]. tauto.
Qed.

Lemma skip_ws_head c t : head_ok c -> skip_ws (c :: t) = c :: t.
Proof.
  intros H. cbn [skip_ws]. assert (is_ws c = false) as ->; [|reflexivity].
  unfold is_ws. unfold head_ok in H.
  repeat (apply orb_false_iff; split); apply N.eqb_neq; lia.
Qed.

Lemma parse_val_S f strict depth s :
  parse_val (S f) strict depth s =
  match skip_ws s with
  | [] => Err
  | c :: r =>
      if c =? 110 then do r1 <- expect [117; 108; 108] r; Ok (JNull, r1)
      else if c =? 116 then do r1 <- expect [114; 117; 101] r; Ok (JBool true, r1)
      else if c =? 102 then do r1 <- expect [97; 108; 115; 101] r; Ok (JBool false, r1)
      else if c =? 34 then do (t, r1) <- parse_string strict r; Ok (JStr t, r1)
      else if (c =? 45) || is_digit c then parse_num strict (c :: r)
      else if c =? 91 then
        if strict && (depth <=? 1) then Err
        else match skip_ws r with
             | 93 :: r1 => Ok (JArr [], r1)
             | _ => parse_elems f strict (depth - 1) r []
             end
      else if c =? 123 then
        if strict && (depth <=? 1) then Err
        else match skip_ws r with
             | 125 :: r1 => Ok (JObj [], r1)
             | _ => parse_members f strict (depth - 1) r []
             end
      else Err
  end.
Proof. reflexivity. Qed.

Lemma parse_elems_S f strict depth s acc :
  parse_elems (S f) strict depth s acc =
  (do (v, r) <- parse_val f strict depth s;
   match skip_ws r with
   | 44 :: r1 => parse_elems f strict depth r1 (v :: acc)
   | 93 :: r1 => Ok (JArr (rev (v :: acc)), r1)
   | _ => Err
   end).
Proof. reflexivity. Qed.

Lemma parse_members_S f strict depth s acc :
  parse_members (S f) strict depth s acc =
  match skip_ws s with
  | 34 :: r0 =>
      do (k, r1) <- parse_string strict r0;
      match skip_ws r1 with
      | 58 :: r2 =>
          do (v, r3) <- parse_val f strict depth r2;
          match skip_ws r3 with
          | 44 :: r4 => parse_members f strict depth r4 ((k, v) :: acc)
          | 125 :: r4 => Ok (JObj (rev ((k, v) :: acc)), r4)
          | _ => Err
          end
      | _ => Err
      end
  | _ => Err
  end.
Proof. reflexivity. Qed.

Definition rt_at (x : json) : Prop :=
  forall f depth rest, (size x <= f)%nat -> N.of_nat (height x) < depth -> follow_ok rest ->
    parse_val f true depth (print x ++ rest) = Ok (x, rest).

Lemma wf_arr_cons x r : wf (JArr (x :: r)) <-> wf x /\ wf (JArr r).
Proof. cbn [wf]. tauto. Qed.
Lemma wf_obj_cons k v r : wf (JObj ((k, v) :: r)) <-> utf8_valid k = true /\ wf v /\ wf (JObj r).
Proof. cbn [wf]. tauto. Qed.

Lemma elems_roundtrip l : Forall rt_at l -> l <> [] -> wf (JArr l) ->
  forall f depth rest acc, (list_size l <= f)%nat -> N.of_nat (list_height l) < depth ->
    parse_elems f true depth (print_list print l ++ 93 :: rest) acc = Ok (JArr (rev acc ++ l), rest).
Proof.
  induction l as [|x r IH]; intros HF Hne W f depth rest acc Hf Hd; [congruence|].
  inversion HF as [|? ? Hx Hr]; subst. apply wf_arr_cons in W. destruct W as [Wx Wr].
  cbn [list_size] in Hf. fold (list_size r) in Hf. cbn [list_height] in Hd. fold (list_height r) in Hd.
  destruct f as [|f]; [lia|]. rewrite parse_elems_S.
  destruct r as [|y r'].
  - cbn [print_list]. rewrite (Hx f depth (93 :: rest)); [|lia|lia|right; left; reflexivity].
    cbn [rbind skip_ws is_ws]. change (is_ws 93) with false. cbv iota.
    cbn [rev]. reflexivity.
  - change (print_list print (x :: y :: r')) with (print x ++ 44 :: print_list print (y :: r')).
    rewrite <- app_assoc. cbn [app].
    rewrite (Hx f depth (44 :: print_list print (y :: r') ++ 93 :: rest)); [|lia|lia|left; reflexivity].
    cbn [rbind skip_ws]. change (is_ws 44) with false. cbv iota.
    rewrite (IH Hr ltac:(discriminate) Wr f depth rest (x :: acc)); [|lia|lia].
    cbn [rev]. rewrite <- app_assoc. reflexivity.
Qed.

Lemma print_str_shape k : print_str k = 34 :: flat_map esc k ++ [34].
Proof. reflexivity. Qed.

Lemma members_roundtrip m : Forall (fun kv => rt_at (snd kv)) m -> m <> [] -> wf (JObj m) ->
  forall f depth rest acc, (members_size m <= f)%nat -> N.of_nat (members_height m) < depth ->
    parse_members f true depth (print_members print m ++ 125 :: rest) acc = Ok (JObj (rev acc ++ m), rest).
Proof.
  induction m as [|[k v] r IH]; intros HF Hne W f depth rest acc Hf Hd; [congruence|].
  inversion HF as [|? ? Hx Hr]; subst. cbn [snd] in Hx. apply wf_obj_cons in W. destruct W as (Uk & Wv & Wr).
  cbn [members_size] in Hf. fold (members_size r) in Hf. cbn [members_height] in Hd. fold (members_height r) in Hd.
  destruct f as [|f]; [lia|]. rewrite parse_members_S.
  destruct r as [|[k2 v2] r'].
  - cbn [print_members]. rewrite print_str_shape. cbn [app]. rewrite <- !app_assoc. cbn [app].
    rewrite skip_ws_head by (unfold head_ok; tauto).
    rewrite (parse_string_roundtrip k _ Uk). cbn [rbind skip_ws]. change (is_ws 58) with false. cbv iota.
    rewrite (Hx f depth (125 :: rest)); [|lia|lia|right; right; reflexivity].
    cbn [rbind skip_ws]. change (is_ws 125) with false. cbv iota.
    cbn [rev]. reflexivity.
  - change (print_members print ((k, v) :: (k2, v2) :: r')) with
      (print_str k ++ 58 :: print v ++ 44 :: print_members print ((k2, v2) :: r')).
    rewrite print_str_shape. cbn [app]. rewrite <- !app_assoc. cbn [app]. rewrite <- !app_assoc. cbn [app].
    rewrite skip_ws_head by (unfold head_ok; tauto).
    rewrite (parse_string_roundtrip k _ Uk). cbn [rbind skip_ws]. change (is_ws 58) with false. cbv iota.
    rewrite (Hx f depth (44 :: print_members print ((k2, v2) :: r') ++ 125 :: rest)); [|lia|lia|left; reflexivity].
    cbn [rbind skip_ws]. change (is_ws 44) with false. cbv iota.
    rewrite (IH Hr ltac:(discriminate) Wr f depth rest ((k, v) :: acc)); [|lia|lia].
    cbn [rev]. rewrite <- app_assoc. reflexivity.
Qed.

Lemma Forall_wf_arr (P : json -> Prop) l : wf (JArr l) -> Forall (fun j => wf j -> P j) l -> Forall P l.
Proof.
  induction l as [|x r IH]; intros W H; [constructor|].
  inversion H; subst. apply wf_arr_cons in W. destruct W as [Wx Wr]. constructor; auto.
Qed.
Lemma Forall_wf_obj (P : json -> Prop) m : wf (JObj m) ->
  Forall (fun kv => wf (snd kv) -> P (snd kv)) m -> Forall (fun kv => P (snd kv)) m.
Proof.
  induction m as [|[k v] r IH]; intros W H; [constructor|].
  inversion H; subst. apply wf_obj_cons in W. destruct W as (Uk & Wv & Wr). constructor; auto.
Qed.

Theorem value_roundtrip j : wf j -> rt_at j.
Proof.
  induction j as [| b | z | lex | s | l IHl | m IHm] using json_ind'; intros W f depth rest Hf Hd Hr;
    cbn [size] in Hf; (destruct f as [|f]; [lia|]).
  - reflexivity.
  - destruct b; reflexivity.
  - cbn [wf] in W. rewrite parse_val_S.
    destruct (print_head (JInt z) W) as (c & t & E & Hc). cbn [print] in E |- *. rewrite E. cbn [app].
    rewrite skip_ws_head by exact Hc.
    assert (Hnum : (c =? 45) || is_digit c = true).
    { destruct z as [|p|p]; cbn [print_Z] in E.
      - inversion E; subst. reflexivity.
      - destruct (print_N_spec (Npos p)) as (d & E2 & Hd2 & _). rewrite E2 in E. subst d.
        inversion Hd2; subst. apply orb_true_iff. right. apply is_digit_spec. assumption.
      - inversion E; subst. reflexivity. }
    assert (c =? 110 = false) as ->.
    { apply N.eqb_neq. intros ->. vm_compute in Hnum. discriminate. }
    assert (c =? 116 = false) as ->.
    { apply N.eqb_neq. intros ->. vm_compute in Hnum. discriminate. }
    assert (c =? 102 = false) as ->.
    { apply N.eqb_neq. intros ->. vm_compute in Hnum. discriminate. }
    assert (c =? 34 = false) as ->.
    { apply N.eqb_neq. intros ->. vm_compute in Hnum. discriminate. }
    rewrite Hnum. change (c :: t ++ rest) with ((c :: t) ++ rest). rewrite <- E.
    apply parse_num_int; assumption.
  - cbn [wf] in W. destruct W as ((c & t & -> & Hc) & Hn0 & Hp). rewrite parse_val_S. cbn [print app].
    rewrite skip_ws_head by (unfold head_ok; tauto).
    assert (Hnum : (c =? 45) || is_digit c = true).
    { destruct Hc as [->|Hc]; [reflexivity|]. apply orb_true_iff. right. apply is_digit_spec. exact Hc. }
    assert (c =? 110 = false) as ->.
    { apply N.eqb_neq. intros ->. vm_compute in Hnum. discriminate. }
    assert (c =? 116 = false) as ->.
    { apply N.eqb_neq. intros ->. vm_compute in Hnum. discriminate. }
    assert (c =? 102 = false) as ->.
    { apply N.eqb_neq. intros ->. vm_compute in Hnum. discriminate. }
    assert (c =? 34 = false) as ->.
    { apply N.eqb_neq. intros ->. vm_compute in Hnum. discriminate. }
    rewrite Hnum. apply (Hp rest Hr).
  - cbn [wf] in W. rewrite parse_val_S. cbn [print]. rewrite print_str_shape. cbn [app].
    rewrite skip_ws_head by (unfold head_ok; tauto). rewrite <- app_assoc. cbn [app].
    change (34 =? 110) with false. change (34 =? 116) with false. change (34 =? 102) with false.
    change (34 =? 34) with true. cbv iota.
    rewrite (parse_string_roundtrip s rest W). reflexivity.
  - rewrite parse_val_S. cbn [print app]. rewrite skip_ws_head by (unfold head_ok; tauto).
    change (91 =? 110) with false. change (91 =? 116) with false. change (91 =? 102) with false.
    change (91 =? 34) with false. change ((91 =? 45) || is_digit 91) with false. change (91 =? 91) with true.
    cbv iota. cbn [height] in Hd. fold (list_height l) in Hd.
    assert (depth <=? 1 = false) as -> by (apply N.leb_gt; lia). cbn [andb]. cbv iota.
    destruct l as [|x r].
    + cbn [print_list app skip_ws]. change (is_ws 93) with false. cbv iota. reflexivity.
    + fold (list_size (x :: r)) in Hf.
      assert (Wx : wf x) by (exact (proj1 (proj1 (wf_arr_cons x r) W))).
      destruct (print_head x Wx) as (c & t & E & Hc).
      assert (Hskip : exists c' t', skip_ws (print_list print (x :: r) ++ [93] ++ rest) = c' :: t' /\ c' <> 93).
      { destruct r; [cbn [print_list]|change (print_list print (x :: j :: r)) with (print x ++ 44 :: print_list print (j :: r))];
          rewrite E; cbn [app]; rewrite skip_ws_head by exact Hc; eexists _, _; (split; [reflexivity|]);
          unfold head_ok in Hc; lia. }
      destruct Hskip as (c' & t' & Es & Hne). rewrite <- app_assoc. rewrite Es.
      assert (Hm : forall A (a b : A), match c' :: t' with 93 :: r1 => a | _ => b end = b).
      { intros A a b. destruct c' as [|p]; [reflexivity|].
        do 7 (destruct p as [p|p|]; try reflexivity). congruence. }
      rewrite Hm. cbn [app].
      rewrite (elems_roundtrip (x :: r) (Forall_wf_arr _ _ W IHl) ltac:(discriminate) W f (depth - 1) rest []); [reflexivity|lia|lia].
  - rewrite parse_val_S. cbn [print app]. rewrite skip_ws_head by (unfold head_ok; tauto).
    change (123 =? 110) with false. change (123 =? 116) with false. change (123 =? 102) with false.
    change (123 =? 34) with false. change ((123 =? 45) || is_digit 123) with false. change (123 =? 91) with false.
    change (123 =? 123) with true.
    cbv iota. cbn [height] in Hd. fold (members_height m) in Hd.
    assert (depth <=? 1 = false) as -> by (apply N.leb_gt; lia). cbn [andb]. cbv iota.
    destruct m as [|[k v] r].
    + cbn [print_members app skip_ws]. change (is_ws 125) with false. cbv iota. reflexivity.
    + fold (members_size ((k, v) :: r)) in Hf.
      assert (Hskip : exists t', skip_ws (print_members print ((k, v) :: r) ++ [125] ++ rest) = 34 :: t').
      { destruct r as [|[k2 v2] r']; [cbn [print_members]|
          change (print_members print ((k, v) :: (k2, v2) :: r')) with
            (print_str k ++ 58 :: print v ++ 44 :: print_members print ((k2, v2) :: r'))];
          rewrite print_str_shape; cbn [app]; rewrite skip_ws_head by (unfold head_ok; tauto); eexists; reflexivity. }
      destruct Hskip as (t' & Es). rewrite <- app_assoc. rewrite Es. cbn [app].
      rewrite (members_roundtrip ((k, v) :: r) (Forall_wf_obj _ _ W IHm) ltac:(discriminate) W f (depth - 1) rest []); [reflexivity|lia|lia].
Qed.

(* ------------------------------------------------------------------ *)
(* whole documents                                                     *)

Lemma print_nonempty j : wf j -> (1 <= length (print j))%nat.
Proof. intros W. destruct (print_head j W) as (c & t & -> & _). simpl. lia. Qed.

Lemma size_bound j : wf j -> (size j <= 2 * length (print j))%nat.
Proof.
  induction j as [| b | z | lex | s | l IHl | m IHm] using json_ind'; intros W;
    try (pose proof (print_nonempty _ W); cbn [size]; lia).
  - cbn [size print]. fold (list_size l). cbn [length]. rewrite app_length. cbn [length].
    assert (H : (list_size l <= 2 * length (print_list print l) + 1)%nat).
    { pose proof (Forall_wf_arr _ _ W IHl) as HF. clear IHl W.
      induction l as [|x r IH]; [cbn; lia|]. inversion HF as [|? ? Hx Hr]; subst. specialize (IH Hr).
      cbn [list_size]. fold (list_size r). destruct r as [|y r'].
      - cbn [print_list list_size]. lia.
      - change (print_list print (x :: y :: r')) with (print x ++ 44 :: print_list print (y :: r')).
        rewrite app_length. cbn [length]. lia. }
    lia.
  - cbn [size print]. fold (members_size m). cbn [length]. rewrite app_length. cbn [length].
    assert (H : (members_size m <= 2 * length (print_members print m) + 1)%nat).
    { pose proof (Forall_wf_obj (fun j => (size j <= 2 * length (print j))%nat) _ W IHm) as HF. clear IHm W.
      induction m as [|[k v] r IH]; [cbn; lia|]. inversion HF as [|? ? Hx Hr]; subst. cbn [snd] in Hx. specialize (IH Hr).
      cbn [members_size]. fold (members_size r). destruct r as [|[k2 v2] r'].
      - cbn [print_members members_size]. rewrite app_length. cbn [length]. lia.
      - change (print_members print ((k, v) :: (k2, v2) :: r')) with
          (print_str k ++ 58 :: print v ++ 44 :: print_members print ((k2, v2) :: r')).
        rewrite app_length. cbn [length]. rewrite app_length. cbn [length]. lia. }
    lia.
Qed.

(* serde_json's reader accepts everything its writer emits, and reads back the same value:
   for every well-formed value nested less than 128 deep *)
Theorem parse_print j : wf j -> (height j <= 126)%nat -> parse_doc true (print j) = Ok j.
Proof.
  intros W H. unfold parse_doc.
  pose proof (value_roundtrip j W (val_fuel (print j)) 128 []) as R. rewrite app_nil_r in R.
  rewrite R; [reflexivity| |lia|exact I].
  pose proof (size_bound j W). unfold val_fuel. lia.
Qed.

(* NUL never occurs in the writer's output: NUL-terminated framing is unambiguous *)
Lemma flat_map_esc_no_nul s : ~ In 0 (flat_map esc s).
Proof.
  induction s as [|c s IH]; [intros []|]. cbn [flat_map]. intros H. apply in_app_or in H.
  destruct H as [H|H]; [exact (esc_no_nul c H)|exact (IH H)].
Qed.

Lemma print_str_no_nul s : ~ In 0 (print_str s).
Proof.
  rewrite print_str_shape. intros [H|H]; [lia|]. apply in_app_or in H.
  destruct H as [H|[H|[]]]; [exact (flat_map_esc_no_nul s H)|lia].
Qed.

Lemma digits_no_nul d : digits_ok d -> ~ In 0 d.
Proof. intros Hd H. unfold digits_ok in Hd. rewrite Forall_forall in Hd. specialize (Hd 0 H). lia. Qed.

Theorem print_no_nul j : wf j -> ~ In 0 (print j).
Proof.
  induction j as [| b | z | lex | s | l IHl | m IHm] using json_ind'; intros W.
  - cbn. intuition lia.
  - destruct b; cbn; intuition lia.
  - cbn [print]. destruct z as [|p|p]; cbn [print_Z].
    + cbn. intuition lia.
    + destruct (print_N_spec (Npos p)) as (d & -> & Hd & _). apply digits_no_nul; exact Hd.
    + destruct (print_N_spec (Npos p)) as (d & -> & Hd & _). intros [H|H]; [lia|]. exact (digits_no_nul d Hd H).
  - cbn [print]. destruct W as (_ & Hn & _). exact Hn.
  - cbn [print]. apply print_str_no_nul.
  - cbn [print]. pose proof (Forall_wf_arr _ _ W IHl) as HF. clear IHl W.
    intros [H|H]; [lia|]. apply in_app_or in H. destruct H as [H|[H|[]]]; [|lia].
    revert H. induction l as [|x r IH]; [intros []|]. inversion HF as [|? ? Hx Hr]; subst.
    destruct r as [|y r'].
    + cbn [print_list]. exact Hx.
    + change (print_list print (x :: y :: r')) with (print x ++ 44 :: print_list print (y :: r')).
      intros H. apply in_app_or in H. destruct H as [H|[H|H]]; [exact (Hx H)|lia|exact (IH Hr H)].
  - cbn [print]. pose proof (Forall_wf_obj (fun j => ~ In 0 (print j)) _ W IHm) as HF. clear IHm W.
    intros [H|H]; [lia|]. apply in_app_or in H. destruct H as [H|[H|[]]]; [|lia].
    revert H. induction m as [|[k v] r IH]; [intros []|]. inversion HF as [|? ? Hx Hr]; subst. cbn [snd] in Hx.
    destruct r as [|[k2 v2] r'].
    + cbn [print_members]. intros H. apply in_app_or in H.
      destruct H as [H|[H|H]]; [exact (print_str_no_nul k H)|lia|exact (Hx H)].
    + change (print_members print ((k, v) :: (k2, v2) :: r')) with
        (print_str k ++ 58 :: print v ++ 44 :: print_members print ((k2, v2) :: r')).
      intros H. apply in_app_or in H. destruct H as [H|[H|H]]; [exact (print_str_no_nul k H)|lia|].
      apply in_app_or in H. destruct H as [H|[H|H]]; [exact (Hx H)|lia|exact (IH Hr H)].
Qed.
