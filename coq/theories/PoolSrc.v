(* The pool and the accept loop instantiated at the regenerated constants (gen/PoolGen.v): definitions only, so
   that the executable model follows the source even when a fact about it (PoolFacts.v) no longer holds. *)
From Coq Require Import List Arith Bool.
From VL Require Import PoolExpr Pool Listen.
From VLG Require Import PoolGen.

(* the pool as configured by the source *)
Definition src_step (max : nat) := pstep count_at_enqueue grow_cond_src max.
Definition src_run (max : nat) := prun count_at_enqueue grow_cond_src max.
Definition src_init (initial max : nat) := pinit (effective_initial initial_clamped initial max).

Definition src_cfg (idle : nat) (stop : bool) : lcfg := mkcfg idle stop stop_quantum_ms stop_checked_after_accept.
