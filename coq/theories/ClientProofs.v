(* Invariants of the client transition system over all interleavings (C07), the iterator
   (C05 client half), oneway (C04 client half), the outcome mapping. *)
From VL Require Import Base Json Schema Wire Client.
From VLG Require Import WireGen.
Open Scope nat_scope.

Lemma upd_length {A} (l : list A) k f : length (upd l k f) = length l.
Proof. revert k. induction l as [|x l IH]; intros [|k]; simpl; auto. Qed.

Lemma nth_upd_same {A} (l : list A) k f d : k < length l -> nth k (upd l k f) d = f (nth k l d).
Proof.
  revert k. induction l as [|x l IH]; intros [|k] H; simpl in *; try lia; auto with arith.
Qed.

Lemma nth_upd_other {A} (l : list A) k j f d : k <> j -> nth j (upd l k f) d = nth j l d.
Proof.
  revert k j. induction l as [|x l IH]; intros [|k] [|j] H; simpl; auto; try lia.
Qed.

Definition ncalls (s : cstate) : nat := length (cs_calls s).
Definition owns (s : cstate) (k : nat) : Prop := c_owns (get_call s k) = true.

Definition is_twoway (e : nat * bool * bool * bool) : bool := let '(_, ow, _, _) := e in negb ow.
Definition twoway (l : list (nat * bool * bool * bool)) := filter is_twoway l.
Definition latest_requester (l : list (nat * bool * bool * bool)) : option nat :=
  match twoway l with (k, _, _, _) :: _ => Some k | [] => None end.

(* at most one call owns the stream; the connection is idle exactly when none does; the owner
   is the call that wrote the latest non-oneway request; the number of completed reply groups
   matches the number of non-oneway requests written *)
Record Inv (s : cstate) : Prop := {
  inv_idle : cs_idle s = true -> forall k, k < ncalls s -> ~ owns s k;
  inv_single : forall k1 k2, k1 < ncalls s -> k2 < ncalls s -> owns s k1 -> owns s k2 -> k1 = k2;
  inv_busy : cs_idle s = false -> exists k, k < ncalls s /\ owns s k;
  inv_count_idle : cs_idle s = true -> cs_finals s = length (twoway (cs_sent s));
  inv_count_busy : cs_idle s = false -> S (cs_finals s) = length (twoway (cs_sent s));
  inv_requester : forall k, k < ncalls s -> owns s k -> latest_requester (cs_sent s) = Some k }.

Definition op_call_index (o : cop) : nat :=
  match o with OSend k _ _ _ | ORecv k | OSetCont k | ONext k | ODrop k => k end.

Lemma nth_repeat_new k n : nth k (repeat new_call n) new_call = new_call.
Proof. revert k. induction n as [|n IH]; intros [|k]; simpl; auto. Qed.

Lemma inv_init n inbox : Inv (cs_init n inbox).
Proof.
  constructor; unfold owns, get_call, cs_init; simpl; intros; try rewrite nth_repeat_new in *;
    simpl in *; try discriminate; try reflexivity; try congruence.
Qed.

Ltac owns_tac :=
  unfold owns, get_call in *; simpl in *.

Lemma do_recv_inv s k s' x : Inv s -> k < ncalls s -> do_recv s k = (s', x) -> Inv s' /\ ncalls s' = ncalls s.
Proof.
  intros I Hk H. unfold do_recv in H. destruct (c_owns (get_call s k)) eqn:Ow; simpl in H.
  2:{ inversion H; subst. auto. }
  assert (Hb : cs_idle s = false).
  { destruct (cs_idle s) eqn:E; [|reflexivity]. exfalso. apply (inv_idle s I E k Hk). exact Ow. }
  destruct (cs_inbox s) as [|[y|] rest]; [inversion H; subst; auto| |].
  - assert (Hfin : forall c, (match y_continues y with Some true => false | _ => true end) = c -> True) by auto.
    destruct (match y_continues y with Some true => true | _ => false end) eqn:Ct.
    + assert (E : y_continues y = Some true) by (destruct (y_continues y) as [[]|]; congruence).
      rewrite E in H. inversion H; subst. clear H. split; [|unfold ncalls; simpl; apply upd_length].
      assert (Hg : forall j, j < ncalls s -> c_owns (nth j (upd (cs_calls s) k (fun c => mkcall (c_fresh c) true true)) new_call)
                                = c_owns (nth j (cs_calls s) new_call)).
      { intros j Hj. destruct (Nat.eq_dec k j) as [->|Hne].
        - rewrite nth_upd_same by exact Hj. simpl. symmetry. exact Ow.
        - rewrite nth_upd_other by exact Hne. reflexivity. }
      constructor; unfold ncalls, owns, get_call in *; simpl; rewrite ?upd_length.
      * intros E1. congruence.
      * intros k1 k2 H1 H2. rewrite (Hg k1 H1), (Hg k2 H2). apply (inv_single s I); assumption.
      * intros _. destruct (inv_busy s I Hb) as (j & Hj & Oj). exists j. split; [exact Hj|]. rewrite (Hg j Hj). exact Oj.
      * intros E1. congruence.
      * intros _. apply (inv_count_busy s I Hb).
      * intros j Hj. rewrite (Hg j Hj). apply (inv_requester s I j Hj).
    + assert (E : forall A (a b : A), match y_continues y with Some true => a | _ => b end = b).
      { intros A a b. destruct (y_continues y) as [[]|]; congruence. }
      rewrite E in H. inversion H; subst. clear H. split; [|unfold ncalls; simpl; apply upd_length].
      assert (Hg : forall j, j < ncalls s -> c_owns (nth j (upd (cs_calls s) k (fun c => mkcall (c_fresh c) false false)) new_call) = false).
      { intros j Hj. destruct (Nat.eq_dec k j) as [->|Hne].
        - rewrite nth_upd_same by exact Hj. reflexivity.
        - rewrite nth_upd_other by exact Hne. destruct (c_owns (nth j (cs_calls s) new_call)) eqn:Oj; [|reflexivity].
          exfalso. apply Hne. apply (inv_single s I k j Hk Hj); [exact Ow|exact Oj]. }
      constructor; unfold ncalls, owns, get_call in *; simpl; rewrite ?upd_length.
      * intros _ j Hj. rewrite (Hg j Hj). discriminate.
      * intros k1 k2 H1 H2 O1. rewrite (Hg k1 H1) in O1. discriminate.
      * discriminate.
      * intros _. pose proof (inv_count_busy s I Hb). lia.
      * discriminate.
      * intros j Hj Oj. rewrite (Hg j Hj) in Oj. discriminate.
  - inversion H; subst. clear H. split; [|reflexivity].
    constructor; unfold ncalls, owns, get_call in *; simpl; try apply I.
Qed.

Theorem step_inv s o s' x : Inv s -> op_call_index o < ncalls s -> cstep s o = (s', x) ->
  Inv s' /\ ncalls s' = ncalls s.
Proof.
  intros I Hk H. destruct o as [k ow mo up|k|k|k|k]; simpl in Hk, H.
  - destruct (c_fresh (get_call s k)) eqn:Fr; simpl in H; [|inversion H; subst; auto].
    set (calls1 := upd (cs_calls s) k (fun c => mkcall false (c_owns c) (c_cont c))) in *.
    assert (H1 : forall j, c_owns (nth j calls1 new_call) = c_owns (nth j (cs_calls s) new_call)).
    { intros j. unfold calls1. destruct (Nat.eq_dec k j) as [->|Hne].
      - rewrite nth_upd_same by exact Hk. reflexivity.
      - rewrite nth_upd_other by exact Hne. reflexivity. }
    assert (L1 : length calls1 = length (cs_calls s)) by (unfold calls1; apply upd_length).
    destruct (cs_idle s) eqn:Id; simpl in H.
    + destruct ow.
      * inversion H; subst. clear H. split; [|unfold ncalls; simpl; exact L1].
        constructor; unfold ncalls, owns, get_call in *; simpl; rewrite ?L1; unfold latest_requester; simpl.
        -- intros _ j Hj. rewrite H1. apply (inv_idle s I Id j Hj).
        -- intros k1 k2 Hk1 Hk2. rewrite !H1. apply (inv_single s I); assumption.
        -- discriminate.
        -- intros _. apply (inv_count_idle s I Id).
        -- discriminate.
        -- intros j Hj Oj. rewrite H1 in Oj. exfalso. apply (inv_idle s I Id j Hj). exact Oj.
      * inversion H; subst. clear H. split; [|unfold ncalls; simpl; rewrite upd_length; exact L1].
        assert (Hg : forall j, j < ncalls s -> c_owns (nth j (upd calls1 k (fun c => mkcall false true (c_cont c))) new_call) = Nat.eqb j k).
        { intros j Hj. destruct (Nat.eq_dec k j) as [->|Hne].
          - rewrite nth_upd_same by (rewrite L1; exact Hj). rewrite Nat.eqb_refl. reflexivity.
          - rewrite nth_upd_other by exact Hne. rewrite H1.
            destruct (Nat.eqb_spec j k); [congruence|].
            destruct (c_owns (nth j (cs_calls s) new_call)) eqn:Oj; [|reflexivity].
            exfalso. apply (inv_idle s I Id j Hj). exact Oj. }
        constructor; unfold ncalls, owns, get_call in *; simpl; rewrite ?upd_length, ?L1; unfold latest_requester; simpl.
        -- discriminate.
        -- intros k1 k2 Hk1 Hk2. rewrite (Hg k1 Hk1), (Hg k2 Hk2). intros E1 E2.
           apply Nat.eqb_eq in E1, E2. congruence.
        -- intros _. exists k. split; [exact Hk|]. rewrite (Hg k Hk). apply Nat.eqb_refl.
        -- discriminate.
        -- intros _. f_equal. apply (inv_count_idle s I Id).
        -- intros j Hj. rewrite (Hg j Hj). intros E. apply Nat.eqb_eq in E. congruence.
    + inversion H; subst. clear H. split; [|unfold ncalls; simpl; exact L1].
      constructor; unfold ncalls, owns, get_call in *; simpl; rewrite ?L1.
      * discriminate.
      * intros k1 k2 Hk1 Hk2. rewrite !H1. apply (inv_single s I); assumption.
      * intros _. destruct (inv_busy s I Id) as (j & Hj & Oj). exists j. split; [exact Hj|]. rewrite H1. exact Oj.
      * discriminate.
      * intros _. apply (inv_count_busy s I Id).
      * intros j Hj. rewrite H1. apply (inv_requester s I j Hj).
  - eapply do_recv_inv; eauto.
  - inversion H; subst. clear H. split; [|unfold ncalls; simpl; apply upd_length].
    assert (H1 : forall j, c_owns (nth j (upd (cs_calls s) k (fun c => mkcall (c_fresh c) (c_owns c) true)) new_call)
                           = c_owns (nth j (cs_calls s) new_call)).
    { intros j. destruct (Nat.eq_dec k j) as [->|Hne].
      - rewrite nth_upd_same by exact Hk. reflexivity.
      - rewrite nth_upd_other by exact Hne. reflexivity. }
    constructor; unfold ncalls, owns, get_call in *; simpl; rewrite ?upd_length.
    + intros E j Hj. rewrite H1. apply (inv_idle s I E j Hj).
    + intros k1 k2 Hk1 Hk2. rewrite !H1. apply (inv_single s I); assumption.
    + intros E. destruct (inv_busy s I E) as (j & Hj & Oj). exists j. split; [exact Hj|]. rewrite H1. exact Oj.
    + apply (inv_count_idle s I).
    + apply (inv_count_busy s I).
    + intros j Hj. rewrite H1. apply (inv_requester s I j Hj).
  - destruct (c_cont (get_call s k)); [eapply do_recv_inv; eauto|]. inversion H; subst. auto.
  - inversion H; subst. clear H. split; [|unfold ncalls; simpl; apply upd_length].
    assert (H1 : forall j, c_owns (nth j (upd (cs_calls s) k (fun c => mkcall false (c_owns c) false)) new_call)
                           = c_owns (nth j (cs_calls s) new_call)).
    { intros j. destruct (Nat.eq_dec k j) as [->|Hne].
      - rewrite nth_upd_same by exact Hk. reflexivity.
      - rewrite nth_upd_other by exact Hne. reflexivity. }
    constructor; unfold ncalls, owns, get_call in *; simpl; rewrite ?upd_length.
    + intros E j Hj. rewrite H1. apply (inv_idle s I E j Hj).
    + intros k1 k2 Hk1 Hk2. rewrite !H1. apply (inv_single s I); assumption.
    + intros E. destruct (inv_busy s I E) as (j & Hj & Oj). exists j. split; [exact Hj|]. rewrite H1. exact Oj.
    + apply (inv_count_idle s I).
    + apply (inv_count_busy s I).
    + intros j Hj. rewrite H1. apply (inv_requester s I j Hj).
Qed.

(* every reachable state, for any number of call objects, any reply stream and any interleaving
   of their steps *)
Theorem run_inv ops : forall s, Inv s -> Forall (fun o => op_call_index o < ncalls s) ops ->
  Inv (fst (crun s ops)).
Proof.
  induction ops as [|o ops IH]; intros s I F; simpl; [exact I|].
  inversion F as [|? ? Ho Fr]; subst.
  destruct (cstep s o) as [s1 x] eqn:St. destruct (step_inv _ _ _ _ I Ho St) as [I1 N1].
  specialize (IH s1 I1). rewrite N1 in IH. specialize (IH Fr).
  destruct (crun s1 ops) as [s2 xs]. exact IH.
Qed.

(* a frame is consumed only by the call that owns the stream ... *)
Theorem only_owner_reads s o s' x : cstep s o = (s', x) -> cs_inbox s' <> cs_inbox s ->
  owns s (op_call_index o).
Proof.
  unfold owns. destruct o as [k ow mo up|k|k|k|k]; simpl; intros H Hne.
  - destruct (c_fresh (get_call s k)); simpl in H; [|inversion H; subst; congruence].
    destruct (cs_idle s); simpl in H; [destruct ow|]; inversion H; subst; simpl in Hne; congruence.
  - unfold do_recv in H. destruct (c_owns (get_call s k)); [reflexivity|]. simpl in H. inversion H; subst. congruence.
  - inversion H; subst. simpl in Hne. congruence.
  - destruct (c_cont (get_call s k)); [|inversion H; subst; congruence].
    unfold do_recv in H. destruct (c_owns (get_call s k)); [reflexivity|]. simpl in H. inversion H; subst. congruence.
  - inversion H; subst. simpl in Hne. congruence.
Qed.

(* ... and that call is the one that wrote the latest non-oneway request: it is reading the
   reply group number (completed groups + 1), which answers exactly that request *)
Theorem reply_goes_to_requester s o s' x : Inv s -> op_call_index o < ncalls s ->
  cstep s o = (s', x) -> cs_inbox s' <> cs_inbox s ->
  latest_requester (cs_sent s) = Some (op_call_index o) /\
  S (cs_finals s) = length (twoway (cs_sent s)).
Proof.
  intros I Hk H Hne. pose proof (only_owner_reads _ _ _ _ H Hne) as Ow. split.
  - apply (inv_requester s I _ Hk Ow).
  - apply (inv_count_busy s I). destruct (cs_idle s) eqn:E; [|reflexivity].
    exfalso. apply (inv_idle s I E _ Hk). exact Ow.
Qed.

(* a send while the stream is owned fails with ConnectionBusy and writes nothing; a second
   send on the same call object fails with MethodCalledAlready and writes nothing *)
Theorem busy_send_writes_nothing s k ow mo up : cs_idle s = false -> c_fresh (get_call s k) = true ->
  snd (cstep s (OSend k ow mo up)) = RErr EBusy /\ cs_sent (fst (cstep s (OSend k ow mo up))) = cs_sent s.
Proof. intros Hb Hf. simpl. rewrite Hf, Hb. simpl. auto. Qed.

Theorem failed_send_writes_nothing s k ow mo up e :
  snd (cstep s (OSend k ow mo up)) = RErr e -> cs_sent (fst (cstep s (OSend k ow mo up))) = cs_sent s.
Proof.
  simpl. destruct (c_fresh (get_call s k)); simpl; [|reflexivity].
  destruct (cs_idle s); simpl; [destruct ow; simpl; discriminate|reflexivity].
Qed.

Theorem send_only_once s k ow mo up ow2 mo2 up2 : k < ncalls s ->
  snd (cstep (fst (cstep s (OSend k ow mo up))) (OSend k ow2 mo2 up2)) = RErr ECalledAlready.
Proof.
  intros Hk. assert (F : c_fresh (get_call (fst (cstep s (OSend k ow mo up))) k) = false).
  { simpl. destruct (c_fresh (get_call s k)) eqn:Fr; simpl; [|exact Fr].
    unfold get_call. destruct (cs_idle s); simpl; [destruct ow; simpl|].
    - rewrite nth_upd_same by exact Hk. reflexivity.
    - rewrite nth_upd_same by (rewrite upd_length; exact Hk). reflexivity.
    - rewrite nth_upd_same by exact Hk. reflexivity. }
  revert F. generalize (fst (cstep s (OSend k ow mo up))). intros s1 F. simpl. rewrite F. reflexivity.
Qed.

(* after the final reply the connection is usable again *)
Theorem final_reply_frees_connection s k y rest : owns s k -> cs_inbox s = FReply y :: rest ->
  y_continues y <> Some true -> cs_idle (fst (do_recv s k)) = true /\ cs_inbox (fst (do_recv s k)) = rest.
Proof.
  unfold owns, do_recv. intros -> -> Hc. simpl.
  destruct (y_continues y) as [[]|]; simpl; auto; congruence.
Qed.

(* oneway: returns after sending, takes no reply, leaves the connection idle (C04 client half) *)
Theorem oneway_consumes_no_reply s k mo up : cs_idle s = true -> c_fresh (get_call s k) = true ->
  let s' := fst (cstep s (OSend k true mo up)) in
  snd (cstep s (OSend k true mo up)) = RUnit /\ cs_idle s' = true /\ cs_inbox s' = cs_inbox s /\
  cs_finals s' = cs_finals s.
Proof. intros Hi Hf. simpl. rewrite Hf, Hi. simpl. auto. Qed.

(* outcome mapping *)
Theorem success_iff_no_error y : (exists p, outcome_of_reply y = ROk p) <-> y_error y = None.
Proof.
  unfold outcome_of_reply. destruct (y_error y); split; intros H; try discriminate; try reflexivity.
  - destruct H as [p H]. discriminate.
  - eexists. reflexivity.
Qed.

Theorem error_kind_by_name y n : y_error y = Some n ->
  outcome_of_reply y =
  RErr (match lookup_err client_error_table n with
        | Some (kind, member) =>
            EStd kind (match y_params y with
                       | Some (JObj m) => match obj_get member m with Some (JStr s) => s | _ => [] end
                       | Some (JArr [JStr s]) => s
                       | _ => []
                       end)
        | None => EOther y
        end).
Proof.
  intros E. unfold outcome_of_reply, error_of_reply. rewrite E.
  destruct (lookup_err client_error_table n) as [[kind member]|]; reflexivity.
Qed.

(* the client recognises exactly the four names the server emits *)
Lemma client_table_matches_server :
  map fst client_error_table =
  [err_interface_not_found; err_invalid_parameter; err_method_not_found; err_method_not_implemented] /\
  map (fun e => snd (snd e)) client_error_table =
  [err_interface_not_found_member; err_invalid_parameter_member; err_method_not_found_member; err_method_not_implemented_member].
Proof. vm_compute. split; reflexivity. Qed.

(* iteration (C05 client half): n continues-replies then a final one, followed by anything *)
Definition is_cont_frame (f : frame) : Prop := exists y, f = FReply y /\ y_continues y = Some true.
Definition frame_outcome (f : frame) : cout := match f with FReply y => outcome_of_reply y | FGarbage => RErr EDecode end.

Lemma crun_cons s o r : crun s (o :: r) = let '(s1, x) := cstep s o in let '(s2, xs) := crun s1 r in (s2, x :: xs).
Proof. reflexivity. Qed.

Theorem iteration_yields_all conts : forall s k yf rest,
  Forall is_cont_frame conts -> y_continues yf <> Some true ->
  k < ncalls s -> owns s k -> c_cont (get_call s k) = true ->
  cs_inbox s = conts ++ FReply yf :: rest ->
  let '(s', outs) := crun s (repeat (ONext k) (S (S (length conts)))) in
  outs = map frame_outcome conts ++ [outcome_of_reply yf; RNone] /\
  cs_idle s' = true /\ cs_inbox s' = rest.
Proof.
  induction conts as [|c conts IH]; intros s k yf rest HF Hf Hk Ow Ct Hin.
  - simpl repeat. simpl crun. rewrite Ct. unfold do_recv. unfold owns in Ow. rewrite Ow. simpl in Hin. rewrite Hin. simpl.
    assert (E : forall A (a b : A), match y_continues yf with Some true => a | _ => b end = b).
    { intros A a b. destruct (y_continues yf) as [[]|]; congruence. }
    rewrite E. simpl. unfold get_call. simpl. rewrite nth_upd_same by exact Hk. simpl. auto.
  - inversion HF as [|? ? (y & -> & Hy) HF']; subst.
    change (repeat (ONext k) (S (S (length (FReply y :: conts))))) with (ONext k :: repeat (ONext k) (S (S (length conts)))).
    set (s1 := mkcs (upd (cs_calls s) k (fun c => mkcall (c_fresh c) true true)) (cs_idle s) (conts ++ FReply yf :: rest) (cs_sent s) (cs_finals s)).
    assert (St : cstep s (ONext k) = (s1, outcome_of_reply y)).
    { simpl. rewrite Ct. unfold do_recv. unfold owns in Ow. rewrite Ow. simpl in Hin. rewrite Hin. simpl. rewrite Hy. reflexivity. }
    rewrite crun_cons, St.
    specialize (IH s1 k yf rest HF' Hf).
    assert (Hk1 : k < ncalls s1) by (unfold ncalls, s1; simpl; rewrite upd_length; exact Hk).
    assert (Ow1 : owns s1 k) by (unfold owns, get_call, s1; simpl; rewrite nth_upd_same by exact Hk; reflexivity).
    assert (Ct1 : c_cont (get_call s1 k) = true) by (unfold get_call, s1; simpl; rewrite nth_upd_same by exact Hk; reflexivity).
    specialize (IH Hk1 Ow1 Ct1 eq_refl).
    destruct (crun s1 (repeat (ONext k) (S (S (length conts))))) as [s' outs]. destruct IH as (E1 & E2 & E3).
    subst outs. simpl. auto.
Qed.

(* ---- an iterator abandoned mid-stream ----
   The call object that owns the stream goes out of scope while replies are outstanding (ODrop). Whatever the other
   call objects do afterwards, in any order: nothing more is read from the connection, nothing is written to it, it
   stays busy, and nobody is handed a reply. The replies of the abandoned stream reach no other call. *)
Lemma idle_false_of_owner s k : Inv s -> k < ncalls s -> owns s k -> cs_idle s = false.
Proof.
  intros I Hk Ow. destruct (cs_idle s) eqn:E; [|reflexivity]. exfalso. exact (inv_idle s I E k Hk Ow).
Qed.

Lemma step_beside_owner s k o s' x : Inv s -> k < ncalls s -> owns s k ->
  op_call_index o < ncalls s -> op_call_index o <> k -> cstep s o = (s', x) ->
  cs_inbox s' = cs_inbox s /\ cs_sent s' = cs_sent s /\ owns s' k /\ (forall p, x <> ROk p).
Proof.
  intros I Hk Ow Hj Hne H. pose proof (idle_false_of_owner s k I Hk Ow) as Id.
  assert (NotOwner : forall j, j < ncalls s -> j <> k -> c_owns (get_call s j) = false).
  { intros j Hj' Hne'. destruct (c_owns (get_call s j)) eqn:E; [|reflexivity].
    exfalso. apply Hne'. apply (inv_single s I j k Hj' Hk); [exact E | exact Ow]. }
  assert (Keep : forall j f, j <> k -> owns (mkcs (upd (cs_calls s) j f) (cs_idle s) (cs_inbox s) (cs_sent s) (cs_finals s)) k).
  { intros j f Hne'. unfold owns, get_call in *. simpl. rewrite nth_upd_other by exact Hne'. exact Ow. }
  destruct o as [j ow mo up|j|j|j|j]; simpl in Hj, Hne, H.
  - destruct (c_fresh (get_call s j)); simpl in H.
    + rewrite Id in H. simpl in H. inversion H; subst. simpl. repeat split; try reflexivity.
      * unfold owns, get_call in *. simpl. rewrite nth_upd_other by exact Hne. exact Ow.
      * discriminate.
    + inversion H; subst. repeat split; try reflexivity; [exact Ow | discriminate].
  - unfold do_recv in H. rewrite (NotOwner j Hj Hne) in H. simpl in H. inversion H; subst.
    repeat split; try reflexivity; [exact Ow | discriminate].
  - inversion H; subst. simpl. repeat split; try reflexivity; [apply Keep; exact Hne | discriminate].
  - destruct (c_cont (get_call s j)).
    + unfold do_recv in H. rewrite (NotOwner j Hj Hne) in H. simpl in H. inversion H; subst.
      repeat split; try reflexivity; [exact Ow | discriminate].
    + inversion H; subst. repeat split; try reflexivity; [exact Ow | discriminate].
  - inversion H; subst. simpl. repeat split; try reflexivity; [apply Keep; exact Hne | discriminate].
Qed.

Lemma run_beside_owner ops : forall s k, Inv s -> k < ncalls s -> owns s k ->
  Forall (fun o => op_call_index o < ncalls s /\ op_call_index o <> k) ops ->
  cs_inbox (fst (crun s ops)) = cs_inbox s /\ cs_sent (fst (crun s ops)) = cs_sent s /\
  cs_idle (fst (crun s ops)) = false /\ Forall (fun x => forall p, x <> ROk p) (snd (crun s ops)).
Proof.
  induction ops as [|o ops IH]; intros s k I Hk Ow F.
  - simpl. repeat split; auto. exact (idle_false_of_owner s k I Hk Ow).
  - inversion F as [|? ? [Ho Hne] Fr]; subst. simpl.
    destruct (cstep s o) as [s1 x] eqn:St.
    destruct (step_inv _ _ _ _ I Ho St) as [I1 N1].
    destruct (step_beside_owner _ _ _ _ _ I Hk Ow Ho Hne St) as (E1 & E2 & Ow1 & Nx).
    assert (Hk1 : k < ncalls s1) by (rewrite N1; exact Hk).
    assert (Fr1 : Forall (fun o => op_call_index o < ncalls s1 /\ op_call_index o <> k) ops) by (rewrite N1; exact Fr).
    specialize (IH s1 k I1 Hk1 Ow1 Fr1). destruct (crun s1 ops) as [s2 xs]. simpl in *.
    destruct IH as (A & B & C & D). repeat split; try congruence. constructor; assumption.
Qed.

Theorem abandoned_stream_reaches_nobody ops s k : Inv s -> k < ncalls s -> owns s k ->
  Forall (fun o => op_call_index o < ncalls s /\ op_call_index o <> k) ops ->
  let s1 := fst (cstep s (ODrop k)) in
  cs_inbox (fst (crun s1 ops)) = cs_inbox s /\ cs_sent (fst (crun s1 ops)) = cs_sent s /\
  cs_idle (fst (crun s1 ops)) = false /\ Forall (fun x => forall p, x <> ROk p) (snd (crun s1 ops)).
Proof.
  intros I Hk Ow F s1.
  assert (St : cstep s (ODrop k) = (s1, RUnit)) by reflexivity.
  destruct (step_inv s (ODrop k) s1 RUnit I Hk St) as [I1 N1].
  assert (Ow1 : owns s1 k).
  { unfold s1, owns, get_call in *. simpl. rewrite nth_upd_same by exact Hk. simpl. exact Ow. }
  assert (F1 : Forall (fun o => op_call_index o < ncalls s1 /\ op_call_index o <> k) ops) by (rewrite N1; exact F).
  assert (Hk1 : k < ncalls s1) by (rewrite N1; exact Hk).
  exact (run_beside_owner ops s1 k I1 Hk1 Ow1 F1).
Qed.

(* the premises are met by: call 0 sends a `more` call, reads one continuing reply, is dropped; call 1 then tries *)
Example abandoned_stream_example :
  let y c := FReply (mkreply (Some c) None (Some (JObj []))) in
  snd (crun (cs_init 2 [y true; y true; y false])
            (op_more 0 ++ [ONext 0; ODrop 0] ++ op_call 1)) =
  [RUnit; RUnit; ROk (JObj []); RUnit; RErr EBusy; RErr EOldReply].
Proof. vm_compute. reflexivity. Qed.
