(* Base definitions shared by every model: byte strings, a three-valued result
   (so that "out of fuel" is never mistaken for a verdict), small list helpers. *)
From Coq Require Export List NArith ZArith Lia Bool Arith.
Export ListNotations.

Definition byte := N.
Definition bytes := list N.

Inductive res (A : Type) : Type :=
| Ok (a : A)
| Err
| Fuel.
Arguments Ok {A} a.
Arguments Err {A}.
Arguments Fuel {A}.

Definition rbind {A B} (r : res A) (f : A -> res B) : res B :=
  match r with Ok a => f a | Err => Err | Fuel => Fuel end.
Notation "'do' x <- r ; k" := (rbind r (fun x => k)) (at level 200, x pattern, r at level 100, k at level 200).

Definition is_ok {A} (r : res A) : bool := match r with Ok _ => true | _ => false end.

Open Scope N_scope.

Fixpoint beq_bytes (a b : bytes) : bool :=
  match a, b with
  | [], [] => true
  | x :: a', y :: b' => (x =? y) && beq_bytes a' b'
  | _, _ => false
  end.

Lemma beq_bytes_eq a : forall b, beq_bytes a b = true <-> a = b.
Proof.
  induction a as [|x a IH]; intros [|y b]; simpl; split; intros H; try congruence; try reflexivity.
  - apply andb_true_iff in H. destruct H as [H1 H2]. apply N.eqb_eq in H1. apply IH in H2. congruence.
  - inversion H; subst. rewrite N.eqb_refl. simpl. apply IH. reflexivity.
Qed.

Lemma beq_bytes_refl a : beq_bytes a a = true.
Proof. apply beq_bytes_eq. reflexivity. Qed.

Lemma beq_bytes_spec a b : reflect (a = b) (beq_bytes a b).
Proof.
  destruct (beq_bytes a b) eqn:E; constructor.
  - apply beq_bytes_eq; assumption.
  - intros H. apply beq_bytes_eq in H. congruence.
Qed.

(* lexicographic "less than" on byte strings (Rust's String ordering) *)
Fixpoint blt_bytes (a b : bytes) : bool :=
  match a, b with
  | [], [] => false
  | [], _ :: _ => true
  | _ :: _, [] => false
  | x :: a', y :: b' => if x <? y then true else if y <? x then false else blt_bytes a' b'
  end.

(* prefix test; returns the remainder *)
Fixpoint strip_prefix (p s : bytes) : option bytes :=
  match p, s with
  | [], _ => Some s
  | x :: p', y :: s' => if x =? y then strip_prefix p' s' else None
  | _ :: _, [] => None
  end.

Lemma strip_prefix_app p s : strip_prefix p (p ++ s) = Some s.
Proof. induction p as [|x p IH]; simpl; auto. rewrite N.eqb_refl. exact IH. Qed.

Lemma strip_prefix_some p : forall s r, strip_prefix p s = Some r -> s = p ++ r.
Proof.
  induction p as [|x p IH]; intros s r H; simpl in *.
  - congruence.
  - destruct s as [|y s]; [discriminate|]. destruct (N.eqb_spec x y); [|discriminate].
    subst. f_equal. apply IH. assumption.
Qed.

Definition mem_bytes (x : bytes) (l : list bytes) : bool := existsb (beq_bytes x) l.

Lemma mem_bytes_In x l : mem_bytes x l = true <-> In x l.
Proof.
  unfold mem_bytes. rewrite existsb_exists. split.
  - intros (y & Hy & E). apply beq_bytes_eq in E. subst. assumption.
  - intros H. exists x. split; auto. apply beq_bytes_refl.
Qed.
