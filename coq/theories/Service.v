(* The server side of the runtime crate: reply writers, the built-in service
   interface, dispatch, the handle() loop, the documented feed caller, and the
   byte automaton that serves as their specification. *)
From VL Require Import Base Json Schema Wire.
From VLG Require Import WireGen.
Open Scope N_scope.

(* ---- what a method implementation may do with its Call ---- *)
Inductive action :=
| ASetCont (b : bool)                        (* call.set_continues(b) *)
| AReply (p : option json)                   (* call.reply_struct(Reply::parameters(p))? *)
| AError (name : bytes) (p : option json)    (* call.reply_struct(Reply::error(name, p))? *)
| AUpgrade                                   (* call.to_upgraded() *)
| AFail.                                     (* return Err(..) *)

Record iface := mkiface {
  if_name : bytes;
  if_descr : bytes;
  if_call : request -> list action;          (* Interface::call as a script *)
  if_echo : bool }.                          (* call_upgraded: echo every byte (true) or nothing *)

Record service := mkservice {
  s_vendor : bytes; s_product : bytes; s_version : bytes; s_url : bytes;
  s_ifaces : list iface }.                   (* in registration order *)

(* VarlinkService::new inserts into a map: a later registration replaces an earlier one *)
Fixpoint lookup_iface (l : list iface) (n : bytes) : option iface :=
  match l with
  | [] => None
  | i :: r => match lookup_iface r n with
              | Some j => Some j
              | None => if beq_bytes n (if_name i) then Some i else None
              end
  end.

Fixpoint dedup_names (l : list bytes) : list bytes :=
  match l with
  | [] => []
  | n :: r => if mem_bytes n r then dedup_names r else n :: dedup_names r
  end.
Definition table_names (svc : service) : list bytes := dedup_names (map if_name (s_ifaces svc)).

(* ---- reply writers ---- *)
(* reply_struct: the continues gate, then (if the source says so) the oneway rule *)
Inductive wres := WWrote (l : list reply) | WGate.

Definition reply_struct (q : request) (cont : bool) (y : reply) : wres :=
  if cont && negb (wants_more q) then
    (if reply_struct_checks_oneway && negb oneway_checked_after_gate && is_oneway q
     then WWrote [] else WGate)
  else if reply_struct_checks_oneway && is_oneway q then WWrote []
  else WWrote [mkreply (if cont then Some true else None) (y_error y) (y_params y)].

Definition reply_parameters (q : request) (p : json) : list reply :=
  if reply_parameters_checks_oneway && is_oneway q then []
  else [mkreply None None (Some p)].

(* run a script: replies written, whether it ended Ok, whether to_upgraded was called *)
Fixpoint run_actions (q : request) (cont upg : bool) (l : list action) : list reply * bool * bool :=
  match l with
  | [] => ([], true, upg)
  | ASetCont b :: r => run_actions q b upg r
  | AUpgrade :: r => run_actions q cont true r
  | AFail :: _ => ([], false, upg)
  | AReply p :: r =>
      match reply_struct q cont (mkreply None None p) with
      | WGate => ([], false, upg)
      | WWrote b => let '(o, ok, u) := run_actions q cont upg r in (b ++ o, ok, u)
      end
  | AError n p :: r =>
      match reply_struct q cont (mkreply None (Some n) p) with
      | WGate => ([], false, upg)
      | WWrote b => let '(o, ok, u) := run_actions q cont upg r in (b ++ o, ok, u)
      end
  end.

Definition encode_replies (l : list reply) : bytes := flat_map encode_reply l.

Definition std_error (name member value : bytes) : action :=
  AError name (Some (JObj [(member, JStr value)])).
Definition a_method_not_found (m : bytes) := std_error err_method_not_found err_method_not_found_member m.
Definition a_method_not_implemented (m : bytes) := std_error err_method_not_implemented err_method_not_implemented_member m.
Definition a_invalid_parameter (p : bytes) := std_error err_invalid_parameter err_invalid_parameter_member p.
Definition a_interface_not_found (i : bytes) := std_error err_interface_not_found err_interface_not_found_member i.

(* ---- built-in org.varlink.service ---- *)
Definition info_json (svc : service) : json :=
  norm (JObj [([118; 101; 110; 100; 111; 114], JStr (s_vendor svc));
              ([112; 114; 111; 100; 117; 99; 116], JStr (s_product svc));
              ([118; 101; 114; 115; 105; 111; 110], JStr (s_version svc));
              ([117; 114; 108], JStr (s_url svc));
              ([105; 110; 116; 101; 114; 102; 97; 99; 101; 115],
               JArr (map JStr (builtin_name :: table_names svc)))]).

Definition descr_json (d : bytes) : json := JObj [(k_description, JStr d)].

(* outcome of serving one request *)
Inductive outcome := OCont | OUpgrade (i : bytes) | OFail.

Definition builtin_call (svc : service) (q : request) : list reply * bool * bool :=
  if beq_bytes (r_method q) m_getinfo then (reply_parameters q (info_json svc), true, false)
  else if beq_bytes (r_method q) m_getdescr then
    match r_params q with
    | Some p =>
        match de_value schema_GetInterfaceDescriptionArgs p with
        | Some [VString i] =>
            if beq_bytes i builtin_name then (reply_parameters q (descr_json builtin_descr), true, false)
            else match lookup_iface (s_ifaces svc) i with
                 | Some it => (reply_parameters q (descr_json (if_descr it)), true, false)
                 | None => run_actions q false false [a_invalid_parameter p_unknown_iface]
                 end
        | _ => ([], false, false)               (* from_value failed: Err, nothing written *)
        end
    | None => run_actions q false false [a_invalid_parameter p_no_params]
    end
  else run_actions q false false [a_method_not_found (r_method q)].

(* position of the last '.' *)
Fixpoint rsplit_dot (s : bytes) : option (bytes * bytes) :=
  match s with
  | [] => None
  | c :: r =>
      match rsplit_dot r with
      | Some (a, b) => Some (c :: a, b)
      | None => if c =? 46 then Some ([], r) else None
      end
  end.

Definition dispatch (svc : service) (i : bytes) (q : request) : list reply * bool * bool :=
  if beq_bytes i builtin_name then builtin_call svc q
  else match lookup_iface (s_ifaces svc) i with
       | Some it => run_actions q false false (if_call it q)
       | None => run_actions q false false [a_interface_not_found i]
       end.

(* replies and outcome of serving one request *)
Definition serve_r (svc : service) (q : request) : list reply * outcome :=
  match rsplit_dot (r_method q) with
  | None =>
      let '(o, ok, _) := run_actions q false false [a_interface_not_found (r_method q)] in
      (o, if ok then OCont else OFail)
  | Some (i, _) =>
      let '(o, ok, u) := dispatch svc i q in
      (o, if negb ok then OFail else if u then OUpgrade i else OCont)
  end.

Definition serve (svc : service) (q : request) : bytes * outcome :=
  let '(l, oc) := serve_r svc q in (encode_replies l, oc).

(* what call_upgraded does with the bytes it is given *)
Definition upgraded_out (svc : service) (i : bytes) (s : bytes) : bytes :=
  if beq_bytes i builtin_name then []
  else match lookup_iface (s_ifaces svc) i with
       | Some it => if if_echo it then s else []
       | None => []
       end.

(* ---- handle(): one call on a finite input ---- *)
Fixpoint cut_nul (s : bytes) : option (bytes * bytes) :=
  match s with
  | [] => None
  | c :: r => if c =? 0 then Some ([], r)
              else match cut_nul r with Some (a, x) => Some (c :: a, x) | None => None end
  end.

Inductive hres := HOk (tail : bytes) (upg : option bytes) | HErr | HFuel.

Fixpoint handle_loop (f : nat) (svc : service) (s : bytes) : bytes * hres :=
  match f with
  | O => ([], HFuel)
  | S f' =>
      match cut_nul s with
      | None => ([], HOk s None)                       (* EOF or incomplete message: the tail *)
      | Some (frame, rest) =>
          match decode_request frame with
          | Ok q =>
              let '(o, oc) := serve svc q in
              match oc with
              | OCont => let '(o2, r) := handle_loop f' svc rest in (o ++ o2, r)
              | OUpgrade i => (o, HOk rest (Some i))
              | OFail => (o, HErr)
              end
          | _ => ([], HErr)
          end
      end
  end.

Definition handle (svc : service) (upg : option bytes) (s : bytes) : bytes * hres :=
  match upg with
  | Some i => (upgraded_out svc i s, HOk [] (Some i))
  | None => handle_loop (S (length s)) svc s
  end.

(* ---- the documented caller: feed chunk by chunk, prepending the returned tail ---- *)
Record fstate := mkfs { fs_tail : bytes; fs_upg : option bytes; fs_closed : bool }.
Definition fs_init : fstate := mkfs [] None false.

Definition feed_step (svc : service) (st : fstate) (chunk : bytes) : fstate * bytes :=
  if fs_closed st then (st, [])
  else let '(o, r) := handle svc (fs_upg st) (fs_tail st ++ chunk) in
       match r with
       | HOk t u => (mkfs t u false, o)
       | _ => (mkfs [] None true, o)
       end.

Fixpoint feed (svc : service) (st : fstate) (chunks : list bytes) : fstate * bytes :=
  match chunks with
  | [] => (st, [])
  | c :: r => let '(st1, o1) := feed_step svc st c in
              let '(st2, o2) := feed svc st1 r in (st2, o1 ++ o2)
  end.

(* feed all chunks, then once more with nothing new (the caller's call at end of input) *)
Definition feed_all (svc : service) (chunks : list bytes) : fstate * bytes :=
  feed svc fs_init (chunks ++ [[]]).

(* ---- the same caller when handle()'s inner BufReader has capacity [cap] and the chunk is a transient slice ----
   handle() wraps the reader it is given in BufReader::new (capacity DEFAULT_BUF_SIZE = 8192). A slice always
   fills the buffer completely, so refills happen at multiples of [cap] from the start of the slice; when a call
   upgrades, the returned tail is what is left in that buffer: the bytes up to the end of the current block. A
   caller who hands in a transient slice and keeps only the returned tail (test.rs, ping's listen_multiplex)
   therefore drops everything beyond that block. [pos] is the number of bytes of the slice consumed so far. *)
Definition block_room (cap pos : nat) : nat :=
  match cap with O => O | _ => match Nat.modulo pos cap with O => O | m => cap - m end end.

Fixpoint handle_loop_cap (cap : nat) (f : nat) (svc : service) (pos : nat) (s : bytes) : bytes * hres :=
  match f with
  | O => ([], HFuel)
  | S f' =>
      match cut_nul s with
      | None => ([], HOk s None)
      | Some (frame, rest) =>
          match decode_request frame with
          | Ok q =>
              let '(o, oc) := serve svc q in
              let pos' := (pos + S (length frame))%nat in
              match oc with
              | OCont => let '(o2, r) := handle_loop_cap cap f' svc pos' rest in (o ++ o2, r)
              | OUpgrade i => (o, HOk (firstn (block_room cap pos') rest) (Some i))
              | OFail => (o, HErr)
              end
          | _ => ([], HErr)
          end
      end
  end.

Definition handle_cap (cap : nat) (svc : service) (upg : option bytes) (s : bytes) : bytes * hres :=
  match upg with
  | Some i => (upgraded_out svc i s, HOk [] (Some i))
  | None => handle_loop_cap cap (S (length s)) svc O s
  end.

Definition feed_step_cap (cap : nat) (svc : service) (st : fstate) (chunk : bytes) : fstate * bytes :=
  if fs_closed st then (st, [])
  else let '(o, r) := handle_cap cap svc (fs_upg st) (fs_tail st ++ chunk) in
       match r with
       | HOk t u => (mkfs t u false, o)
       | _ => (mkfs [] None true, o)
       end.

Fixpoint feed_cap (cap : nat) (svc : service) (st : fstate) (chunks : list bytes) : fstate * bytes :=
  match chunks with
  | [] => (st, [])
  | c :: r => let '(st1, o1) := feed_step_cap cap svc st c in
              let '(st2, o2) := feed_cap cap svc st1 r in (st2, o1 ++ o2)
  end.

Definition feed_all_cap (cap : nat) (svc : service) (chunks : list bytes) : fstate * bytes :=
  feed_cap cap svc fs_init (chunks ++ [[]]).

(* ---- the careful caller (the one the harness uses, and what listen() amounts to with its persistent reader):
   besides the returned tail it keeps what handle() left unread in the reader it was given. [handle_cap_rem] returns
   that remainder too: the part of the slice the inner block buffer never pulled in. ---- *)
Fixpoint handle_loop_cap_rem (cap : nat) (f : nat) (svc : service) (pos : nat) (s : bytes) : bytes * hres * bytes :=
  match f with
  | O => ([], HFuel, [])
  | S f' =>
      match cut_nul s with
      | None => ([], HOk s None, [])
      | Some (frame, rest) =>
          match decode_request frame with
          | Ok q =>
              let '(o, oc) := serve svc q in
              let pos' := (pos + S (length frame))%nat in
              match oc with
              | OCont => let '(o2, r, rem) := handle_loop_cap_rem cap f' svc pos' rest in (o ++ o2, r, rem)
              | OUpgrade i => (o, HOk (firstn (block_room cap pos') rest) (Some i), skipn (block_room cap pos') rest)
              | OFail => (o, HErr, [])
              end
          | _ => ([], HErr, [])
          end
      end
  end.

Definition handle_cap_rem (cap : nat) (svc : service) (upg : option bytes) (s : bytes) : bytes * hres * bytes :=
  match upg with
  | Some i => (upgraded_out svc i s, HOk [] (Some i), [])
  | None => handle_loop_cap_rem cap (S (length s)) svc O s
  end.

Definition feed_step_careful (cap : nat) (svc : service) (st : fstate) (chunk : bytes) : fstate * bytes :=
  if fs_closed st then (st, [])
  else let '(o, r, rem) := handle_cap_rem cap svc (fs_upg st) (fs_tail st ++ chunk) in
       match r with
       | HOk t u => (mkfs (t ++ rem) u false, o)
       | _ => (mkfs [] None true, o)
       end.

Fixpoint feed_careful (cap : nat) (svc : service) (st : fstate) (chunks : list bytes) : fstate * bytes :=
  match chunks with
  | [] => (st, [])
  | c :: r => let '(st1, o1) := feed_step_careful cap svc st c in
              let '(st2, o2) := feed_careful cap svc st1 r in (st2, o1 ++ o2)
  end.

Definition feed_all_careful (cap : nat) (svc : service) (chunks : list bytes) : fstate * bytes :=
  feed_careful cap svc fs_init (chunks ++ [[]]).

(* the largest buffer the transient-slice caller ever hands to handle(): bounded by the whole stream *)
Definition bufreader_capacity : nat := N.to_nat 8192.

(* ---- specification: a byte-at-a-time automaton ---- *)
(* ARun carries the partial message read so far, most recent byte first *)
Inductive astate := ARun (rpartial : bytes) | AUp (i : bytes) | AClosed.

Definition on_frame (svc : service) (frame : bytes) : astate * bytes :=
  match decode_request frame with
  | Ok q => let '(o, oc) := serve svc q in
            (match oc with OCont => ARun [] | OUpgrade i => AUp i | OFail => AClosed end, o)
  | _ => (AClosed, [])
  end.

Definition astep (svc : service) (st : astate) (c : N) : astate * bytes :=
  match st with
  | AClosed => (AClosed, [])
  | AUp i => (AUp i, upgraded_out svc i [c])
  | ARun p => if c =? 0 then on_frame svc (rev p) else (ARun (c :: p), [])
  end.

Fixpoint arun (svc : service) (st : astate) (s : bytes) : astate * bytes :=
  match s with
  | [] => (st, [])
  | c :: r => let '(st1, o1) := astep svc st c in
              let '(st2, o2) := arun svc st1 r in (st2, o1 ++ o2)
  end.

Definition spec_out (svc : service) (s : bytes) : bytes := snd (arun svc (ARun []) s).
Definition spec_closed (svc : service) (s : bytes) : bool :=
  match fst (arun svc (ARun []) s) with AClosed => true | _ => false end.
