(* A small expression language for the pool's growth condition; the term itself is
   regenerated from ThreadPool::execute by tr/pool.py. *)
From Coq Require Import Arith Bool Lia.

Inductive texp := TCounter | TWorkers | TMax | TConst (n : nat) | TPlus (a b : texp).
Inductive bexp :=
| CLe (a b : texp) | CLt (a b : texp) | CGe (a b : texp) | CGt (a b : texp) | CEq (a b : texp)
| BAnd (a b : bexp) | BOr (a b : bexp) | BNot (a : bexp).

Fixpoint teval (t : texp) (counter workers max : nat) : nat :=
  match t with
  | TCounter => counter
  | TWorkers => workers
  | TMax => max
  | TConst n => n
  | TPlus a b => teval a counter workers max + teval b counter workers max
  end.

Fixpoint beval (b : bexp) (counter workers max : nat) : bool :=
  match b with
  | CLe x y => teval x counter workers max <=? teval y counter workers max
  | CLt x y => teval x counter workers max <? teval y counter workers max
  | CGe x y => teval y counter workers max <=? teval x counter workers max
  | CGt x y => teval y counter workers max <? teval x counter workers max
  | CEq x y => teval x counter workers max =? teval y counter workers max
  | BAnd x y => beval x counter workers max && beval y counter workers max
  | BOr x y => beval x counter workers max || beval y counter workers max
  | BNot x => negb (beval x counter workers max)
  end.
