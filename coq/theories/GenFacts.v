(* Small facts about the generator model used by C09 (the injectivity theorem is in GenProofs.v). *)
From Coq Require Import List NArith Lia Bool Arith.
From VL Require Import Idl Gen.
Import ListNotations.
Open Scope N_scope.

(* the generator runs to completion exactly when no field / enum-member / typedef name is one of
   the four identifiers that cannot be raw identifiers *)
Theorem generator_total_iff i :
  generator_panics i = false <-> forall n, In n (raw_idents i) -> is_reserved n = false.
Proof.
  unfold generator_panics. split.
  - intros H n Hn. destruct (is_reserved n) eqn:E; [|reflexivity].
    assert (X : existsb is_reserved (raw_idents i) = true) by (apply existsb_exists; exists n; auto). congruence.
  - intros H. destruct (existsb is_reserved (raw_idents i)) eqn:E; [|reflexivity].
    apply existsb_exists in E. destruct E as (n & Hn & R). rewrite (H n Hn) in R. discriminate.
Qed.

Definition mk (ms : list member) : idl := mkidl [97; 46; 98] [] ms.

(* witnesses of the known classes (each replayed on the implementation by the check) *)
Example refuted_error_param_anon_type :
  has_dup (emitted_type_names (mk [MError [69] [] [([120], TStruct [([97], TInt)])]; MMethod [77] [] [] []])) = true.
Proof. vm_compute. reflexivity. Qed.

Example refuted_reserved_ident :
  generator_panics (mk [MMethod [77] [] [([115; 101; 108; 102], TInt)] []]) = true.
Proof. vm_compute. reflexivity. Qed.

Example refuted_snake_collision :
  has_dup (emitted_fn_names (mk [MMethod [70; 111; 111; 66; 97; 114] [] [] []; MMethod [70; 111; 111; 66; 65; 82] [] [] []])) = true.
Proof. vm_compute. reflexivity. Qed.

Example refuted_path_collision :
  has_dup (emitted_type_names (mk [MMethod [77] [] [([97; 95; 98], TStruct [([120], TInt)]); ([97], TStruct [([98], TStruct [([121], TInt)])])] []])) = true.
Proof. vm_compute. reflexivity. Qed.

(* a declared error whose reply method would be named like a CallTrait method the emitted code calls *)
Example refuted_error_name_clash :
  has_shadowing_error (mk [MMethod [77] [] [] []; MError [73;110;118;97;108;105;100;80;97;114;97;109;101;116;101;114] [] [([120], TInt)]]) = true
  /\ has_shadowing_error (mk [MMethod [77] [] [] []; MError [83;101;108;102] [] []]) = true
  /\ has_shadowing_error (mk [MMethod [77] [] [] []; MError [73;110;116;101;114;102;97;99;101;78;111;116;70;111;117;110;100] [] []]) = false.
Proof. vm_compute. repeat split; reflexivity. Qed.
