(* The certification service: per-client expected step, call-mode and parameter checks. *)
From VL Require Import Base Json Schema Wire Idl Codec.
Open Scope N_scope.

(* steps: 0 = Start, 1..11 = Test01..Test11, 12 = End *)
Inductive cmode := MNormal | MMore | MOneway.
Definition mode_of (k : nat) : cmode := if Nat.eqb k 10 then MMore else if Nat.eqb k 11 then MOneway else MNormal.

Definition flag (o : option bool) : bool := match o with Some true => true | _ => false end.
Definition mode_ok (m : cmode) (q : request) : bool :=
  match m with
  | MNormal => negb (flag (r_more q)) && negb (flag (r_oneway q)) && negb (flag (r_upgrade q))
  | MMore => flag (r_more q) && negb (flag (r_oneway q)) && negb (flag (r_upgrade q))
  | MOneway => flag (r_oneway q) && negb (flag (r_more q)) && negb (flag (r_upgrade q))
  end.

(* typed equality of values, as the derived PartialEq of the argument structs gives it;
   float lexemes are compared after dropping a trailing ".0" *)
Fixpoint strip_dot0 (l : bytes) : bytes :=
  match l with
  | [46; 48] => []
  | c :: r => c :: strip_dot0 r
  | [] => []
  end.

Fixpoint json_eqb (a b : json) {struct a} : bool :=
  match a, b with
  | JNull, JNull => true
  | JBool x, JBool y => Bool.eqb x y
  | JInt x, JInt y => Z.eqb x y
  | JFloat x, JFloat y => beq_bytes x y
  | JStr x, JStr y => beq_bytes x y
  | JArr x, JArr y =>
      (fix go (x y : list json) : bool :=
         match x, y with [], [] => true | p :: x', q :: y' => json_eqb p q && go x' y' | _, _ => false end) x y
  | JObj x, JObj y =>
      (fix go (x y : list (bytes * json)) : bool :=
         match x, y with
         | [], [] => true
         | (k, p) :: x', (k', q) :: y' => beq_bytes k k' && json_eqb p q && go x' y'
         | _, _ => false
         end) x y
  | _, _ => false
  end.

Fixpoint ival_eqb (a b : ival) {struct a} : bool :=
  match a, b with
  | IBool x, IBool y => Bool.eqb x y
  | IInt x, IInt y => Z.eqb x y
  | IFloat x, IFloat y => beq_bytes (strip_dot0 x) (strip_dot0 y)
  | IStr x, IStr y => beq_bytes x y
  | IObj x, IObj y => json_eqb x y
  | IStruct x, IStruct y =>
      (fix go (x y : list (str * ival)) : bool :=
         match x, y with
         | [], [] => true
         | (n, p) :: x', (n', q) :: y' => beq_str n n' && ival_eqb p q && go x' y'
         | _, _ => false
         end) x y
  | IEnum x, IEnum y => beq_str x y
  | IArr x, IArr y =>
      (fix go (x y : list ival) : bool :=
         match x, y with [], [] => true | p :: x', q :: y' => ival_eqb p q && go x' y' | _, _ => false end) x y
  | IMap x, IMap y =>
      (fix go (x y : list (bytes * ival)) : bool :=
         match x, y with
         | [], [] => true
         | (k, p) :: x', (k', q) :: y' => beq_bytes k k' && ival_eqb p q && go x' y'
         | _, _ => false
         end) x y
  | ISet x, ISet y => (fix go (x y : list bytes) : bool :=
                         match x, y with [], [] => true | p :: x', q :: y' => beq_bytes p q && go x' y' | _, _ => false end) x y
  | INone, INone => true
  | ISome x, ISome y => ival_eqb x y
  | _, _ => false
  end.

Section Cert.
Variable env : env.                                   (* typedefs of the certification interface *)
Variable fields : nat -> list (str * vtype).          (* input fields of step k *)
Variable canon : nat -> bytes -> json.                (* canonical parameters of step k for a client id *)

Definition s_client_id : bytes := [99;108;105;101;110;116;95;105;100].

Definition read_params (k : nat) (j : json) : option (list (str * ival)) :=
  dec_top (dec_fuel j) env (fields k) j.

(* the comparison the check_call macros perform: deserialise, compare with the canonical value *)
Definition matches (k : nat) (cid : bytes) (j : json) : bool :=
  match read_params k j, read_params k (canon k cid) with
  | Some a, Some b => ival_eqb (IStruct a) (IStruct b)
  | _, _ => false
  end.

Definition cstate := list (bytes * nat).               (* client id -> expected step *)
Fixpoint cget (s : cstate) (c : bytes) : option nat :=
  match s with [] => None | (c', k) :: r => if beq_bytes c c' then Some k else cget r c end.
Fixpoint cset (s : cstate) (c : bytes) (k : nat) : cstate :=
  match s with
  | [] => [(c, k)]
  | (c', k') :: r => if beq_bytes c c' then (c, k) :: r else (c', k') :: cset r c k
  end.

Inductive coutcome := CSuccess | CClientIdError | CCertError | CInvalidParameter.

Definition client_of (j : json) : option bytes :=
  match j with JObj m => match obj_get s_client_id m with Some (JStr c) => Some c | _ => None end | _ => None end.

(* one call to step k >= 1 *)
Definition cert_call (st : cstate) (k : nat) (q : request) : cstate * coutcome :=
  match r_params q with
  | None => (st, CInvalidParameter)
  | Some j =>
      match read_params k j, client_of j with
      | Some _, Some c =>
          match cget st c with
          | Some expected =>
              if Nat.eqb expected k then
                (* the step is consumed before the call is checked *)
                let st' := cset st c (S k) in
                if mode_ok (mode_of k) q && matches k c j then (st', CSuccess) else (st', CCertError)
              else (st, CClientIdError)
          | None => (st, CClientIdError)
          end
      | _, _ => (st, CInvalidParameter)
      end
  end.

(* the success reply of a step is only ever given to a request in the step's call mode, from a
   client expected at exactly that step, whose parameters equal the canonical ones *)
Theorem success_only_for_canonical st k q st' : cert_call st k q = (st', CSuccess) ->
  mode_ok (mode_of k) q = true /\
  exists j c, r_params q = Some j /\ client_of j = Some c /\ cget st c = Some k /\ matches k c j = true.
Proof.
  unfold cert_call. destruct (r_params q) as [j|]; [|discriminate].
  destruct (read_params k j); [|discriminate]. destruct (client_of j) as [c|] eqn:C; [|discriminate].
  destruct (cget st c) as [e|] eqn:G; [|discriminate]. destruct (Nat.eqb_spec e k); [|discriminate]. subst.
  destruct (mode_ok (mode_of k) q && matches k c j) eqn:M; [|discriminate]. intros _.
  apply andb_true_iff in M. destruct M as [M1 M2]. split; [exact M1|]. exists j, c. auto.
Qed.

(* a deviating call mode, a step out of order, an unknown client id, or different parameters never
   get the success reply *)
Corollary wrong_mode_never_succeeds st k q : mode_ok (mode_of k) q = false -> snd (cert_call st k q) <> CSuccess.
Proof.
  intros H E. destruct (cert_call st k q) as [st' o] eqn:C. simpl in E. subst.
  apply success_only_for_canonical in C. destruct C as [M _]. congruence.
Qed.

Corollary wrong_step_never_succeeds st k q j c : r_params q = Some j -> client_of j = Some c ->
  cget st c <> Some k -> snd (cert_call st k q) <> CSuccess.
Proof.
  intros Hp Hc Hg E. destruct (cert_call st k q) as [st' o] eqn:C. simpl in E. subst.
  apply success_only_for_canonical in C. destruct C as (_ & j' & c' & P & Cl & G & _). congruence.
Qed.

Corollary wrong_parameters_never_succeed st k q j c : r_params q = Some j -> client_of j = Some c ->
  matches k c j = false -> snd (cert_call st k q) <> CSuccess.
Proof.
  intros Hp Hc Hm E. destruct (cert_call st k q) as [st' o] eqn:C. simpl in E. subst.
  apply success_only_for_canonical in C. destruct C as (_ & j' & c' & P & Cl & _ & M). congruence.
Qed.

(* clients do not disturb each other: a call of one client leaves every other client's step alone *)
Lemma cget_cset_other s c c' k : c <> c' -> cget (cset s c k) c' = cget s c'.
Proof.
  intros Hne. induction s as [|[d kd] r IH]; simpl.
  - destruct (beq_bytes_spec c' c); [congruence|reflexivity].
  - destruct (beq_bytes_spec c d) as [->|Hcd]; simpl.
    + destruct (beq_bytes_spec c' d); [congruence|reflexivity].
    + destruct (beq_bytes_spec c' d); [reflexivity|exact IH].
Qed.

Lemma cget_cset_same s c k : cget (cset s c k) c = Some k.
Proof.
  induction s as [|[d kd] r IH]; simpl.
  - rewrite beq_bytes_refl. reflexivity.
  - destruct (beq_bytes_spec c d) as [->|Hcd]; simpl.
    + rewrite beq_bytes_refl. reflexivity.
    + destruct (beq_bytes_spec c d); [congruence|exact IH].
Qed.

Theorem other_clients_unaffected st k q c' : 
  (forall j c, r_params q = Some j -> client_of j = Some c -> c <> c') ->
  cget (fst (cert_call st k q)) c' = cget st c'.
Proof.
  intros H. unfold cert_call. destruct (r_params q) as [j|] eqn:P; [|reflexivity].
  destruct (read_params k j); [|reflexivity]. destruct (client_of j) as [c|] eqn:C; [|reflexivity].
  destruct (cget st c) as [e|]; [|reflexivity]. destruct (Nat.eqb e k); [|reflexivity].
  assert (Hne : c <> c') by (apply (H j c); auto).
  destruct (mode_ok (mode_of k) q && matches k c j); simpl; apply cget_cset_other; exact Hne.
Qed.

(* a canonical call at the expected step succeeds and advances that client *)
Theorem canonical_call_succeeds st k q j c : r_params q = Some j -> client_of j = Some c ->
  read_params k j <> None -> cget st c = Some k -> mode_ok (mode_of k) q = true -> matches k c j = true ->
  snd (cert_call st k q) = CSuccess /\ cget (fst (cert_call st k q)) c = Some (S k).
Proof.
  intros P C R G M Mt. unfold cert_call. rewrite P, C, G, Nat.eqb_refl, M, Mt.
  destruct (read_params k j); [|congruence]. simpl. split; [reflexivity|apply cget_cset_same].
Qed.
End Cert.
