(* The certification service: per-client expected step, call-mode and parameter checks. *)
From VL Require Import Base Json Schema Wire Idl Codec.
Open Scope N_scope.

(* steps: 0 = Start, 1..11 = Test01..Test11, 12 = End *)
Inductive cmode := MNormal | MMore | MOneway.
Definition mode_of (k : nat) : cmode := if Nat.eqb k 10 then MMore else if Nat.eqb k 11 then MOneway else MNormal.

Definition flag (o : option bool) : bool := match o with Some true => true | _ => false end.
Definition mode_ok (m : cmode) (q : request) : bool :=
  match m with
  | MNormal => negb (flag (r_more q)) && negb (flag (r_oneway q)) && negb (flag (r_upgrade q))
  | MMore => flag (r_more q) && negb (flag (r_oneway q)) && negb (flag (r_upgrade q))
  | MOneway => flag (r_oneway q) && negb (flag (r_more q)) && negb (flag (r_upgrade q))
  end.

(* typed equality of values, as the derived PartialEq of the argument structs gives it;
   float lexemes are compared after dropping a trailing ".0" *)
Fixpoint strip_dot0 (l : bytes) : bytes :=
  match l with
  | [46; 48] => []
  | c :: r => c :: strip_dot0 r
  | [] => []
  end.

Fixpoint json_eqb (a b : json) {struct a} : bool :=
  match a, b with
  | JNull, JNull => true
  | JBool x, JBool y => Bool.eqb x y
  | JInt x, JInt y => Z.eqb x y
  | JFloat x, JFloat y => beq_bytes x y
  | JStr x, JStr y => beq_bytes x y
  | JArr x, JArr y =>
      (fix go (x y : list json) : bool :=
         match x, y with [], [] => true | p :: x', q :: y' => json_eqb p q && go x' y' | _, _ => false end) x y
  | JObj x, JObj y =>
      (fix go (x y : list (bytes * json)) : bool :=
         match x, y with
         | [], [] => true
         | (k, p) :: x', (k', q) :: y' => beq_bytes k k' && json_eqb p q && go x' y'
         | _, _ => false
         end) x y
  | _, _ => false
  end.

Fixpoint ival_eqb (a b : ival) {struct a} : bool :=
  match a, b with
  | IBool x, IBool y => Bool.eqb x y
  | IInt x, IInt y => Z.eqb x y
  | IFloat x, IFloat y => beq_bytes (strip_dot0 x) (strip_dot0 y)
  | IStr x, IStr y => beq_bytes x y
  | IObj x, IObj y => json_eqb x y
  | IStruct x, IStruct y =>
      (fix go (x y : list (str * ival)) : bool :=
         match x, y with
         | [], [] => true
         | (n, p) :: x', (n', q) :: y' => beq_str n n' && ival_eqb p q && go x' y'
         | _, _ => false
         end) x y
  | IEnum x, IEnum y => beq_str x y
  | IArr x, IArr y =>
      (fix go (x y : list ival) : bool :=
         match x, y with [], [] => true | p :: x', q :: y' => ival_eqb p q && go x' y' | _, _ => false end) x y
  | IMap x, IMap y =>
      (fix go (x y : list (bytes * ival)) : bool :=
         match x, y with
         | [], [] => true
         | (k, p) :: x', (k', q) :: y' => beq_bytes k k' && ival_eqb p q && go x' y'
         | _, _ => false
         end) x y
  | ISet x, ISet y => (fix go (x y : list bytes) : bool :=
                         match x, y with [], [] => true | p :: x', q :: y' => beq_bytes p q && go x' y' | _, _ => false end) x y
  | INone, INone => true
  | ISome x, ISome y => ival_eqb x y
  | _, _ => false
  end.

Section Cert.
Variable env : env.                                   (* typedefs of the certification interface *)
Variable fields : nat -> list (str * vtype).          (* input fields of step k *)
Variable canon : nat -> bytes -> json.                (* canonical parameters of step k for a client id *)
Variable next : nat -> nat.                           (* the step a client is moved to when step k is consumed *)
Variable keeps : bool.                                (* a call to a step other than the expected one leaves the stored step alone *)

Definition s_client_id : bytes := [99;108;105;101;110;116;95;105;100].

Definition read_params (k : nat) (j : json) : option (list (str * ival)) :=
  dec_top (dec_fuel j) env (fields k) j.

(* the comparison the check_call macros perform: deserialise, compare with the canonical value *)
Definition matches (k : nat) (cid : bytes) (j : json) : bool :=
  match read_params k j, read_params k (canon k cid) with
  | Some a, Some b => ival_eqb (IStruct a) (IStruct b)
  | _, _ => false
  end.

Definition cstate := list (bytes * nat).               (* client id -> expected step *)
Fixpoint cget (s : cstate) (c : bytes) : option nat :=
  match s with [] => None | (c', k) :: r => if beq_bytes c c' then Some k else cget r c end.
Fixpoint cset (s : cstate) (c : bytes) (k : nat) : cstate :=
  match s with
  | [] => [(c, k)]
  | (c', k') :: r => if beq_bytes c c' then (c, k) :: r else (c', k') :: cset r c k
  end.

Inductive coutcome := CSuccess | CClientIdError | CCertError | CInvalidParameter.

Definition client_of (j : json) : option bytes :=
  match j with JObj m => match obj_get s_client_id m with Some (JStr c) => Some c | _ => None end | _ => None end.

(* one call to step k >= 1 *)
Definition cert_call (st : cstate) (k : nat) (q : request) : cstate * coutcome :=
  match r_params q with
  | None => (st, CInvalidParameter)
  | Some j =>
      match read_params k j, client_of j with
      | Some _, Some c =>
          match cget st c with
          | Some expected =>
              if Nat.eqb expected k then
                (* the step is consumed before the call is checked *)
                let st' := cset st c (next k) in
                if mode_ok (mode_of k) q && matches k c j then (st', CSuccess) else (st', CCertError)
              else ((if keeps then st else cset st c (next k)), CClientIdError)
          | None => (st, CClientIdError)
          end
      | _, _ => (st, CInvalidParameter)
      end
  end.

(* the success reply of a step is only ever given to a request in the step's call mode, from a
   client expected at exactly that step, whose parameters equal the canonical ones *)
Theorem success_only_for_canonical st k q st' : cert_call st k q = (st', CSuccess) ->
  mode_ok (mode_of k) q = true /\
  exists j c, r_params q = Some j /\ client_of j = Some c /\ cget st c = Some k /\ matches k c j = true.
Proof.
  unfold cert_call. destruct (r_params q) as [j|]; [|discriminate].
  destruct (read_params k j); [|discriminate]. destruct (client_of j) as [c|] eqn:C; [|discriminate].
  destruct (cget st c) as [e|] eqn:G; [|discriminate]. destruct (Nat.eqb_spec e k); [|discriminate]. subst.
  destruct (mode_ok (mode_of k) q && matches k c j) eqn:M; [|discriminate]. intros _.
  apply andb_true_iff in M. destruct M as [M1 M2]. split; [exact M1|]. exists j, c. auto.
Qed.

(* a deviating call mode, a step out of order, an unknown client id, or different parameters never
   get the success reply *)
Corollary wrong_mode_never_succeeds st k q : mode_ok (mode_of k) q = false -> snd (cert_call st k q) <> CSuccess.
Proof.
  intros H E. destruct (cert_call st k q) as [st' o] eqn:C. simpl in E. subst.
  apply success_only_for_canonical in C. destruct C as [M _]. congruence.
Qed.

Corollary wrong_step_never_succeeds st k q j c : r_params q = Some j -> client_of j = Some c ->
  cget st c <> Some k -> snd (cert_call st k q) <> CSuccess.
Proof.
  intros Hp Hc Hg E. destruct (cert_call st k q) as [st' o] eqn:C. simpl in E. subst.
  apply success_only_for_canonical in C. destruct C as (_ & j' & c' & P & Cl & G & _). congruence.
Qed.

Corollary wrong_parameters_never_succeed st k q j c : r_params q = Some j -> client_of j = Some c ->
  matches k c j = false -> snd (cert_call st k q) <> CSuccess.
Proof.
  intros Hp Hc Hm E. destruct (cert_call st k q) as [st' o] eqn:C. simpl in E. subst.
  apply success_only_for_canonical in C. destruct C as (_ & j' & c' & P & Cl & _ & M). congruence.
Qed.

(* clients do not disturb each other: a call of one client leaves every other client's step alone *)
Lemma cget_cset_other s c c' k : c <> c' -> cget (cset s c k) c' = cget s c'.
Proof.
  intros Hne. induction s as [|[d kd] r IH]; simpl.
  - destruct (beq_bytes_spec c' c); [congruence|reflexivity].
  - destruct (beq_bytes_spec c d) as [->|Hcd]; simpl.
    + destruct (beq_bytes_spec c' d); [congruence|reflexivity].
    + destruct (beq_bytes_spec c' d); [reflexivity|exact IH].
Qed.

Lemma cget_cset_same s c k : cget (cset s c k) c = Some k.
Proof.
  induction s as [|[d kd] r IH]; simpl.
  - rewrite beq_bytes_refl. reflexivity.
  - destruct (beq_bytes_spec c d) as [->|Hcd]; simpl.
    + rewrite beq_bytes_refl. reflexivity.
    + destruct (beq_bytes_spec c d); [congruence|exact IH].
Qed.

Theorem other_clients_unaffected st k q c' : 
  (forall j c, r_params q = Some j -> client_of j = Some c -> c <> c') ->
  cget (fst (cert_call st k q)) c' = cget st c'.
Proof.
  intros H. unfold cert_call. destruct (r_params q) as [j|] eqn:P; [|reflexivity].
  destruct (read_params k j); [|reflexivity]. destruct (client_of j) as [c|] eqn:C; [|reflexivity].
  destruct (cget st c) as [e|]; [|reflexivity].
  assert (Hne : c <> c') by (apply (H j c); auto).
  destruct (Nat.eqb e k).
  - destruct (mode_ok (mode_of k) q && matches k c j); simpl; apply cget_cset_other; exact Hne.
  - destruct keeps; simpl; [reflexivity|apply cget_cset_other; exact Hne].
Qed.

(* a canonical call at the expected step succeeds and advances that client *)
Theorem canonical_call_succeeds st k q j c : r_params q = Some j -> client_of j = Some c ->
  read_params k j <> None -> cget st c = Some k -> mode_ok (mode_of k) q = true -> matches k c j = true ->
  snd (cert_call st k q) = CSuccess /\ cget (fst (cert_call st k q)) c = Some (next k).
Proof.
  intros P C R G M Mt. unfold cert_call. rewrite P, C, G, Nat.eqb_refl, M, Mt.
  destruct (read_params k j); [|congruence]. simpl. split; [reflexivity|apply cget_cset_same].
Qed.

(* a call that is rejected as out of order (or as malformed) does not move anybody: the next call is judged against
   the same expected step *)
Theorem rejected_call_keeps_state st k q : keeps = true ->
  snd (cert_call st k q) = CClientIdError \/ snd (cert_call st k q) = CInvalidParameter ->
  fst (cert_call st k q) = st.
Proof.
  intros K. unfold cert_call. destruct (r_params q) as [j|]; [|reflexivity].
  destruct (read_params k j); [|reflexivity]. destruct (client_of j) as [c|]; [|reflexivity].
  destruct (cget st c) as [e|]; [|reflexivity]. destruct (Nat.eqb e k).
  - destruct (mode_ok (mode_of k) q && matches k c j); simpl; intros [H|H]; discriminate.
  - rewrite K. reflexivity.
Qed.

(* ---- histories: any sequence of calls of one client ---- *)
Fixpoint run (st : cstate) (calls : list (nat * request)) : cstate * list (nat * coutcome) :=
  match calls with
  | [] => (st, [])
  | (k, q) :: r => let '(st1, o) := cert_call st k q in
                   let '(st2, os) := run st1 r in (st2, (k, o) :: os)
  end.

Definition consumed (o : coutcome) : bool := match o with CSuccess | CCertError => true | _ => false end.
Definition consumed_steps (os : list (nat * coutcome)) : list nat :=
  map fst (List.filter (fun ko => consumed (snd ko)) os).

(* [chain e l]: l is e, next e, next (next e), ... *)
Fixpoint chain (e : nat) (l : list nat) : Prop :=
  match l with [] => True | k :: r => k = e /\ chain (next e) r end.

Definition by_client (c : bytes) (q : request) : Prop := forall j, r_params q = Some j -> client_of j = Some c.

(* whatever one client sends, in whatever order: the steps that are answered with a success or certification-error
   reply (the ones the service consumes) are exactly the canonical chain from the client's expected step; in
   particular a success reply for step k is only ever given when every earlier step of the chain was consumed before *)
Theorem consumed_steps_in_canonical_order c : keeps = true -> forall calls st e,
  cget st c = Some e -> Forall (fun kq => by_client c (snd kq)) calls ->
  chain e (consumed_steps (snd (run st calls))).
Proof.
  intros K. induction calls as [|[k q] r IH]; intros st e G F; cbn [run]; [exact I|].
  inversion F as [|? ? Hq Fr]; subst. cbn [snd] in Hq.
  destruct (cert_call st k q) as [st1 o] eqn:C.
  assert (E : snd (let '(st2, os) := run st1 r in (st2, (k, o) :: os)) = (k, o) :: snd (run st1 r))
    by (destruct (run st1 r); reflexivity).
  rewrite E. clear E. unfold consumed_steps. cbn [List.filter snd].
  revert C. unfold cert_call. destruct (r_params q) as [j|] eqn:P.
  2:{ intros C; inversion C; subst. cbn [consumed]. apply IH; auto. }
  destruct (read_params k j).
  2:{ intros C; inversion C; subst. cbn [consumed]. apply IH; auto. }
  destruct (client_of j) as [c0|] eqn:Cl.
  2:{ intros C; inversion C; subst. cbn [consumed]. apply IH; auto. }
  assert (c0 = c) by (specialize (Hq j P); congruence). subst c0.
  rewrite G. destruct (Nat.eqb_spec e k) as [->|Hne].
  - destruct (mode_ok (mode_of k) q && matches k c j); intros C; inversion C; subst; cbn [consumed map fst];
      (split; [reflexivity|]); apply IH; auto; apply cget_cset_same.
  - rewrite K. intros C; inversion C; subst. cbn [consumed]. apply IH; auto.
Qed.
End Cert.

(* the transition table as read from the source: position in the table = step number - 1 *)
Fixpoint index_of (n : bytes) (l : list bytes) : option nat :=
  match l with [] => None | x :: r => if beq_bytes n x then Some O else option_map S (index_of n r) end.
Definition next_of (tbl : list (bytes * bytes)) (k : nat) : nat :=
  match nth_error tbl (k - 1) with
  | Some (_, nx) => match index_of nx (map fst tbl) with Some i => S i | None => O end
  | None => O
  end.
