(* Rendered members and whole interface definitions parse to their syntax tree.

   PROVED (all closed under the global context, no axioms):
   - struct_parse / enum_parse / enum_not_struct: a rendered struct text (RStruct fs s := RType (TStruct fs) s)
     is parsed by p_struct to fs, a rendered enum text is parsed by p_enum to es and is rejected
     (PFail, not PFuel) by p_struct -- with NO condition on the text that follows.
   - header_ok / header_none: the common member prefix  d "keyword" wce+ name wce*  and the failure of
     the header for the other keywords (ordered choice in p_member).
   - member_parse:  RMember m s -> forall r f, length (s ++ r) < f -> p_member f (s ++ r) = POk (m, r)
     for the four member forms (method, typedef with struct, typedef with enum, error); the doc is
     trim_doc of the leading trivia text.
   - eol_ok: REol e next -> eol (e ++ next) = Some next   (whitespaces then one of LF, CR LF, CR,
     U+2028, U+2029; or a comment up to its line end), and eol_wce: eol only consumes trivia.
     Side condition carried by the relation (LineEnd): a lone CR used as a line end must not be followed
     by LF, because the parser takes CR LF as a single line end.
   - idl_parse:  RIdl i s -> parse_idl s = POk i, where RIdl uses the abstract predicate INameOk for
     the interface name, and IName_concrete:  interface_name n = Some [] -> INameOk n, giving
     idl_parse_concrete with the concrete condition  interface_name n = Some [].
   MISSING: nothing of the requested statements.  (Not attempted: the converse direction, i.e. that
   every accepted text is a rendering; the duplicate check of try_from.) *)
From Coq Require Import List NArith Lia Bool Arith.
From VL Require Import Idl TypeProofs.
From VLG Require Import GrammarGen.
Import ListNotations.
Open Scope N_scope.

Arguments N.eqb : simpl never. Arguments N.leb : simpl never.
Arguments in_ranges : simpl never.

Definition RStruct (fs : list (str * vtype)) (s : str) : Prop := RType (TStruct fs) s.
Definition REnum (es : list str) (s : str) : Prop := RType (TEnum es) s.

(* ---------- struct and enum texts ---------- *)
Lemma RStruct_inv fs s : RStruct fs s ->
  (fs = [] /\ exists t, Trivia t /\ s = 40 :: t ++ [41]) \/
  (exists s' t, RFields fs s' /\ Trivia t /\ s = 40 :: s' ++ t ++ [41]).
Proof. unfold RStruct. intros H. inversion H; subst; eauto 10. Qed.

Lemma REnum_inv es s : REnum es s ->
  exists e es' t0 s' t, es = e :: es' /\ Trivia t0 /\ FName e /\ REnumRest es' s' /\ Trivia t /\
                        s = 40 :: t0 ++ e ++ s' ++ t ++ [41].
Proof. unfold REnum. intros H. inversion H; subst. eauto 12. Qed.

Lemma tokstart_LP x : tokstart (40 :: x). Proof. split; [reflexivity|lia]. Qed.
Lemma follow_LP x : follow (40 :: x). Proof. split; [reflexivity|lia]. Qed.

Lemma RStruct_head fs s : RStruct fs s -> exists s', s = 40 :: s'.
Proof. intros H. destruct (RStruct_inv fs s H) as [(_ & t & _ & ->)|(s' & t & _ & _ & ->)]; eauto. Qed.
Lemma REnum_head es s : REnum es s -> exists s', s = 40 :: s'.
Proof. intros H. destruct (REnum_inv es s H) as (e & es' & t0 & s' & t & _ & _ & _ & _ & _ & ->). eauto. Qed.

Lemma struct_parse fs s : RStruct fs s -> forall r f, (length (s ++ r) < f)%nat ->
  p_struct f (p_type f) (s ++ r) = POk (fs, r).
Proof.
  intros H r f Hl.
  destruct (RStruct_inv fs s H) as [(-> & t & Ht & ->)|(s' & t & Hfs & Ht & ->)].
  - cbn [app]. unfold p_struct. rewrite expect_same. rewrite <- app_assoc. cbn [app].
    rewrite wce_trivia by (auto using tokstart_RP).
    fuelS f Hl. rewrite sep_list_S. unfold p_field at 1.
    rewrite (wce_tok (41 :: r)) by apply tokstart_RP.
    change (field_name (41 :: r)) with (@None (str * str)). cbv iota.
    rewrite (wce_tok (41 :: r)) by apply tokstart_RP. rewrite expect_same. reflexivity.
  - cbn [app]. unfold p_struct. rewrite expect_same. rewrite <- !app_assoc. cbn [app].
    assert (Hk : (length fs < f)%nat).
    { pose proof (RFields_len fs s' Hfs) as Hle. clear - Hle Hl. lens. }
    assert (Hl' : (length (s' ++ t ++ 41%N :: r) < f)%nat) by (clear - Hl; lens).
    pose proof (proj2 (proj2 render_parse) fs s' Hfs t r f f true Ht Hk Hl') as IH. cbn [app] in IH.
    destruct fs as [|a l]; [inversion Hfs|].
    rewrite (sep_list_first_wce _ _ _ _ _ _ _ IH).
    rewrite wce_trivia by (auto using tokstart_RP). rewrite expect_same. reflexivity.
Qed.

Lemma enum_not_struct es s : REnum es s -> forall rec r f, (0 < f)%nat ->
  p_struct f rec (s ++ r) = PFail.
Proof.
  intros H rec r f Hf.
  destruct (REnum_inv es s H) as (e & es' & t0 & s' & t & -> & Ht0 & He & Hes & Ht & ->).
  assert (Hfol : follow (s' ++ t ++ 41 :: r)) by (eapply REnumRest_follow; eauto).
  assert (Hnocolon : expect 58 (wce (s' ++ t ++ 41 :: r)) = None).
  { destruct Hes as [|e' es2 t' s2 Ht' He' Hes']; cbn [app].
    - rewrite wce_trivia by (auto using tokstart_RP). reflexivity.
    - rewrite wce_tok by apply tokstart_COMMA. reflexivity. }
  cbn [app]. unfold p_struct. rewrite expect_same. rewrite <- !app_assoc. cbn [app].
  rewrite wce_trivia by (auto using FName_tok).
  destruct f as [|f]; [lia|]. rewrite sep_list_S. unfold p_field at 1.
  rewrite (wce_tok (e ++ _)) by (auto using FName_tok).
  rewrite field_name_app by auto. rewrite Hnocolon.
  rewrite (wce_tok (e ++ _)) by (auto using FName_tok).
  destruct (FName_head e He) as (c & tl & Ee & Hc).
  rewrite Ee. cbn [app]. rewrite expect_ne; [reflexivity|].
  destruct (first_facts c Hc) as (?&?&?&?&?). congruence.
Qed.

Lemma enum_parse es s : REnum es s -> forall r f, (length (s ++ r) < f)%nat ->
  p_enum f (s ++ r) = POk (es, r).
Proof.
  intros H r f Hl.
  destruct (REnum_inv es s H) as (e & es' & t0 & s' & t & -> & Ht0 & He & Hes & Ht & ->).
  assert (Hfol : follow (s' ++ t ++ 41 :: r)) by (eapply REnumRest_follow; eauto).
  cbn [app]. unfold p_enum. rewrite expect_same. rewrite <- !app_assoc. cbn [app].
  rewrite wce_trivia by (auto using FName_tok).
  fuelS f Hl.
  rewrite sep_list_S. rewrite field_name_app by auto. cbn [lift].
  assert (Hk : (length es' < f)%nat).
  { pose proof (REnumRest_len es' s' Hes) as Hle. destruct (FName_head e He) as (c & tl & Ee & _).
    clear - Hle Hl Ee. rewrite Ee in Hl. lens. }
  rewrite (PE_all es' s' Hes t r f Ht Hk).
  rewrite wce_trivia by (auto using tokstart_RP). rewrite expect_same. reflexivity.
Qed.

(* ---------- headers ---------- *)
Lemma consumed_app (a b : str) : consumed (a ++ b) b = a.
Proof.
  unfold consumed. rewrite app_length, Nat.add_sub.
  induction a as [|x a IH]; cbn [length firstn app]; [reflexivity|rewrite IH; reflexivity].
Qed.

Definition KwOk (k : str) : Prop := forall x, tokstart (k ++ x).
Lemma KwOk_method : KwOk kw_method. Proof. intros x. split; [reflexivity|lia]. Qed.
Lemma KwOk_type : KwOk kw_type. Proof. intros x. split; [reflexivity|lia]. Qed.
Lemma KwOk_error : KwOk kw_error. Proof. intros x. split; [reflexivity|lia]. Qed.
Lemma KwOk_interface : KwOk kw_interface. Proof. intros x. split; [reflexivity|lia]. Qed.

Lemma TName_tok n x : TNameOk n -> tokstart (n ++ x).
Proof.
  intros H. destruct (TName_head n H) as (c & tl & -> & Hc).
  apply (alpha_tok c (tl ++ x)). apply upper_first; auto.
Qed.

Lemma wce1_trivia t y : Trivia t -> t <> [] -> tokstart y -> wce1 (t ++ y) = Some y.
Proof.
  intros Ht Hne Hy. unfold wce1. cbv zeta. rewrite wce_trivia by auto.
  assert (E : (length y <? length (t ++ y))%nat = true).
  { apply Nat.ltb_lt. rewrite app_length. destruct t; [congruence|cbn [length]; lia]. }
  rewrite E. reflexivity.
Qed.

Lemma header_ok k d t1 n t2 rest :
  KwOk k -> Trivia d -> Trivia t1 -> t1 <> [] -> TNameOk n -> Trivia t2 ->
  tokstart rest -> follow rest ->
  header k (d ++ k ++ t1 ++ n ++ t2 ++ rest) = Some (trim_doc d, n, rest).
Proof.
  intros Hk Hd Ht1 Hne Hn Ht2 Htok Hfol. unfold header. cbv zeta.
  rewrite (wce_trivia d Hd) by apply Hk.
  rewrite consumed_app, lit_app.
  rewrite wce1_trivia by (auto using TName_tok).
  rewrite tname_app by (auto using trivia_follow_gen).
  rewrite wce_trivia by auto. reflexivity.
Qed.

Lemma header_none k k' d x : Trivia d -> KwOk k' -> lit k (k' ++ x) = None ->
  header k (d ++ k' ++ x) = None.
Proof.
  intros Hd Hk Hl. unfold header. cbv zeta. rewrite (wce_trivia d Hd) by apply Hk.
  rewrite Hl. reflexivity.
Qed.

(* ---------- members ---------- *)
Inductive RMember : member -> str -> Prop :=
| RM_method n d t1 t2 t3 t4 i si o so :
    Trivia d -> Trivia t1 -> t1 <> [] -> TNameOk n -> Trivia t2 ->
    RStruct i si -> Trivia t3 -> Trivia t4 -> RStruct o so ->
    RMember (MMethod n (trim_doc d) i o)
            (d ++ kw_method ++ t1 ++ n ++ t2 ++ si ++ t3 ++ lit_arrow ++ t4 ++ so)
| RM_types n d t1 t2 fs s :
    Trivia d -> Trivia t1 -> t1 <> [] -> TNameOk n -> Trivia t2 -> RStruct fs s ->
    RMember (MTypeS n (trim_doc d) fs) (d ++ kw_type ++ t1 ++ n ++ t2 ++ s)
| RM_typee n d t1 t2 es s :
    Trivia d -> Trivia t1 -> t1 <> [] -> TNameOk n -> Trivia t2 -> REnum es s ->
    RMember (MTypeE n (trim_doc d) es) (d ++ kw_type ++ t1 ++ n ++ t2 ++ s)
| RM_error n d t1 t2 fs s :
    Trivia d -> Trivia t1 -> t1 <> [] -> TNameOk n -> Trivia t2 -> RStruct fs s ->
    RMember (MError n (trim_doc d) fs) (d ++ kw_error ++ t1 ++ n ++ t2 ++ s).

Lemma paren_tok_follow s : (exists s', s = 40 :: s') -> forall x, tokstart (s ++ x) /\ follow (s ++ x).
Proof. intros (s' & ->) x. split; [apply tokstart_LP|apply follow_LP]. Qed.

Lemma tokstart_arrow x : tokstart (lit_arrow ++ x). Proof. split; [reflexivity|lia]. Qed.

Theorem member_parse m s : RMember m s -> forall r f, (length (s ++ r) < f)%nat ->
  p_member f (s ++ r) = POk (m, r).
Proof.
  intros H r f Hl.
  destruct H as [n d t1 t2 t3 t4 i si o so Hd Ht1 Hne Hn Ht2 Hsi Ht3 Ht4 Hso
                |n d t1 t2 fs s Hd Ht1 Hne Hn Ht2 Hs
                |n d t1 t2 es s Hd Ht1 Hne Hn Ht2 Hs
                |n d t1 t2 fs s Hd Ht1 Hne Hn Ht2 Hs];
    rewrite <- !app_assoc in *; unfold p_member.
  - (* method *)
    unfold p_method.
    destruct (paren_tok_follow si (RStruct_head i si Hsi) (t3 ++ lit_arrow ++ t4 ++ so ++ r)) as [Htk Hfo].
    rewrite header_ok by (auto using KwOk_method).
    unfold vstruct. rewrite (struct_parse i si Hsi) by (clear - Hl; lens).
    rewrite wce_trivia by (auto using tokstart_arrow). rewrite lit_app.
    rewrite wce_trivia by (auto; eapply RType_tok; exact Hso).
    rewrite (struct_parse o so Hso) by (clear - Hl; lens). reflexivity.
  - (* typedef, struct *)
    unfold p_method. rewrite header_none by (auto using KwOk_type).
    unfold p_typedef.
    destruct (paren_tok_follow s (RStruct_head fs s Hs) r) as [Htk Hfo].
    rewrite header_ok by (auto using KwOk_type).
    unfold vstruct. rewrite (struct_parse fs s Hs) by (clear - Hl; lens). reflexivity.
  - (* typedef, enum *)
    unfold p_method. rewrite header_none by (auto using KwOk_type).
    unfold p_typedef.
    destruct (paren_tok_follow s (REnum_head es s Hs) r) as [Htk Hfo].
    rewrite header_ok by (auto using KwOk_type).
    unfold vstruct, venum. rewrite (enum_not_struct es s Hs) by (clear - Hl; lia).
    rewrite (enum_parse es s Hs) by (clear - Hl; lens). reflexivity.
  - (* error *)
    unfold p_method. rewrite header_none by (auto using KwOk_error).
    unfold p_typedef. rewrite header_none by (auto using KwOk_error).
    unfold p_error.
    destruct (paren_tok_follow s (RStruct_head fs s Hs) r) as [Htk Hfo].
    rewrite header_ok by (auto using KwOk_error).
    unfold vstruct. rewrite (struct_parse fs s Hs) by (clear - Hl; lens). reflexivity.
Qed.


(* ---------- line ends ---------- *)
Ltac destruct_pos :=
  repeat (match goal with p : positive |- _ => destruct p as [p|p|] end; try reflexivity).

Lemma eol_r_cons c r : eol_r (c :: r) =
  match r with
  | d :: r' => if (c =? 13) && (d =? 10) then Some r' else if is_eolc c then Some r else None
  | [] => if is_eolc c then Some r else None
  end.
Proof.
  destruct (N.eqb_spec c 13) as [->|Hc].
  - destruct r as [|d r']; [reflexivity|]. destruct (N.eqb_spec d 10) as [->|Hd]; [reflexivity|].
    rewrite andb_false_r. destruct d as [|p]; [reflexivity|]. destruct_pos.
    exfalso; apply Hd; reflexivity.
  - assert (E : eol_r (c :: r) = if is_eolc c then Some r else None).
    { destruct c as [|p]; [reflexivity|]. destruct_pos. exfalso; apply Hc; reflexivity. }
    rewrite E. destruct r; reflexivity.
Qed.

Definition no_lf (x : str) : Prop := match x with c :: _ => c <> 10 | [] => True end.

(* a line end, given the text that follows it: a lone CR must not be followed by LF
   (the parser would take CR LF as one line end) *)
Inductive LineEnd : str -> str -> Prop :=
| LE_crlf next : LineEnd [13; 10] next
| LE_one c next : is_eolc c = true -> (c = 13 -> no_lf next) -> LineEnd [c] next.

Lemma eol_r_single c r : is_eolc c = true -> (c = 13 -> no_lf r) -> eol_r (c :: r) = Some r.
Proof.
  intros Hc Hnl. rewrite eol_r_cons, Hc. destruct r as [|d r']; [reflexivity|].
  destruct (N.eqb_spec c 13) as [E|E]; destruct (N.eqb_spec d 10) as [E'|E']; cbn [andb]; try reflexivity.
  exfalso. subst. apply (Hnl eq_refl). reflexivity.
Qed.

Lemma LineEnd_eol_r le next : LineEnd le next -> eol_r (le ++ next) = Some next.
Proof.
  intros [next'|c next' Hc Hnl]; cbn [app]; [reflexivity|]. apply eol_r_single; auto.
Qed.

Lemma LineEnd_head le next : LineEnd le next -> exists c tl, le = c :: tl /\ is_eolc c = true.
Proof. intros [next'|c next' Hc Hnl]; eauto. Qed.

Lemma no_lf_app x y : x <> [] -> no_lf x -> no_lf (x ++ y).
Proof. destruct x; [congruence|auto]. Qed.

Lemma LineEnd_app le x y : x <> [] -> LineEnd le x -> LineEnd le (x ++ y).
Proof.
  intros Hx H. revert Hx. destruct H as [next'|c next' Hc Hnl]; intros Hx; constructor; auto.
  intros E. apply no_lf_app; auto.
Qed.

(* eol: whitespaces then a line end, or a comment up to its line end *)
Inductive REol : str -> str -> Prop :=
| RE_ws w le next : Forall (fun c => is_ws c = true) w -> LineEnd le next -> REol (w ++ le) next
| RE_comment body le next : Forall (fun c => is_eolc c = false) body -> LineEnd le next ->
    REol (35 :: body ++ le) next.

Lemma REol_app e x y : x <> [] -> REol e x -> REol e (x ++ y).
Proof.
  intros Hx H. revert Hx. destruct H as [w le next Hw Hle|body le next Hb Hle]; intros Hx;
    constructor; auto using LineEnd_app.
Qed.

Lemma eolc_not_ws c : is_eolc c = true -> is_ws c = false.
Proof. intros H. tables. bools. lia. Qed.

Lemma span_cons_false p (c : N) r : p c = false -> span p (c :: r) = ([], c :: r).
Proof. intros H. cbn [span]. rewrite H. reflexivity. Qed.

Lemma span_ws_app w : forall y, Forall (fun c => is_ws c = true) w ->
  (match y with c :: _ => is_ws c = false | [] => True end) -> span is_ws (w ++ y) = (w, y).
Proof.
  induction w as [|c w IH]; intros y Hw Hy; cbn [app].
  - destruct y as [|d y]; [reflexivity|]. apply span_cons_false; auto.
  - inversion Hw as [|c' w' Hc Hw']; subst. cbn [span]. rewrite Hc. rewrite IH; auto.
Qed.

Lemma comment_body_cons c r : comment_body (c :: r) = if is_eolc c then eol_r (c :: r) else comment_body r.
Proof. reflexivity. Qed.

Lemma comment_body_ok body : forall le next, Forall (fun c => is_eolc c = false) body ->
  LineEnd le next -> comment_body (body ++ le ++ next) = Some next.
Proof.
  induction body as [|b body IH]; intros le next Hb Hle; cbn [app].
  - destruct (LineEnd_head le next Hle) as (c & tl & E & Hc).
    pose proof (LineEnd_eol_r le next Hle) as He. rewrite E in *. cbn [app] in *.
    rewrite comment_body_cons, Hc. exact He.
  - inversion Hb as [|b' body' Hb1 Hb2]; subst. rewrite comment_body_cons, Hb1. auto.
Qed.

Lemma eol_r_35 y : eol_r (35 :: y) = None.
Proof. rewrite eol_r_cons. destruct y; reflexivity. Qed.

Lemma eol_unfold s : eol s =
  match eol_r (snd (span is_ws s)) with
  | Some r => Some r
  | None => match s with c :: r => if c =? 35 then comment_body r else None | [] => None end
  end.
Proof.
  unfold eol. destruct (eol_r (snd (span is_ws s))); [reflexivity|].
  destruct s as [|c r]; [reflexivity|]. destruct (N.eqb_spec c 35) as [->|Hc]; [reflexivity|].
  destruct c as [|p]; [reflexivity|]. destruct_pos. exfalso; apply Hc; reflexivity.
Qed.

Lemma eol_ok e next : REol e next -> eol (e ++ next) = Some next.
Proof.
  intros [w le next' Hw Hle|body le next' Hb Hle]; rewrite eol_unfold.
  - rewrite <- app_assoc. rewrite span_ws_app; auto.
    + cbn [snd]. rewrite LineEnd_eol_r; auto.
    + destruct (LineEnd_head le next' Hle) as (c & tl & -> & Hc). cbn [app]. apply eolc_not_ws; auto.
  - cbn [app]. rewrite span_cons_false by reflexivity. cbn [snd]. rewrite eol_r_35.
    change (35 =? 35) with true. cbv iota. rewrite <- app_assoc. apply comment_body_ok; auto.
Qed.

(* eol only consumes trivia *)
Lemma wce_span_ws s : wce s = wce (snd (span is_ws s)).
Proof.
  unfold wce. induction s as [|c r IH]; [reflexivity|]. cbn [span].
  destruct (is_ws c) eqn:E; [|reflexivity].
  rewrite skip_None_cons, E. cbn [orb]. destruct (span is_ws r) as [a b]. cbn [snd] in *. exact IH.
Qed.

Lemma eol_r_wce x r' : eol_r x = Some r' -> wce x = wce r'.
Proof.
  destruct x as [|c r]; [discriminate|]. rewrite eol_r_cons. unfold wce.
  destruct r as [|d r2].
  - destruct (is_eolc c) eqn:E; [|discriminate]. intros H; inversion H; subst.
    rewrite skip_None_cons, E, orb_true_r. reflexivity.
  - destruct ((c =? 13) && (d =? 10)) eqn:E2.
    + apply andb_true_iff in E2 as [E3 E4]. apply N.eqb_eq in E3, E4. subst.
      intros H; inversion H; subst. rewrite !skip_None_cons.
      change (is_ws 13 || is_eolc 13) with true. change (is_ws 10 || is_eolc 10) with true. reflexivity.
    + destruct (is_eolc c) eqn:E; [|discriminate]. intros H; inversion H; subst.
      rewrite skip_None_cons, E, orb_true_r. reflexivity.
Qed.

Lemma comment_body_wce r : forall r' s0, comment_body r = Some r' -> skip (Some s0) r = wce r'.
Proof.
  induction r as [|c r IH]; intros r' s0; [discriminate|]. rewrite comment_body_cons, skip_Some_cons.
  destruct (is_eolc c) eqn:E; [|apply IH].
  intros H. apply eol_r_wce in H. unfold wce in *. rewrite skip_None_cons, E, orb_true_r in H. exact H.
Qed.

Lemma eol_wce s r' : eol s = Some r' -> wce s = wce r'.
Proof.
  rewrite eol_unfold. destruct (eol_r (snd (span is_ws s))) as [x|] eqn:E.
  - intros H; inversion H; subst. rewrite wce_span_ws. apply eol_r_wce; auto.
  - destruct s as [|c r]; [discriminate|]. destruct (N.eqb_spec c 35) as [->|Hc]; [|discriminate].
    intros H. unfold wce. rewrite skip_None_cons. change (is_ws 35 || is_eolc 35) with false.
    change (35 =? 35) with true. cbv iota. apply comment_body_wce; auto.
Qed.


(* ---------- interface ---------- *)
Definition eol_start (r : str) : Prop :=
  match r with [] => True | c :: _ => trivc c = true \/ c = 35 end.

(* the interface name, abstractly: a text the interface_name recogniser consumes exactly,
   whenever it is followed by the start of an eol (or by nothing) *)
Definition INameOk (n : str) : Prop :=
  forall rest, eol_start rest -> interface_name (n ++ rest) = Some rest.

Lemma IName_head n : INameOk n -> exists c tl, n = c :: tl /\ in_ranges iname_first_start c = true.
Proof.
  intros H. specialize (H [] I). rewrite app_nil_r in H. unfold interface_name in H.
  destruct n as [|c tl]; [discriminate|].
  destruct (in_ranges iname_first_start c) eqn:E; [|discriminate]. eauto.
Qed.

Lemma iname_first_field_first c : in_ranges iname_first_start c = true -> in_ranges field_first c = true.
Proof.
  unfold iname_first_start, field_first. rewrite !in_ranges_cons, !in_ranges_nil. intros H. bools. lia.
Qed.

Lemma IName_tok n x : INameOk n -> tokstart (n ++ x).
Proof.
  intros H. destruct (IName_head n H) as (c & tl & -> & Hc).
  apply (alpha_tok c (tl ++ x)). apply iname_first_field_first; auto.
Qed.

Lemma REol_start e next x : REol e next -> eol_start (e ++ x).
Proof.
  intros [w le next' Hw Hle|body le next' Hb Hle].
  - destruct w as [|c w].
    + destruct (LineEnd_head le next' Hle) as (c & tl & -> & Hc). left. unfold trivc. rewrite Hc. apply orb_true_r.
    + inversion Hw as [|c' w' Hc Hw']; subst. left. unfold trivc. rewrite Hc. reflexivity.
  - right. reflexivity.
Qed.

Lemma RMember_len m s : RMember m s -> (1 <= length s)%nat.
Proof.
  intros H. destruct H; rewrite !app_length; unfold kw_method, kw_type, kw_error; cbn [length]; lia.
Qed.
Lemma RMember_ne m s : RMember m s -> s <> [].
Proof. intros H E. apply RMember_len in H. subst. cbn in H. lia. Qed.

(* the members after the first one, each preceded by its eol *)
Inductive RMTail : list member -> str -> Prop :=
| RMT0 : RMTail [] []
| RMTS e m sm ms s : REol e sm -> RMember m sm -> RMTail ms s -> RMTail (m :: ms) (e ++ sm ++ s).

Lemma RMTail_len ms s : RMTail ms s -> (length ms <= length s)%nat.
Proof.
  induction 1 as [|e m sm ms s He Hm Ht IH]; [auto|].
  apply RMember_len in Hm. rewrite !app_length. cbn [length]. lia.
Qed.

Lemma wce_trivia_nil t : Trivia t -> wce t = [].
Proof. intros H. pose proof (wce_trivia t H [] I) as E. rewrite app_nil_r in E. exact E. Qed.

Lemma p_member_nil f s : wce s = [] -> p_member f s = PFail.
Proof.
  intros H. unfold p_member, p_method, p_typedef, p_error, header. cbv zeta. rewrite H. reflexivity.
Qed.

Lemma tail_parse ms s : RMTail ms s -> forall tend f k, Trivia tend ->
  (length ms < k)%nat -> (length (s ++ tend) < f)%nat ->
  sep_list k (p_member f) eol false (s ++ tend) = POk (ms, tend).
Proof.
  induction 1 as [|e m sm ms s He Hm Ht IH]; intros tend f k Htend Hk Hl.
  - cbn [app]. destruct k as [|k]; [cbn in Hk; lia|]. rewrite sep_list_S.
    destruct (eol tend) as [r'|] eqn:E; [|reflexivity].
    rewrite p_member_nil; [reflexivity|].
    rewrite <- (eol_wce _ _ E). apply wce_trivia_nil; auto.
  - destruct k as [|k]; [cbn in Hk; lia|]. rewrite sep_list_S. rewrite <- !app_assoc.
    rewrite eol_ok by (apply REol_app; eauto using RMember_ne).
    rewrite (member_parse m sm Hm) by (clear - Hl; lens).
    rewrite IH; auto.
    + cbn [length] in Hk. lia.
    + clear - Hl. lens.
Qed.

Inductive RIdl : idl -> str -> Prop :=
| RI d t1 n e0 m sm ms stl tend :
    Trivia d -> Trivia t1 -> t1 <> [] -> INameOk n -> REol e0 sm ->
    RMember m sm -> RMTail ms stl -> Trivia tend ->
    RIdl (mkidl n (trim_doc d) (m :: ms))
         (d ++ kw_interface ++ t1 ++ n ++ e0 ++ sm ++ stl ++ tend).

Lemma idl_parse_f i s : RIdl i s -> forall f, (length s < f)%nat -> p_interface f s = POk i.
Proof.
  intros H f Hl.
  destruct H as [d t1 n e0 m sm ms stl tend Hd Ht1 Hne Hn He0 Hm Hms Htend].
  unfold p_interface. cbv zeta.
  rewrite (wce_trivia d Hd) by apply KwOk_interface.
  rewrite lit_app.
  rewrite wce1_trivia by (auto using IName_tok).
  rewrite (Hn (e0 ++ sm ++ stl ++ tend)) by (eapply REol_start; eauto).
  rewrite !consumed_app.
  rewrite eol_ok by (apply REol_app; eauto using RMember_ne).
  destruct f as [|f]; [lia|]. rewrite sep_list_S.
  rewrite (member_parse m sm Hm) by (clear - Hl; lens).
  rewrite (tail_parse ms stl Hms tend).
  - rewrite wce_trivia_nil by auto. reflexivity.
  - auto.
  - pose proof (RMTail_len ms stl Hms) as Hle. pose proof (RMember_len m sm Hm) as Hm1.
    clear - Hl Hle Hm1. lens.
  - clear - Hl. lens.
Qed.

Theorem idl_parse i s : RIdl i s -> parse_idl s = POk i.
Proof. intros H. unfold parse_idl, parse_fuel. apply idl_parse_f; auto. Qed.


(* ---------- the interface name, concretely ---------- *)
Definition hstop (cls : list (N * N)) (rest : str) : Prop :=
  match rest with [] => True | c :: _ => c <> 45 /\ in_ranges cls c = false end.
Definition dstop (rest : str) : Prop :=
  match rest with [] => True | c :: _ => c <> 46 end.

Lemma eol_start_stop rest : eol_start rest ->
  hstop iname_first_rest rest /\ hstop iname_elem_rest rest /\ dstop rest.
Proof.
  destruct rest as [|c rest]; [cbn; auto|]. unfold eol_start, hstop, dstop.
  unfold iname_first_rest, iname_elem_rest. rewrite !in_ranges_cons, !in_ranges_nil.
  intros [H| ->].
  - tables. bools. lia.
  - repeat split; try reflexivity; lia.
Qed.

Lemma span_snd_len (p : N -> bool) s : (length (snd (span p s)) <= length s)%nat.
Proof.
  induction s as [|c s IH]; [cbn; lia|]. cbn [span]. destruct (p c); [|cbn [snd]; lia].
  destruct (span p s) as [a b]. cbn [snd length] in *. lia.
Qed.

Lemma span_app_stop (p : N -> bool) rest : (match rest with [] => True | c :: _ => p c = false end) ->
  forall s, span p (s ++ rest) = (fst (span p s), snd (span p s) ++ rest).
Proof.
  intros Hr. induction s as [|c s IH]; cbn [app].
  - destruct rest as [|d rest]; [reflexivity|]. cbn [span]. rewrite Hr. reflexivity.
  - cbn [span]. destruct (p c); [|reflexivity]. rewrite IH. destruct (span p s) as [a b]. reflexivity.
Qed.

Lemma hy_elems_S f cls s : hy_elems (S f) cls s =
  match snd (span (fun c => c =? 45) s) with
  | c :: r' => if in_ranges cls c then hy_elems f cls r' else s
  | [] => s
  end.
Proof. cbn [hy_elems]. destruct (span (fun c => c =? 45) s) as [a b]. reflexivity. Qed.

Lemma hy_stop cls rest f : hstop cls rest -> hy_elems f cls rest = rest.
Proof.
  intros H. destruct f as [|f]; [reflexivity|]. rewrite hy_elems_S.
  destruct rest as [|c rest]; [reflexivity|]. destruct H as [H1 H2].
  rewrite span_cons_false by (apply N.eqb_neq; exact H1). cbn [snd]. rewrite H2. reflexivity.
Qed.

Lemma hy_app cls rest : hstop cls rest -> forall f f' s, (length s <= f)%nat -> (length s <= f')%nat ->
  hy_elems f' cls (s ++ rest) = hy_elems f cls s ++ rest.
Proof.
  intros Hr. induction f as [|f IH]; intros f' s Hf Hf'.
  - destruct s; [|cbn in Hf; lia]. cbn [app hy_elems]. apply hy_stop; auto.
  - destruct f' as [|f'].
    + destruct s; [|cbn in Hf'; lia]. reflexivity.
    + rewrite !hy_elems_S. rewrite span_app_stop.
      2:{ destruct rest as [|d rest]; [exact I|]. destruct Hr as [H1 _]. apply N.eqb_neq; exact H1. }
      cbn [snd]. pose proof (span_snd_len (fun c => c =? 45) s) as Hlen.
      destruct (snd (span (fun c => c =? 45) s)) as [|c r'].
      * cbn [app]. destruct rest as [|d rest]; [reflexivity|]. destruct Hr as [_ H2]. rewrite H2. reflexivity.
      * cbn [app]. destruct (in_ranges cls c); [|reflexivity].
        cbn [length] in Hlen. apply IH; lia.
Qed.

Lemma dot_elems_S f s seen : dot_elems (S f) s seen =
  match s with
  | d :: c :: r =>
      if d =? 46 then
        if in_ranges iname_elem_start c
        then dot_elems f (hy_elems (length r) iname_elem_rest r) true
        else if seen then Some s else None
      else if seen then Some s else None
  | _ => if seen then Some s else None
  end.
Proof.
  destruct s as [|d l]; [reflexivity|].
  destruct (N.eqb_spec d 46) as [->|Hd].
  - destruct l; reflexivity.
  - assert (E : dot_elems (S f) (d :: l) seen = if seen then Some (d :: l) else None).
    { destruct d as [|p]; [reflexivity|]. destruct_pos. exfalso; apply Hd; reflexivity. }
    rewrite E. destruct l; reflexivity.
Qed.

Lemma dot_stop f rest seen : dstop rest -> dot_elems f rest seen = if seen then Some rest else None.
Proof.
  intros H. destruct f as [|f]; [reflexivity|]. rewrite dot_elems_S.
  destruct rest as [|d [|c r]]; try reflexivity.
  apply N.eqb_neq in H. rewrite H. reflexivity.
Qed.

Lemma dot_app rest : hstop iname_elem_rest rest -> dstop rest ->
  forall f s seen f', dot_elems f s seen = Some [] -> (f <= f')%nat ->
  dot_elems f' (s ++ rest) seen = Some rest.
Proof.
  intros Hh Hd. induction f as [|f IH]; intros s seen f' H Hle.
  - cbn [dot_elems] in H. destruct seen; [|discriminate]. inversion H; subst. cbn [app].
    rewrite dot_stop by auto. reflexivity.
  - rewrite dot_elems_S in H. destruct s as [|d [|c r]].
    + destruct seen; [|discriminate]. cbn [app]. rewrite dot_stop by auto. reflexivity.
    + destruct seen; discriminate.
    + destruct (d =? 46) eqn:Ed; [|destruct seen; discriminate].
      destruct (in_ranges iname_elem_start c) eqn:Ec; [|destruct seen; discriminate].
      destruct f' as [|f']; [lia|]. cbn [app]. rewrite dot_elems_S, Ed, Ec.
      rewrite (hy_app iname_elem_rest rest Hh (length r) (length (r ++ rest)) r)
        by (rewrite ?app_length; lia).
      apply IH; auto. lia.
Qed.

Theorem IName_concrete n : interface_name n = Some [] -> INameOk n.
Proof.
  intros H rest Hr. destruct (eol_start_stop rest Hr) as (H1 & H2 & H3).
  destruct n as [|c r]; [discriminate|]. unfold interface_name in *. cbn [app].
  destruct (in_ranges iname_first_start c); [|discriminate].
  unfold iname_first_hyphen_guarded in *. cbv zeta iota in *.
  rewrite (hy_app iname_first_rest rest H1 (length r) (length (r ++ rest)) r)
    by (rewrite ?app_length; lia).
  eapply dot_app; eauto. rewrite app_length. lia.
Qed.

(* the final statement with the concrete interface-name condition *)
Corollary idl_parse_concrete d t1 n e0 m sm ms stl tend :
  Trivia d -> Trivia t1 -> t1 <> [] -> interface_name n = Some [] -> REol e0 sm ->
  RMember m sm -> RMTail ms stl -> Trivia tend ->
  parse_idl (d ++ kw_interface ++ t1 ++ n ++ e0 ++ sm ++ stl ++ tend)
  = POk (mkidl n (trim_doc d) (m :: ms)).
Proof. intros. apply idl_parse. constructor; auto using IName_concrete. Qed.

(* ---------- non-vacuity: a concrete rendering ---------- *)
(* "interface a.b\nmethod F() -> ()\n" *)
Example smoke :
  parse_idl ([105;110;116;101;114;102;97;99;101;32;97;46;98;10] ++
             [109;101;116;104;111;100;32;70;40;41;32;45;62;32;40;41;10])
  = POk (mkidl [97;46;98] [] [MMethod [70] [] [] []]).
Proof.
  apply (idl_parse_concrete [] [32] [97;46;98] [10] (MMethod [70] (trim_doc []) [] [])
           ([] ++ kw_method ++ [32] ++ [70] ++ [] ++ [40;41] ++ [32] ++ lit_arrow ++ [32] ++ [40;41])
           [] [] [10]).
  - constructor.
  - apply T_ws; [reflexivity|constructor].
  - discriminate.
  - reflexivity.
  - apply (RE_ws [] [10]); [constructor|]. apply LE_one; [reflexivity|discriminate].
  - apply (RM_method [70] [] [32] [] [32] [32] [] [40;41] [] [40;41]).
    + constructor.
    + apply T_ws; [reflexivity|constructor].
    + discriminate.
    + reflexivity.
    + constructor.
    + apply (R_struct0 []). constructor.
    + apply T_ws; [reflexivity|constructor].
    + apply T_ws; [reflexivity|constructor].
    + apply (R_struct0 []). constructor.
  - constructor.
  - apply T_ws; [reflexivity|constructor].
Qed.

Print Assumptions member_parse.
Print Assumptions idl_parse_concrete.
Print Assumptions idl_parse.
