(* Facts about the regenerated certification constants (gen/CertGen.v). *)
From Coq Require Import List Arith Bool.
From VL Require Import Base Json Schema Wire Idl Codec Cert CertSrc.
From VLG Require Import CertGen.
Import ListNotations.
Close Scope N_scope.
Open Scope nat_scope.

(* a rejected out-of-order call leaves the stored step alone *)
Lemma src_keeps : rejected_call_keeps_step = true.
Proof. vm_compute. reflexivity. Qed.

(* the table is the chain Test01 -> Test02 -> ... -> Test11 -> End -> End: twelve steps *)
Lemma src_next_chain : forallb (fun k : nat => Nat.eqb (src_next k) (if Nat.eqb k 12 then 12 else S k)) (seq 1 12) = true.
Proof. vm_compute. reflexivity. Qed.

Lemma src_next_spec k : 1 <= k <= 12 -> src_next k = if Nat.eqb k 12 then 12 else S k.
Proof.
  intros H. pose proof src_next_chain as F. rewrite forallb_forall in F.
  apply Nat.eqb_eq. apply F. apply in_seq. simpl. destruct H. split; [assumption|]. apply le_n_S. assumption.
Qed.

Lemma src_first : src_first_step = Some 1.
Proof. vm_compute. reflexivity. Qed.
