(* The varlink interface definition language: syntax tree, the PEG-faithful parser model
   (ordered choice, greedy repetition, rust-peg's separator back-off), trim_doc, the
   duplicate folding of IDL::from_token.  Lexical tables come from gen/GrammarGen.v. *)
From Coq Require Import List NArith Lia Bool Arith.
From VLG Require Import GrammarGen.
Import ListNotations.
Open Scope N_scope.

Definition str := list N.
Inductive pres (A : Type) := POk (a : A) | PFail | PFuel.
Arguments POk {A} a. Arguments PFail {A}. Arguments PFuel {A}.

Fixpoint in_ranges (r : list (N * N)) (c : N) : bool :=
  match r with
  | [] => false
  | (lo, hi) :: r' => ((lo <=? c) && (c <=? hi)) || in_ranges r' c
  end.

Definition is_ws (c : N) : bool := in_ranges ws_ranges c.
Definition is_eolc (c : N) : bool := in_ranges comment_stop_ranges c.

(* zero or more wce: skip whitespace, line ends and complete comments; an unterminated comment is not
   trivia (the skipper backs off to its '#') *)
Fixpoint skip (cs : option str) (s : str) {struct s} : str :=
  match cs, s with
  | None, [] => []
  | None, c :: r => if is_ws c || is_eolc c then skip None r
                    else if c =? 35 then skip (Some s) r else s
  | Some s0, [] => s0
  | Some s0, c :: r => if is_eolc c then skip None r else skip (Some s0) r
  end.
Definition wce (s : str) : str := skip None s.

(* one or more wce *)
Definition wce1 (s : str) : option str :=
  let r := wce s in if (length r <? length s)%nat then Some r else None.

(* the text consumed between s and its suffix r *)
Definition consumed (s r : str) : str := firstn (length s - length r) s.

Fixpoint lit (l s : str) : option str :=
  match l, s with
  | [], _ => Some s
  | a :: l', b :: s' => if a =? b then lit l' s' else None
  | _ :: _, [] => None
  end.

Fixpoint span (p : N -> bool) (s : str) : str * str :=
  match s with
  | c :: r => if p c then let '(a, b) := span p r in (c :: a, b) else ([], s)
  | [] => ([], [])
  end.

(* field_name = [first] then any number of ( optional '_' then [rest] ) *)
Fixpoint fn_tail (s : str) : str * str :=
  match s with
  | c :: r =>
      if in_ranges field_rest c then let '(a, b) := fn_tail r in (c :: a, b)
      else if c =? 95 then
        match r with
        | d :: r' => if in_ranges field_rest d then let '(a, b) := fn_tail r' in (c :: d :: a, b) else ([], s)
        | [] => ([], s)
        end
      else ([], s)
  | [] => ([], [])
  end.
Definition field_name (s : str) : option (str * str) :=
  match s with
  | c :: r => if in_ranges field_first c then let '(a, b) := fn_tail r in Some (c :: a, b) else None
  | [] => None
  end.

(* name = [first] then any number of [rest] *)
Definition tname (s : str) : option (str * str) :=
  match s with
  | c :: r => if in_ranges name_first c then let '(a, b) := span (in_ranges name_rest) r in Some (c :: a, b) else None
  | [] => None
  end.

(* any number of (hyphens then one class char): each iteration is hyphens then one class char; an iteration whose class
   char is missing fails as a whole (the hyphens are given back) *)
Fixpoint hy_elems (f : nat) (cls : list (N * N)) (s : str) : str :=
  match f with
  | O => s
  | S f' =>
      let '(_, r) := span (fun c => c =? 45) s in
      match r with
      | c :: r' => if in_ranges cls c then hy_elems f' cls r' else s
      | [] => s
      end
  end.

(* one or more ( '.' [start] then hyphen-guarded rest chars ): returns the rest after the last complete element *)
Fixpoint dot_elems (f : nat) (s : str) (seen : bool) : option str :=
  match f with
  | O => if seen then Some s else None
  | S f' =>
      match s with
      | 46 :: c :: r =>
          if in_ranges iname_elem_start c
          then dot_elems f' (hy_elems (length r) iname_elem_rest r) true
          else if seen then Some s else None
      | _ => if seen then Some s else None
      end
  end.

Definition interface_name (s : str) : option str :=
  match s with
  | c :: r =>
      if in_ranges iname_first_start c then
        let r1 := if iname_first_hyphen_guarded then hy_elems (length r) iname_first_rest r
                  else snd (span (in_ranges iname_first_rest) r) in
        dot_elems (length r1) r1 false
      else None
  | [] => None
  end.

(* eol = whitespaces then eol_r, or a comment *)
Definition eol_r (s : str) : option str :=
  match s with
  | 13 :: 10 :: r => Some r
  | c :: r => if is_eolc c then Some r else None
  | [] => None
  end.
Fixpoint comment_body (s : str) : option str :=
  match s with
  | [] => None
  | c :: r => if is_eolc c then eol_r s else comment_body r
  end.
Definition eol (s : str) : option str :=
  match eol_r (snd (span is_ws s)) with
  | Some r => Some r
  | None => match s with 35 :: r => comment_body r | _ => None end
  end.

(* ---- syntax tree ---- *)
Inductive vtype :=
| TBool | TInt | TFloat | TString | TObject
| TName (n : str)
| TStruct (fs : list (str * vtype))
| TEnum (es : list str)
| TArr (t : vtype) | TDict (t : vtype) | TOpt (t : vtype).

Inductive member :=
| MMethod (name doc : str) (inp outp : list (str * vtype))
| MTypeS (name doc : str) (fs : list (str * vtype))
| MTypeE (name doc : str) (es : list str)
| MError (name doc : str) (fs : list (str * vtype)).

Definition m_name (m : member) : str :=
  match m with MMethod n _ _ _ | MTypeS n _ _ | MTypeE n _ _ | MError n _ _ => n end.

Record idl := mkidl { i_name : str; i_doc : str; i_members : list member }.

Definition parser A := str -> pres (A * str).

(* repetition with separator (peg's double-star / double-plus): greedy; a separator whose following element fails is given back *)
Fixpoint sep_list {A} (k : nat) (elem : parser A) (sep : str -> option str) (first : bool) (s : str)
  : pres (list A * str) :=
  match k with
  | O => PFuel
  | S k' =>
      let after_sep := if first then Some s else sep s in
      match after_sep with
      | None => POk ([], s)
      | Some s1 =>
          match elem s1 with
          | PFuel => PFuel
          | PFail => POk ([], s)
          | POk (a, s2) =>
              match sep_list k' elem sep false s2 with
              | POk (l, s3) => POk (a :: l, s3)
              | PFail => PFail | PFuel => PFuel
              end
          end
      end
  end.

Definition expect (c : N) (s : str) : option str :=
  match s with d :: r => if c =? d then Some r else None | [] => None end.

Definition lift {A} (o : option (A * str)) : pres (A * str) :=
  match o with Some x => POk x | None => PFail end.

Definition kw (i : nat) : str := nth i kw_types [].

Section Level.
  Variable k : nat.
  Variable ptype : parser vtype.

  Definition p_field : parser (str * vtype) := fun s =>
    match field_name (wce s) with
    | None => PFail
    | Some (n, s1) =>
        match expect 58 (wce s1) with
        | None => PFail
        | Some s2 => match ptype (wce s2) with
                     | POk (t, s3) => POk ((n, t), s3)
                     | PFail => PFail | PFuel => PFuel end
        end
    end.

  Definition p_struct : parser (list (str * vtype)) := fun s =>
    match expect 40 s with
    | None => PFail
    | Some s1 =>
        match sep_list k p_field (expect 44) true (wce s1) with
        | POk (fs, s2) => match expect 41 (wce s2) with Some s3 => POk (fs, s3) | None => PFail end
        | PFail => PFail | PFuel => PFuel
        end
    end.

  Definition p_enum : parser (list str) := fun s =>
    match expect 40 s with
    | None => PFail
    | Some s1 =>
        match sep_list k (fun x => lift (field_name x))
                (fun x => match expect 44 x with Some y => Some (wce y) | None => None end) true (wce s1) with
        | POk (es, s2) => match expect 41 (wce s2) with Some s3 => POk (es, s3) | None => PFail end
        | PFail => PFail | PFuel => PFuel
        end
    end.

  Definition p_btype : parser vtype := fun s =>
    match lit (kw 0) s with Some r => POk (TBool, r) | None =>
    match lit (kw 1) s with Some r => POk (TInt, r) | None =>
    match lit (kw 2) s with Some r => POk (TFloat, r) | None =>
    match lit (kw 3) s with Some r => POk (TString, r) | None =>
    match lit (kw 4) s with Some r => POk (TObject, r) | None =>
    match tname s with Some (n, r) => POk (TName n, r) | None =>
    match p_struct s with
    | POk (fs, r) => POk (TStruct fs, r)
    | PFuel => PFuel
    | PFail => match p_enum s with POk (es, r) => POk (TEnum es, r) | PFail => PFail | PFuel => PFuel end
    end end end end end end end.
End Level.

Definition map_pres {A B} (f : A -> B) (r : pres (A * str)) : pres (B * str) :=
  match r with POk (a, s) => POk (f a, s) | PFail => PFail | PFuel => PFuel end.

Fixpoint p_type (fuel : nat) (s : str) : pres (vtype * str) :=
  match fuel with
  | O => PFuel
  | S f =>
      let rec := p_type f in
      match p_btype f rec s with
      | POk x => POk x
      | PFuel => PFuel
      | PFail =>
          match lit lit_array s with
          | Some r => map_pres TArr (rec r)
          | None =>
          match lit lit_dict s with
          | Some r => map_pres TDict (rec r)
          | None =>
          match lit lit_option s with
          | None => PFail
          | Some r =>
              match p_btype f rec r with
              | POk (t, r') => POk (TOpt t, r')
              | PFuel => PFuel
              | PFail =>
                  match lit lit_array r with
                  | Some r2 => map_pres (fun t => TOpt (TArr t)) (rec r2)
                  | None =>
                  match lit lit_dict r with
                  | Some r2 => map_pres (fun t => TOpt (TDict t)) (rec r2)
                  | None => PFail
                  end end
              end
          end end end
      end
  end.

(* trim_doc: trim_matches on both ends *)
Definition is_trim (c : N) : bool := existsb (N.eqb c) trim_chars.
Fixpoint ltrim (s : str) : str := match s with c :: r => if is_trim c then ltrim r else s | [] => [] end.
Definition trim_doc (s : str) : str := rev (ltrim (rev (ltrim s))).

Section Members.
  Variable f : nat.    (* fuel for types and lists *)

  Definition vstruct : parser (list (str * vtype)) := p_struct f (p_type f).
  Definition venum : parser (list str) := p_enum f.

  (* leading trivia (the doc), KEYWORD, at least one trivia, a name, trivia: gives doc, name, rest *)
  Definition header (keyword : str) (s : str) : option (str * str * str) :=
    let s1 := wce s in
    match lit keyword s1 with
    | None => None
    | Some s2 =>
        match wce1 s2 with
        | None => None
        | Some s3 =>
            match tname s3 with
            | None => None
            | Some (n, s4) => Some (trim_doc (consumed s s1), n, wce s4)
            end
        end
    end.

  Definition p_method : parser member := fun s =>
    match header kw_method s with
    | None => PFail
    | Some (d, n, s1) =>
        match vstruct s1 with
        | POk (i, s2) =>
            match lit lit_arrow (wce s2) with
            | None => PFail
            | Some s3 => match vstruct (wce s3) with
                         | POk (o, s4) => POk (MMethod n d i o, s4)
                         | PFail => PFail | PFuel => PFuel end
            end
        | PFail => PFail | PFuel => PFuel
        end
    end.

  Definition p_typedef : parser member := fun s =>
    match header kw_type s with
    | None => PFail
    | Some (d, n, s1) =>
        match vstruct s1 with
        | POk (fs, s2) => POk (MTypeS n d fs, s2)
        | PFuel => PFuel
        | PFail => match venum s1 with
                   | POk (es, s2) => POk (MTypeE n d es, s2)
                   | PFail => PFail | PFuel => PFuel end
        end
    end.

  Definition p_error : parser member := fun s =>
    match header kw_error s with
    | None => PFail
    | Some (d, n, s1) =>
        match vstruct s1 with
        | POk (fs, s2) => POk (MError n d fs, s2)
        | PFail => PFail | PFuel => PFuel
        end
    end.

  Definition p_member : parser member := fun s =>
    match p_method s with
    | POk x => POk x
    | PFuel => PFuel
    | PFail => match p_typedef s with
               | POk x => POk x
               | PFuel => PFuel
               | PFail => p_error s
               end
    end.

  Definition p_interface (s : str) : pres idl :=
    let s1 := wce s in
    match lit kw_interface s1 with
    | None => PFail
    | Some s2 =>
        match wce1 s2 with
        | None => PFail
        | Some s3 =>
            match interface_name s3 with
            | None => PFail
            | Some s4 =>
                match eol s4 with
                | None => PFail
                | Some s5 =>
                    match sep_list f p_member eol true s5 with
                    | POk ([], _) => PFail                    (* ++ needs at least one member *)
                    | POk (ms, s6) =>
                        match wce s6 with
                        | [] => POk (mkidl (consumed s3 s4) (trim_doc (consumed s s1)) ms)
                        | _ => PFail
                        end
                    | PFail => PFail | PFuel => PFuel
                    end
                end
            end
        end
    end.
End Members.

Definition parse_fuel (s : str) : nat := S (S (length s)).
Definition parse_idl (s : str) : pres idl := p_interface (parse_fuel s) s.

(* ---- IDL::from_token: per-kind key lists and the duplicate messages ---- *)
Inductive kind := KMethod | KType | KError.
Definition m_kind (m : member) : kind :=
  match m with MMethod _ _ _ _ => KMethod | MTypeS _ _ _ | MTypeE _ _ _ => KType | MError _ _ _ => KError end.

Fixpoint beq_str (a b : str) : bool :=
  match a, b with
  | [], [] => true
  | x :: a', y :: b' => (x =? y) && beq_str a' b'
  | _, _ => false
  end.
Definition kind_eqb (a b : kind) : bool :=
  match a, b with KMethod, KMethod | KType, KType | KError, KError => true | _, _ => false end.

Inductive dup := DupCross (n : str) | DupSame (k : kind) (n : str).

(* messages produced while folding the members in order: for each member, a cross-kind message
   if an earlier member of another kind has the name, a same-kind message if an earlier member
   of the same kind has it *)
Fixpoint fold_dups (seen : list (kind * str)) (ms : list member) : list dup :=
  match ms with
  | [] => []
  | m :: r =>
      let n := m_name m in let k := m_kind m in
      (if existsb (fun e => negb (kind_eqb (fst e) k) && beq_str (snd e) n) seen then [DupCross n] else []) ++
      (if existsb (fun e => kind_eqb (fst e) k && beq_str (snd e) n) seen then [DupSame k n] else []) ++
      fold_dups ((k, n) :: seen) r
  end.
Definition dups (i : idl) : list dup := fold_dups [] (i_members i).

Inductive outcome := OIdl (i : idl) | OParseError | ODuplicates (d : list dup) | OOutOfFuel.
Definition try_from (s : str) : outcome :=
  match parse_idl s with
  | POk i => match dups i with [] => OIdl i | d => ODuplicates d end
  | PFail => OParseError
  | PFuel => OOutOfFuel
  end.
