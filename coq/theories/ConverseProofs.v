(* The converse of TypeProofs / MemberProofs: every text the parser model of Idl.v accepts is a
   rendering of the tree it returns (completeness of the rendering relations; the parser accepts
   only texts the grammar derives).

   PROVED (all closed under the global context, no axioms):
   - lexical layer: wce_renders, wce1_renders, lit_some, expect_some, field_name_some, tname_some,
     eol_renders (REol / LineEnd), interface_name_some / interface_name_INameOk;
   - types: p_type_renders  (p_type f s = POk (t, r) -> exists u, s = u ++ r /\ RType t u), with
     p_field_renders, fields_renders, p_struct_renders, p_enum_renders, struct_fail_enum_nonempty;
   - members: header_renders, p_method_renders, p_typedef_renders, p_error_renders, p_member_renders,
     tail_renders (sep_list over p_member / eol -> RMTail);
   - the interface: p_interface_renders, parse_idl_renders, and the equivalence parse_idl_iff.
   No discrepancy between the parser and the relations was found: the relations of TypeProofs.v /
   MemberProofs.v are used unchanged. *)
From Coq Require Import List NArith Lia Bool Arith.
From VL Require Import Idl TypeProofs INameProofs MemberProofs.
From VLG Require Import GrammarGen.
Import ListNotations.
Open Scope N_scope.

Arguments N.eqb : simpl never. Arguments N.leb : simpl never.
Arguments in_ranges : simpl never.

(* ====================================================================== *)
(* 1. lexical layer                                                        *)
(* ====================================================================== *)

Lemma Trivia_app a b : Trivia a -> Trivia b -> Trivia (a ++ b).
Proof.
  induction 1 as [|c t Hc Ht IH|body e t Hb He Ht IH]; intros Hb'; cbn [app].
  - exact Hb'.
  - apply T_ws; auto.
  - rewrite <- app_assoc. cbn [app]. apply T_comment; auto.
Qed.

Lemma skip_renders : forall s cs,
  match cs with
  | None => exists t, Trivia t /\ s = t ++ skip None s
  | Some s0 => forall body, s0 = 35 :: body ++ s -> Forall (fun c => is_eolc c = false) body ->
               exists t, Trivia t /\ s0 = t ++ skip (Some s0) s
  end.
Proof.
  induction s as [|c r IH]; intros cs.
  - destruct cs as [s0|].
    + intros body E Hb. exists []. split; [constructor|reflexivity].
    + exists []. split; [constructor|reflexivity].
  - destruct cs as [s0|].
    + intros body E Hb. rewrite skip_Some_cons. destruct (is_eolc c) eqn:Ec.
      * destruct (IH None) as (t & Ht & Et). exists (35 :: body ++ c :: t). split.
        -- apply T_comment; auto.
        -- rewrite E. rewrite Et at 1. cbn [app]. rewrite <- app_assoc. reflexivity.
      * apply (IH (Some s0) (body ++ [c])).
        -- rewrite E. rewrite <- app_assoc. reflexivity.
        -- apply Forall_app. split; auto.
    + rewrite skip_None_cons. destruct (is_ws c || is_eolc c) eqn:Ec.
      * destruct (IH None) as (t & Ht & Et). exists (c :: t). split.
        -- apply T_ws; auto.
        -- cbn [app]. rewrite <- Et. reflexivity.
      * destruct (N.eqb_spec c 35) as [->|Hne].
        -- apply (IH (Some (35 :: r)) []); [reflexivity|constructor].
        -- exists []. split; [constructor|reflexivity].
Qed.

(* wce consumes trivia, nothing else *)
Lemma wce_renders s : exists t, Trivia t /\ s = t ++ wce s.
Proof. exact (skip_renders s None). Qed.

Lemma wce_renders_eq s r : wce s = r -> exists t, Trivia t /\ s = t ++ r.
Proof. intros <-. apply wce_renders. Qed.

Lemma wce1_renders s r : wce1 s = Some r -> exists t, Trivia t /\ t <> [] /\ s = t ++ r.
Proof.
  unfold wce1. cbv zeta. destruct (length (wce s) <? length s)%nat eqn:E; [|discriminate].
  intros H. inversion H; subst. destruct (wce_renders s) as (t & Ht & Et).
  exists t. repeat split; auto. intros ->. cbn [app] in Et. rewrite <- Et in E.
  apply Nat.ltb_lt in E. lia.
Qed.

Lemma lit_some l : forall s r, lit l s = Some r -> s = l ++ r.
Proof.
  induction l as [|a l IH]; intros s r H; cbn [lit] in H.
  - inversion H; reflexivity.
  - destruct s as [|b s]; [discriminate|]. destruct (N.eqb_spec a b) as [->|]; [|discriminate].
    cbn [app]. f_equal. auto.
Qed.

Lemma expect_some c s r : expect c s = Some r -> s = c :: r.
Proof.
  destruct s as [|d s]; [discriminate|]. rewrite expect_cons.
  destruct (N.eqb_spec c d) as [->|]; [|discriminate]. intros H; inversion H; reflexivity.
Qed.

Lemma fn_tail_some_n k : forall s a b, (length s <= k)%nat -> fn_tail s = (a, b) ->
  s = a ++ b /\ fn_tail a = (a, []).
Proof.
  induction k as [|k IH]; intros [|c r] a b Hl H; cbn [length] in Hl; try lia.
  - cbn in H. inversion H; subst. split; reflexivity.
  - cbn in H. inversion H; subst. split; reflexivity.
  - rewrite fn_tail_cons in H. destruct (in_ranges field_rest c) eqn:Ec.
    + destruct (fn_tail r) as [x y] eqn:E. inversion H; subst.
      destruct (IH r x b ltac:(lia) E) as [E1 E2]. split.
      * cbn [app]. rewrite <- E1. reflexivity.
      * rewrite fn_tail_cons, Ec, E2. reflexivity.
    + destruct (c =? 95) eqn:E95.
      * destruct r as [|d r'].
        { inversion H; subst. split; reflexivity. }
        destruct (in_ranges field_rest d) eqn:Ed.
        -- destruct (fn_tail r') as [x y] eqn:E. inversion H; subst.
           cbn [length] in Hl. destruct (IH r' x b ltac:(lia) E) as [E1 E2]. split.
           ++ cbn [app]. rewrite <- E1. reflexivity.
           ++ rewrite fn_tail_cons, Ec, E95, Ed, E2. reflexivity.
        -- inversion H; subst. split; reflexivity.
      * inversion H; subst. split; reflexivity.
Qed.

Lemma field_name_some s n r : field_name s = Some (n, r) -> s = n ++ r /\ FName n.
Proof.
  unfold FName, field_name. destruct s as [|c s]; [discriminate|].
  destruct (in_ranges field_first c) eqn:Ec; [|discriminate].
  destruct (fn_tail s) as [a b] eqn:E. intros H; inversion H; subst.
  destruct (fn_tail_some_n (length s) s a r (le_n _) E) as [E1 E2]. split.
  - cbn [app]. rewrite <- E1. reflexivity.
  - rewrite Ec, E2. reflexivity.
Qed.

Lemma span_some (p : N -> bool) : forall s a b, span p s = (a, b) ->
  s = a ++ b /\ span p a = (a, []) /\ Forall (fun c => p c = true) a.
Proof.
  induction s as [|c s IH]; intros a b H; cbn [span] in H.
  - inversion H; subst. repeat split; constructor.
  - destruct (p c) eqn:Ec.
    + destruct (span p s) as [x y] eqn:E. inversion H; subst.
      destruct (IH x b eq_refl) as (E1 & E2 & E3). repeat split.
      * cbn [app]. rewrite <- E1. reflexivity.
      * cbn [span]. rewrite Ec, E2. reflexivity.
      * constructor; auto.
    + inversion H; subst. repeat split; constructor.
Qed.

Lemma tname_some s n r : tname s = Some (n, r) -> s = n ++ r /\ TNameOk n.
Proof.
  unfold TNameOk, tname. destruct s as [|c s]; [discriminate|].
  destruct (in_ranges name_first c) eqn:Ec; [|discriminate].
  destruct (span (in_ranges name_rest) s) as [a b] eqn:E. intros H; inversion H; subst.
  destruct (span_some _ s a r E) as (E1 & E2 & _). split.
  - cbn [app]. rewrite <- E1. reflexivity.
  - rewrite Ec, E2. reflexivity.
Qed.

Lemma consumed_renders (a b : str) s : s = a ++ b -> consumed s b = a.
Proof. intros ->. apply consumed_app. Qed.

(* ---------- line ends ---------- *)
Lemma eol_r_renders x r : eol_r x = Some r -> exists le, x = le ++ r /\ LineEnd le r.
Proof.
  destruct x as [|c y]; [discriminate|]. rewrite eol_r_cons. destruct y as [|d y'].
  - destruct (is_eolc c) eqn:Ec; [|discriminate]. intros H; inversion H; subst.
    exists [c]. split; [reflexivity|]. apply LE_one; auto. intros _. exact I.
  - destruct ((c =? 13) && (d =? 10)) eqn:E2.
    + apply andb_true_iff in E2 as [E3 E4]. apply N.eqb_eq in E3, E4. subst.
      intros H; inversion H; subst. exists [13; 10]. split; [reflexivity|constructor].
    + destruct (is_eolc c) eqn:Ec; [|discriminate]. intros H; inversion H; subst.
      exists [c]. split; [reflexivity|]. apply LE_one; auto.
      intros ->. cbn [no_lf]. intros ->. discriminate.
Qed.

Lemma comment_body_renders : forall x r, comment_body x = Some r ->
  exists body le, x = body ++ le ++ r /\ Forall (fun c => is_eolc c = false) body /\ LineEnd le r.
Proof.
  induction x as [|c x IH]; intros r H; [discriminate|]. rewrite comment_body_cons in H.
  destruct (is_eolc c) eqn:Ec.
  - destruct (eol_r_renders _ _ H) as (le & E & Hle). exists [], le. repeat split; auto.
  - destruct (IH r H) as (body & le & E & Hb & Hle). exists (c :: body), le. repeat split; auto.
    cbn [app]. rewrite <- E. reflexivity.
Qed.

Lemma eol_renders s r : eol s = Some r -> exists e, s = e ++ r /\ REol e r.
Proof.
  rewrite eol_unfold. destruct (span is_ws s) as [w y] eqn:Sp. cbn [snd].
  destruct (span_some _ s w y Sp) as (E1 & _ & Hw).
  destruct (eol_r y) as [x|] eqn:E.
  - intros H; inversion H; subst x. destruct (eol_r_renders _ _ E) as (le & E2 & Hle).
    exists (w ++ le). split.
    + rewrite E1, E2, app_assoc. reflexivity.
    + apply RE_ws; auto.
  - destruct s as [|c s']; [discriminate|]. destruct (N.eqb_spec c 35) as [->|Hc]; [|discriminate].
    intros H. destruct (comment_body_renders _ _ H) as (body & le & E2 & Hb & Hle).
    exists (35 :: body ++ le). split.
    + rewrite E2. cbn [app]. rewrite <- app_assoc. reflexivity.
    + apply RE_comment; auto.
Qed.

Lemma no_lf_shrink x y : x <> [] -> no_lf (x ++ y) -> no_lf x.
Proof. destruct x; [congruence|auto]. Qed.

Lemma LineEnd_shrink le x y : x <> [] -> LineEnd le (x ++ y) -> LineEnd le x.
Proof.
  intros Hx H. inversion H as [next'|c next' Hc Hnl]; subst; constructor; auto.
  intros E. eapply no_lf_shrink; eauto.
Qed.

Lemma REol_shrink e x y : x <> [] -> REol e (x ++ y) -> REol e x.
Proof.
  intros Hx H. inversion H as [w le next Hw Hle|body le next Hb Hle]; subst;
    constructor; eauto using LineEnd_shrink.
Qed.

Lemma REol_eol_start e next x : REol e next -> eol_start (e ++ x).
Proof. apply REol_start. Qed.

(* ---------- the interface name ---------- *)
Lemma dotted_cons e es : dotted (e :: es) = 46 :: e ++ dotted es.
Proof. reflexivity. Qed.

Lemma dot_elems_renders f : forall s seen r, dot_elems f s seen = Some r ->
  exists es, Forall Elem es /\ s = dotted es ++ r /\ (seen = false -> es <> []).
Proof.
  destruct iname_tables_ok as (_ & _ & _ & Es & Er).
  induction f as [|f IH]; intros s seen r H.
  - cbn [dot_elems] in H. destruct seen; [|discriminate]. inversion H; subst.
    exists []. repeat split; [constructor|congruence].
  - assert (Stop : forall s0, (if seen then Some s0 else None) = Some r ->
              exists es : list str, Forall Elem es /\ s0 = dotted es ++ r /\ (seen = false -> es <> [])).
    { intros s0 H0. destruct seen; [|discriminate]. inversion H0; subst.
      exists []. repeat split; [constructor|congruence]. }
    rewrite dot_elems_S in H. destruct s as [|d [|c r0]]; try (apply Stop; exact H).
    destruct (N.eqb_spec d 46) as [->|Hd]; [|apply Stop; exact H].
    rewrite Es, Er in H. fold (alnum c) in H. destruct (alnum c) eqn:Hc; [|apply Stop; exact H].
    destruct (hy_elems_sound (length r0) r0) as (t & Ht & Et).
    destruct (IH _ _ _ H) as (es & Hes & Ees & _).
    exists ((c :: t) :: es). split; [constructor; [exists c, t; auto|exact Hes]|]. split; [|discriminate].
    rewrite dotted_cons. cbn [app]. rewrite <- !app_assoc. rewrite <- Ees. rewrite <- Et. reflexivity.
Qed.

Lemma interface_name_some s r : interface_name s = Some r -> exists n, s = n ++ r /\ IName n.
Proof.
  destruct iname_tables_ok as (Hg & Fs & Fr & _ & _). unfold interface_name. rewrite Hg, Fs, Fr.
  destruct s as [|c r0]; [discriminate|]. fold (letter c). destruct (letter c) eqn:Hc; [|discriminate].
  intros H. destruct (hy_elems_sound (length r0) r0) as (t & Ht & Et).
  destruct (dot_elems_renders _ _ _ _ H) as (es & Hes & Ees & Hne).
  exists ((c :: t) ++ dotted es). split.
  - cbn [app]. rewrite <- app_assoc, <- Ees, <- Et. reflexivity.
  - exists (c :: t), es. split; [exists c, t; auto|]. split; [apply Hne; reflexivity|]. split; auto.
Qed.

Lemma interface_name_INameOk s r : interface_name s = Some r -> exists n, s = n ++ r /\ INameOk n.
Proof.
  intros H. destruct (interface_name_some s r H) as (n & E & Hn). exists n. split; auto.
  apply IName_concrete. apply interface_name_spec. exact Hn.
Qed.

(* ====================================================================== *)
(* 2. types                                                                *)
(* ====================================================================== *)

(* what is assumed of the recursive type parser inside one level *)
Definition RecOk (rec : parser vtype) : Prop :=
  forall s t r, rec s = POk (t, r) -> exists u, s = u ++ r /\ RType t u.

Lemma p_field_renders rec s fl r : RecOk rec -> p_field rec s = POk (fl, r) ->
  exists u, s = u ++ r /\ RField fl u.
Proof.
  intros Hrec. unfold p_field.
  destruct (wce_renders s) as (tf & Htf & E0).
  destruct (field_name (wce s)) as [[n s1]|] eqn:E1; [|discriminate].
  destruct (field_name_some _ _ _ E1) as [E1' Hn].
  destruct (wce_renders s1) as (tn & Htn & E2).
  destruct (expect 58 (wce s1)) as [s2|] eqn:E3; [|discriminate].
  apply expect_some in E3.
  destruct (wce_renders s2) as (tc & Htc & E4).
  destruct (rec (wce s2)) as [[t s3]| |] eqn:E5; try discriminate.
  intros H; inversion H; subst fl r. destruct (Hrec _ _ _ E5) as (u & E6 & Hu).
  exists (tf ++ n ++ tn ++ 58 :: tc ++ u). split.
  - rewrite E0 at 1. rewrite E1'. rewrite E2 at 1. rewrite E3. rewrite E4 at 1. rewrite E6.
    rewrite <- !app_assoc. cbn [app]. rewrite <- !app_assoc. reflexivity.
  - constructor; auto.
Qed.

Lemma fields_renders rec : RecOk rec -> forall k first s fs r,
  sep_list k (p_field rec) (expect 44) first s = POk (fs, r) ->
  (fs = [] /\ r = s) \/
  (exists u, s = (if first then [] else [44]) ++ u ++ r /\ RFields fs u).
Proof.
  intros Hrec. induction k as [|k IH]; intros first s fs r H; [discriminate|].
  rewrite sep_list_S in H.
  destruct (if first then Some s else expect 44 s) as [s1|] eqn:Es.
  2:{ inversion H; subst. left; auto. }
  assert (E : s = (if first then [] else [44]) ++ s1).
  { destruct first; [inversion Es; reflexivity|]. apply expect_some in Es. exact Es. }
  destruct (p_field rec s1) as [[a s2]| |] eqn:Ef; try discriminate.
  2:{ inversion H; subst. left; auto. }
  destruct (sep_list k (p_field rec) (expect 44) false s2) as [[l s3]| |] eqn:El; try discriminate.
  inversion H; subst fs r. right.
  destruct (p_field_renders _ _ _ _ Hrec Ef) as (u & Eu & Hu).
  destruct (IH false s2 l s3 El) as [[-> ->]|(u' & Eu' & Hu')].
  - exists u. split; [rewrite E, Eu; reflexivity|]. apply RFs1; auto.
  - exists (u ++ 44 :: u'). split.
    + rewrite E, Eu, Eu'. cbn [app]. rewrite <- !app_assoc. reflexivity.
    + apply RFsS; auto.
Qed.

Lemma RFields_trivia fs u t : RFields fs u -> Trivia t -> RFields fs (t ++ u).
Proof.
  intros H Ht.
  assert (HF : forall fl s, RField fl s -> RField fl (t ++ s)).
  { intros fl s Hf. destruct Hf as [n ty tf tn tc s0 Htf Hn Htn Htc Hs].
    rewrite app_assoc. constructor; auto using Trivia_app. }
  destruct H as [fl s Hf|fl s fs' s' Hf Hfs].
  - apply RFs1; auto.
  - rewrite app_assoc. apply RFsS; auto.
Qed.

Lemma sep_list_nil_first {A} k (elem : parser A) sep s r :
  sep_list k elem sep true s = POk ([], r) -> r = s.
Proof.
  destruct k; [discriminate|]. rewrite sep_list_S.
  destruct (elem s) as [[a s2]| |]; try discriminate.
  - destruct (sep_list k elem sep false s2) as [[l s3]| |]; discriminate.
  - intros H; inversion H; reflexivity.
Qed.

Lemma wce_wce_trivia s : exists t, Trivia t /\ s = t ++ wce (wce s).
Proof. rewrite wce_idem. apply wce_renders. Qed.

Lemma p_struct_renders k rec s fs r : RecOk rec -> p_struct k rec s = POk (fs, r) ->
  exists u, s = u ++ r /\ RStruct fs u.
Proof.
  intros Hrec. unfold p_struct, RStruct.
  destruct (expect 40 s) as [s1|] eqn:E1; [|discriminate]. apply expect_some in E1.
  destruct (sep_list k (p_field rec) (expect 44) true (wce s1)) as [[fs' s2]| |] eqn:E2; try discriminate.
  destruct (expect 41 (wce s2)) as [s3|] eqn:E3; [|discriminate]. apply expect_some in E3.
  intros H; inversion H; subst fs' s3.
  destruct (wce_renders s1) as (t0 & Ht0 & E0).
  destruct (wce_renders s2) as (t & Ht & E4).
  destruct (fields_renders rec Hrec _ _ _ _ _ E2) as [[-> ->]|(u & Eu & Hu)].
  - exists (40 :: (t0 ++ t) ++ [41]). split.
    + rewrite E1. rewrite E0 at 1. rewrite E4 at 1. rewrite E3.
      cbn [app]. rewrite <- !app_assoc. reflexivity.
    + apply R_struct0. apply Trivia_app; auto.
  - cbn [app] in Eu. exists (40 :: (t0 ++ u) ++ t ++ [41]). split.
    + rewrite E1. rewrite E0 at 1. rewrite Eu. rewrite E4 at 1. rewrite E3.
      cbn [app]. rewrite <- !app_assoc. reflexivity.
    + apply R_structS; auto. apply RFields_trivia; auto.
Qed.

Definition enum_sep : str -> option str :=
  fun x => match expect 44 x with Some y => Some (wce y) | None => None end.
Definition enum_elem : parser str := fun x => lift (field_name x).

Lemma enum_rest_renders : forall k s es r,
  sep_list k enum_elem enum_sep false s = POk (es, r) ->
  exists u, s = u ++ r /\ REnumRest es u.
Proof.
  induction k as [|k IH]; intros s es r H; [discriminate|].
  rewrite sep_list_S in H. unfold enum_sep at 1 in H.
  destruct (expect 44 s) as [y|] eqn:Ey.
  2:{ inversion H; subst. exists []. split; [reflexivity|constructor]. }
  apply expect_some in Ey. unfold enum_elem at 1 in H.
  destruct (field_name (wce y)) as [[e s2]|] eqn:Ef; cbn [lift] in H.
  2:{ inversion H; subst. exists []. split; [reflexivity|constructor]. }
  destruct (sep_list k enum_elem enum_sep false s2) as [[l s3]| |] eqn:El; try discriminate.
  inversion H; subst es r.
  destruct (wce_renders y) as (t & Ht & Et).
  destruct (field_name_some _ _ _ Ef) as [Ee He].
  destruct (IH _ _ _ El) as (u & Eu & Hu).
  exists (44 :: t ++ e ++ u). split.
  - rewrite Ey. rewrite Et at 1. rewrite Ee, Eu. cbn [app]. rewrite <- !app_assoc. reflexivity.
  - constructor; auto.
Qed.

Lemma p_enum_unfold k s : p_enum k s =
  match expect 40 s with
  | None => PFail
  | Some s1 =>
      match sep_list k enum_elem enum_sep true (wce s1) with
      | POk (es, s2) => match expect 41 (wce s2) with Some s3 => POk (es, s3) | None => PFail end
      | PFail => PFail | PFuel => PFuel
      end
  end.
Proof. reflexivity. Qed.

Lemma p_enum_renders k s es r : p_enum k s = POk (es, r) -> es <> [] ->
  exists u, s = u ++ r /\ REnum es u.
Proof.
  rewrite p_enum_unfold. unfold REnum.
  destruct (expect 40 s) as [s1|] eqn:E1; [|discriminate]. apply expect_some in E1.
  destruct (sep_list k enum_elem enum_sep true (wce s1)) as [[es' s2]| |] eqn:E2; try discriminate.
  destruct (expect 41 (wce s2)) as [s3|] eqn:E3; [|discriminate]. apply expect_some in E3.
  intros H Hne; inversion H; subst es' s3.
  destruct (wce_renders s1) as (t0 & Ht0 & E0).
  destruct (wce_renders s2) as (t & Ht & E4).
  destruct k as [|k]; [discriminate|]. rewrite sep_list_S in E2. unfold enum_elem at 1 in E2.
  destruct (field_name (wce s1)) as [[e s1']|] eqn:Ef; cbn [lift] in E2.
  2:{ inversion E2; subst. congruence. }
  destruct (sep_list k enum_elem enum_sep false s1') as [[l s3]| |] eqn:El; try discriminate.
  inversion E2; subst es s3.
  destruct (field_name_some _ _ _ Ef) as [Ee He].
  destruct (enum_rest_renders _ _ _ _ El) as (u & Eu & Hu).
  exists (40 :: t0 ++ e ++ u ++ t ++ [41]). split.
  - rewrite E1. rewrite E0 at 1. rewrite Ee, Eu. rewrite E4 at 1. rewrite E3.
    cbn [app]. rewrite <- !app_assoc. reflexivity.
  - apply R_enum; auto.
Qed.

(* the ordered choice struct / enum: an enum reached after the struct alternative failed has a member
   (the text "()" is a struct) *)
Lemma struct_fail_enum_nonempty k rec s es r :
  p_struct k rec s = PFail -> p_enum k s = POk (es, r) -> es <> [].
Proof.
  rewrite p_enum_unfold. unfold p_struct.
  destruct (expect 40 s) as [s1|] eqn:E1; [|discriminate].
  destruct (sep_list k enum_elem enum_sep true (wce s1)) as [[es' s2]| |] eqn:E2; try discriminate.
  destruct (expect 41 (wce s2)) as [s3|] eqn:E3; [|discriminate].
  intros Hs H; inversion H; subst es' s3. intros ->.
  pose proof (sep_list_nil_first _ _ _ _ _ E2) as ->.
  destruct k as [|k]; [discriminate|]. rewrite sep_list_S in E2. unfold enum_elem at 1 in E2.
  destruct (field_name (wce s1)) as [[e s1']|] eqn:Ef; cbn [lift] in E2.
  { destruct (sep_list k enum_elem enum_sep false s1') as [[l s3]| |]; discriminate. }
  rewrite sep_list_S in Hs. unfold p_field at 1 in Hs. rewrite wce_idem, Ef in Hs.
  rewrite E3 in Hs. discriminate.
Qed.

Lemma is_b_not_opt t : is_b t -> not_opt t.
Proof. destruct t; cbn; auto. Qed.

Lemma p_btype_renders k rec s t r : RecOk rec -> p_btype k rec s = POk (t, r) ->
  exists u, s = u ++ r /\ RType t u /\ is_b t.
Proof.
  intros Hrec. unfold p_btype.
  destruct (lit (kw 0) s) as [r0|] eqn:E0.
  { intros H; inversion H; subst. apply lit_some in E0. exists (kw 0). repeat split; auto. constructor. }
  destruct (lit (kw 1) s) as [r1|] eqn:E1.
  { intros H; inversion H; subst. apply lit_some in E1. exists (kw 1). repeat split; auto. constructor. }
  destruct (lit (kw 2) s) as [r2|] eqn:E2.
  { intros H; inversion H; subst. apply lit_some in E2. exists (kw 2). repeat split; auto. constructor. }
  destruct (lit (kw 3) s) as [r3|] eqn:E3.
  { intros H; inversion H; subst. apply lit_some in E3. exists (kw 3). repeat split; auto. constructor. }
  destruct (lit (kw 4) s) as [r4|] eqn:E4.
  { intros H; inversion H; subst. apply lit_some in E4. exists (kw 4). repeat split; auto. constructor. }
  destruct (tname s) as [[n rn]|] eqn:En.
  { intros H; inversion H; subst. destruct (tname_some _ _ _ En) as [E Hn].
    exists n. repeat split; auto. constructor; auto. }
  destruct (p_struct k rec s) as [[fs rs]| |] eqn:Es; try discriminate.
  { intros H; inversion H; subst. destruct (p_struct_renders _ _ _ _ _ Hrec Es) as (u & E & Hu).
    exists u. repeat split; auto. }
  destruct (p_enum k s) as [[es re]| |] eqn:Ee; try discriminate.
  intros H; inversion H; subst.
  destruct (p_enum_renders _ _ _ _ Ee (struct_fail_enum_nonempty _ _ _ _ _ Es Ee)) as (u & E & Hu).
  exists u. repeat split; auto.
Qed.

Theorem p_type_renders : forall f s t r, p_type f s = POk (t, r) ->
  exists u, s = u ++ r /\ RType t u.
Proof.
  induction f as [|f IH]; intros s t r H; [discriminate|].
  assert (Hrec : RecOk (p_type f)) by exact IH.
  rewrite p_type_S in H. cbv zeta in H.
  destruct (p_btype f (p_type f) s) as [[t0 r0]| |] eqn:Eb; try discriminate.
  { inversion H; subst. destruct (p_btype_renders _ _ _ _ _ Hrec Eb) as (u & E & Hu & _). eauto. }
  destruct (lit lit_array s) as [ra|] eqn:Ea.
  { apply lit_some in Ea. apply map_pres_ok in H as (a & Ha & ->).
    destruct (IH _ _ _ Ha) as (u & E & Hu). exists (lit_array ++ u). split.
    - rewrite Ea, E, app_assoc. reflexivity.
    - constructor; auto. }
  destruct (lit lit_dict s) as [rd|] eqn:Ed.
  { apply lit_some in Ed. apply map_pres_ok in H as (a & Ha & ->).
    destruct (IH _ _ _ Ha) as (u & E & Hu). exists (lit_dict ++ u). split.
    - rewrite Ed, E, app_assoc. reflexivity.
    - constructor; auto. }
  destruct (lit lit_option s) as [ro|] eqn:Eo; [|discriminate]. apply lit_some in Eo.
  destruct (p_btype f (p_type f) ro) as [[t0 r0]| |] eqn:Eb2; try discriminate.
  { inversion H; subst. destruct (p_btype_renders _ _ _ _ _ Hrec Eb2) as (u & E & Hu & Hb).
    exists (lit_option ++ u). split.
    - rewrite E, app_assoc. reflexivity.
    - constructor; auto using is_b_not_opt. }
  destruct (lit lit_array ro) as [ra|] eqn:Ea2.
  { apply lit_some in Ea2. apply map_pres_ok in H as (a & Ha & ->).
    destruct (IH _ _ _ Ha) as (u & E & Hu). exists (lit_option ++ lit_array ++ u). split.
    - rewrite Eo, Ea2, E, <- !app_assoc. reflexivity.
    - constructor; [exact I|]. constructor; auto. }
  destruct (lit lit_dict ro) as [rd|] eqn:Ed2; [|discriminate].
  apply lit_some in Ed2. apply map_pres_ok in H as (a & Ha & ->).
  destruct (IH _ _ _ Ha) as (u & E & Hu). exists (lit_option ++ lit_dict ++ u). split.
  - rewrite Eo, Ed2, E, <- !app_assoc. reflexivity.
  - constructor; [exact I|]. constructor; auto.
Qed.

Corollary vstruct_renders f s fs r : vstruct f s = POk (fs, r) -> exists u, s = u ++ r /\ RStruct fs u.
Proof. unfold vstruct. apply p_struct_renders. exact (p_type_renders f). Qed.

(* ====================================================================== *)
(* 3. members                                                              *)
(* ====================================================================== *)

Lemma header_renders k s d n rest : header k s = Some (d, n, rest) ->
  exists td t1 t2, Trivia td /\ Trivia t1 /\ t1 <> [] /\ TNameOk n /\ Trivia t2 /\
    d = trim_doc td /\ s = td ++ k ++ t1 ++ n ++ t2 ++ rest.
Proof.
  unfold header. cbv zeta.
  destruct (wce_renders s) as (td & Htd & E0).
  destruct (lit k (wce s)) as [s2|] eqn:E1; [|discriminate]. apply lit_some in E1.
  destruct (wce1 s2) as [s3|] eqn:E2; [|discriminate].
  destruct (wce1_renders _ _ E2) as (t1 & Ht1 & Hne & E2').
  destruct (tname s3) as [[n' s4]|] eqn:E3; [|discriminate].
  destruct (tname_some _ _ _ E3) as [E3' Hn].
  intros H; inversion H; subst d n' rest.
  destruct (wce_renders s4) as (t2 & Ht2 & E4).
  exists td, t1, t2. repeat split; auto.
  - f_equal. apply consumed_renders. exact E0.
  - rewrite E0 at 1. rewrite E1, E2', E3'. rewrite E4 at 1. reflexivity.
Qed.

Lemma p_method_renders f s m r : p_method f s = POk (m, r) -> exists u, s = u ++ r /\ RMember m u.
Proof.
  unfold p_method.
  destruct (header kw_method s) as [[[d n] s1]|] eqn:Eh; [|discriminate].
  destruct (header_renders _ _ _ _ _ Eh) as (td & t1 & t2 & Htd & Ht1 & Hne & Hn & Ht2 & -> & E0).
  destruct (vstruct f s1) as [[i s2]| |] eqn:E1; try discriminate.
  destruct (vstruct_renders _ _ _ _ E1) as (si & E1' & Hsi).
  destruct (wce_renders s2) as (t3 & Ht3 & E2).
  destruct (lit lit_arrow (wce s2)) as [s3|] eqn:E3; [|discriminate]. apply lit_some in E3.
  destruct (wce_renders s3) as (t4 & Ht4 & E4).
  destruct (vstruct f (wce s3)) as [[o s4]| |] eqn:E5; try discriminate.
  destruct (vstruct_renders _ _ _ _ E5) as (so & E5' & Hso).
  intros H; inversion H; subst m r.
  exists (td ++ kw_method ++ t1 ++ n ++ t2 ++ si ++ t3 ++ lit_arrow ++ t4 ++ so). split.
  - rewrite E0, E1'. rewrite E2 at 1. rewrite E3. rewrite E4 at 1. rewrite E5'.
    rewrite <- !app_assoc. reflexivity.
  - constructor; auto.
Qed.

Lemma p_typedef_renders f s m r : p_typedef f s = POk (m, r) -> exists u, s = u ++ r /\ RMember m u.
Proof.
  unfold p_typedef.
  destruct (header kw_type s) as [[[d n] s1]|] eqn:Eh; [|discriminate].
  destruct (header_renders _ _ _ _ _ Eh) as (td & t1 & t2 & Htd & Ht1 & Hne & Hn & Ht2 & -> & E0).
  destruct (vstruct f s1) as [[fs s2]| |] eqn:E1; try discriminate.
  - destruct (vstruct_renders _ _ _ _ E1) as (u & E1' & Hu).
    intros H; inversion H; subst m r.
    exists (td ++ kw_type ++ t1 ++ n ++ t2 ++ u). split.
    + rewrite E0, E1'. rewrite <- !app_assoc. reflexivity.
    + apply RM_types; auto.
  - destruct (venum f s1) as [[es s2]| |] eqn:E2; try discriminate.
    intros H; inversion H; subst m r. unfold vstruct in E1. unfold venum in E2.
    destruct (p_enum_renders _ _ _ _ E2 (struct_fail_enum_nonempty _ _ _ _ _ E1 E2)) as (u & E2' & Hu).
    exists (td ++ kw_type ++ t1 ++ n ++ t2 ++ u). split.
    + rewrite E0, E2'. rewrite <- !app_assoc. reflexivity.
    + apply RM_typee; auto.
Qed.

Lemma p_error_renders f s m r : p_error f s = POk (m, r) -> exists u, s = u ++ r /\ RMember m u.
Proof.
  unfold p_error.
  destruct (header kw_error s) as [[[d n] s1]|] eqn:Eh; [|discriminate].
  destruct (header_renders _ _ _ _ _ Eh) as (td & t1 & t2 & Htd & Ht1 & Hne & Hn & Ht2 & -> & E0).
  destruct (vstruct f s1) as [[fs s2]| |] eqn:E1; try discriminate.
  destruct (vstruct_renders _ _ _ _ E1) as (u & E1' & Hu).
  intros H; inversion H; subst m r.
  exists (td ++ kw_error ++ t1 ++ n ++ t2 ++ u). split.
  - rewrite E0, E1'. rewrite <- !app_assoc. reflexivity.
  - apply RM_error; auto.
Qed.

Theorem p_member_renders f s m r : p_member f s = POk (m, r) -> exists u, s = u ++ r /\ RMember m u.
Proof.
  unfold p_member.
  destruct (p_method f s) as [[m1 r1]| |] eqn:E1; try discriminate.
  { intros H; inversion H; subst. eapply p_method_renders; eauto. }
  destruct (p_typedef f s) as [[m2 r2]| |] eqn:E2; try discriminate.
  { intros H; inversion H; subst. eapply p_typedef_renders; eauto. }
  apply p_error_renders.
Qed.

(* the members after the first: each preceded by its eol; a trailing eol whose member fails is given back *)
Lemma tail_renders f : forall k s ms r,
  sep_list k (p_member f) eol false s = POk (ms, r) -> exists u, s = u ++ r /\ RMTail ms u.
Proof.
  induction k as [|k IH]; intros s ms r H; [discriminate|].
  rewrite sep_list_S in H.
  destruct (eol s) as [s1|] eqn:Ee.
  2:{ inversion H; subst. exists []. split; [reflexivity|constructor]. }
  destruct (p_member f s1) as [[m s2]| |] eqn:Em; try discriminate.
  2:{ inversion H; subst. exists []. split; [reflexivity|constructor]. }
  destruct (sep_list k (p_member f) eol false s2) as [[l s3]| |] eqn:El; try discriminate.
  inversion H; subst ms r.
  destruct (eol_renders _ _ Ee) as (e & Ee' & He).
  destruct (p_member_renders _ _ _ _ Em) as (sm & Em' & Hm).
  destruct (IH _ _ _ El) as (u & Eu & Hu).
  exists (e ++ sm ++ u). split.
  - rewrite Ee', Em', Eu. rewrite <- !app_assoc. reflexivity.
  - constructor; auto. rewrite Em' in He. eapply REol_shrink; eauto using RMember_ne.
Qed.

(* ====================================================================== *)
(* 4. the interface                                                        *)
(* ====================================================================== *)

Lemma wce_nil_trivia s : wce s = [] -> Trivia s.
Proof.
  intros H. destruct (wce_renders s) as (t & Ht & E). rewrite H, app_nil_r in E. subst. exact Ht.
Qed.

Theorem p_interface_renders f s i : p_interface f s = POk i -> RIdl i s.
Proof.
  unfold p_interface. cbv zeta.
  destruct (wce_renders s) as (d & Hd & E0).
  destruct (lit kw_interface (wce s)) as [s2|] eqn:E1; [|discriminate]. apply lit_some in E1.
  destruct (wce1 s2) as [s3|] eqn:E2; [|discriminate].
  destruct (wce1_renders _ _ E2) as (t1 & Ht1 & Hne & E2').
  destruct (interface_name s3) as [s4|] eqn:E3; [|discriminate].
  destruct (interface_name_INameOk _ _ E3) as (n & E3' & Hn).
  destruct (eol s4) as [s5|] eqn:E4; [|discriminate].
  destruct (eol_renders _ _ E4) as (e0 & E4' & He0).
  destruct (sep_list f (p_member f) eol true s5) as [[ms s6]| |] eqn:E5; try discriminate.
  destruct ms as [|m ms]; [discriminate|].
  destruct (wce s6) as [|c w] eqn:E6; [|discriminate].
  intros H; inversion H; subst i. clear H.
  destruct f as [|f]; [discriminate|]. rewrite sep_list_S in E5.
  destruct (p_member (S f) s5) as [[m' s5']| |] eqn:Em; try discriminate.
  destruct (sep_list f (p_member (S f)) eol false s5') as [[l s6']| |] eqn:El; try discriminate.
  inversion E5; subst m' l s6'. clear E5.
  destruct (p_member_renders _ _ _ _ Em) as (sm & Em' & Hm).
  destruct (tail_renders _ _ _ _ _ El) as (stl & Etl & Htl).
  apply wce_nil_trivia in E6.
  rewrite (consumed_renders n s4 s3 E3'). rewrite (consumed_renders d (wce s) s E0).
  assert (Es : s = d ++ kw_interface ++ t1 ++ n ++ e0 ++ sm ++ stl ++ s6).
  { rewrite E0 at 1. rewrite E1, E2', E3', E4', Em', Etl. reflexivity. }
  rewrite Es. constructor; auto.
  rewrite Em' in He0. eapply REol_shrink; eauto using RMember_ne.
Qed.

Theorem parse_idl_renders : forall s i, parse_idl s = POk i -> RIdl i s.
Proof. intros s i. unfold parse_idl. apply p_interface_renders. Qed.

(* soundness and completeness of the rendering relation together *)
Theorem parse_idl_iff s i : parse_idl s = POk i <-> RIdl i s.
Proof. split; [apply parse_idl_renders|apply idl_parse]. Qed.

Print Assumptions p_type_renders.
Print Assumptions p_member_renders.
Print Assumptions p_interface_renders.
Print Assumptions parse_idl_renders.
Print Assumptions parse_idl_iff.
