(* The pool respects its bound and strands no accepted job in every reachable state (for the
   repaired counter discipline); dropping the pool drains it (for every discipline). *)
From Coq Require Import List Arith Lia Bool.
From VL Require Import PoolExpr Pool.
Import ListNotations.

Lemma cnt_total ws : length ws = cnt isIdle ws + cnt isDeq ws + cnt isRun ws + cnt isDone ws + cnt isExit ws.
Proof. unfold cnt. induction ws as [|w r IH]; simpl; auto. destruct w; simpl; lia. Qed.

Lemma set_nth_length i w ws : length (set_nth i w ws) = length ws.
Proof. revert i; induction ws as [|x r IH]; intros [|i]; simpl; auto. Qed.

Lemma cnt_set_nth p i w old ws : nth_error ws i = Some old ->
  cnt p (set_nth i w ws) + (if p old then 1 else 0) = cnt p ws + (if p w then 1 else 0).
Proof.
  unfold cnt. revert i; induction ws as [|x r IH]; intros [|i] H; simpl in *; try discriminate.
  - inversion H; subst. destruct (p old), (p w); simpl; lia.
  - specialize (IH i H). destruct (p x); simpl; lia.
Qed.

Lemma filter_length_le {A} (f : A -> bool) l : length (filter f l) <= length l.
Proof. induction l as [|x l IH]; simpl; auto. destruct (f x); simpl; lia. Qed.

Lemma cnt_app p a b : cnt p (a ++ b) = cnt p a + cnt p b.
Proof. unfold cnt. rewrite filter_app, app_length. reflexivity. Qed.

Lemma njobs_app a b : njobs (a ++ b) = njobs a + njobs b.
Proof. unfold njobs. rewrite filter_app, app_length. reflexivity. Qed.

Lemma njobs_repeat_job a : njobs (repeat QJob a) = a.
Proof. unfold njobs. induction a; simpl; auto. Qed.
Lemma njobs_repeat_term b : njobs (repeat QTerm b) = 0.
Proof. unfold njobs. induction b; simpl; auto. Qed.

Lemma cnt_repeat_idle p n : cnt p (repeat WIdle n) = if p WIdle then n else 0.
Proof. unfold cnt. induction n; simpl; destruct (p WIdle) eqn:E; simpl; auto; try rewrite E in IHn; simpl in *; lia. Qed.

Ltac counts w H :=
  let t p := (let E := fresh "E" in pose proof (cnt_set_nth p _ w _ _ H) as E; simpl in E) in
  t isIdle; t isDeq; t isRun; t isDone; t isExit.

(* ------------------------------------------------------------------ *)
(* bound and non-stranding (C14)                                       *)

Section Bound.
Variable cond : bexp.
Variable max : nat.
(* what the growth condition must mean (proved for the regenerated term in PoolFacts.v) *)
Hypothesis cond_spec : forall c w, beval cond c w max = (w <=? c) && (w <? max).

Notation step := (pstep true cond max).

Definition Inv (s : pst) : Prop :=
  length (workers s) <= max /\
  1 <= length (workers s) /\
  nX s = 0 /\ dropped s = false /\ njobs (queue s) = length (queue s) /\
  counter s = njobs (queue s) + nD s + nR s + nF s /\
  (if acc_sent s then Nat.min max (counter s) <= length (workers s)
   else Nat.min max (S (counter s)) <= length (workers s)).

Theorem inv_step s e s' : 1 <= max -> Inv s -> e <> EDrop -> step s e = Some s' -> Inv s'.
Proof.
  intros Hmax (Hb & H1 & Hx & Hdr & Hq & Hp & Ha) Hne Hs.
  destruct e as [| |i|i|i|i|]; simpl in Hs; unfold Inv, nI, nD, nR, nF, nX in *.
  - rewrite Hdr, orb_false_r in Hs. destruct (acc_sent s) eqn:A; [discriminate|]. inversion Hs; subst; simpl.
    rewrite njobs_app, app_length. simpl. unfold njobs at 2 4. simpl. repeat split; try lia; try assumption.
  - destruct (acc_sent s) eqn:A; simpl in Hs; [|discriminate]. inversion Hs; subst; simpl.
    rewrite cond_spec. destruct (Nat.leb_spec (length (workers s)) (counter s)), (Nat.ltb_spec (length (workers s)) max);
      simpl; rewrite ?app_length, ?cnt_app; unfold cnt in *; simpl; repeat split; try lia; try assumption.
  - destruct (nth_error (workers s) i) as [[]|] eqn:Hn; try discriminate.
    destruct (queue s) as [|[] q] eqn:Q; try discriminate; inversion Hs; subst; simpl; rewrite ?set_nth_length.
    + counts WDeq Hn. unfold njobs in *; cbn [filter isJob length] in *. repeat split; try lia; try assumption; try (destruct (acc_sent s); lia).
    + exfalso. unfold njobs in Hq; cbn [filter isJob length] in Hq. pose proof (filter_length_le isJob q). lia.
  - destruct (nth_error (workers s) i) as [[]|] eqn:Hn; try discriminate. inversion Hs; subst; simpl; rewrite ?set_nth_length.
    counts WRun Hn. repeat split; try lia; try assumption; try (destruct (acc_sent s); lia).
  - destruct (nth_error (workers s) i) as [[]|] eqn:Hn; try discriminate. inversion Hs; subst; simpl; rewrite ?set_nth_length.
    counts WDone Hn. repeat split; try lia; try assumption; try (destruct (acc_sent s); lia).
  - destruct (nth_error (workers s) i) as [[]|] eqn:Hn; try discriminate. inversion Hs; subst; simpl; rewrite ?set_nth_length.
    counts WIdle Hn. repeat split; try lia; try assumption; try (destruct (acc_sent s); lia).
  - congruence.
Qed.

Lemma inv_init n : 1 <= n -> n <= max -> Inv (pinit n).
Proof.
  intros Hn Hm. unfold Inv, pinit, nD, nR, nF, nX; simpl. rewrite repeat_length, !cnt_repeat_idle. simpl.
  repeat split; try lia; try assumption.
Qed.

(* every state reachable without dropping the pool, from any admissible initial size, under any
   schedule and any number of accepted connections *)
Theorem inv_reachable es : forall s s', 1 <= max -> Inv s -> ~ In EDrop es ->
  prun true cond max s es = Some s' -> Inv s'.
Proof.
  induction es as [|e es IH]; intros s s' Hm I Hn H; simpl in H.
  - inversion H; subst. exact I.
  - destruct (step s e) as [s1|] eqn:St; [|discriminate].
    apply (IH s1 s' Hm); auto.
    + eapply inv_step; eauto. intros ->. apply Hn. left. reflexivity.
    + intros Hi. apply Hn. right. exact Hi.
Qed.

(* at no time are more than max jobs being served (a worker holds at most one job) *)
Theorem bound s : Inv s -> nD s + nR s + nF s <= max /\ length (workers s) <= max.
Proof. intros (Hb & _). pose proof (cnt_total (workers s)). unfold nD, nR, nF. lia. Qed.

(* whenever the acceptor is not in the middle of execute(): every queued job, up to the free
   capacity, has a worker that is idle or about to become idle - it can start using steps of
   the pool only, without another job finishing and without a further connection arriving *)
Theorem no_stranding s : Inv s -> acc_sent s = false ->
  Nat.min (njobs (queue s)) (max - (nD s + nR s)) <= nI s + nF s.
Proof.
  intros (Hb & H1 & Hx & Hdr & Hq & Hp & Ha) Hacc. rewrite Hacc in Ha.
  pose proof (cnt_total (workers s)). unfold nI, nD, nR, nF, nX in *. lia.
Qed.

Corollary checks_hold s : Inv s -> bound_ok max s = true /\ no_strand_ok max s = true.
Proof.
  intros I. split.
  - unfold bound_ok. apply Nat.leb_le. apply (bound s I).
  - unfold no_strand_ok. destruct I as (Hb & H1 & Hx & Hdr & Hq & Hp & Ha). rewrite Hdr, orb_false_r.
    destruct (acc_sent s) eqn:A; [reflexivity|]. apply Nat.leb_le.
    apply no_stranding; [repeat split; auto; rewrite A; exact Ha|exact A].
Qed.
End Bound.

(* ------------------------------------------------------------------ *)
(* drop drains the pool (C15), for every counter discipline and growth condition *)

Section Drain.
Variable cae : bool.
Variable cond : bexp.
Variable max : nat.
Notation step := (pstep cae cond max).

Definition DInv (s : pst) : Prop :=
  1 <= length (workers s) /\
  accepted s = njobs (queue s) + nD s + nR s + finished s /\
  (dropped s = false -> njobs (queue s) = length (queue s) /\ nX s = 0) /\
  (dropped s = true -> acc_sent s = false /\
     exists a b, queue s = repeat QJob a ++ repeat QTerm b /\ b + nX s = length (workers s) /\
                 (0 < nX s -> a = 0)).

Lemma dinv_init n : 1 <= n -> DInv (pinit n).
Proof.
  intros Hn. unfold DInv, pinit, nD, nR, nX; simpl. rewrite repeat_length, !cnt_repeat_idle. simpl.
  repeat split; try lia; discriminate.
Qed.

Lemma all_jobs_repeat q : njobs q = length q -> q = repeat QJob (length q).
Proof.
  unfold njobs. induction q as [|[] q IH]; simpl; intros H; auto.
  - f_equal. apply IH. lia.
  - pose proof (filter_length_le isJob q). lia.
Qed.

Ltac dsplit := split; [|split; [|split]].

Theorem dinv_step s e s' : DInv s -> step s e = Some s' -> DInv s'.
Proof.
  intros (H1 & Hacc & Hnd & Hd) Hs.
  destruct e as [| |i|i|i|i|]; simpl in Hs; unfold DInv, nD, nR, nX in *.
  - destruct (acc_sent s) eqn:A; [discriminate|]. destruct (dropped s) eqn:Dr; [discriminate|]. simpl in Hs.
    inversion Hs; subst; simpl. destruct (Hnd eq_refl) as [Hq Hx].
    rewrite njobs_app, app_length. unfold njobs at 2 4. simpl. dsplit; try lia; try discriminate; try (intros _; split; lia).
  - destruct (acc_sent s) eqn:A; simpl in Hs; [|discriminate]. inversion Hs; subst; simpl.
    assert (Dr : dropped s = false).
    { destruct (dropped s) eqn:Dr; [|reflexivity]. destruct (Hd eq_refl) as [X _]. congruence. }
    destruct (Hnd Dr) as [Hq Hx].
    destruct (beval cond (counter s) (length (workers s)) max); rewrite ?app_length, ?cnt_app; unfold cnt in *; simpl;
      (dsplit; [lia|lia| |congruence]); intros _; split; lia.
  - destruct (nth_error (workers s) i) as [[]|] eqn:Hn; try discriminate.
    destruct (queue s) as [|[] q] eqn:Q; try discriminate; inversion Hs; subst; simpl; rewrite ?set_nth_length.
    + counts WDeq Hn. unfold njobs in *; cbn [filter isJob length] in *. dsplit; try lia.
      * intros Dr. destruct (Hnd Dr). split; lia.
      * intros Dr. destruct (Hd Dr) as (A & a & b & Eq & Eb & Ea). split; [exact A|].
        destruct a as [|a]; [destruct b; simpl in Eq; discriminate|]. simpl in Eq. inversion Eq; subst.
        exists a, b. split; [reflexivity|]. split; [lia|]. intros Hx.
        assert (Hp : 0 < cnt isExit (workers s)) by lia. specialize (Ea Hp). lia.
    + counts WExit Hn. unfold njobs in *; cbn [filter isJob length] in *.
      assert (Dr : dropped s = true).
      { destruct (dropped s) eqn:Dr; [reflexivity|]. destruct (Hnd eq_refl) as [Hq _].
        pose proof (filter_length_le isJob q). lia. }
      destruct (Hd Dr) as (A & a & b & Eq & Eb & Ea).
      destruct a as [|a]; [|simpl in Eq; discriminate]. destruct b as [|b]; simpl in Eq; [discriminate|]. inversion Eq; subst.
      dsplit; try lia; try congruence.
      intros _. split; [exact A|]. exists 0, b. simpl. split; [reflexivity|]. split; lia.
  - destruct (nth_error (workers s) i) as [[]|] eqn:Hn; try discriminate. inversion Hs; subst; simpl; rewrite ?set_nth_length.
    counts WRun Hn. dsplit; try lia.
    + intros Dr. destruct (Hnd Dr). split; lia.
    + intros Dr. destruct (Hd Dr) as (A & a & b & Eq & Eb & Ea). split; [exact A|]. exists a, b. split; [exact Eq|]. split; [lia|]. intros; apply Ea; lia.
  - destruct (nth_error (workers s) i) as [[]|] eqn:Hn; try discriminate. inversion Hs; subst; simpl; rewrite ?set_nth_length.
    counts WDone Hn. dsplit; try lia.
    + intros Dr. destruct (Hnd Dr). split; lia.
    + intros Dr. destruct (Hd Dr) as (A & a & b & Eq & Eb & Ea). split; [exact A|]. exists a, b. split; [exact Eq|]. split; [lia|]. intros; apply Ea; lia.
  - destruct (nth_error (workers s) i) as [[]|] eqn:Hn; try discriminate. inversion Hs; subst; simpl; rewrite ?set_nth_length.
    counts WIdle Hn. dsplit; try lia.
    + intros Dr. destruct (Hnd Dr). split; lia.
    + intros Dr. destruct (Hd Dr) as (A & a & b & Eq & Eb & Ea). split; [exact A|]. exists a, b. split; [exact Eq|]. split; [lia|]. intros; apply Ea; lia.
  - destruct (acc_sent s) eqn:A; [discriminate|]. destruct (dropped s) eqn:Dr; [discriminate|]. simpl in Hs.
    inversion Hs; subst; simpl. destruct (Hnd eq_refl) as [Hq Hx].
    rewrite njobs_app, njobs_repeat_term. dsplit; try lia; try discriminate.
    intros _. split; [reflexivity|]. exists (length (queue s)), (length (workers s)).
    rewrite <- (all_jobs_repeat _ Hq). split; [reflexivity|]. split; lia.
Qed.

Theorem dinv_reachable es : forall s s', DInv s -> prun cae cond max s es = Some s' -> DInv s'.
Proof.
  induction es as [|e es IH]; intros s s' I H; simpl in H.
  - inversion H; subst. exact I.
  - destruct (step s e) as [s1|] eqn:St; [|discriminate]. apply (IH s1 s'); auto. eapply dinv_step; eauto.
Qed.

(* when drop() has joined every worker, every accepted job has run to completion: the
   Terminate messages are queued behind the jobs *)
Theorem drop_drains s : DInv s -> dropped s = true -> nX s = length (workers s) -> finished s = accepted s.
Proof.
  intros (H1 & Hacc & Hnd & Hd) Dr Hall. destruct (Hd Dr) as (A & a & b & Eq & Eb & Ea).
  assert (a = 0) by (apply Ea; lia). subst a. assert (b = 0) by lia. subst b. simpl in Eq.
  rewrite Eq in Hacc. unfold njobs in Hacc. simpl in Hacc.
  pose proof (cnt_total (workers s)). unfold nD, nR, nX in *. lia.
Qed.
End Drain.
