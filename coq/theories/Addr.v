(* Address classification of client and server, and socket activation decisions.
   Tables and constants are regenerated from client.rs / server.rs (gen/AddrGen.v). *)
From VL Require Import Base.
From VLG Require Import AddrGen.
Open Scope N_scope.

(* the address with its ';' parameters cut off *)
Fixpoint before_semicolon (s : bytes) : bytes :=
  match s with [] => [] | c :: r => if c =? 59 then [] else c :: before_semicolon r end.

(* the first prefix of the table that matches: its index and the address part *)
Fixpoint classify_from (i : nat) (t : list (bytes * bool)) (s : bytes) : option (nat * bytes) :=
  match t with
  | [] => None
  | (p, strip) :: r =>
      match strip_prefix p s with
      | Some a => Some (i, if strip then before_semicolon a else a)
      | None => classify_from (S i) r s
      end
  end.
Definition classify (t : list (bytes * bool)) (s : bytes) : option (nat * bytes) := classify_from 0 t s.

Definition client_classify := classify client_table.   (* varlink_connect *)
Definition server_classify := classify server_table.   (* Listener::new without activation *)

Definition has_prefix (p s : bytes) : bool := match strip_prefix p s with Some _ => true | None => false end.
Definition server_activated_accepts (s : bytes) : bool := existsb (fun p => has_prefix p s) server_activated_prefixes.

(* activation_listener(): LISTEN_FDS (parsed), LISTEN_PID (parsed), LISTEN_FDNAMES, and the pid of
   the process asking *)
Fixpoint index_of (n : bytes) (l : list bytes) (i : nat) : option nat :=
  match l with
  | [] => None
  | x :: r => if beq_bytes x n then Some i else index_of n r (S i)
  end.

Fixpoint split_colon (acc : bytes) (s : bytes) : list bytes :=
  match s with
  | [] => [rev acc]
  | c :: r => if c =? 58 then rev acc :: split_colon [] r else split_colon (c :: acc) r
  end.

Record actenv := mkenv { e_fds : option nat; e_pid : option nat; e_names : option bytes }.

Definition activation_listener (e : actenv) (me : nat) : option nat :=
  match e_fds e with
  | Some n =>
      if (1 <=? n)%nat then
        match e_pid e with
        | Some p =>
            if Nat.eqb p me then
              if Nat.eqb n 1 then Some act_first_fd
              else match e_names e with
                   | Some names => match index_of act_fd_name (split_colon [] names) 0 with
                                   | Some i => Some (act_first_fd + i)%nat
                                   | None => None
                                   end
                   | None => None
                   end
            else None
        | None => None
        end
      else None
  | None => None
  end.

(* the environment varlink_exec gives the service it starts (pid = the started process) *)
Definition exec_env (child_pid : nat) : actenv :=
  mkenv (if beq_bytes exec_listen_fds [49] then Some 1%nat else None)
        (if exec_listen_pid_is_own then Some child_pid else None)
        (Some exec_listen_fdnames).

(* ---------------- theorems ---------------- *)

(* client and server read every address string alike *)
Theorem client_server_agree : forall s, client_classify s = server_classify s.
Proof.
  intros s. unfold client_classify, server_classify.
  assert (E : client_table = server_table) by (vm_compute; reflexivity). rewrite E. reflexivity.
Qed.

Lemma classify_from_none i t s : classify_from i t s = None <-> forall p b, In (p, b) t -> has_prefix p s = false.
Proof.
  revert i. induction t as [|[p b] r IH]; intros i; simpl.
  - split; [intros _ p b []|reflexivity].
  - unfold has_prefix in *. destruct (strip_prefix p s) eqn:E.
    + split; [discriminate|]. intros H. specialize (H p b (or_introl eq_refl)). rewrite E in H. discriminate.
    + rewrite IH. split.
      * intros H q c [X|X]; [inversion X; subst; rewrite E; reflexivity|apply (H q c X)].
      * intros H q c X. apply (H q c (or_intror X)).
Qed.

Definition tcp_p : bytes := [116; 99; 112; 58].
Definition unix_p : bytes := [117; 110; 105; 120; 58].

Lemma strip_prefix_trans p q s a : strip_prefix (p ++ q) s = Some a -> has_prefix p s = true.
Proof.
  unfold has_prefix. revert s. induction p as [|x p IH]; intros s H; simpl in *; [reflexivity|].
  destruct s as [|y s]; [discriminate|]. destruct (x =? y); [apply IH; exact H|discriminate].
Qed.

(* an address is rejected (InvalidAddress) by client and server exactly when it starts with neither
   "tcp:" nor "unix:" *)
Theorem invalid_iff_unknown_scheme : forall s,
  client_classify s = None <-> (has_prefix tcp_p s = false /\ has_prefix unix_p s = false).
Proof.
  intros s. unfold client_classify, classify. rewrite classify_from_none.
  assert (T : client_table = [(tcp_p, false); (unix_p ++ [64], true); (unix_p, true)]) by (vm_compute; reflexivity).
  rewrite T. split.
  - intros H. split; [apply (H tcp_p false); left; reflexivity|apply (H unix_p true); right; right; left; reflexivity].
  - intros [H1 H2] p b [X|[X|[X|[]]]]; inversion X; subst; auto.
    change [117; 110; 105; 120; 58; 64] with (unix_p ++ [64]).
    unfold has_prefix. destruct (strip_prefix (unix_p ++ [64]) s) eqn:E; [|reflexivity].
    apply strip_prefix_trans in E. congruence.
Qed.

Theorem server_activated_same_schemes : forall s,
  server_activated_accepts s = true <-> (has_prefix tcp_p s = true \/ has_prefix unix_p s = true).
Proof.
  intros s. unfold server_activated_accepts.
  assert (T : server_activated_prefixes = [tcp_p; unix_p]) by (vm_compute; reflexivity). rewrite T. simpl.
  rewrite !orb_true_iff. split; [intros [H|[H|H]]; [left|right|discriminate]; exact H|intros [H|H]; auto].
Qed.

(* activation is honoured only by the process LISTEN_PID names, and only with at least one descriptor *)
Theorem activation_only_for_named_pid : forall e me fd, activation_listener e me = Some fd ->
  e_pid e = Some me /\ exists n, e_fds e = Some n /\ (1 <= n)%nat /\
  (n = 1%nat -> fd = act_first_fd) /\ (act_first_fd <= fd)%nat.
Proof.
  intros e me fd H. unfold activation_listener in H.
  destruct (e_fds e) as [n|]; [|discriminate]. destruct (Nat.leb_spec 1 n); [|discriminate].
  destruct (e_pid e) as [p|]; [|discriminate]. destruct (Nat.eqb_spec p me); [|discriminate]. subst.
  split; [reflexivity|]. exists n. split; [reflexivity|]. split; [assumption|].
  destruct (Nat.eqb_spec n 1).
  - inversion H; subst. split; [reflexivity|lia].
  - split; [congruence|]. destruct (e_names e); [|discriminate].
    destruct (index_of act_fd_name (split_colon [] b) 0) as [k|]; [|discriminate]. unfold act_first_fd in *. injection H as <-. lia.
Qed.

(* the service started by with_activate finds its socket as descriptor 3; no other process does *)
Theorem exec_env_activates_child_only : forall child other,
  activation_listener (exec_env child) child = Some 3%nat /\
  (other <> child -> activation_listener (exec_env child) other = None).
Proof.
  intros child other. unfold activation_listener, exec_env.
  assert (A : beq_bytes exec_listen_fds [49] = true) by (vm_compute; reflexivity).
  assert (B : exec_listen_pid_is_own = true) by (vm_compute; reflexivity).
  assert (C : act_first_fd = 3%nat) by (vm_compute; reflexivity).
  rewrite A, B, C. simpl. rewrite Nat.eqb_refl. split; [reflexivity|].
  intros H. destruct (Nat.eqb_spec child other); [congruence|reflexivity].
Qed.

Lemma exec_passes_descriptor_3 : exec_passes_fd = 3%nat.
Proof. vm_compute. reflexivity. Qed.

(* ---- the listening descriptor's mode ----
   An activated service inherits its listening socket from whoever created it: blocking, or with O_NONBLOCK set
   (systemd's NonBlocking=yes, a multiplexing parent). `forces` = listen() switches the descriptor to blocking mode
   before its accept loop (regenerated: listen_forces_blocking); accept(timeout) waits in select only when the
   timeout is non-zero (regenerated: accept_selects_only_with_timeout). One round of the accept loop: *)
Inductive fdmode := FBlocking | FNonBlocking.
Inductive accept_result := AAccepted | ATimeout | AWaits | AWouldBlock.

Definition effective_mode (forces : bool) (inherited : fdmode) : fdmode := if forces then FBlocking else inherited.

(* pending: a client is already queued when accept is called *)
Definition accept_round (selects_only_with_timeout : bool) (m : fdmode) (timeout : N) (pending : bool) : accept_result :=
  if pending then AAccepted
  else if (if selects_only_with_timeout then negb (timeout =? 0) else true) then ATimeout
  else match m with FBlocking => AWaits | FNonBlocking => AWouldBlock end.

(* EAGAIN from accept() is an Io error that ends listen(): with the descriptor forced to blocking mode it never occurs,
   whatever mode was inherited, whatever the timeout, whether or not a client is waiting *)
Theorem forced_blocking_never_would_block : forall sel inherited timeout pending,
  accept_round sel (effective_mode true inherited) timeout pending <> AWouldBlock.
Proof.
  intros sel inherited timeout pending. unfold accept_round, effective_mode.
  destruct pending; [discriminate|]. destruct (if sel then negb (timeout =? 0) else true); discriminate.
Qed.

(* ... and every transport then behaves alike: the round's result does not depend on the inherited mode *)
Theorem forced_blocking_mode_irrelevant : forall sel m1 m2 timeout pending,
  accept_round sel (effective_mode true m1) timeout pending = accept_round sel (effective_mode true m2) timeout pending.
Proof. reflexivity. Qed.

(* without it: an inherited O_NONBLOCK socket, no idle timeout, no client waiting yet - the service dies at once *)
Example inherited_nonblocking_kills_the_service :
  accept_round true (effective_mode false FNonBlocking) 0 false = AWouldBlock.
Proof. reflexivity. Qed.
