(* A buffered reader over a stream that arrives in reads ("chunks"), used message by message (read_until NUL), as the
   bridge uses it when it forwards the replies of a service to its client (varlink-cli/src/proxy.rs).
   [single]: one reader for the whole loop - what a read brought beyond the current message stays buffered for the next
   call.  [fresh]: a reader constructed anew for every message - the read-ahead of the previous one is lost with it. *)
From Coq Require Import List NArith Lia Bool.
Import ListNotations.
Open Scope N_scope.

Definition bytes := list N.

(* the complete NUL-terminated messages of a byte string, in order (an unterminated rest is not a message) *)
Fixpoint split_nul (cur : bytes) (s : bytes) : list bytes :=
  match s with
  | [] => []
  | c :: r => if c =? 0 then rev cur :: split_nul [] r else split_nul (c :: cur) r
  end.
Definition messages (s : bytes) : list bytes := split_nul [] s.

(* one read scanned by a reader that keeps its buffer: the messages it completes, and the partial message left *)
Fixpoint scan (cur : bytes) (c : bytes) : list bytes * bytes :=
  match c with
  | [] => ([], cur)
  | x :: r => if x =? 0 then let '(ms, cur') := scan [] r in (rev cur :: ms, cur')
              else scan (x :: cur) r
  end.

Fixpoint single (cur : bytes) (chunks : list bytes) : list bytes :=
  match chunks with
  | [] => []
  | c :: r => let '(ms, cur') := scan cur c in ms ++ single cur' r
  end.

(* the first message a read completes, and whether anything followed it in that read *)
Fixpoint first_msg (cur : bytes) (c : bytes) : option (bytes * bytes) :=
  match c with
  | [] => None
  | x :: r => if x =? 0 then Some (rev cur, r) else first_msg (x :: cur) r
  end.
Fixpoint partial (cur : bytes) (c : bytes) : bytes :=
  match c with [] => cur | x :: r => partial (x :: cur) r end.

Fixpoint fresh (cur : bytes) (chunks : list bytes) : list bytes :=
  match chunks with
  | [] => []
  | c :: r => match first_msg cur c with
              | Some (m, _lost) => m :: fresh [] r          (* whatever followed the message in this read is gone *)
              | None => fresh (partial cur c) r
              end
  end.

Lemma split_scan cur c : forall s, split_nul cur (c ++ s) = fst (scan cur c) ++ split_nul (snd (scan cur c)) s.
Proof.
  revert cur. induction c as [|x r IH]; intros cur s; cbn [app scan split_nul fst snd]; [reflexivity|].
  destruct (x =? 0).
  - specialize (IH [] s). destruct (scan [] r) as [ms cur']. cbn [fst snd] in *. cbn [app]. rewrite IH. reflexivity.
  - apply IH.
Qed.

(* one reader for the loop: every message of the stream, whatever the segmentation into reads *)
Theorem single_reader_delivers_all chunks : forall cur, single cur chunks = split_nul cur (concat chunks).
Proof.
  induction chunks as [|c r IH]; intros cur; cbn [single concat]; [reflexivity|].
  rewrite split_scan. destruct (scan cur c) as [ms cur']. cbn [fst snd]. rewrite IH. reflexivity.
Qed.

Corollary single_reader_segmentation_independent a b :
  concat a = concat b -> single [] a = single [] b.
Proof. intros H. rewrite !single_reader_delivers_all, H. reflexivity. Qed.

(* a read is "aligned" when nothing follows the first NUL in it *)
Definition aligned (c : bytes) : Prop := forall cur m rest, first_msg cur c = Some (m, rest) -> rest = [].

Lemma scan_no_msg cur c : first_msg cur c = None -> scan cur c = ([], partial cur c).
Proof.
  revert cur. induction c as [|x r IH]; intros cur H; cbn [first_msg scan partial] in *; [reflexivity|].
  destruct (x =? 0); [discriminate|]. apply IH. exact H.
Qed.

Lemma scan_first cur c m rest : first_msg cur c = Some (m, rest) -> scan cur c = (m :: fst (scan [] rest), snd (scan [] rest)).
Proof.
  revert cur. induction c as [|x r IH]; intros cur H; cbn [first_msg scan] in *; [discriminate|].
  destruct (x =? 0).
  - inversion H; subst. destruct (scan [] rest) as [ms c']. reflexivity.
  - apply IH. exact H.
Qed.

(* a reader per message is as good as one reader exactly as long as no read brings more than the end of one message:
   replies written one at a time and spaced in time - which is what every test does *)
Theorem fresh_reader_ok_when_aligned chunks : Forall aligned chunks -> forall cur, fresh cur chunks = single cur chunks.
Proof.
  induction 1 as [|c r Hc Hr IH]; intros cur; cbn [fresh single]; [reflexivity|].
  destruct (first_msg cur c) as [[m rest]|] eqn:E.
  - pose proof (Hc cur m rest E) as ->. rewrite (scan_first _ _ _ _ E). cbn [scan fst snd app]. rewrite IH. reflexivity.
  - rewrite (scan_no_msg _ _ E). cbn [app]. apply IH.
Qed.

(* and loses messages otherwise: two replies arriving in one read *)
Example fresh_reader_loses_a_reply :
  single [] [[1; 0; 2; 0]; [3; 0]] = [[1]; [2]; [3]] /\ fresh [] [[1; 0; 2; 0]; [3; 0]] = [[1]; [3]].
Proof. split; reflexivity. Qed.

Inductive reader_scope := PerLoop | PerMessage.
Definition forward (sc : reader_scope) (chunks : list bytes) : list bytes :=
  match sc with PerLoop => single [] chunks | PerMessage => fresh [] chunks end.

Theorem per_loop_forwards_everything chunks : forward PerLoop chunks = messages (concat chunks).
Proof. apply single_reader_delivers_all. Qed.
