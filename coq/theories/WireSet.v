(* StringHashSet / StringHashMap<String> codecs.  The set's Deserialize is hand written in
   the source: a visitor over serde's MapAccess protocol.  The model runs that visitor
   against the two MapAccess implementations (in-memory Value, streaming text). *)
From VL Require Import Base Json.
From VLG Require Import SetGen.
Open Scope N_scope.

(* Serialize: every element mapped to an empty object *)
Definition set_ser (keys : list bytes) : json := JObj (map (fun k => (k, JObj [])) keys).

(* from_value: MapDeserializer hands out keys; values may be ignored without harm.
   (deserialize_map never calls visit_unit: `null` is rejected by both front ends.) *)
Definition set_de_value (j : json) : option (list bytes) :=
  match j with
  | JObj m => Some (map fst m)
  | _ => None
  end.

(* from_str / from_slice: after a key the streaming MapAccess requires the value to be
   consumed before the next key; [consumes] says whether the visitor does *)
Fixpoint set_keys_text (f : nat) (consumes : bool) (s : bytes) (acc : list bytes) {struct f}
  : res (list bytes * bytes) :=
  match f with
  | O => Fuel
  | S f' =>
      match skip_ws s with
      | 34 :: r0 =>
          do (k, r1) <- parse_string true r0;
          do r2 <- (if consumes then
                      match skip_ws r1 with
                      | 58 :: r2 => do (_, r3) <- parse_val (val_fuel r2) false 0 r2; Ok r3
                      | _ => Err
                      end
                    else Ok r1);
          match skip_ws r2 with
          | 44 :: r3 => set_keys_text f' consumes r3 (k :: acc)
          | 125 :: r3 => Ok (rev (k :: acc), r3)
          | _ => Err
          end
      | _ => Err
      end
  end.

Definition set_de_text (consumes : bool) (s : bytes) : res (list bytes) :=
  match skip_ws s with
  | 123 :: r =>
      do (keys, r1) <-
         match skip_ws r with
         | 125 :: r1 => Ok ([], r1)
         | _ => set_keys_text (S (length r)) consumes r []
         end;
      match skip_ws r1 with [] => Ok keys | _ => Err end
  | _ => Err
  end.

(* HashMap<String, String>: serde's own impl; the last duplicate wins *)
Definition map_ser (m : list (bytes * bytes)) : json := JObj (map (fun kv => (fst kv, JStr (snd kv))) m).
Fixpoint all_str_members (m : list (bytes * json)) : option (list (bytes * bytes)) :=
  match m with
  | [] => Some []
  | (k, JStr v) :: r => match all_str_members r with Some t => Some ((k, v) :: t) | None => None end
  | _ :: _ => None
  end.
Definition map_de_value (j : json) : option (list (bytes * bytes)) :=
  match j with JObj m => all_str_members m | _ => None end.
Definition map_de_text (s : bytes) : res (list (bytes * bytes)) :=
  do j <- parse_doc true s;
  match j with
  | JObj m => match all_str_members m with Some t => Ok t | None => Err end
  | _ => Err
  end.
