(* The listen() worker loop at the flags regenerated from server.rs (gen/WorkerGen.v), and what each of the other
   settings does on a concrete input. *)
From Coq Require Import String.
From VL Require Import Base Json Schema Wire Service Script ServiceProofs ServiceExamples Worker.
From VLG Require Import WorkerGen.
Open Scope N_scope.

Lemma src_worker_flags :
  worker_stores_tail_always = true /\ worker_refeeds_upgraded_only = true /\
  worker_errors_close = true /\ worker_eof_breaks = true.
Proof. vm_compute. repeat split; reflexivity. Qed.

Definition src_worker svc := worker worker_stores_tail_always worker_refeeds_upgraded_only worker_errors_close worker_eof_breaks svc.

Theorem src_worker_spec svc chunks fuel : (2 * length chunks + 2 <= fuel)%nat ->
  src_worker svc fuel chunks = (spec_out svc (concat chunks), WFinished).
Proof.
  unfold src_worker. destruct src_worker_flags as (-> & -> & -> & ->). apply worker_spec.
Qed.

(* --- what the other settings do --- *)
Definition ok_frame (n : string) : bytes :=
  frame_of (b (String.append "{""method"":""org.example.a.Run"",""parameters"":{""script"":[""r""],""tag"":""" (String.append n """}}"))).

(* the tail kept only when it is re-fed: the bytes that came with the upgrade request are delivered again with every
   later segment *)
Example stale_tail_is_redelivered :
  worker false true true true ex_svc 20 [ex_up_frame ++ b "one"; b "two"; b "three"]
  = (fst (worker true true true true ex_svc 20 [ex_up_frame]) ++ b "one" ++ b "onetwo" ++ b "onethree", WFinished).
Proof. vm_compute. reflexivity. Qed.

(* re-entering handle() on any kept tail: a peer that closes in the middle of a message makes the loop spin *)
Example truncated_message_spins :
  snd (worker true false true true ex_svc 200 [ok_frame "x" ++ b "{""method"":""org.exa"]) = WSpinning /\
  snd (worker true true true true ex_svc 200 [ok_frame "x" ++ b "{""method"":""org.exa"]) = WFinished.
Proof. split; vm_compute; reflexivity. Qed.

(* an error that does not end the connection: a request that arrives after a malformed message is answered *)
Example malformed_then_answered :
  let chunks := [frame_of (b "{""method"":7}"); ok_frame "late"] in
  fst (worker true true false true ex_svc 20 chunks) <> [] /\ fst (worker true true true true ex_svc 20 chunks) = [].
Proof. split; vm_compute; [discriminate|reflexivity]. Qed.
