(* The Rust code generator (varlink_generator): the IDL -> Rust type mapping, the structs and
   enums it emits (with their serde attributes) in emission order, and the naming scheme.
   The emitted text of the real generator is compared with [emitted] on every run. *)
From Coq Require Import List NArith Lia Bool Arith.
From VL Require Import Idl.
Import ListNotations.
Open Scope N_scope.

Inductive rty :=
| RBool | RI64 | RF64 | RString | RValue
| RNamed (n : str)
| RVec (t : rty) | RMap (t : rty) | RSet | ROpt (t : rty).

Inductive tydef :=
| DStruct (fields : list (str * rty * bool))     (* name, type, skip_serializing_if = Option::is_none *)
| DEnum (variants : list str).

Definition us : str := [95].
Definition s_Args : str := [95; 65; 114; 103; 115].          (* _Args *)
Definition s_Reply : str := [95; 82; 101; 112; 108; 121].   (* _Reply *)

(* to_rust_string: the Rust type of an IDL type whose anonymous structs/enums are named after
   [name]; returns the type and the definitions emitted on the way (in emission order) *)
Fixpoint rust_ty (name : str) (t : vtype) : rty * list (str * tydef) :=
  match t with
  | TBool => (RBool, []) | TInt => (RI64, []) | TFloat => (RF64, []) | TString => (RString, [])
  | TObject => (RValue, [])
  | TName n => (RNamed n, [])
  | TStruct fs =>
      let r := (fix go (fs : list (str * vtype)) : list (str * rty * bool) * list (str * tydef) :=
                  match fs with
                  | [] => ([], [])
                  | (f, ft) :: rest =>
                      let '(ty, d1) := rust_ty (name ++ us ++ f) ft in
                      let '(fl, d2) := go rest in
                      ((f, ty, false) :: fl, d1 ++ d2)
                  end) fs in
      (RNamed name, snd r ++ [(name, DStruct (fst r))])
  | TEnum es => (RNamed name, [(name, DEnum es)])
  | TArr t' => let '(ty, d) := rust_ty name t' in (RVec ty, d)
  | TDict t' =>
      match t' with
      | TStruct [] => (RSet, [])
      | _ => let '(ty, d) := rust_ty name t' in (RMap ty, d)
      end
  | TOpt t' => let '(ty, d) := rust_ty name t' in (ROpt ty, d)
  end.

Definition is_opt (t : vtype) : bool := match t with TOpt _ => true | _ => false end.

(* the fields of an Args / Reply / error-parameter struct: anonymous types named <name>_<field>,
   optional fields carry skip_serializing_if *)
Fixpoint top_fields (name : str) (fs : list (str * vtype)) : list (str * rty * bool) * list (str * tydef) :=
  match fs with
  | [] => ([], [])
  | (f, ft) :: rest =>
      let '(ty, d1) := rust_ty (name ++ us ++ f) ft in
      let '(fl, d2) := top_fields name rest in
      ((f, ty, is_opt ft) :: fl, d1 ++ d2)
  end.

(* BTreeMap<&str, _> iteration order: by name *)
Fixpoint str_ltb (a b : str) : bool :=
  match a, b with
  | [], [] => false
  | [], _ :: _ => true
  | _ :: _, [] => false
  | x :: a', y :: b' => if x <? y then true else if y <? x then false else str_ltb a' b'
  end.
Fixpoint insert_sorted {A} (key : A -> str) (x : A) (l : list A) : list A :=
  match l with
  | [] => [x]
  | y :: r => if str_ltb (key x) (key y) then x :: l else y :: insert_sorted key x r
  end.
Definition sort_by {A} (key : A -> str) (l : list A) : list A := fold_right (insert_sorted key) [] l.

Definition methods_of (i : idl) := flat_map (fun m => match m with MMethod n _ a b => [(n, a, b)] | _ => [] end) (i_members i).
Definition errors_of (i : idl) := flat_map (fun m => match m with MError n _ fs => [(n, fs)] | _ => [] end) (i_members i).
Definition typedefs_of (i : idl) :=
  flat_map (fun m => match m with MTypeS n _ fs => [(n, TStruct fs)] | MTypeE n _ es => [(n, TEnum es)] | _ => [] end) (i_members i).

(* every #[derive(Serialize, Deserialize, ..)] struct / enum of the generated module, in order *)
Definition emitted (i : idl) : list (str * tydef) :=
  (* generate_error_code: the anonymous types of error parameters *)
  flat_map (fun e => snd (top_fields (fst e ++ s_Args) (snd e))) (sort_by fst (errors_of i)) ++
  (* typedefs *)
  flat_map (fun t => snd (rust_ty (fst t) (snd t))) (sort_by fst (typedefs_of i)) ++
  (* error parameter structs (their anonymous types once more) *)
  flat_map (fun e => let '(fl, d) := top_fields (fst e ++ s_Args) (snd e) in d ++ [(fst e ++ s_Args, DStruct fl)])
           (sort_by fst (errors_of i)) ++
  (* methods *)
  flat_map (fun m => let '(n, a, b) := m in
                     let '(fa, da) := top_fields (n ++ s_Args) a in
                     let '(fb, db) := top_fields (n ++ s_Reply) b in
                     da ++ db ++ [(n ++ s_Reply, DStruct fb); (n ++ s_Args, DStruct fa)])
           (sort_by (fun m => fst (fst m)) (methods_of i)).

(* ---- identifiers ---- *)
(* syn::parse_str::<Ident>("r#" + name) fails for these four: the generator panics *)
Definition reserved : list str :=
  [[115; 101; 108; 102]; [83; 101; 108; 102]; [115; 117; 112; 101; 114]; [99; 114; 97; 116; 101]].
Definition is_reserved (n : str) : bool := existsb (beq_str n) reserved.

Fixpoint type_idents (t : vtype) : list str :=
  match t with
  | TStruct fs => (fix go (fs : list (str * vtype)) : list str :=
                     match fs with [] => [] | (f, ft) :: r => f :: type_idents ft ++ go r end) fs
  | TEnum es => es
  | TArr t' | TDict t' | TOpt t' => type_idents t'
  | _ => []
  end.

(* field and enum-member names that reach syn::parse_str *)
Definition raw_idents (i : idl) : list str :=
  flat_map (fun m => match m with
                     | MMethod _ _ a b => type_idents (TStruct a) ++ type_idents (TStruct b)
                     | MTypeS n _ fs => n :: type_idents (TStruct fs)
                     | MTypeE n _ es => n :: es
                     | MError _ _ fs => type_idents (TStruct fs)
                     end) (i_members i).

Definition generator_panics (i : idl) : bool := existsb is_reserved (raw_idents i).

(* to_snake_case on the ASCII names the grammar allows *)
Definition is_up (c : N) : bool := (65 <=? c) && (c <=? 90).
Definition lower (c : N) : N := if is_up c then c + 32 else c.
Fixpoint snake_go (s : str) (buf_empty last_upper : bool) : str :=
  match s with
  | [] => []
  | c :: r =>
      (if negb buf_empty && is_up c && negb last_upper then [95] else []) ++ lower c :: snake_go r false (is_up c)
  end.
Definition snake (s : str) : str := snake_go s true false.

Definition emitted_type_names (i : idl) : list str := map fst (emitted i).
Definition emitted_fn_names (i : idl) : list str :=
  map (fun m => snake (fst (fst m))) (methods_of i) ++
  map (fun e => [114; 101; 112; 108; 121; 95] ++ snake (fst e)) (errors_of i).

(* ---- known classes of definitions whose generated code does not compile (C09 findings) ---- *)
Fixpoint has_dup (l : list str) : bool :=
  match l with
  | [] => false
  | x :: r => existsb (beq_str x) r || has_dup r
  end.

(* names the generated module defines or imports itself *)
Definition s (l : str) : str := l.
Definition fixed_names : list str :=
  [ s [69;114;114;111;114] (* Error *); s [69;114;114;111;114;75;105;110;100] (* ErrorKind *);
    s [82;101;115;117;108;116] (* Result *); s [65;114;99] (* Arc *); s [82;119;76;111;99;107] (* RwLock *);
    s [66;117;102;82;101;97;100] (* BufRead *); s [83;101;114;105;97;108;105;122;101] (* Serialize *);
    s [68;101;115;101;114;105;97;108;105;122;101] (* Deserialize *); s [67;97;108;108;84;114;97;105;116] (* CallTrait *);
    s [86;97;114;108;105;110;107;67;108;105;101;110;116] (* VarlinkClient *);
    s [86;97;114;108;105;110;107;73;110;116;101;114;102;97;99;101] (* VarlinkInterface *);
    s [86;97;114;108;105;110;107;67;108;105;101;110;116;73;110;116;101;114;102;97;99;101] (* VarlinkClientInterface *);
    s [86;97;114;108;105;110;107;73;110;116;101;114;102;97;99;101;80;114;111;120;121] (* VarlinkInterfaceProxy *);
    s [86;97;114;108;105;110;107;67;97;108;108;69;114;114;111;114] (* VarlinkCallError *);
    s [79;112;116;105;111;110] (* Option *); s [86;101;99] (* Vec *); s [83;116;114;105;110;103] (* String *);
    s [66;111;120] (* Box *); s [83;111;109;101] (* Some *); s [78;111;110;101] (* None *); s [79;107] (* Ok *); s [69;114;114] (* Err *);
    s [83;101;108;102] (* Self *); s [83;101;110;100] (* Send *); s [83;121;110;99] (* Sync *); s [70;114;111;109] (* From *);
    s [73;110;116;111] (* Into *); s [67;108;111;110;101] (* Clone *); s [68;101;98;117;103] (* Debug *);
    s [80;97;114;116;105;97;108;69;113] (* PartialEq *); s [68;101;102;97;117;108;116] (* Default *) ].

Definition rust_keywords : list str :=
  [ s [97;115]; s [98;114;101;97;107]; s [99;111;110;115;116]; s [99;111;110;116;105;110;117;101]; s [99;114;97;116;101]; s [100;121;110];
    s [101;108;115;101]; s [101;110;117;109]; s [101;120;116;101;114;110]; s [102;97;108;115;101]; s [102;110]; s [102;111;114]; s [105;102];
    s [105;109;112;108]; s [105;110]; s [108;101;116]; s [108;111;111;112]; s [109;97;116;99;104]; s [109;111;100]; s [109;111;118;101]; s [109;117;116];
    s [112;117;98]; s [114;101;102]; s [114;101;116;117;114;110]; s [115;101;108;102]; s [115;116;97;116;105;99]; s [115;116;114;117;99;116];
    s [115;117;112;101;114]; s [116;114;97;105;116]; s [116;114;117;101]; s [116;121;112;101]; s [117;110;115;97;102;101]; s [117;115;101];
    s [119;104;101;114;101]; s [119;104;105;108;101]; s [97;115;121;110;99]; s [97;119;97;105;116]; s [97;98;115;116;114;97;99;116]; s [98;101;99;111;109;101];
    s [98;111;120]; s [100;111]; s [102;105;110;97;108]; s [109;97;99;114;111]; s [111;118;101;114;114;105;100;101]; s [112;114;105;118]; s [116;114;121];
    s [116;121;112;101;111;102]; s [117;110;115;105;122;101;100]; s [118;105;114;116;117;97;108]; s [121;105;101;108;100]; s [103;101;110] ].

Inductive gclass := GReserved | GDupType | GDupFn | GFixedName | GKeywordFn | GBindingVariant | GErrorName.

(* a declared error E gets the trait method VarlinkCallError::reply_<snake E>; the emitted code itself calls
   varlink::CallTrait's reply_invalid_parameter / reply_method_not_found / reply_struct with method-call syntax on the
   same receiver, so an error whose snake_case name is one of these makes those calls ambiguous (E0034) *)
Definition shadowing_error_names : list str :=
  [ s [105;110;118;97;108;105;100;95;112;97;114;97;109;101;116;101;114] (* invalid_parameter *); s [109;101;116;104;111;100;95;110;111;116;95;102;111;117;110;100] (* method_not_found *); s [115;116;114;117;99;116] (* struct *) ].
(* ... and an error named Self becomes the enum variant ErrorKind::Self, which is not an identifier *)
Definition has_shadowing_error (i : idl) : bool :=
  existsb (fun e => existsb (beq_str (snake (fst e))) shadowing_error_names || beq_str (fst e) (s [83;101;108;102] (* Self *))) (errors_of i).

(* a parameter (method input, method output, error parameter) whose type is directly an enum that
   has a member named like the parameter: rustc's deny-by-default lint bindings_with_variant_name
   (E0170) rejects the generated function signature *)
Definition enum_members_of (i : idl) (t : vtype) : list str :=
  match t with
  | TEnum es => es
  | TName n => flat_map (fun m => match m with MTypeE n' _ es => if beq_str n n' then es else [] | _ => [] end) (i_members i)
  | _ => []
  end.
Definition binding_clash (i : idl) (fs : list (str * vtype)) : bool :=
  existsb (fun ft => existsb (beq_str (fst ft)) (enum_members_of i (snd ft))) fs.
Definition has_binding_clash (i : idl) : bool :=
  existsb (fun m => match m with
                    | MMethod _ _ a b => binding_clash i a || binding_clash i b
                    | MError _ _ fs => binding_clash i fs
                    | _ => false end) (i_members i).

Definition known_classes (i : idl) : list gclass :=
  (if generator_panics i then [GReserved] else []) ++
  (if has_dup (emitted_type_names i) then [GDupType] else []) ++
  (if has_dup (emitted_fn_names i) then [GDupFn] else []) ++
  (if existsb (fun t => existsb (beq_str (fst t)) fixed_names) (typedefs_of i) then [GFixedName] else []) ++
  (if existsb (fun m => existsb (beq_str (snake (fst (fst m)))) rust_keywords) (methods_of i) then [GKeywordFn] else []) ++
  (if has_binding_clash i then [GBindingVariant] else []) ++
  (if has_shadowing_error i then [GErrorName] else []).
