(* The Rust code generator (varlink_generator): the IDL -> Rust type mapping, the structs and
   enums it emits (with their serde attributes) in emission order, and the naming scheme.
   The emitted text of the real generator is compared with [emitted] on every run. *)
From Coq Require Import List NArith Lia Bool Arith.
From VL Require Import Idl.
Import ListNotations.
Open Scope N_scope.

Inductive rty :=
| RBool | RI64 | RF64 | RString | RValue
| RNamed (n : str)
| RVec (t : rty) | RMap (t : rty) | RSet | ROpt (t : rty).

Inductive tydef :=
| DStruct (fields : list (str * rty * bool))     (* name, type, skip_serializing_if = Option::is_none *)
| DEnum (variants : list str).

Definition us : str := [95].
Definition s_Args : str := [95; 65; 114; 103; 115].          (* _Args *)
Definition s_Reply : str := [95; 82; 101; 112; 108; 121].   (* _Reply *)

(* to_rust_string: the Rust type of an IDL type whose anonymous structs/enums are named after
   [name]; returns the type and the definitions emitted on the way (in emission order) *)
Fixpoint rust_ty (name : str) (t : vtype) : rty * list (str * tydef) :=
  match t with
  | TBool => (RBool, []) | TInt => (RI64, []) | TFloat => (RF64, []) | TString => (RString, [])
  | TObject => (RValue, [])
  | TName n => (RNamed n, [])
  | TStruct fs =>
      let r := (fix go (fs : list (str * vtype)) : list (str * rty * bool) * list (str * tydef) :=
                  match fs with
                  | [] => ([], [])
                  | (f, ft) :: rest =>
                      let '(ty, d1) := rust_ty (name ++ us ++ f) ft in
                      let '(fl, d2) := go rest in
                      ((f, ty, false) :: fl, d1 ++ d2)
                  end) fs in
      (RNamed name, snd r ++ [(name, DStruct (fst r))])
  | TEnum es => (RNamed name, [(name, DEnum es)])
  | TArr t' => let '(ty, d) := rust_ty name t' in (RVec ty, d)
  | TDict t' =>
      match t' with
      | TStruct [] => (RSet, [])
      | _ => let '(ty, d) := rust_ty name t' in (RMap ty, d)
      end
  | TOpt t' => let '(ty, d) := rust_ty name t' in (ROpt ty, d)
  end.

Definition is_opt (t : vtype) : bool := match t with TOpt _ => true | _ => false end.

(* the fields of an Args / Reply / error-parameter struct: anonymous types named <name>_<field>,
   optional fields carry skip_serializing_if *)
Fixpoint top_fields (name : str) (fs : list (str * vtype)) : list (str * rty * bool) * list (str * tydef) :=
  match fs with
  | [] => ([], [])
  | (f, ft) :: rest =>
      let '(ty, d1) := rust_ty (name ++ us ++ f) ft in
      let '(fl, d2) := top_fields name rest in
      ((f, ty, is_opt ft) :: fl, d1 ++ d2)
  end.

(* BTreeMap<&str, _> iteration order: by name *)
Fixpoint str_ltb (a b : str) : bool :=
  match a, b with
  | [], [] => false
  | [], _ :: _ => true
  | _ :: _, [] => false
  | x :: a', y :: b' => if x <? y then true else if y <? x then false else str_ltb a' b'
  end.
Fixpoint insert_sorted {A} (key : A -> str) (x : A) (l : list A) : list A :=
  match l with
  | [] => [x]
  | y :: r => if str_ltb (key x) (key y) then x :: l else y :: insert_sorted key x r
  end.
Definition sort_by {A} (key : A -> str) (l : list A) : list A := fold_right (insert_sorted key) [] l.

Definition methods_of (i : idl) := flat_map (fun m => match m with MMethod n _ a b => [(n, a, b)] | _ => [] end) (i_members i).
Definition errors_of (i : idl) := flat_map (fun m => match m with MError n _ fs => [(n, fs)] | _ => [] end) (i_members i).
Definition typedefs_of (i : idl) :=
  flat_map (fun m => match m with MTypeS n _ fs => [(n, TStruct fs)] | MTypeE n _ es => [(n, TEnum es)] | _ => [] end) (i_members i).

(* every #[derive(Serialize, Deserialize, ..)] struct / enum of the generated module, in order *)
Definition emitted (i : idl) : list (str * tydef) :=
  (* generate_error_code: the anonymous types of error parameters *)
  flat_map (fun e => snd (top_fields (fst e ++ s_Args) (snd e))) (sort_by fst (errors_of i)) ++
  (* typedefs *)
  flat_map (fun t => snd (rust_ty (fst t) (snd t))) (sort_by fst (typedefs_of i)) ++
  (* error parameter structs (their anonymous types once more) *)
  flat_map (fun e => let '(fl, d) := top_fields (fst e ++ s_Args) (snd e) in d ++ [(fst e ++ s_Args, DStruct fl)])
           (sort_by fst (errors_of i)) ++
  (* methods *)
  flat_map (fun m => let '(n, a, b) := m in
                     let '(fa, da) := top_fields (n ++ s_Args) a in
                     let '(fb, db) := top_fields (n ++ s_Reply) b in
                     da ++ db ++ [(n ++ s_Reply, DStruct fb); (n ++ s_Args, DStruct fa)])
           (sort_by (fun m => fst (fst m)) (methods_of i)).

(* ---- identifiers ---- *)
(* syn::parse_str::<Ident>("r#" + name) fails for these four: the generator panics *)
Definition reserved : list str :=
  [[115; 101; 108; 102]; [83; 101; 108; 102]; [115; 117; 112; 101; 114]; [99; 114; 97; 116; 101]].
Definition is_reserved (n : str) : bool := existsb (beq_str n) reserved.

Fixpoint type_idents (t : vtype) : list str :=
  match t with
  | TStruct fs => (fix go (fs : list (str * vtype)) : list str :=
                     match fs with [] => [] | (f, ft) :: r => f :: type_idents ft ++ go r end) fs
  | TEnum es => es
  | TArr t' | TDict t' | TOpt t' => type_idents t'
  | _ => []
  end.

(* field and enum-member names that reach syn::parse_str *)
Definition raw_idents (i : idl) : list str :=
  flat_map (fun m => match m with
                     | MMethod _ _ a b => type_idents (TStruct a) ++ type_idents (TStruct b)
                     | MTypeS n _ fs => n :: type_idents (TStruct fs)
                     | MTypeE n _ es => n :: es
                     | MError _ _ fs => type_idents (TStruct fs)
                     end) (i_members i).

Definition generator_panics (i : idl) : bool := existsb is_reserved (raw_idents i).

(* to_snake_case on the ASCII names the grammar allows *)
Definition is_up (c : N) : bool := (65 <=? c) && (c <=? 90).
Definition lower (c : N) : N := if is_up c then c + 32 else c.
Fixpoint snake_go (s : str) (buf_empty last_upper : bool) : str :=
  match s with
  | [] => []
  | c :: r =>
      (if negb buf_empty && is_up c && negb last_upper then [95] else []) ++ lower c :: snake_go r false (is_up c)
  end.
Definition snake (s : str) : str := snake_go s true false.

Definition emitted_type_names (i : idl) : list str := map fst (emitted i).
Definition emitted_fn_names (i : idl) : list str :=
  map (fun m => snake (fst (fst m))) (methods_of i) ++
  map (fun e => [114; 101; 112; 108; 121; 95] ++ snake (fst e)) (errors_of i).
