(* The per-connection loop of varlink::listen (varlink/src/server.rs): what it does with the tail and the upgraded
   interface handle() returns, when it calls handle() again, when it ends. The four flags are read from the source by
   tr/worker.py (gen/WorkerGen.v); with all of them true the loop ends on every input and writes exactly the
   specification's output (worker_spec); each of the other settings has a witness input below. *)
From VL Require Import Base Json Schema Wire Service ServiceProofs.
Require Import Lia.

Section Worker.
Variable store_always : bool.           (* `unprocessed = tail` after every successful handle(), also when the tail is empty *)
Variable refeed_upgraded_only : bool.   (* handle() is re-entered without waiting for input only if upgraded and a tail is kept *)
Variable errors_close : bool.           (* every error of handle() ends the connection *)
Variable eof_breaks : bool.             (* end of input seen by fill_buf ends the loop *)
Variable svc : service.

Inductive wend := WFinished | WSpinning.

Definition nonempty (l : bytes) : bool := match l with [] => false | _ => true end.

(* one call of handle() with the data [d] that arrives during it: the new state, what was written, and the tail
   handle() returned this time *)
Definition wpass (st : fstate) (d : bytes) : fstate * bytes * bytes :=
  let '(st1, o) := feed_step svc st d in
  if fs_closed st1 then ((if errors_close then st1 else mkfs [] (fs_upg st) false), o, [])
  else (mkfs (if store_always then fs_tail st1 else if nonempty (fs_tail st1) then fs_tail st1 else fs_tail st)
             (fs_upg st1) false, o, fs_tail st1).

Definition refeed (upg : option bytes) (tail : bytes) : bool :=
  if refeed_upgraded_only then (match upg with Some _ => true | None => false end) && nonempty tail
  else nonempty tail.

(* [cs]: the segments still to arrive; [] = the peer has closed its side *)
Fixpoint wrun (fuel : nat) (st : fstate) (d : bytes) (cs : list bytes) : bytes * wend :=
  match fuel with
  | O => ([], WSpinning)
  | S f =>
      let '(st1, o, t) := wpass st d in
      if fs_closed st1 then (o, WFinished)
      else if refeed (fs_upg st1) t then let '(o2, e) := wrun f st1 [] cs in (o ++ o2, e)
      else match cs with
           | [] => if eof_breaks then (o, WFinished) else let '(o2, e) := wrun f st1 [] [] in (o ++ o2, e)
           | c :: r => let '(o2, e) := wrun f st1 c r in (o ++ o2, e)
           end
  end.

Definition worker (fuel : nat) (chunks : list bytes) : bytes * wend :=
  match chunks with
  | [] => wrun fuel fs_init [] []
  | c :: r => wrun fuel fs_init c r
  end.
End Worker.

(* ---- the loop as written in the source: all four flags true ---- *)
Section Good.
Variable svc : service.
Notation wrun' := (wrun true true true true svc).
Notation wpass' := (wpass true true svc).

Lemma wpass_good st d : wpass' st d = (feed_step svc st d, if fs_closed (fst (feed_step svc st d)) then [] else fs_tail (fst (feed_step svc st d))).
Proof.
  unfold wpass. destruct (feed_step svc st d) as [st1 o] eqn:F. cbn [fst]. destruct (fs_closed st1) eqn:C; [reflexivity|].
  destruct st1 as [t u c]. cbn [fs_closed] in C. subst c. reflexivity.
Qed.

Lemma owed_nothing_at_rest st : fs_wf st -> fs_closed st = false -> refeed true (fs_upg st) (fs_tail st) = false ->
  snd (fs_owed svc st) = [].
Proof.
  intros W C R. unfold fs_owed. rewrite C. destruct W as [->|[_ W]]; [discriminate|].
  unfold refeed in R. destruct (fs_upg st) as [i|] eqn:U.
  - cbn [andb] in R. destruct (fs_tail st); [|discriminate]. reflexivity.
  - destruct W as [W|W]; [congruence|]. cbn [base]. rewrite (arun_run_nonul svc _ [] W). reflexivity.
Qed.

(* after a pass that keeps an upgraded tail, the extra pass with nothing new leaves nothing to re-feed *)
Lemma refeed_once st : fs_closed st = false -> refeed true (fs_upg st) (fs_tail st) = true ->
  exists i, fs_upg st = Some i /\ feed_step svc st [] = (mkfs [] (Some i) false, upgraded_out svc i (fs_tail st)).
Proof.
  intros C R. unfold refeed in R. destruct (fs_upg st) as [i|] eqn:U; [|discriminate].
  exists i. split; [reflexivity|]. unfold feed_step. rewrite C, U, app_nil_r. reflexivity.
Qed.

Lemma wrun_spec : forall cs st d fuel, fs_wf st -> (2 * length cs + 2 <= fuel)%nat ->
  exists o, wrun' fuel st d cs = (o, WFinished) /\
            fst (snd (fs_owed svc st), 0%nat) ++ snd (arun svc (fst (fs_owed svc st)) (d ++ concat cs)) = o.
Proof.
  induction cs as [|c r IH]; intros st d fuel W F.
  - (* last data, then end of input *)
    destruct fuel as [|f]; [cbn in F; lia|]. cbn [wrun]. rewrite wpass_good.
    destruct (feed_step svc st d) as [st1 o1] eqn:F1. cbn [fst].
    pose proof (feed_step_arun _ _ _ _ _ F1) as A. pose proof (feed_step_wf _ _ _ _ _ F1 W) as W1.
    cbn [concat]. rewrite app_nil_r. cbn [fst].
    destruct (fs_owed svc st) as [a p] eqn:O. destruct (fs_owed svc st1) as [a1 p1] eqn:O1.
    destruct A as (oa & Ea & Q). cbn [fst snd]. rewrite Ea. cbn [snd].
    destruct (fs_closed st1) eqn:C1.
    + exists o1. split; [reflexivity|]. unfold fs_owed in O1. rewrite C1 in O1. inversion O1; subst. rewrite app_nil_r in Q. exact Q.
    + destruct (refeed true (fs_upg st1) (fs_tail st1)) eqn:R1.
      * destruct (refeed_once st1 C1 R1) as (i & U & S2).
        destruct f as [|f2]; [cbn in F; lia|]. cbn [wrun]. rewrite wpass_good, S2. cbn [fst fs_closed refeed fs_upg fs_tail nonempty andb].
        exists (o1 ++ upgraded_out svc i (fs_tail st1)). split; [reflexivity|].
        unfold fs_owed in O1. rewrite C1, U in O1. cbn [base] in O1. rewrite arun_up in O1. inversion O1; subst. exact Q.
      * exists o1. split; [reflexivity|]. pose proof (owed_nothing_at_rest st1 W1 C1 R1) as N. rewrite O1 in N. cbn [snd] in N. subst p1.
        rewrite app_nil_r in Q. exact Q.
  - destruct fuel as [|f]; [cbn in F; lia|]. cbn [wrun]. rewrite wpass_good.
    destruct (feed_step svc st d) as [st1 o1] eqn:F1. cbn [fst].
    pose proof (feed_step_arun _ _ _ _ _ F1) as A. pose proof (feed_step_wf _ _ _ _ _ F1 W) as W1.
    cbn [concat fst]. rewrite arun_app.
    destruct (fs_owed svc st) as [a p] eqn:O. destruct (fs_owed svc st1) as [a1 p1] eqn:O1.
    destruct A as (oa & Ea & Q). cbn [fst snd]. rewrite Ea.
    destruct (arun svc a1 (c ++ concat r)) as [a2 o2] eqn:E2. cbn [snd].
    destruct (fs_closed st1) eqn:C1.
    + exists o1. split; [reflexivity|]. unfold fs_owed in O1. rewrite C1 in O1. inversion O1; subst.
      rewrite arun_closed in E2. inversion E2; subst. rewrite !app_nil_r in *. exact Q.
    + cbn [length] in F. destruct (refeed true (fs_upg st1) (fs_tail st1)) eqn:R1.
      * destruct (refeed_once st1 C1 R1) as (i & U & S2).
        destruct f as [|f2]; [lia|]. cbn [wrun]. rewrite wpass_good, S2. cbn [fst fs_closed refeed fs_upg fs_tail nonempty andb].
        assert (W2 : fs_wf (mkfs [] (Some i) false)) by (right; split; [reflexivity|left; discriminate]).
        destruct (IH (mkfs [] (Some i) false) c f2 W2 ltac:(lia)) as (o3 & R3 & Q3).
        rewrite R3. exists (o1 ++ upgraded_out svc i (fs_tail st1) ++ o3). split; [reflexivity|].
        unfold fs_owed in O1. rewrite C1, U in O1. cbn [base] in O1. rewrite arun_up in O1. inversion O1; subst a1 p1.
        unfold fs_owed in Q3. cbn [fs_closed fs_upg fs_tail base arun fst snd app] in Q3. rewrite E2 in Q3. cbn [snd] in Q3. subst o3.
        rewrite app_assoc, Q, <- !app_assoc. reflexivity.
      * destruct (IH st1 c f W1 ltac:(lia)) as (o3 & R3 & Q3). rewrite R3.
        exists (o1 ++ o3). split; [reflexivity|].
        pose proof (owed_nothing_at_rest st1 W1 C1 R1) as N. rewrite O1 in N. cbn [snd] in N. subst p1.
        rewrite O1 in Q3. cbn [fst snd app] in Q3. rewrite E2 in Q3. cbn [snd] in Q3. subst o3.
        rewrite app_nil_r in Q. rewrite app_assoc, Q. reflexivity.
Qed.

(* the loop of listen(): for every segmentation of every byte stream it ends, and what it has written is the
   specification's output for the stream *)
Theorem worker_spec chunks : forall fuel, (2 * length chunks + 2 <= fuel)%nat ->
  worker true true true true svc fuel chunks = (spec_out svc (concat chunks), WFinished).
Proof.
  intros fuel F. unfold worker, spec_out. destruct chunks as [|c r].
  - destruct (wrun_spec [] fs_init [] fuel fs_init_wf F) as (o & R & Q). rewrite R.
    unfold fs_owed in Q. cbn in Q. subst o. reflexivity.
  - cbn [length] in F. destruct (wrun_spec r fs_init c fuel fs_init_wf ltac:(lia)) as (o & R & Q). rewrite R.
    unfold fs_owed in Q. cbn [fs_closed fs_init fs_upg fs_tail base arun fst snd app] in Q. cbn [concat]. subst o. reflexivity.
Qed.
End Good.
