(* The certification state machine instantiated at the regenerated constants (gen/CertGen.v): definitions only. *)
From VL Require Import Base Json Schema Wire Idl Codec Cert.
From VLG Require Import CertGen.

Definition src_next : nat -> nat := next_of cert_steps.
Definition src_cert_call env fields canon := cert_call env fields canon src_next rejected_call_keeps_step.
Definition src_first_step : option nat := option_map S (index_of cert_first_step (map fst cert_steps)).
