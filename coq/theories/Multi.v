(* Several connections served by one service: events of different connections interleave
   arbitrarily; each connection has its own automaton state (handle() keeps all per-connection
   state on its own stack; the shared service object is read-only). *)
From VL Require Import Base Json Schema Wire Service.
Open Scope N_scope.

Notation conn := nat (only parsing).
Definition mstate := conn -> astate.

Definition mstep (svc : service) (m : mstate) (e : conn * N) : mstate * (conn * bytes) :=
  let '(c, b) := e in
  let '(a', o) := astep svc (m c) b in
  (fun x => if Nat.eqb x c then a' else m x, (c, o)).

Fixpoint mrun (svc : service) (m : mstate) (evs : list (conn * N)) : mstate * list (conn * bytes) :=
  match evs with
  | [] => (m, [])
  | e :: r => let '(m1, o1) := mstep svc m e in
              let '(m2, o2) := mrun svc m1 r in (m2, o1 :: o2)
  end.

Fixpoint project (c : conn) (evs : list (conn * N)) : bytes :=
  match evs with
  | [] => []
  | (c', b) :: r => if Nat.eqb c c' then b :: project c r else project c r
  end.

Fixpoint out_of (c : conn) (l : list (conn * bytes)) : bytes :=
  match l with
  | [] => []
  | (c', o) :: r => if Nat.eqb c c' then o ++ out_of c r else out_of c r
  end.

(* what one connection sends, on its own *)
Definition on (c : conn) (evs : list (conn * N)) : list (conn * N) :=
  filter (fun e => Nat.eqb c (fst e)) evs.

Theorem non_interference svc evs : forall m c,
  out_of c (snd (mrun svc m evs)) = snd (arun svc (m c) (project c evs)) /\
  fst (mrun svc m evs) c = fst (arun svc (m c) (project c evs)).
Proof.
  induction evs as [|[c' b] r IH]; intros m c; [simpl; auto|].
  cbn [mrun mstep project]. destruct (astep svc (m c') b) as [a' o] eqn:St.
  specialize (IH (fun x => if Nat.eqb x c' then a' else m x) c).
  destruct (mrun svc (fun x => if Nat.eqb x c' then a' else m x) r) as [m2 o2] eqn:R.
  cbn [fst snd out_of] in *.
  destruct (Nat.eqb_spec c c') as [->|Hne].
  - rewrite ?Nat.eqb_refl in IH. cbn [arun]. rewrite St.
    destruct (arun svc a' (project c' r)) as [a2 o3]. cbn [fst snd] in *.
    destruct IH as [E1 E2]. rewrite E1. auto.
  - assert (Nat.eqb c c' = false) as Hf by (apply Nat.eqb_neq; exact Hne). rewrite ?Hf in IH. exact IH.
Qed.

Lemma project_on c evs : project c (on c evs) = project c evs.
Proof.
  induction evs as [|[c' b] r IH]; simpl; [reflexivity|].
  destruct (Nat.eqb c c') eqn:E; simpl; rewrite ?E, IH; reflexivity.
Qed.

(* each connection receives exactly the replies to its own bytes, whatever the others do *)
Corollary output_depends_on_own_traffic_only svc evs m c :
  out_of c (snd (mrun svc m evs)) = out_of c (snd (mrun svc m (on c evs))).
Proof.
  destruct (non_interference svc evs m c) as [E1 _]. destruct (non_interference svc (on c evs) m c) as [E2 _].
  rewrite E1, E2, project_on. reflexivity.
Qed.

Corollary fresh_connection_gets_spec svc evs c :
  out_of c (snd (mrun svc (fun _ => ARun []) evs)) = spec_out svc (project c evs).
Proof. destruct (non_interference svc evs (fun _ => ARun []) c) as [E _]. exact E. Qed.
