(* The formatter of varlink_parser (format.rs), top level (indent 0): Display / get_multiline.
   Every width-driven choice between a one-line and a multi-line layout goes through
   [decide site quantities]; [thresholds] is the instance format.rs implements.  Theorems
   about the output hold for every [decide]. *)
From Coq Require Import List NArith Lia Bool Arith.
From VL Require Import Idl.
From VLG Require Import GrammarGen.
Import ListNotations.
Open Scope N_scope.

Definition sp (n : nat) : str := repeat 32 n.
Definition s_colon_sp : str := [58; 32].
Definition s_comma_sp : str := [44; 32].
Definition s_comma_nl : str := [44; 10].
Definition nl : str := [10].

Inductive site := SField | STypedef | SError | SMethodAll | SMethodIn | SMethodOut.

Section Fmt.
Variable decide : site -> list nat -> bool.   (* true = the compact alternative *)
Variable max : nat.

Fixpoint one_type (t : vtype) : str :=
  match t with
  | TBool => kw 0 | TInt => kw 1 | TFloat => kw 2 | TString => kw 3 | TObject => kw 4
  | TName n => n
  | TStruct fs =>
      40 :: (fix go (fs : list (str * vtype)) : str :=
               match fs with
               | [] => []
               | [(n, t)] => n ++ s_colon_sp ++ one_type t
               | (n, t) :: r => n ++ s_colon_sp ++ one_type t ++ s_comma_sp ++ go r
               end) fs ++ [41]
  | TEnum es =>
      40 :: (fix go (es : list str) : str :=
               match es with [] => [] | [e] => e | e :: r => e ++ s_comma_sp ++ go r end) es ++ [41]
  | TArr t => lit_array ++ one_type t
  | TDict t => lit_dict ++ one_type t
  | TOpt t => lit_option ++ one_type t
  end.
Definition one_struct (fs : list (str * vtype)) : str := one_type (TStruct fs).
Definition one_enum (es : list str) : str := one_type (TEnum es).

Fixpoint multi_type (indent : nat) (t : vtype) : str :=
  match t with
  | TStruct fs =>
      40 :: 10 ::
      (fix go (fs : list (str * vtype)) (first : bool) : str :=
         match fs with
         | [] => []
         | (n, t) :: r =>
             (if first then [] else s_comma_nl) ++
             (let line := n ++ s_colon_sp ++ one_type t in
              if decide SField [length line; indent; max]
              then sp (indent + 2) ++ line
              else sp (indent + 2) ++ n ++ s_colon_sp ++ multi_type (indent + 2) t) ++
             go r false
         end) fs true ++ nl ++ sp indent ++ [41]
  | TEnum es =>
      40 :: 10 ::
      (fix go (es : list str) (first : bool) : str :=
         match es with
         | [] => []
         | e :: r => (if first then [] else s_comma_nl) ++ sp (indent + 2) ++ e ++ go r false
         end) es true ++ nl ++ sp indent ++ [41]
  | TArr t => lit_array ++ multi_type indent t
  | TDict t => lit_dict ++ multi_type indent t
  | TOpt t => lit_option ++ multi_type indent t
  | _ => one_type t
  end.

Definition doc_block (d : str) : str := match d with [] => [] | _ => d ++ nl end.

Definition fmt_typedef (kwd name doc : str) (elt : vtype) (s : site) : str :=
  nl ++ doc_block doc ++
  (let line_len := length (kwd ++ [32] ++ name ++ [32]) in
   let one := one_type elt in
   if decide s [line_len; length one; max]
   then kwd ++ [32] ++ name ++ [32] ++ one ++ nl
   else kwd ++ [32] ++ name ++ [32] ++ multi_type 0 elt ++ nl).

Definition fmt_method (name doc : str) (i o : list (str * vtype)) : str :=
  nl ++ doc_block doc ++
  (let m_line := length (kw_method ++ [32] ++ name) in
   let li := length (one_struct i) in let lo := length (one_struct o) in
   let head := kw_method ++ [32] ++ name in
   if decide SMethodAll [m_line; li; lo; max]
   then head ++ one_struct i ++ [32] ++ lit_arrow ++ [32] ++ one_struct o ++ nl
   else if decide SMethodIn [m_line; li; lo; max]
   then head ++ one_struct i ++ [32] ++ lit_arrow ++ [32] ++ multi_type 0 (TStruct o) ++ nl
   else if decide SMethodOut [m_line; li; lo; max]
   then head ++ multi_type 0 (TStruct i) ++ [32] ++ lit_arrow ++ [32] ++ one_struct o ++ nl
   else head ++ multi_type 0 (TStruct i) ++ [32] ++ lit_arrow ++ [32] ++ multi_type 0 (TStruct o) ++ nl).

(* typedefs first, then methods, then errors, each kind in order of appearance *)
Definition fmt_idl (i : idl) : str :=
  doc_block (i_doc i) ++ kw_interface ++ [32] ++ i_name i ++ nl ++
  flat_map (fun m => match m with
                     | MTypeS n d fs => fmt_typedef kw_type n d (TStruct fs) STypedef
                     | MTypeE n d es => fmt_typedef kw_type n d (TEnum es) STypedef
                     | _ => [] end) (i_members i) ++
  flat_map (fun m => match m with MMethod n d a b => fmt_method n d a b | _ => [] end) (i_members i) ++
  flat_map (fun m => match m with MError n d fs => fmt_typedef kw_error n d (TStruct fs) SError | _ => [] end) (i_members i).
End Fmt.

(* the thresholds of format.rs *)
Definition thresholds (s : site) (q : list nat) : bool :=
  match s, q with
  | SField, [line; indent; max] => (line + indent + 2 <? max)%nat
  | STypedef, [l; e; max] | SError, [l; e; max] => (l + e <=? max)%nat
  | SMethodAll, [m; i; o; max] => ((m + i + o + 4 <=? max) || (i + o =? 4))%nat
  | SMethodIn, [m; i; o; max] => ((m + i + 6 <=? max) || (i =? 2))%nat
  | SMethodOut, [m; i; o; max] => (o + 7 <=? max)%nat
  | _, _ => false
  end.

Definition format_src (max : nat) (i : idl) : str := fmt_idl thresholds max i.
