(* JSON values, serde_json's compact writer and a model of serde_json's reader
   (strict mode = what deserialising into typed data / Value does; lenient mode =
   serde_json's [ignore_value], used for members the target struct does not know). *)
From VL Require Import Base.
Open Scope N_scope.

Inductive json : Type :=
| JNull
| JBool (b : bool)
| JInt (z : Z)
| JFloat (lex : bytes)            (* a number serde_json keeps as f64: kept as its lexeme *)
| JStr (s : bytes)                (* UTF-8 bytes *)
| JArr (l : list json)
| JObj (m : list (bytes * json)). (* members in source order, duplicates allowed; see [norm] *)

(* ------------------------------------------------------------------ *)
(* Normal form of a serde_json::Value: object keys strictly sorted,    *)
(* last duplicate wins (Map = BTreeMap<String, Value>).                *)

Fixpoint obj_insert (k : bytes) (v : json) (m : list (bytes * json)) : list (bytes * json) :=
  match m with
  | [] => [(k, v)]
  | (k', v') :: m' =>
      if beq_bytes k k' then (k, v) :: m'
      else if blt_bytes k k' then (k, v) :: m
      else (k', v') :: obj_insert k v m'
  end.

Fixpoint norm (j : json) : json :=
  match j with
  | JArr l => JArr (map norm l)
  | JObj m => JObj (fold_left (fun acc kv => obj_insert (fst kv) (norm (snd kv)) acc) m [])
  | _ => j
  end.

Fixpoint obj_get (k : bytes) (m : list (bytes * json)) : option json :=
  match m with
  | [] => None
  | (k', v) :: m' => if beq_bytes k k' then Some v else obj_get k m'
  end.

(* ------------------------------------------------------------------ *)
(* Writer                                                              *)

Definition hexdig (n : N) : N := if n <? 10 then 48 + n else 87 + n.
Definition esc (c : N) : bytes :=
  if c =? 34 then [92; 34] else if c =? 92 then [92; 92]
  else if c =? 8 then [92; 98] else if c =? 12 then [92; 102]
  else if c =? 10 then [92; 110] else if c =? 13 then [92; 114] else if c =? 9 then [92; 116]
  else if c <? 32 then [92; 117; 48; 48; hexdig (c / 16); hexdig (c mod 16)]
  else [c].
Definition print_str (s : bytes) : bytes := 34 :: flat_map esc s ++ [34].

(* decimal digits of a positive number, most significant first *)
Fixpoint pos_digits_fuel (f : nat) (n : N) (acc : bytes) : bytes :=
  match f with
  | O => acc
  | S f' => if n <? 10 then (48 + n) :: acc
            else pos_digits_fuel f' (n / 10) ((48 + n mod 10) :: acc)
  end.
Definition print_N (n : N) : bytes := pos_digits_fuel (S (N.to_nat (N.log2 n))) n [].
Definition print_Z (z : Z) : bytes :=
  match z with
  | Z0 => [48]
  | Zpos p => print_N (Npos p)
  | Zneg p => 45 :: print_N (Npos p)
  end.

Definition lit_null : bytes := [110; 117; 108; 108].
Definition lit_true : bytes := [116; 114; 117; 101].
Definition lit_false : bytes := [102; 97; 108; 115; 101].

Definition print_list (pr : json -> bytes) : list json -> bytes :=
  fix go (l : list json) : bytes :=
    match l with
    | [] => []
    | [x] => pr x
    | x :: r => pr x ++ 44 :: go r
    end.

Definition print_members (pr : json -> bytes) : list (bytes * json) -> bytes :=
  fix go (m : list (bytes * json)) : bytes :=
    match m with
    | [] => []
    | [(k, v)] => print_str k ++ 58 :: pr v
    | (k, v) :: r => print_str k ++ 58 :: pr v ++ 44 :: go r
    end.

Fixpoint print (j : json) : bytes :=
  match j with
  | JNull => lit_null
  | JBool true => lit_true
  | JBool false => lit_false
  | JInt z => print_Z z
  | JFloat lex => lex
  | JStr s => print_str s
  | JArr l => 91 :: print_list print l ++ [93]
  | JObj m => 123 :: print_members print m ++ [125]
  end.

(* ------------------------------------------------------------------ *)
(* Reader                                                              *)

Definition is_ws (c : N) : bool := (c =? 32) || (c =? 9) || (c =? 10) || (c =? 13).
Fixpoint skip_ws (s : bytes) : bytes :=
  match s with
  | c :: r => if is_ws c then skip_ws r else s
  | [] => []
  end.

Definition is_digit (c : N) : bool := (48 <=? c) && (c <=? 57).

Definition unhex (d : N) : option N :=
  if (48 <=? d) && (d <=? 57) then Some (d - 48)
  else if (97 <=? d) && (d <=? 102) then Some (d - 87)
  else if (65 <=? d) && (d <=? 70) then Some (d - 55) else None.
Definition hex4 (a b c d : N) : option N :=
  match unhex a, unhex b, unhex c, unhex d with
  | Some x, Some y, Some z, Some w => Some (((x * 16 + y) * 16 + z) * 16 + w)
  | _, _, _, _ => None
  end.

(* UTF-8 encoding of a scalar value (or of a lone surrogate: never produced in strict mode) *)
Definition utf8_enc (n : N) : bytes :=
  if n <? 128 then [n]
  else if n <? 2048 then [192 + n / 64; 128 + n mod 64]
  else if n <? 65536 then [224 + n / 4096; 128 + (n / 64) mod 64; 128 + n mod 64]
  else [240 + n / 262144; 128 + (n / 4096) mod 64; 128 + (n / 64) mod 64; 128 + n mod 64].

Definition is_cont (b : N) : bool := (128 <=? b) && (b <=? 191).

(* Rust's str::from_utf8 acceptance *)
Fixpoint utf8_valid (s : bytes) : bool :=
  match s with
  | [] => true
  | a :: r =>
      if a <? 128 then utf8_valid r
      else if (194 <=? a) && (a <=? 223) then
        match r with b :: r1 => is_cont b && utf8_valid r1 | _ => false end
      else if (224 <=? a) && (a <=? 239) then
        match r with
        | b :: c :: r2 =>
            (if a =? 224 then (160 <=? b) && (b <=? 191)
             else if a =? 237 then (128 <=? b) && (b <=? 159)
             else is_cont b) && is_cont c && utf8_valid r2
        | _ => false
        end
      else if (240 <=? a) && (a <=? 244) then
        match r with
        | b :: c :: d :: r3 =>
            (if a =? 240 then (144 <=? b) && (b <=? 191)
             else if a =? 244 then (128 <=? b) && (b <=? 143)
             else is_cont b) && is_cont c && is_cont d && utf8_valid r3
        | _ => false
        end
      else false
  end.

(* one escape, after the backslash.  strict = serde_json's validate flag *)
Definition unescape (strict : bool) (s : bytes) : res (bytes * bytes) :=
  match s with
  | [] => Err
  | e :: r =>
      if e =? 34 then Ok ([34], r) else if e =? 92 then Ok ([92], r) else if e =? 47 then Ok ([47], r)
      else if e =? 98 then Ok ([8], r) else if e =? 102 then Ok ([12], r) else if e =? 110 then Ok ([10], r)
      else if e =? 114 then Ok ([13], r) else if e =? 116 then Ok ([9], r)
      else if e =? 117 then
        match r with
        | a :: b :: c :: d :: r1 =>
            match hex4 a b c d with
            | None => Err
            | Some n =>
                if negb strict then Ok ([], r1)          (* ignore_escape: four hex digits, nothing more *)
                else if (56320 <=? n) && (n <=? 57343) then Err     (* lone trailing surrogate *)
                else if (n <? 55296) || (56319 <? n) then Ok (utf8_enc n, r1)
                else
                  match r1 with
                  | 92 :: 117 :: a2 :: b2 :: c2 :: d2 :: r2 =>
                      match hex4 a2 b2 c2 d2 with
                      | None => Err
                      | Some n2 =>
                          if (56320 <=? n2) && (n2 <=? 57343)
                          then Ok (utf8_enc (65536 + (n - 55296) * 1024 + (n2 - 56320)), r2)
                          else Err
                      end
                  | _ => Err
                  end
            end
        | _ => Err
        end
      else Err
  end.

(* string body after the opening quote: decoded bytes and the rest after the closing quote *)
Fixpoint parse_str_body (f : nat) (strict : bool) (s : bytes) : res (bytes * bytes) :=
  match f with
  | O => Fuel
  | S f' =>
      match s with
      | [] => Err
      | c :: r =>
          if c =? 34 then Ok ([], r)
          else if c =? 92 then
            do (v, r1) <- unescape strict r;
            do (t, r2) <- parse_str_body f' strict r1;
            Ok (v ++ t, r2)
          else if c <? 32 then Err
          else
            do (t, r2) <- parse_str_body f' strict r;
            Ok (c :: t, r2)
      end
  end.

Definition parse_string (strict : bool) (s : bytes) : res (bytes * bytes) :=
  do (t, r) <- parse_str_body (S (length s)) strict s;
  if strict then (if utf8_valid t then Ok (t, r) else Err) else Ok ([], r).

(* numbers *)
Fixpoint take_digits (s : bytes) : bytes * bytes :=
  match s with
  | c :: r => if is_digit c then let '(d, x) := take_digits r in (c :: d, x) else ([], s)
  | [] => ([], [])
  end.

Fixpoint digits_val (acc : N) (d : bytes) : N :=
  match d with
  | [] => acc
  | c :: r => digits_val (acc * 10 + (c - 48)) r
  end.

Fixpoint all_zero (d : bytes) : bool :=
  match d with [] => true | c :: r => (c =? 48) && all_zero r end.

Fixpoint strip_zeros (d : bytes) : bytes :=
  match d with c :: r => if c =? 48 then strip_zeros r else d | [] => [] end.

(* decimal magnitude of a non-zero float lexeme: value < 10^mag.  Z-valued. *)
Definition float_mag (int frac : bytes) (exp : Z) : Z :=
  let i := strip_zeros int in
  match i with
  | _ :: _ => (Z.of_nat (length i) + exp)%Z
  | [] => (exp - Z.of_nat (length frac - length (strip_zeros frac)))%Z
  end.

(* serde_json rejects floats that overflow f64 ("number out of range").  The model
   rejects when the magnitude is clearly above the f64 range; the band 308..310 is
   not modelled (generators stay away from it; see DESIGN.md, trusted base). *)
Definition float_ok (int frac : bytes) (exp : Z) : bool :=
  if all_zero int && all_zero frac then true else (float_mag int frac exp <=? 309)%Z.

Definition exp_part (s : bytes) : res (Z * bytes * bytes) :=   (* exponent value, lexeme, rest *)
  match s with
  | e :: r =>
      if (e =? 101) || (e =? 69) then
        let '(sg, neg, r1) :=
          match r with
          | 43 :: r1 => ([43], false, r1)
          | 45 :: r1 => ([45], true, r1)
          | _ => ([], false, r)
          end in
        let '(d, r2) := take_digits r1 in
        match d with
        | [] => Err
        | _ => let v := Z.of_N (digits_val 0 d) in
               Ok ((if neg then - v else v)%Z, e :: sg ++ d, r2)
        end
      else Ok (0%Z, [], s)
  | [] => Ok (0%Z, [], s)
  end.

Definition sign_part (s : bytes) : bool * bytes :=
  match s with 45 :: r => (true, r) | _ => (false, s) end.

Definition int_part (s1 : bytes) : res (bytes * bytes) :=
  match s1 with
  | c :: r =>
      if c =? 48 then
        match r with
        | d :: _ => if is_digit d then Err else Ok ([48], r)
        | [] => Ok ([48], r)
        end
      else if is_digit c then let '(d, x) := take_digits r in Ok (c :: d, x)
      else Err
  | [] => Err
  end.

Definition frac_part (r1 : bytes) : res (bytes * bytes * bytes) :=   (* digits, lexeme, rest *)
  match r1 with
  | 46 :: r =>
      let '(d, x) := take_digits r in
      match d with [] => Err | _ => Ok (d, 46 :: d, x) end
  | _ => Ok ([], [], r1)
  end.

Definition num_value (strict neg : bool) (int frac fl : bytes) (ev : Z) (el r3 : bytes) : res (json * bytes) :=
  let lex := (if neg then [45] else []) ++ int ++ fl ++ el in
  match fl, el with
  | [], [] =>
      let n := digits_val 0 int in
      if neg then
        if (n =? 0) || (9223372036854775808 <? n)
        then (if float_ok int [] 0 || negb strict then Ok (JFloat lex, r3) else Err)
        else Ok (JInt (- Z.of_N n), r3)
      else
        if n <? 18446744073709551616 then Ok (JInt (Z.of_N n), r3)
        else (if float_ok int [] 0 || negb strict then Ok (JFloat lex, r3) else Err)
  | _, _ =>
      if float_ok int frac ev || negb strict then Ok (JFloat lex, r3) else Err
  end.

Definition parse_num (strict : bool) (s : bytes) : res (json * bytes) :=
  let '(neg, s1) := sign_part s in
  do (int, r1) <- int_part s1;
  do (frac, fl, r2) <- frac_part r1;
  do (ev, el, r3) <- exp_part r2;
  num_value strict neg int frac fl ev el r3.

Definition expect (p : bytes) (s : bytes) : res bytes :=
  match strip_prefix p s with Some r => Ok r | None => Err end.

(* values.  [depth] is serde_json's remaining_depth (128 at the top); lenient mode has no limit *)
Fixpoint parse_val (f : nat) (strict : bool) (depth : N) (s : bytes) {struct f} : res (json * bytes) :=
  match f with
  | O => Fuel
  | S f' =>
      match skip_ws s with
      | [] => Err
      | c :: r =>
          if c =? 110 then do r1 <- expect [117; 108; 108] r; Ok (JNull, r1)
          else if c =? 116 then do r1 <- expect [114; 117; 101] r; Ok (JBool true, r1)
          else if c =? 102 then do r1 <- expect [97; 108; 115; 101] r; Ok (JBool false, r1)
          else if c =? 34 then do (t, r1) <- parse_string strict r; Ok (JStr t, r1)
          else if (c =? 45) || is_digit c then parse_num strict (c :: r)
          else if c =? 91 then
            if strict && (depth <=? 1) then Err
            else match skip_ws r with
                 | 93 :: r1 => Ok (JArr [], r1)
                 | _ => parse_elems f' strict (depth - 1) r []
                 end
          else if c =? 123 then
            if strict && (depth <=? 1) then Err
            else match skip_ws r with
                 | 125 :: r1 => Ok (JObj [], r1)
                 | _ => parse_members f' strict (depth - 1) r []
                 end
          else Err
      end
  end
with parse_elems (f : nat) (strict : bool) (depth : N) (s : bytes) (acc : list json) {struct f}
  : res (json * bytes) :=
  match f with
  | O => Fuel
  | S f' =>
      do (v, r) <- parse_val f' strict depth s;
      match skip_ws r with
      | 44 :: r1 => parse_elems f' strict depth r1 (v :: acc)
      | 93 :: r1 => Ok (JArr (rev (v :: acc)), r1)
      | _ => Err
      end
  end
with parse_members (f : nat) (strict : bool) (depth : N) (s : bytes) (acc : list (bytes * json)) {struct f}
  : res (json * bytes) :=
  match f with
  | O => Fuel
  | S f' =>
      match skip_ws s with
      | 34 :: r0 =>
          do (k, r1) <- parse_string strict r0;
          match skip_ws r1 with
          | 58 :: r2 =>
              do (v, r3) <- parse_val f' strict depth r2;
              match skip_ws r3 with
              | 44 :: r4 => parse_members f' strict depth r4 ((k, v) :: acc)
              | 125 :: r4 => Ok (JObj (rev ((k, v) :: acc)), r4)
              | _ => Err
              end
          | _ => Err
          end
      | _ => Err
      end
  end.

Definition val_fuel (s : bytes) : nat := 2 * length s + 2.

(* a whole document: one value, then only whitespace *)
Definition parse_doc (strict : bool) (s : bytes) : res json :=
  do (v, r) <- parse_val (val_fuel s) strict 128 s;
  match skip_ws r with [] => Ok v | _ => Err end.

(* serde_json::from_slice::<Value> *)
Definition parse_value (s : bytes) : res json :=
  do v <- parse_doc true s; Ok (norm v).
