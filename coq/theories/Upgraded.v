(* The upgraded part of a connection, driven through handle(): the interface's call_upgraded is shown a buffer, consumes
   the complete records of its protocol and returns the incomplete last record as unread bytes; handle() returns those
   as the tail; the caller prepends the tail to what arrives next (varlink/src/lib.rs: handle's upgraded branch,
   VarlinkService::call_upgraded; the caller contract of test.rs / listen_multiplex).
   `unread_passed_on` says whether the bytes the interface returns reach handle()'s caller (regenerated: WireGen). *)
From Coq Require Import List NArith Lia Bool.
From VL Require Import Reader.
Import ListNotations.
Open Scope N_scope.

(* a record protocol: records end in NUL here (any delimiter would do); `react` is what the handler writes for a record *)
Section Upgraded.
  Variable react : bytes -> bytes.

  Definition out_of (ms : list bytes) : bytes := concat (map react ms).

  (* one call of the interface on buffer s: reaction to the complete records, and the unread rest (most recent byte first
     in `scan`'s partial: put back in order) *)
  Definition iface_call (s : bytes) : bytes * bytes :=
    let '(ms, cur) := scan [] s in (out_of ms, rev cur).

  (* one call of handle() in upgraded mode *)
  Definition handle_upgraded (unread_passed_on : bool) (s : bytes) : bytes * bytes :=
    let '(o, unread) := iface_call s in (o, if unread_passed_on then unread else []).

  (* the caller: tail kept between calls, prepended to the next chunk *)
  Fixpoint drive (p : bool) (tail : bytes) (chunks : list bytes) : bytes * bytes :=
    match chunks with
    | [] => ([], tail)
    | c :: r => let '(o, t) := handle_upgraded p (tail ++ c) in
                let '(o2, t2) := drive p t r in (o ++ o2, t2)
    end.

  Lemma scan_app cur a b : scan cur (a ++ b) =
    (fst (scan cur a) ++ fst (scan (snd (scan cur a)) b), snd (scan (snd (scan cur a)) b)).
  Proof.
    revert cur. induction a as [|x r IH]; intros cur; cbn [app scan fst snd].
    - destruct (scan cur b); reflexivity.
    - destruct (x =? 0).
      + rewrite (IH []). destruct (scan [] r) as [ms c']. cbn [fst snd]. reflexivity.
      + apply IH.
  Qed.

  Lemma scan_nonul cur s : forallb (fun x => negb (x =? 0)) s = true -> scan cur s = ([], rev s ++ cur).
  Proof.
    revert cur. induction s as [|x r IH]; intros cur H; cbn [scan forallb] in *; [reflexivity|].
    apply andb_true_iff in H. destruct H as [Hx Hr]. destruct (x =? 0); [discriminate|].
    rewrite IH by exact Hr. cbn [rev]. rewrite <- app_assoc. reflexivity.
  Qed.

  (* the partial record a scan leaves contains no delimiter *)
  Lemma partial_nonul c : forall cur, forallb (fun x => negb (x =? 0)) cur = true ->
    forallb (fun x => negb (x =? 0)) (snd (scan cur c)) = true.
  Proof.
    induction c as [|x r IH]; intros cur H; cbn [scan snd]; [exact H|].
    destruct (x =? 0) eqn:E.
    - specialize (IH [] eq_refl). destruct (scan [] r) as [ms c']. exact IH.
    - apply IH. cbn [forallb]. rewrite E. exact H.
  Qed.

  Lemma forallb_rev {A} (f : A -> bool) l : forallb f (rev l) = forallb f l.
  Proof.
    induction l as [|x r IH]; [reflexivity|]. cbn [rev forallb]. rewrite forallb_app, IH. cbn [forallb].
    rewrite andb_true_r. apply andb_comm.
  Qed.

  (* with the unread bytes passed on, the caller's chunking is invisible: output and final tail are those of one call on
     the whole stream *)
  Theorem tail_protocol_segmentation_independent chunks : forall tail,
    forallb (fun x => negb (x =? 0)) tail = true ->
    drive true tail chunks = (out_of (fst (scan (rev tail) (concat chunks))), rev (snd (scan (rev tail) (concat chunks)))).
  Proof.
    induction chunks as [|c r IH]; intros tail Ht; cbn [drive concat].
    - cbn [scan fst snd out_of map concat]. rewrite rev_involutive. reflexivity.
    - unfold handle_upgraded, iface_call.
      (* scanning tail ++ c from scratch = scanning c with the partial record (rev tail) *)
      assert (E : scan [] (tail ++ c) = scan (rev tail) c).
      { rewrite scan_app. rewrite (scan_nonul [] tail Ht). cbn [fst snd app]. rewrite app_nil_r.
        destruct (scan (rev tail) c); reflexivity. }
      rewrite E. destruct (scan (rev tail) c) as [ms cur] eqn:S1.
      assert (Hc : forallb (fun x => negb (x =? 0)) (rev cur) = true).
      { rewrite forallb_rev. pose proof (partial_nonul c (rev tail)) as P. rewrite S1 in P. cbn [snd] in P.
        apply P. rewrite forallb_rev. exact Ht. }
      rewrite (IH (rev cur) Hc). rewrite rev_involutive.
      rewrite scan_app. rewrite S1. cbn [fst snd].
      unfold out_of. rewrite map_app, concat_app. reflexivity.
  Qed.

  Corollary tail_protocol_whole a b : concat a = concat b -> drive true [] a = drive true [] b.
  Proof. intros H. rewrite !tail_protocol_segmentation_independent by reflexivity. rewrite H. reflexivity. Qed.
End Upgraded.

(* dropping the interface's unread bytes: a record cut by the chunking loses its first part *)
Example dropped_unread_loses_bytes :
  drive (fun m => 97 :: m ++ [0]) true [] [[1; 2]; [3; 0]] = ([97; 1; 2; 3; 0], []) /\
  drive (fun m => 97 :: m ++ [0]) false [] [[1; 2]; [3; 0]] = ([97; 3; 0], []).
Proof. split; reflexivity. Qed.
