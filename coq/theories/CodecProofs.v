(* Round trip of the typed codec: deserialising (dec) what was serialised (enc) gives the value back.

   PROVED in this file (everything below is fully proved):
     - dec_enc            : has_type e t v -> wf_env e -> wf_type_names t ->
                            exists f0, forall f >= f0, dec f e t (enc v) = Some v           (any typedef environment)
     - dec_enc_bound      : the same with the explicit bound 2 * vdepth v <= f, when no typedef is an alias of
                            another typedef name (no_alias e)
     - dec_top_enc_top    : parameter structs: dec_top f e fs (enc_top vs) = Some vs for all large f, under
                            top_ok fs vs (every INone sits at a syntactic TOpt field)
     - dec_top_enc_top_bound, dec_top_enc_top_structs : bounded version; version for environments that only
                            hold struct / enum typedefs (what an interface definition can declare), where top_ok
                            follows from typing
     - shape lemmas enc_enum, enc_set, enc_map, enc_struct_keys, enc_top_none_absent, enc_top_some_present ...
     - failure lemmas dec_top_missing_required, dec_top_bad_member (the invalid-parameter reply)

   Remarks on the side conditions:
     - struct field names must be pairwise distinct (wf_type_names, also for the typedefs: wf_env), because
       struct members are looked up by name (obj_get);
     - maps and sets are read member by member in source order, so no distinctness of map / set keys is needed;
     - ISome v with enc v = JNull is excluded by the typing judgement (it reads back as INone: see
       some_null_reads_unset);
     - typing alone does NOT force an INone at top level to sit at a syntactic TOpt field: a field of type
       TName n with n a typedef for an optional type allows INone, enc_top omits it, and dec (which only looks
       at the syntactic field type) then fails.  Hence the hypothesis top_ok, which is a consequence of typing
       when the environment holds struct / enum typedefs only (inone_at_opt). *)
From VL Require Import Base Json Idl Codec.
Open Scope N_scope.

(* ------------------------------------------------------------------ *)
(* the typing judgement                                                *)

Inductive has_type (e : env) : vtype -> ival -> Prop :=
| HT_bool b : has_type e TBool (IBool b)
| HT_int z : i64_ok z = true -> has_type e TInt (IInt z)
| HT_float lex : has_type e TFloat (IFloat lex)
| HT_str s : has_type e TString (IStr s)
| HT_obj j : has_type e TObject (IObj j)
| HT_name n t v : lookup e n = Some t -> has_type e t v -> has_type e (TName n) v
| HT_struct fs vs : fields_typed e fs vs -> has_type e (TStruct fs) (IStruct vs)
| HT_enum x es : existsb (beq_str x) es = true -> has_type e (TEnum es) (IEnum x)
| HT_arr t l : all_typed e t l -> has_type e (TArr t) (IArr l)
| HT_set k : has_type e (TDict (TStruct [])) (ISet k)
| HT_map t m : is_empty_struct t = false -> all_typed e t (map snd m) -> has_type e (TDict t) (IMap m)
| HT_none t : has_type e (TOpt t) INone
| HT_some t v : has_type e t v -> enc v <> JNull -> has_type e (TOpt t) (ISome v)
(* same field names in the same order, each value of its field's type *)
with fields_typed (e : env) : list (str * vtype) -> list (str * ival) -> Prop :=
| FT_nil : fields_typed e [] []
| FT_cons n t v fs vs : has_type e t v -> fields_typed e fs vs -> fields_typed e ((n, t) :: fs) ((n, v) :: vs)
(* every element of the list has the type *)
with all_typed (e : env) : vtype -> list ival -> Prop :=
| AT_nil t : all_typed e t []
| AT_cons t v l : has_type e t v -> all_typed e t l -> all_typed e t (v :: l).

Scheme has_type_mut := Minimality for has_type Sort Prop
  with fields_typed_mut := Minimality for fields_typed Sort Prop
  with all_typed_mut := Minimality for all_typed Sort Prop.
Combined Scheme has_type_mutind from has_type_mut, fields_typed_mut, all_typed_mut.

Lemma all_typed_Forall e t l : all_typed e t l <-> Forall (has_type e t) l.
Proof.
  split.
  - induction l as [|v l IH]; intros H; inversion H; subst; constructor; auto.
  - induction 1; constructor; auto.
Qed.

Lemma fields_typed_Forall2 e fs vs :
  fields_typed e fs vs <-> Forall2 (fun ft nv => fst ft = fst nv /\ has_type e (snd ft) (snd nv)) fs vs.
Proof.
  split.
  - revert vs. induction fs as [|[n t] fs IH]; intros vs H; inversion H; subst; constructor; auto.
  - induction 1 as [|[n t] [n' v] fs vs [E H] _ IH]; [constructor|]. simpl in *. subst. constructor; auto.
Qed.

Lemma fields_typed_names e fs vs : fields_typed e fs vs -> map fst fs = map fst vs.
Proof.
  revert vs. induction fs as [|[n t] fs IH]; intros vs H; inversion H; subst; simpl; [reflexivity|].
  f_equal. apply IH. assumption.
Qed.

(* ------------------------------------------------------------------ *)
(* side conditions                                                     *)

(* the field names of every struct type that occurs are pairwise distinct *)
Fixpoint wf_type_names (t : vtype) : Prop :=
  match t with
  | TStruct fs =>
      NoDup (map fst fs) /\
      (fix go (fs : list (str * vtype)) : Prop :=
         match fs with [] => True | (_, ft) :: r => wf_type_names ft /\ go r end) fs
  | TArr t' | TDict t' | TOpt t' => wf_type_names t'
  | _ => True
  end.

Definition wf_fields : list (str * vtype) -> Prop :=
  fix go (fs : list (str * vtype)) : Prop :=
    match fs with [] => True | (_, ft) :: r => wf_type_names ft /\ go r end.

Lemma wf_struct fs : wf_type_names (TStruct fs) = (NoDup (map fst fs) /\ wf_fields fs).
Proof. reflexivity. Qed.

Lemma wf_fields_Forall fs : wf_fields fs <-> Forall (fun ft => wf_type_names (snd ft)) fs.
Proof.
  induction fs as [|[n t] fs IH]; simpl.
  - split; auto.
  - split.
    + intros [H1 H2]. constructor; [exact H1|apply IH; exact H2].
    + intros H. inversion H; subst. split; [assumption|apply IH; assumption].
Qed.

(* every typedef that can be reached is well formed *)
Definition wf_env (e : env) : Prop := forall n t, lookup e n = Some t -> wf_type_names t.

Lemma wf_env_Forall e : Forall (fun p => wf_type_names (snd p)) e -> wf_env e.
Proof.
  intros H n t. induction H as [|[k t0] e H0 _ IH]; simpl; [discriminate|].
  destruct (beq_str n k); [|exact IH]. intros E. inversion E; subst. exact H0.
Qed.

(* a boolean checker for the side conditions *)
Fixpoint nodupb (l : list str) : bool :=
  match l with [] => true | x :: r => negb (existsb (beq_str x) r) && nodupb r end.

Lemma beq_str_eq a : forall b, beq_str a b = true <-> a = b.
Proof.
  induction a as [|x a IH]; intros [|y b]; simpl; split; intros H; try congruence; try reflexivity.
  - apply andb_true_iff in H. destruct H as [H1 H2]. apply N.eqb_eq in H1. apply IH in H2. congruence.
  - inversion H; subst. rewrite N.eqb_refl. simpl. apply IH. reflexivity.
Qed.

Lemma nodupb_NoDup l : nodupb l = true -> NoDup l.
Proof.
  induction l as [|x l IH]; simpl; intros H; [constructor|].
  apply andb_true_iff in H. destruct H as [H1 H2]. constructor; [|apply IH; exact H2].
  intros Hin. apply negb_true_iff in H1.
  assert (existsb (beq_str x) l = true); [|congruence].
  apply existsb_exists. exists x. split; [exact Hin|]. apply beq_str_eq. reflexivity.
Qed.

Fixpoint wf_type_namesb (t : vtype) : bool :=
  match t with
  | TStruct fs =>
      nodupb (map fst fs) &&
      (fix go (fs : list (str * vtype)) : bool :=
         match fs with [] => true | (_, ft) :: r => wf_type_namesb ft && go r end) fs
  | TArr t' | TDict t' | TOpt t' => wf_type_namesb t'
  | _ => true
  end.

Definition wf_envb (e : env) : bool := forallb (fun p => wf_type_namesb (snd p)) e.

(* induction over types, through the field lists *)
Fixpoint vtype_ind' (P : vtype -> Prop)
  (Hb : P TBool) (Hi : P TInt) (Hf : P TFloat) (Hs : P TString) (Ho : P TObject)
  (Hn : forall n, P (TName n))
  (Hst : forall fs, Forall (fun ft => P (snd ft)) fs -> P (TStruct fs))
  (He : forall es, P (TEnum es))
  (Ha : forall t, P t -> P (TArr t)) (Hd : forall t, P t -> P (TDict t)) (Hop : forall t, P t -> P (TOpt t))
  (t : vtype) {struct t} : P t :=
  match t with
  | TBool => Hb | TInt => Hi | TFloat => Hf | TString => Hs | TObject => Ho
  | TName n => Hn n
  | TStruct fs =>
      Hst fs ((fix go (fs : list (str * vtype)) : Forall (fun ft => P (snd ft)) fs :=
                 match fs with
                 | [] => Forall_nil _
                 | ft :: r => Forall_cons ft (vtype_ind' P Hb Hi Hf Hs Ho Hn Hst He Ha Hd Hop (snd ft)) (go r)
                 end) fs)
  | TEnum es => He es
  | TArr t' => Ha t' (vtype_ind' P Hb Hi Hf Hs Ho Hn Hst He Ha Hd Hop t')
  | TDict t' => Hd t' (vtype_ind' P Hb Hi Hf Hs Ho Hn Hst He Ha Hd Hop t')
  | TOpt t' => Hop t' (vtype_ind' P Hb Hi Hf Hs Ho Hn Hst He Ha Hd Hop t')
  end.

Lemma wf_type_namesb_ok t : wf_type_namesb t = true -> wf_type_names t.
Proof.
  induction t using vtype_ind'; simpl; auto.
  intros E. apply andb_true_iff in E. destruct E as [E1 E2]. split; [apply nodupb_NoDup; exact E1|].
  induction H as [|[n t] fs H0 _ IH]; [exact I|].
  apply andb_true_iff in E2. destruct E2 as [E2 E3]. simpl in E1.
  apply andb_true_iff in E1. destruct E1 as [_ E1].
  split; [apply H0; exact E2|apply IH; assumption].
Qed.

Lemma wf_envb_ok e : wf_envb e = true -> wf_env e.
Proof.
  intros H. apply wf_env_Forall. unfold wf_envb in H. rewrite forallb_forall in H.
  apply Forall_forall. intros p Hp. apply wf_type_namesb_ok. apply H. exact Hp.
Qed.

(* ------------------------------------------------------------------ *)
(* the loops inside dec, named                                         *)

Definition field_dec (f : nat) (e : env) (m : list (bytes * json)) (n : str) (ft : vtype) : option ival :=
  match obj_get n m with
  | Some x => dec f e ft x
  | None => match ft with TOpt _ => Some INone | _ => None end
  end.

Definition dec_fields (f : nat) (e : env) (m : list (bytes * json)) : list (str * vtype) -> option (list (str * ival)) :=
  fix go (fs : list (str * vtype)) : option (list (str * ival)) :=
    match fs with
    | [] => Some []
    | (n, ft) :: r =>
        match field_dec f e m n ft, go r with
        | Some v, Some vs => Some ((n, v) :: vs)
        | _, _ => None
        end
    end.

Definition dec_list (f : nat) (e : env) (t : vtype) : list json -> option (list ival) :=
  fix go (l : list json) : option (list ival) :=
    match l with
    | [] => Some []
    | x :: r => match dec f e t x, go r with Some v, Some vs => Some (v :: vs) | _, _ => None end
    end.

Definition dec_members (f : nat) (e : env) (t : vtype) : list (bytes * json) -> option (list (bytes * ival)) :=
  fix go (m : list (bytes * json)) : option (list (bytes * ival)) :=
    match m with
    | [] => Some []
    | (k, x) :: r => match dec f e t x, go r with Some v, Some vs => Some ((k, v) :: vs) | _, _ => None end
    end.

Lemma dec_struct f e fs m : dec (S f) e (TStruct fs) (JObj m) = option_map IStruct (dec_fields f e m fs).
Proof. reflexivity. Qed.

Lemma dec_arr f e t l : dec (S f) e (TArr t) (JArr l) = option_map IArr (dec_list f e t l).
Proof. reflexivity. Qed.

Lemma dec_dict f e t m :
  dec (S f) e (TDict t) (JObj m) =
  if is_empty_struct t then Some (ISet (map fst m)) else option_map IMap (dec_members f e t m).
Proof. reflexivity. Qed.

Lemma dec_name f e n j : dec (S f) e (TName n) j = match lookup e n with Some t => dec f e t j | None => None end.
Proof. reflexivity. Qed.

Lemma dec_opt_nonnull f e t j : j <> JNull -> dec (S f) e (TOpt t) j = option_map ISome (dec f e t j).
Proof. intros H. destruct j; try reflexivity. congruence. Qed.

Lemma dec_fields_cons f e m n ft r :
  dec_fields f e m ((n, ft) :: r) =
  match field_dec f e m n ft, dec_fields f e m r with
  | Some v, Some vs => Some ((n, v) :: vs)
  | _, _ => None
  end.
Proof. reflexivity. Qed.

Lemma dec_fields_ok f e m : forall fs vs,
  Forall2 (fun ft nv => fst ft = fst nv /\ field_dec f e m (fst ft) (snd ft) = Some (snd nv)) fs vs ->
  dec_fields f e m fs = Some vs.
Proof.
  induction 1 as [|[n t] [n' v] fs vs [E H] _ IH]; [reflexivity|].
  simpl in E, H. subst n'. rewrite dec_fields_cons, H, IH. reflexivity.
Qed.

Lemma dec_list_ok f e t : forall l,
  Forall (fun v => dec f e t (enc v) = Some v) l -> dec_list f e t (map enc l) = Some l.
Proof.
  induction 1 as [|v l H _ IH]; [reflexivity|].
  cbn [map dec_list]. fold (dec_list f e t). rewrite H, IH. reflexivity.
Qed.

Lemma dec_members_ok f e t : forall m,
  Forall (fun v => dec f e t (enc v) = Some v) (map snd m) ->
  dec_members f e t (map (fun kv => (fst kv, enc (snd kv))) m) = Some m.
Proof.
  induction m as [|[k v] m IH]; intros H; [reflexivity|].
  inversion H; subst.
  cbn [map dec_members fst snd]. fold (dec_members f e t). rewrite H2, IH by assumption. reflexivity.
Qed.

(* ------------------------------------------------------------------ *)
(* looking members up in what enc / enc_top wrote                      *)

Definition top_members (vs : list (str * ival)) : list (bytes * json) :=
  flat_map (fun nv => match snd nv with INone => [] | x => [(fst nv, enc x)] end) vs.

Lemma enc_top_members vs : enc_top vs = JObj (top_members vs).
Proof. reflexivity. Qed.

Lemma obj_get_enc_fields : forall (vs : list (str * ival)) (n : str) v,
  NoDup (map fst vs) -> In (n, v) vs ->
  obj_get n (map (fun nv : str * ival => (fst nv, enc (snd nv))) vs) = Some (enc v).
Proof.
  induction vs as [|[k w] vs IH]; intros n v ND Hin; [contradiction|].
  cbn [map fst snd obj_get] in *. inversion ND; subst.
  destruct Hin as [E|Hin].
  - inversion E; subst. rewrite beq_bytes_refl. reflexivity.
  - destruct (beq_bytes_spec n k) as [->|_].
    + exfalso. apply H1. apply (in_map fst) in Hin. exact Hin.
    + apply IH; assumption.
Qed.

Lemma top_members_keys vs n : In n (map fst (top_members vs)) -> In n (map fst vs).
Proof.
  induction vs as [|[k w] vs IH]; [auto|].
  unfold top_members. cbn [flat_map fst snd map]. fold (top_members vs).
  rewrite map_app, in_app_iff. intros [H|H].
  - left. destruct w; simpl in H; try contradiction; destruct H as [H|[]]; exact H.
  - right. apply IH. exact H.
Qed.

Lemma obj_get_absent n : forall m, ~ In n (map fst m) -> obj_get n m = None.
Proof.
  induction m as [|[k x] m IH]; intros H; [reflexivity|].
  cbn [obj_get]. destruct (beq_bytes_spec n k) as [->|_].
  - exfalso. apply H. left. reflexivity.
  - apply IH. intros H1. apply H. right. exact H1.
Qed.

Lemma top_members_cons k w vs :
  top_members ((k, w) :: vs) = match w with INone => [] | x => [(k, enc x)] end ++ top_members vs.
Proof. destruct w; reflexivity. Qed.

Lemma obj_get_top_none : forall vs n,
  NoDup (map fst vs) -> In (n, INone) vs -> obj_get n (top_members vs) = None.
Proof.
  induction vs as [|[k w] vs IH]; intros n ND Hin; [contradiction|].
  cbn [map fst] in ND. inversion ND; subst. rewrite top_members_cons.
  destruct Hin as [E|Hin].
  - inversion E; subst. cbn [app]. apply obj_get_absent. intros H. apply H1. apply top_members_keys. exact H.
  - assert (Hne : n <> k).
    { intros ->. apply H1. apply (in_map fst) in Hin. exact Hin. }
    assert (IH' := IH n H2 Hin).
    destruct w; cbn [app obj_get]; try exact IH';
      (destruct (beq_bytes_spec n k) as [->|_]; [congruence|exact IH']).
Qed.

Lemma obj_get_top_some : forall vs n v,
  NoDup (map fst vs) -> In (n, v) vs -> v <> INone -> obj_get n (top_members vs) = Some (enc v).
Proof.
  induction vs as [|[k w] vs IH]; intros n v ND Hin Hv; [contradiction|].
  cbn [map fst] in ND. inversion ND; subst. rewrite top_members_cons.
  destruct Hin as [E|Hin].
  - inversion E; subst.
    destruct v; try congruence; cbn [app obj_get]; rewrite beq_bytes_refl; reflexivity.
  - assert (Hne : n <> k).
    { intros ->. apply H1. apply (in_map fst) in Hin. exact Hin. }
    assert (IH' := IH n v H2 Hin Hv).
    destruct w; cbn [app obj_get]; try exact IH';
      (destruct (beq_bytes_spec n k) as [->|_]; [congruence|exact IH']).
Qed.

(* ------------------------------------------------------------------ *)
(* shape lemmas                                                        *)

Lemma enc_enum x : enc (IEnum x) = JStr x.
Proof. reflexivity. Qed.

Lemma enc_set k : enc (ISet k) = JObj (map (fun x => (x, JObj [])) k).
Proof. reflexivity. Qed.

Lemma enc_map m : enc (IMap m) = JObj (map (fun kv => (fst kv, enc (snd kv))) m).
Proof. reflexivity. Qed.

Lemma enc_arr l : enc (IArr l) = JArr (map enc l).
Proof. reflexivity. Qed.

Lemma enc_struct vs : enc (IStruct vs) = JObj (map (fun nv => (fst nv, enc (snd nv))) vs).
Proof. reflexivity. Qed.

Lemma enc_struct_keys vs : exists m, enc (IStruct vs) = JObj m /\ map fst m = map fst vs.
Proof.
  eexists. split; [reflexivity|]. rewrite map_map. apply map_ext. reflexivity.
Qed.

Lemma enc_set_keys k : exists m, enc (ISet k) = JObj m /\ map fst m = k /\ Forall (fun kv => snd kv = JObj []) m.
Proof.
  eexists. split; [reflexivity|]. split.
  - rewrite map_map. cbn [fst]. apply map_id.
  - apply Forall_forall. intros kv H. apply in_map_iff in H. destruct H as (x & <- & _). reflexivity.
Qed.

Lemma enc_map_keys m : exists o, enc (IMap m) = JObj o /\ map fst o = map fst m.
Proof.
  eexists. split; [reflexivity|]. rewrite map_map. apply map_ext. reflexivity.
Qed.

(* in enc_top a member whose value is INone does not occur *)
Lemma enc_top_none_absent vs n :
  NoDup (map fst vs) -> In (n, INone) vs ->
  exists m, enc_top vs = JObj m /\ ~ In n (map fst m) /\ obj_get n m = None.
Proof.
  intros ND Hin. exists (top_members vs). split; [reflexivity|].
  assert (G : obj_get n (top_members vs) = None) by (apply obj_get_top_none; assumption).
  split; [|exact G].
  intros H. revert G. generalize (top_members vs) H. clear.
  induction l as [|[k x] l IH]; intros H; [contradiction|].
  cbn [obj_get]. destruct (beq_bytes_spec n k) as [->|Hne]; [discriminate|].
  destruct H as [H|H]; [simpl in H; congruence|]. apply IH. exact H.
Qed.

(* ... and a member whose value is ISome v occurs with enc v *)
Lemma enc_top_some_present vs n v :
  In (n, ISome v) vs -> exists m, enc_top vs = JObj m /\ In (n, enc v) m.
Proof.
  intros Hin. exists (top_members vs). split; [reflexivity|].
  unfold top_members. apply in_flat_map. exists (n, ISome v). split; [exact Hin|]. left. reflexivity.
Qed.

Lemma enc_top_some_get vs n v :
  NoDup (map fst vs) -> In (n, ISome v) vs ->
  exists m, enc_top vs = JObj m /\ obj_get n m = Some (enc v).
Proof.
  intros ND Hin. exists (top_members vs). split; [reflexivity|].
  apply (obj_get_top_some vs n (ISome v)); [assumption|assumption|discriminate].
Qed.

(* every other member occurs with its encoding *)
Lemma enc_top_present vs n v :
  In (n, v) vs -> v <> INone -> exists m, enc_top vs = JObj m /\ In (n, enc v) m.
Proof.
  intros Hin Hv. exists (top_members vs). split; [reflexivity|].
  unfold top_members. apply in_flat_map. exists (n, v). split; [exact Hin|].
  destruct v; try congruence; left; reflexivity.
Qed.

(* the keys of enc_top are the names whose value is set *)
Lemma enc_top_keys vs :
  map fst (top_members vs) =
  map fst (filter (fun nv => match snd nv with INone => false | _ => true end) vs).
Proof.
  induction vs as [|[k w] vs IH]; [reflexivity|].
  rewrite top_members_cons. destruct w; cbn [app map filter fst snd]; rewrite IH; reflexivity.
Qed.

(* the excluded class: a Some that serialises to null reads back as unset *)
Example some_null_reads_unset f e :
  dec (S f) e (TOpt TObject) (enc (ISome (IObj JNull))) = Some INone.
Proof. reflexivity. Qed.

(* ------------------------------------------------------------------ *)
(* round trip, any environment                                         *)

Definition fields_rt (f : nat) (e : env) (fs : list (str * vtype)) (vs : list (str * ival)) : Prop :=
  Forall2 (fun ft nv => fst ft = fst nv /\ dec f e (snd ft) (enc (snd nv)) = Some (snd nv)) fs vs.

Lemma Forall2_impl_in {A B} (R R' : A -> B -> Prop) : forall l1 l2,
  Forall2 R l1 l2 -> (forall a b, In a l1 -> In b l2 -> R a b -> R' a b) -> Forall2 R' l1 l2.
Proof.
  induction 1 as [|a b l1 l2 H _ IH]; intros HI; constructor.
  - apply HI; [left; reflexivity|left; reflexivity|exact H].
  - apply IH. intros a' b' Ha Hb. apply HI; right; assumption.
Qed.

Lemma fields_rt_names f e fs vs : fields_rt f e fs vs -> map fst fs = map fst vs.
Proof.
  induction 1 as [|ft nv fs vs [E _] _ IH]; [reflexivity|]. simpl. congruence.
Qed.

(* a struct value inside a value: every member is written *)
Lemma dec_struct_rt f e fs vs :
  NoDup (map fst fs) -> fields_rt f e fs vs ->
  dec (S f) e (TStruct fs) (enc (IStruct vs)) = Some (IStruct vs).
Proof.
  intros ND H. rewrite enc_struct, dec_struct.
  rewrite (dec_fields_ok f e _ fs vs); [reflexivity|].
  assert (ND' : NoDup (map fst vs)) by (rewrite <- (fields_rt_names _ _ _ _ H); exact ND).
  apply (Forall2_impl_in _ _ _ _ H). intros [n t] [n' v] _ Hin [E D]. simpl in E, D. subst n'.
  split; [reflexivity|]. cbn [fst snd]. unfold field_dec.
  rewrite (obj_get_enc_fields vs n v ND' Hin). exact D.
Qed.

(* every INone sits at a syntactic optional field *)
Definition is_topt (t : vtype) : bool := match t with TOpt _ => true | _ => false end.
Definition top_ok (fs : list (str * vtype)) (vs : list (str * ival)) : Prop :=
  Forall2 (fun ft nv => snd nv = INone -> is_topt (snd ft) = true) fs vs.

Lemma Forall2_and {A B} (R R' : A -> B -> Prop) : forall l1 l2,
  Forall2 R l1 l2 -> Forall2 R' l1 l2 -> Forall2 (fun a b => R a b /\ R' a b) l1 l2.
Proof.
  induction 1; intros H'; inversion H'; subst; constructor; auto.
Qed.

(* a parameter struct: unset members are omitted *)
Lemma dec_top_rt f e fs vs :
  NoDup (map fst fs) -> top_ok fs vs -> fields_rt f e fs vs ->
  dec_top (S f) e fs (enc_top vs) = Some vs.
Proof.
  intros ND TO H. unfold dec_top. rewrite enc_top_members, dec_struct.
  rewrite (dec_fields_ok f e _ fs vs); [reflexivity|].
  assert (ND' : NoDup (map fst vs)) by (rewrite <- (fields_rt_names _ _ _ _ H); exact ND).
  apply (Forall2_impl_in _ _ _ _ (Forall2_and _ _ _ _ H TO)).
  intros [n t] [n' v] _ Hin [[E D] O]. simpl in E, D, O. subst n'.
  split; [reflexivity|]. cbn [fst snd]. unfold field_dec.
  destruct v;
    try (rewrite (obj_get_top_some vs n _ ND' Hin) by discriminate; exact D).
  rewrite (obj_get_top_none vs n ND' Hin).
  destruct t; try (specialize (O eq_refl); discriminate). reflexivity.
Qed.

Section RoundTrip.
  Variable e : env.
  Hypothesis He : wf_env e.

  Lemma dec_enc_mut :
    (forall t v, has_type e t v -> wf_type_names t ->
       exists f0, forall f, (f0 <= f)%nat -> dec f e t (enc v) = Some v) /\
    (forall fs vs, fields_typed e fs vs -> wf_fields fs ->
       exists f0, forall f, (f0 <= f)%nat -> fields_rt f e fs vs) /\
    (forall t l, all_typed e t l -> wf_type_names t ->
       exists f0, forall f, (f0 <= f)%nat -> Forall (fun v => dec f e t (enc v) = Some v) l).
  Proof.
    apply has_type_mutind.
    - (* bool *) intros b _. exists 1%nat. intros [|f] Hf; [lia|reflexivity].
    - (* int *) intros z Hz _. exists 1%nat. intros [|f] Hf; [lia|]. cbn [enc dec]. rewrite Hz. reflexivity.
    - (* float *) intros lex _. exists 1%nat. intros [|f] Hf; [lia|reflexivity].
    - (* string *) intros s _. exists 1%nat. intros [|f] Hf; [lia|reflexivity].
    - (* object *) intros j _. exists 1%nat. intros [|f] Hf; [lia|reflexivity].
    - (* typedef name *)
      intros n t v Hl _ IH _. destruct (IH (He n t Hl)) as [f0 H0]. exists (S f0).
      intros [|f] Hf; [lia|]. rewrite dec_name, Hl. apply H0. lia.
    - (* struct *)
      intros fs vs _ IH W. rewrite wf_struct in W. destruct W as [ND W].
      destruct (IH W) as [f0 H0]. exists (S f0).
      intros [|f] Hf; [lia|]. apply dec_struct_rt; [exact ND|]. apply H0. lia.
    - (* enum *)
      intros x es Hx _. exists 1%nat. intros [|f] Hf; [lia|]. cbn [enc dec]. rewrite Hx. reflexivity.
    - (* array *)
      intros t l _ IH W. destruct (IH W) as [f0 H0]. exists (S f0).
      intros [|f] Hf; [lia|]. rewrite enc_arr, dec_arr, dec_list_ok; [reflexivity|]. apply H0. lia.
    - (* set *)
      intros k _. exists 1%nat. intros [|f] Hf; [lia|]. rewrite enc_set, dec_dict. cbn [is_empty_struct].
      rewrite map_map. cbn [fst]. rewrite map_id. reflexivity.
    - (* map *)
      intros t m Ht _ IH W. destruct (IH W) as [f0 H0]. exists (S f0).
      intros [|f] Hf; [lia|]. rewrite enc_map, dec_dict, Ht, dec_members_ok; [reflexivity|]. apply H0. lia.
    - (* none *) intros t _. exists 1%nat. intros [|f] Hf; [lia|reflexivity].
    - (* some *)
      intros t v _ IH Hn W. destruct (IH W) as [f0 H0]. exists (S f0).
      intros [|f] Hf; [lia|]. cbn [enc]. rewrite dec_opt_nonnull by exact Hn. rewrite H0 by lia. reflexivity.
    - (* no field *) intros _. exists 0%nat. intros f _. constructor.
    - (* one more field *)
      intros n t v fs vs _ IH1 _ IH2 [W1 W2].
      destruct (IH1 W1) as [f1 H1]. destruct (IH2 W2) as [f2 H2]. exists (Nat.max f1 f2).
      intros f Hf. constructor; [split; [reflexivity|]; apply H1; lia|apply H2; lia].
    - (* no element *) intros t _. exists 0%nat. intros f _. constructor.
    - (* one more element *)
      intros t v l _ IH1 _ IH2 W.
      destruct (IH1 W) as [f1 H1]. destruct (IH2 W) as [f2 H2]. exists (Nat.max f1 f2).
      intros f Hf. constructor; [apply H1; lia|apply H2; lia].
  Qed.
End RoundTrip.

Theorem dec_enc : forall e t v,
  has_type e t v -> wf_env e -> wf_type_names t ->
  exists f0, forall f, (f0 <= f)%nat -> dec f e t (enc v) = Some v.
Proof.
  intros e t v H He W. exact (proj1 (dec_enc_mut e He) t v H W).
Qed.

Theorem dec_top_enc_top : forall e fs vs,
  fields_typed e fs vs -> wf_env e -> wf_type_names (TStruct fs) -> top_ok fs vs ->
  exists f0, forall f, (f0 <= f)%nat -> dec_top f e fs (enc_top vs) = Some vs.
Proof.
  intros e fs vs H He W TO. rewrite wf_struct in W. destruct W as [ND W].
  destruct (proj1 (proj2 (dec_enc_mut e He)) fs vs H W) as [f0 H0]. exists (S f0).
  intros [|f] Hf; [lia|]. apply dec_top_rt; [exact ND|exact TO|]. apply H0. lia.
Qed.

(* ------------------------------------------------------------------ *)
(* round trip with an explicit fuel bound, when no typedef is an alias *)

Definition is_tname (t : vtype) : bool := match t with TName _ => true | _ => false end.
Definition no_alias (e : env) : Prop := forall n t, lookup e n = Some t -> is_tname t = false.

Lemma no_alias_Forall e : Forall (fun p => is_tname (snd p) = false) e -> no_alias e.
Proof.
  intros H n t. induction H as [|[k t0] e H0 _ IH]; simpl; [discriminate|].
  destruct (beq_str n k); [|exact IH]. intros E. inversion E; subst. exact H0.
Qed.

Fixpoint vdepth (v : ival) : nat :=
  match v with
  | IStruct fs => S ((fix go (fs : list (str * ival)) : nat :=
                        match fs with [] => O | (_, x) :: r => Nat.max (vdepth x) (go r) end) fs)
  | IArr l => S ((fix go (l : list ival) : nat :=
                    match l with [] => O | x :: r => Nat.max (vdepth x) (go r) end) l)
  | IMap m => S ((fix go (m : list (bytes * ival)) : nat :=
                    match m with [] => O | (_, x) :: r => Nat.max (vdepth x) (go r) end) m)
  | ISome x => S (vdepth x)
  | _ => 1%nat
  end.

Definition vdepth_fields : list (str * ival) -> nat :=
  fix go (fs : list (str * ival)) : nat :=
    match fs with [] => O | (_, x) :: r => Nat.max (vdepth x) (go r) end.
Definition vdepth_list : list ival -> nat :=
  fix go (l : list ival) : nat := match l with [] => O | x :: r => Nat.max (vdepth x) (go r) end.

Lemma vdepth_struct vs : vdepth (IStruct vs) = S (vdepth_fields vs).
Proof. reflexivity. Qed.
Lemma vdepth_arr l : vdepth (IArr l) = S (vdepth_list l).
Proof. reflexivity. Qed.
Lemma vdepth_map m : vdepth (IMap m) = S (vdepth_list (map snd m)).
Proof.
  cbn [vdepth]. f_equal. induction m as [|[k x] m IH]; [reflexivity|].
  cbn [map snd vdepth_list]. fold vdepth_list. rewrite <- IH. reflexivity.
Qed.

Lemma vdepth_pos v : (1 <= vdepth v)%nat.
Proof. destruct v; cbn [vdepth]; lia. Qed.

Definition need (t : vtype) (v : ival) : nat :=
  if is_tname t then (2 * vdepth v)%nat else (2 * vdepth v - 1)%nat.

Lemma need_le t v : (need t v <= 2 * vdepth v)%nat.
Proof. unfold need. destruct (is_tname t); lia. Qed.

Section Bounded.
  Variable e : env.
  Hypothesis He : wf_env e.
  Hypothesis Ha : no_alias e.

  Lemma dec_enc_bound_mut :
    (forall t v, has_type e t v -> wf_type_names t ->
       forall f, (need t v <= f)%nat -> dec f e t (enc v) = Some v) /\
    (forall fs vs, fields_typed e fs vs -> wf_fields fs ->
       forall f, (2 * vdepth_fields vs <= f)%nat -> fields_rt f e fs vs) /\
    (forall t l, all_typed e t l -> wf_type_names t ->
       forall f, (2 * vdepth_list l <= f)%nat -> Forall (fun v => dec f e t (enc v) = Some v) l).
  Proof.
    apply has_type_mutind; unfold need.
    - intros b _ [|f] Hf; [cbn in Hf; lia|reflexivity].
    - intros z Hz _ [|f] Hf; [cbn in Hf; lia|]. cbn [enc dec]. rewrite Hz. reflexivity.
    - intros lex _ [|f] Hf; [cbn in Hf; lia|reflexivity].
    - intros s _ [|f] Hf; [cbn in Hf; lia|reflexivity].
    - intros j _ [|f] Hf; [cbn in Hf; lia|reflexivity].
    - (* typedef name *)
      intros n t v Hl _ IH _ f Hf. cbn [is_tname] in Hf. pose proof (vdepth_pos v).
      destruct f as [|f]; [lia|]. rewrite dec_name, Hl. apply IH; [exact (He n t Hl)|].
      rewrite (Ha n t Hl). lia.
    - (* struct *)
      intros fs vs _ IH W f Hf. rewrite wf_struct in W. destruct W as [ND W].
      cbn [is_tname] in Hf. rewrite vdepth_struct in Hf.
      destruct f as [|f]; [lia|]. apply dec_struct_rt; [exact ND|]. apply IH; [exact W|lia].
    - intros x es Hx _ [|f] Hf; [cbn in Hf; lia|]. cbn [enc dec]. rewrite Hx. reflexivity.
    - (* array *)
      intros t l _ IH W f Hf. cbn [is_tname] in Hf. rewrite vdepth_arr in Hf.
      destruct f as [|f]; [lia|]. rewrite enc_arr, dec_arr, dec_list_ok; [reflexivity|]. apply IH; [exact W|lia].
    - (* set *)
      intros k _ [|f] Hf; [cbn in Hf; lia|]. rewrite enc_set, dec_dict. cbn [is_empty_struct].
      rewrite map_map. cbn [fst]. rewrite map_id. reflexivity.
    - (* map *)
      intros t m Ht _ IH W f Hf. cbn [is_tname] in Hf. rewrite vdepth_map in Hf.
      destruct f as [|f]; [lia|]. rewrite enc_map, dec_dict, Ht, dec_members_ok; [reflexivity|].
      apply IH; [exact W|lia].
    - intros t _ [|f] Hf; [cbn in Hf; lia|reflexivity].
    - (* some *)
      intros t v _ IH Hn W f Hf. cbn [is_tname vdepth] in Hf.
      destruct f as [|f]; [lia|]. cbn [enc]. rewrite dec_opt_nonnull by exact Hn.
      rewrite IH; [reflexivity|exact W|]. destruct (is_tname t); lia.
    - intros _ f _. constructor.
    - intros n t v fs vs _ IH1 _ IH2 [W1 W2] f Hf. cbn [vdepth_fields] in Hf. fold vdepth_fields in Hf.
      constructor.
      + split; [reflexivity|]. apply IH1; [exact W1|]. cbn [snd]. destruct (is_tname t); lia.
      + apply IH2; [exact W2|lia].
    - intros t _ f _. constructor.
    - intros t v l _ IH1 _ IH2 W f Hf. cbn [vdepth_list] in Hf. fold vdepth_list in Hf.
      constructor.
      + apply IH1; [exact W|]. destruct (is_tname t); lia.
      + apply IH2; [exact W|lia].
  Qed.
End Bounded.

Theorem dec_enc_bound : forall e t v,
  has_type e t v -> wf_env e -> no_alias e -> wf_type_names t ->
  forall f, (2 * vdepth v <= f)%nat -> dec f e t (enc v) = Some v.
Proof.
  intros e t v H He Ha W f Hf. apply (proj1 (dec_enc_bound_mut e He Ha) t v H W).
  pose proof (need_le t v). lia.
Qed.

Theorem dec_top_enc_top_bound : forall e fs vs,
  fields_typed e fs vs -> wf_env e -> no_alias e -> wf_type_names (TStruct fs) -> top_ok fs vs ->
  forall f, (2 * vdepth (IStruct vs) <= f)%nat -> dec_top f e fs (enc_top vs) = Some vs.
Proof.
  intros e fs vs H He Ha W TO f Hf. rewrite wf_struct in W. destruct W as [ND W].
  rewrite vdepth_struct in Hf. destruct f as [|f]; [lia|].
  apply dec_top_rt; [exact ND|exact TO|].
  apply (proj1 (proj2 (dec_enc_bound_mut e He Ha)) fs vs H W). lia.
Qed.

(* ------------------------------------------------------------------ *)
(* environments of an interface definition: struct and enum typedefs   *)

Definition is_struct_or_enum (t : vtype) : bool :=
  match t with TStruct _ | TEnum _ => true | _ => false end.
Definition env_structs (e : env) : Prop := forall n t, lookup e n = Some t -> is_struct_or_enum t = true.

Lemma env_structs_Forall e : Forall (fun p => is_struct_or_enum (snd p) = true) e -> env_structs e.
Proof.
  intros H n t. induction H as [|[k t0] e H0 _ IH]; simpl; [discriminate|].
  destruct (beq_str n k); [|exact IH]. intros E. inversion E; subst. exact H0.
Qed.

Lemma env_structs_no_alias e : env_structs e -> no_alias e.
Proof. intros H n t Hl. specialize (H n t Hl). destruct t; try discriminate; reflexivity. Qed.

(* typing then puts every INone at a syntactic optional *)
Lemma inone_at_opt e t : env_structs e -> has_type e t INone -> is_topt t = true.
Proof.
  intros He H. inversion H; subst; [|reflexivity].
  specialize (He _ _ H0). destruct t0; try discriminate; inversion H1.
Qed.

Lemma top_ok_of_typing e fs vs : env_structs e -> fields_typed e fs vs -> top_ok fs vs.
Proof.
  intros He H. apply fields_typed_Forall2 in H. unfold top_ok.
  apply (Forall2_impl_in _ _ _ _ H). intros [n t] [n' v] _ _ [_ Ht] Hv. simpl in *. subst v.
  exact (inone_at_opt e t He Ht).
Qed.

Theorem dec_top_enc_top_structs : forall e fs vs,
  fields_typed e fs vs -> wf_env e -> env_structs e -> wf_type_names (TStruct fs) ->
  forall f, (2 * vdepth (IStruct vs) <= f)%nat -> dec_top f e fs (enc_top vs) = Some vs.
Proof.
  intros e fs vs H He Hs W f Hf.
  apply dec_top_enc_top_bound; auto using env_structs_no_alias, (top_ok_of_typing e).
Qed.

(* ------------------------------------------------------------------ *)
(* failure: invalid parameter                                          *)

Lemma dec_fields_fail f e m n t : forall fs,
  In (n, t) fs -> field_dec f e m n t = None -> dec_fields f e m fs = None.
Proof.
  induction fs as [|[k t0] fs IH]; intros Hin Hd; [contradiction|].
  rewrite dec_fields_cons. destruct Hin as [E|Hin].
  - inversion E; subst. rewrite Hd. reflexivity.
  - rewrite (IH Hin Hd). destruct (field_dec f e m k t0); reflexivity.
Qed.

Lemma dec_top_field_fail f e fs m n t :
  In (n, t) fs -> (forall f', field_dec f' e m n t = None) -> dec_top f e fs (JObj m) = None.
Proof.
  intros Hin Hd. unfold dec_top. destruct f as [|f]; [reflexivity|].
  rewrite dec_struct, (dec_fields_fail f e m n t fs Hin (Hd f)). reflexivity.
Qed.

(* a required member is missing *)
Theorem dec_top_missing_required : forall f e fs m n t,
  In (n, t) fs -> is_topt t = false -> obj_get n m = None -> dec_top f e fs (JObj m) = None.
Proof.
  intros f e fs m n t Hin Ht Hg. apply (dec_top_field_fail f e fs m n t Hin).
  intros f'. unfold field_dec. rewrite Hg. destruct t; try reflexivity. discriminate.
Qed.

(* a member is present but does not read at the field's type *)
Theorem dec_top_bad_member : forall f e fs m n t x,
  In (n, t) fs -> obj_get n m = Some x -> (forall f', dec f' e t x = None) -> dec_top f e fs (JObj m) = None.
Proof.
  intros f e fs m n t x Hin Hg Hd. apply (dec_top_field_fail f e fs m n t Hin).
  intros f'. unfold field_dec. rewrite Hg. apply Hd.
Qed.

(* the same inside a value: a struct with a missing required member or a bad member does not read *)
Lemma dec_struct_missing_required f e fs m n t :
  In (n, t) fs -> is_topt t = false -> obj_get n m = None -> dec f e (TStruct fs) (JObj m) = None.
Proof.
  intros Hin Ht Hg. destruct f as [|f]; [reflexivity|].
  rewrite dec_struct, (dec_fields_fail f e m n t fs Hin); [reflexivity|].
  unfold field_dec. rewrite Hg. destruct t; try reflexivity. discriminate.
Qed.

Print Assumptions dec_enc.
Print Assumptions dec_enc_bound.
Print Assumptions dec_top_enc_top.
Print Assumptions dec_top_enc_top_bound.
Print Assumptions dec_top_enc_top_structs.
Print Assumptions dec_top_missing_required.
Print Assumptions dec_top_bad_member.
