(* Writers that may take only part of a buffer (std::io::Write::write returns how many bytes it accepted): what reaches
   the peer when a message is handed over with write_all (loop until everything is taken) and with a single write. *)
From Coq Require Import List NArith Lia Arith.
Import ListNotations.

Definition bytes := list N.
Inductive write_prim := WriteAll | WriteOnce.

Section Writer.
  (* accept k b: how many bytes of b the writer takes at its k-th call *)
  Variable accept : nat -> bytes -> nat.

  Fixpoint write_all (fuel k : nat) (b : bytes) : bytes :=
    match fuel with
    | O => []
    | S f => match b with
             | [] => []
             | _ => let n := accept k b in firstn n b ++ write_all f (S k) (skipn n b)
             end
    end.

  Definition write_once (k : nat) (b : bytes) : bytes := firstn (accept k b) b.

  Definition deliver (p : write_prim) (k : nat) (b : bytes) : bytes :=
    match p with WriteAll => write_all (length b) k b | WriteOnce => write_once k b end.

  (* a writer makes progress: it takes at least one byte of a non-empty buffer and never more than it was given *)
  Hypothesis progress : forall k b, b <> [] -> 1 <= accept k b <= length b.

  Lemma write_all_delivers_fuel : forall fuel b k, length b <= fuel -> write_all fuel k b = b.
  Proof.
    induction fuel as [|f IH]; intros b k H.
    - destruct b; [reflexivity | cbn in H; lia].
    - cbn [write_all]. destruct b as [|x r] eqn:E; [reflexivity|]. rewrite <- E in *.
      assert (Hb : b <> []) by (rewrite E; discriminate).
      pose proof (progress k b Hb) as P. rewrite IH.
      + apply firstn_skipn.
      + rewrite skipn_length. lia.
  Qed.

  Theorem write_all_delivers_everything b k : deliver WriteAll k b = b.
  Proof. apply write_all_delivers_fuel. lia. Qed.
End Writer.

(* a single write hands over only what the writer takes at that call *)
Example write_once_truncates :
  deliver (fun _ _ => 3) WriteOnce 0 [1; 2; 3; 4; 5]%N = [1; 2; 3]%N /\
  deliver (fun _ _ => 3) WriteAll 0 [1; 2; 3; 4; 5]%N = [1; 2; 3; 4; 5]%N.
Proof. split; reflexivity. Qed.
