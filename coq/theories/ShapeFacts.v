(* The hand-modelled functions still have the text the models were written against (gen/ShapeGen.v, tr/shapes.py). *)
From VLG Require Import ShapeGen.

Lemma shapes_C01_ok : shapes_for_C01 = true.
Proof. vm_compute. reflexivity. Qed.
Lemma shapes_C02_ok : shapes_for_C02 = true.
Proof. vm_compute. reflexivity. Qed.
Lemma shapes_C03_ok : shapes_for_C03 = true.
Proof. vm_compute. reflexivity. Qed.
Lemma shapes_C04_ok : shapes_for_C04 = true.
Proof. vm_compute. reflexivity. Qed.
Lemma shapes_C05_ok : shapes_for_C05 = true.
Proof. vm_compute. reflexivity. Qed.
Lemma shapes_C06_ok : shapes_for_C06 = true.
Proof. vm_compute. reflexivity. Qed.
Lemma shapes_C07_ok : shapes_for_C07 = true.
Proof. vm_compute. reflexivity. Qed.
Lemma shapes_C08_ok : shapes_for_C08 = true.
Proof. vm_compute. reflexivity. Qed.
Lemma shapes_C09_ok : shapes_for_C09 = true.
Proof. vm_compute. reflexivity. Qed.
Lemma shapes_C10_ok : shapes_for_C10 = true.
Proof. vm_compute. reflexivity. Qed.
Lemma shapes_C11_ok : shapes_for_C11 = true.
Proof. vm_compute. reflexivity. Qed.
Lemma shapes_C12_ok : shapes_for_C12 = true.
Proof. vm_compute. reflexivity. Qed.
Lemma shapes_C13_ok : shapes_for_C13 = true.
Proof. vm_compute. reflexivity. Qed.
Lemma shapes_C14_ok : shapes_for_C14 = true.
Proof. vm_compute. reflexivity. Qed.
Lemma shapes_C15_ok : shapes_for_C15 = true.
Proof. vm_compute. reflexivity. Qed.
Lemma shapes_C16_ok : shapes_for_C16 = true.
Proof. vm_compute. reflexivity. Qed.
Lemma shapes_C17_ok : shapes_for_C17 = true.
Proof. vm_compute. reflexivity. Qed.
Lemma shapes_C18_ok : shapes_for_C18 = true.
Proof. vm_compute. reflexivity. Qed.
Lemma shapes_C19_ok : shapes_for_C19 = true.
Proof. vm_compute. reflexivity. Qed.
Lemma shapes_C20_ok : shapes_for_C20 = true.
Proof. vm_compute. reflexivity. Qed.
