(* Text-level round trip for the wire structs (C17, text half):
   serde_json::from_slice::<T>(serde_json::to_vec(x)) == x.
   The value-level half is WireProofs.de_value_ser. *)
From VL Require Import Base Json JsonProofs Schema Wire WireSet WireFacts WireProofs.
From VLG Require Import WireGen.
Open Scope N_scope.

(* ------------------------------------------------------------------ *)
(* What the streaming reader does with a member list, as a pure list    *)
(* function: every known member is typed and stored in its slot, a      *)
(* second occurrence of a slot is the duplicate-field error.            *)

Fixpoint fill (sch : schema) (slots : list (option fval)) (m : list (bytes * json))
  : option (list (option fval)) :=
  match m with
  | [] => Some slots
  | (k, j) :: m' =>
      match find_field sch k 0 with
      | Some (i, kind) =>
          if slot_filled i slots then None
          else match typed kind j with
               | Some v => fill sch (set_slot i v slots) m'
               | None => None
               end
      | None => fill sch slots m'
      end
  end.

Lemma de_members_S f sch slots s :
  de_members (S f) sch slots s =
  match skip_ws s with
  | 34 :: r0 =>
      do (k, r1) <- parse_string true r0;
      match skip_ws r1 with
      | 58 :: r2 =>
          do (slots', r3) <-
             match find_field sch k 0 with
             | Some (i, kind) =>
                 if slot_filled i slots then Err
                 else
                   do (j, r3) <- parse_val (val_fuel r2) true member_depth r2;
                   match typed kind j with
                   | Some v => Ok (set_slot i v slots, r3)
                   | None => Err
                   end
             | None =>
                 do (_, r3) <- parse_val (val_fuel r2) false 0 r2;
                 Ok (slots, r3)
             end;
          match skip_ws r3 with
          | 44 :: r4 => de_members f sch slots' r4
          | 125 :: r4 => Ok (slots', r4)
          | _ => Err
          end
      | _ => Err
      end
  | _ => Err
  end.
Proof. reflexivity. Qed.

(* the fuel de_members hands to parse_val is enough for a printed value *)
Lemma member_value_read v X : wf v -> (height v <= 126)%nat -> follow_ok X ->
  parse_val (val_fuel (print v ++ X)) true member_depth (print v ++ X) = Ok (v, X).
Proof.
  intros W H F. apply (value_roundtrip v W); [| unfold member_depth; lia | exact F].
  pose proof (size_bound v W). unfold val_fuel. rewrite app_length. lia.
Qed.

Lemma print_members_cons2 k v k2 v2 r' :
  print_members print ((k, v) :: (k2, v2) :: r') =
  print_str k ++ 58 :: print v ++ 44 :: print_members print ((k2, v2) :: r').
Proof. reflexivity. Qed.

(* member by member: key string, colon, value, then comma or closing brace *)
Lemma de_members_print m : m <> [] -> wf (JObj m) -> (members_height m <= 126)%nat ->
  forall f sch slots rest s', (length m <= f)%nat ->
    Forall (fun kv => find_field sch (fst kv) 0 <> None) m ->
    fill sch slots m = Some s' ->
    de_members f sch slots (print_members print m ++ 125 :: rest) = Ok (s', rest).
Proof.
  induction m as [|[k v] r IH]; intros Hne W Hh f sch slots rest s' Hf Hknown Hfill; [congruence|].
  apply wf_obj_cons in W. destruct W as (Uk & Wv & Wr).
  cbn [members_height] in Hh. fold (members_height r) in Hh.
  destruct f as [|f]; [cbn [length] in Hf; lia|]. rewrite de_members_S.
  inversion Hknown as [|? ? Hk Hkr]; subst. cbn [fst] in Hk.
  cbn [fill] in Hfill.
  destruct (find_field sch k 0) as [[i kind]|] eqn:Ef; [|congruence].
  destruct (slot_filled i slots) eqn:Esf; [discriminate|].
  destruct (typed kind v) as [tv|] eqn:Et; [|discriminate].
  destruct r as [|[k2 v2] r'].
  - cbn [print_members]. rewrite print_str_shape. cbn [app]. rewrite <- !app_assoc. cbn [app].
    rewrite skip_ws_head by (unfold head_ok; tauto).
    rewrite (parse_string_roundtrip k _ Uk). cbn [rbind skip_ws]. change (is_ws 58) with false. cbv iota.
    rewrite Ef, Esf.
    rewrite (member_value_read v (125 :: rest) Wv ltac:(lia) ltac:(right; right; reflexivity)).
    cbn [rbind]. rewrite Et. cbn [rbind skip_ws]. change (is_ws 125) with false. cbv iota.
    cbn [fill] in Hfill. inversion Hfill; subst. reflexivity.
  - rewrite print_members_cons2.
    rewrite print_str_shape. cbn [app]. rewrite <- !app_assoc. cbn [app]. rewrite <- !app_assoc. cbn [app].
    rewrite skip_ws_head by (unfold head_ok; tauto).
    rewrite (parse_string_roundtrip k _ Uk). cbn [rbind skip_ws]. change (is_ws 58) with false. cbv iota.
    rewrite Ef, Esf.
    rewrite (member_value_read v (44 :: print_members print ((k2, v2) :: r') ++ 125 :: rest) Wv
               ltac:(lia) ltac:(left; reflexivity)).
    cbn [rbind]. rewrite Et. cbn [rbind skip_ws]. change (is_ws 44) with false. cbv iota.
    apply (IH ltac:(discriminate) Wr ltac:(lia) f sch (set_slot i tv slots) rest s').
    + cbn [length] in Hf |- *. lia.
    + exact Hkr.
    + exact Hfill.
Qed.

Lemma members_len m : (length m <= length (print_members print m))%nat.
Proof.
  induction m as [|[k v] r IH]; [cbn; lia|]. destruct r as [|[k2 v2] r'].
  - cbn [print_members length]. rewrite app_length. cbn [length]. lia.
  - rewrite print_members_cons2. rewrite app_length. cbn [length]. rewrite app_length. cbn [length].
    cbn [length] in IH. lia.
Qed.

(* ------------------------------------------------------------------ *)
(* [ser] emits every schema field at most once, in schema order, and    *)
(* leaves out exactly the None fields with skip_serializing_if: so the  *)
(* slots fill up left to right and the missing ones default to None.    *)

Lemma names_distinct_app_l pre f post : names_distinct (pre ++ f :: post) = true ->
  forall g, In g pre -> f_name g <> f_name f.
Proof.
  induction pre as [|a pre IH]; cbn [app names_distinct]; intros H g Hg; [destruct Hg|].
  apply andb_true_iff in H. destruct H as [H1 H2]. destruct Hg as [->|Hg].
  - apply negb_true_iff in H1. intros E.
    assert (X : existsb (fun h => beq_bytes (f_name g) (f_name h)) (pre ++ f :: post) = true).
    { apply existsb_exists. exists f. split; [apply in_or_app; right; left; reflexivity|].
      rewrite E. apply beq_bytes_refl. }
    congruence.
  - apply IH; assumption.
Qed.

Lemma find_field_app pre f post i : (forall g, In g pre -> f_name g <> f_name f) ->
  find_field (pre ++ f :: post) (f_name f) i = Some ((i + length pre)%nat, f_kind f).
Proof.
  revert i. induction pre as [|a pre IH]; intros i H; cbn [app find_field length].
  - rewrite beq_bytes_refl. rewrite Nat.add_0_r. reflexivity.
  - destruct (beq_bytes_spec (f_name f) (f_name a)) as [E|_].
    + exfalso. apply (H a (or_introl eq_refl)). symmetry. exact E.
    + rewrite IH by (intros g Hg; apply H; right; exact Hg). rewrite Nat.add_succ_r. reflexivity.
Qed.

Lemma find_field_in sch f i : In f sch -> find_field sch (f_name f) i <> None.
Proof.
  revert i. induction sch as [|a sch IH]; intros i Hin; [destruct Hin|]. cbn [find_field].
  destruct (beq_bytes_spec (f_name f) (f_name a)) as [E|Hne]; [discriminate|].
  destruct Hin as [->|Hin]; [congruence|]. apply IH. exact Hin.
Qed.

Lemma slot_filled_app_none {A} (spre : list (option A)) t :
  slot_filled (length spre) (spre ++ None :: t) = false.
Proof. unfold slot_filled. rewrite nth_error_app2 by lia. rewrite Nat.sub_diag. reflexivity. Qed.

Lemma set_slot_app {A} (spre : list (option A)) (v : A) o t :
  set_slot (length spre) v (spre ++ o :: t) = spre ++ Some v :: t.
Proof. induction spre as [|x spre IH]; cbn [length app set_slot]; [reflexivity|]. rewrite IH. reflexivity. Qed.

Lemma fill_ser sch : forall pre spre r,
  names_distinct (pre ++ sch) = true -> length spre = length pre ->
  record_ok sch r = true -> Forall fval_rt_ok r ->
  exists s', fill (pre ++ sch) (spre ++ map (fun _ => None) sch) (ser_members sch r) = Some (spre ++ s')
             /\ finish_slots sch s' = Some r.
Proof.
  induction sch as [|f sch IH]; intros pre spre [|x r] ND Hlen Hok HR; cbn [record_ok] in Hok; try discriminate.
  - exists []. split; reflexivity.
  - apply andb_true_iff in Hok. destruct Hok as [Hk Hok]. inversion HR as [|? ? Rx Rr]; subst.
    cbn [ser_members map].
    assert (ND' : names_distinct ((pre ++ [f]) ++ sch) = true) by (rewrite <- app_assoc; exact ND).
    destruct (f_skip f && fval_is_none x) eqn:Sk.
    + apply andb_true_iff in Sk. destruct Sk as [_ Hn].
      destruct (IH (pre ++ [f]) (spre ++ [None]) r ND') as (s'' & Hfill & Hfin);
        [rewrite !app_length; cbn [length]; lia|exact Hok|exact Rr|].
      exists (None :: s''). split.
      * rewrite <- !app_assoc in Hfill. cbn [app] in Hfill. exact Hfill.
      * cbn [finish_slots]. rewrite (missing_none _ _ Hk Hn), Hfin. reflexivity.
    + cbn [fill]. rewrite (find_field_app pre f sch 0 (names_distinct_app_l _ _ _ ND)). cbn [Nat.add].
      rewrite <- Hlen. rewrite slot_filled_app_none. rewrite (typed_fval_json _ _ Hk Rx).
      rewrite set_slot_app.
      destruct (IH (pre ++ [f]) (spre ++ [Some x]) r ND') as (s'' & Hfill & Hfin);
        [rewrite !app_length; cbn [length]; lia|exact Hok|exact Rr|].
      exists (Some x :: s''). split.
      * rewrite <- !app_assoc in Hfill. cbn [app] in Hfill. exact Hfill.
      * cbn [finish_slots]. rewrite Hfin. reflexivity.
Qed.

Lemma ser_members_known sch r :
  Forall (fun kv => find_field sch (fst kv) 0 <> None) (ser_members sch r).
Proof.
  apply Forall_forall. intros [k v] Hin. cbn [fst].
  destruct (ser_members_keys _ _ _ _ Hin) as (g & Hg & <-). apply find_field_in. exact Hg.
Qed.

(* ------------------------------------------------------------------ *)
(* Deserialize(to_vec(Serialize(v))) = v: for every schema with         *)
(* distinct member names, every record of the right shape outside the   *)
(* Some(null) class, whose JSON form is one the JSON reader returns     *)
(* unchanged (wf: integers in range, strings UTF-8, float lexemes       *)
(* stable) and nests at most 127 levels including the struct itself.    *)

Theorem de_text_ser sch : names_distinct sch = true ->
  forall r, record_ok sch r = true -> Forall fval_rt_ok r ->
    wf (ser sch r) -> (height (ser sch r) <= 127)%nat ->
    de_text sch (print (ser sch r)) = Ok r.
Proof.
  intros ND r Hok HR W Hh.
  destruct (fill_ser sch [] [] r ND eq_refl Hok HR) as (s' & Hfill & Hfin). cbn [app] in Hfill.
  unfold de_text, ser in *. cbn [height] in Hh. fold (members_height (ser_members sch r)) in Hh.
  cbn [print]. cbn [skip_ws]. change (is_ws 123) with false. cbv iota.
  pose proof (ser_members_known sch r) as Hknown.
  destruct (ser_members sch r) as [|[k v] m'] eqn:Em.
  - cbn [print_members app skip_ws]. change (is_ws 125) with false. cbv iota. cbn [rbind skip_ws].
    cbn [fill] in Hfill. inversion Hfill; subst s'. rewrite Hfin. reflexivity.
  - assert (Hs : exists t, skip_ws (print_members print ((k, v) :: m') ++ [125]) = 34 :: t).
    { destruct m' as [|[k2 v2] r']; [cbn [print_members]|rewrite print_members_cons2];
        rewrite print_str_shape; cbn [app]; rewrite skip_ws_head by (unfold head_ok; tauto); eexists; reflexivity. }
    destruct Hs as (t & Es). rewrite Es.
    rewrite (de_members_print ((k, v) :: m') ltac:(discriminate) W ltac:(lia) _ sch _ [] s'); [| |exact Hknown|exact Hfill].
    + cbn [rbind skip_ws]. rewrite Hfin. reflexivity.
    + rewrite app_length. cbn [length]. pose proof (members_len ((k, v) :: m')) as L. cbn [length] in L. lia.
Qed.

(* ------------------------------------------------------------------ *)
(* The JSON-side hypotheses, field by field                             *)

Definition names_utf8 (sch : schema) : bool := forallb (fun f => utf8_valid (f_name f)) sch.

Definition fval_wf (v : fval) : Prop := wf (fval_json v).
Definition fval_shallow (v : fval) : Prop := (height (fval_json v) <= 126)%nat.

Lemma wf_ser sch : names_utf8 sch = true -> forall r, Forall fval_wf r -> wf (ser sch r).
Proof.
  unfold ser. induction sch as [|f sch IH]; intros NU [|x r] HF; cbn [ser_members]; try exact I.
  cbn [names_utf8 forallb] in NU. apply andb_true_iff in NU. destruct NU as [Uf NU].
  inversion HF as [|? ? Wx Wr]; subst.
  destruct (f_skip f && fval_is_none x); [exact (IH NU r Wr)|].
  apply wf_obj_cons. split; [exact Uf|]. split; [exact Wx|exact (IH NU r Wr)].
Qed.

Lemma height_ser sch : forall r, Forall fval_shallow r -> (height (ser sch r) <= 127)%nat.
Proof.
  unfold ser. intros r HF. cbn [height]. fold (members_height (ser_members sch r)).
  assert (H : (members_height (ser_members sch r) <= 126)%nat); [|lia].
  revert r HF. induction sch as [|f sch IH]; intros [|x r] HF; cbn [ser_members]; try (cbn; lia).
  inversion HF as [|? ? Hx Hr]; subst. specialize (IH r Hr).
  destruct (f_skip f && fval_is_none x); [exact IH|].
  cbn [members_height]. fold (members_height (ser_members sch r)). unfold fval_shallow in Hx. lia.
Qed.

(* what the per-field conditions say, kind by kind *)
Lemma fval_wf_spec v : fval_wf v <->
  match v with
  | VOptString (Some s) | VString s => utf8_valid s = true
  | VOptValue (Some j) => wf j
  | VVecString l => Forall (fun s => utf8_valid s = true) l
  | _ => True
  end.
Proof.
  unfold fval_wf. destruct v as [[b|]|[s|]|s|[j|]|l]; cbn [fval_json]; try (cbn [wf]; tauto).
  induction l as [|s l IH]; cbn [map].
  - cbn [wf]. split; [constructor|auto].
  - rewrite wf_arr_cons, IH. cbn [wf]. split; [intros [H1 H2]; constructor; assumption|].
    intros H; inversion H; subst; split; assumption.
Qed.

Lemma fval_shallow_spec v :
  match v with VOptValue (Some j) => (height j <= 126)%nat | _ => True end -> fval_shallow v.
Proof.
  unfold fval_shallow. destruct v as [[b|]|[s|]|s|[j|]|l]; cbn [fval_json height]; intros H; try lia.
  assert (X : forall l : list bytes,
             (fix go (l : list json) : nat := match l with [] => O | x :: r => Nat.max (height x) (go r) end)
               (map JStr l) = O).
  { clear. induction l as [|s l IH]; cbn [map]; [reflexivity|]. rewrite IH. reflexivity. }
  rewrite X. lia.
Qed.

Theorem de_text_ser_fields sch : names_distinct sch = true -> names_utf8 sch = true ->
  forall r, record_ok sch r = true -> Forall fval_rt_ok r -> Forall fval_wf r -> Forall fval_shallow r ->
    de_text sch (print (ser sch r)) = Ok r.
Proof.
  intros ND NU r Hok HR HW HS. apply de_text_ser; auto using wf_ser, height_ser.
Qed.

(* ------------------------------------------------------------------ *)
(* instantiated at the regenerated schemas                              *)

Lemma request_names_utf8 : names_utf8 schema_Request = true. Proof. vm_compute. reflexivity. Qed.
Lemma reply_names_utf8 : names_utf8 schema_Reply = true. Proof. vm_compute. reflexivity. Qed.
Lemma info_names_utf8 : names_utf8 schema_ServiceInfo = true. Proof. vm_compute. reflexivity. Qed.

Theorem request_text_roundtrip r : record_ok schema_Request r = true -> Forall fval_rt_ok r ->
  Forall fval_wf r -> Forall fval_shallow r ->
  de_text schema_Request (print (ser schema_Request r)) = Ok r.
Proof. apply de_text_ser_fields; [exact request_names_distinct|exact request_names_utf8]. Qed.

Theorem reply_text_roundtrip r : record_ok schema_Reply r = true -> Forall fval_rt_ok r ->
  Forall fval_wf r -> Forall fval_shallow r ->
  de_text schema_Reply (print (ser schema_Reply r)) = Ok r.
Proof. apply de_text_ser_fields; [exact reply_names_distinct|exact reply_names_utf8]. Qed.

Theorem info_text_roundtrip r : record_ok schema_ServiceInfo r = true -> Forall fval_rt_ok r ->
  Forall fval_wf r -> Forall fval_shallow r ->
  de_text schema_ServiceInfo (print (ser schema_ServiceInfo r)) = Ok r.
Proof. apply de_text_ser_fields; [exact info_names_distinct|exact info_names_utf8]. Qed.

(* ------------------------------------------------------------------ *)
(* The same at the level of the message types of Wire.v:                *)
(* serde_json::from_slice::<Request>(&serde_json::to_vec(&q)) == q      *)

Definition params_ok (p : option json) : Prop :=
  match p with
  | Some j => j <> JNull /\ norm j = j /\ wf j /\ (height j <= 126)%nat
  | None => True
  end.

Definition request_ok (q : request) : Prop := utf8_valid (r_method q) = true /\ params_ok (r_params q).

Definition reply_ok (y : reply) : Prop :=
  match y_error y with Some e => utf8_valid e = true | None => True end /\ params_ok (y_params y).

Lemma Forall_record_map (P : fval -> Prop) (g : field -> fval) sch :
  (forall f, P (g f)) -> Forall P (map g sch).
Proof. intros H. apply Forall_forall. intros v Hin. apply in_map_iff in Hin. destruct Hin as (f & <- & _). apply H. Qed.

Theorem request_roundtrip q : request_ok q -> decode_request (encode_request q) = Ok q.
Proof.
  intros [Um Hp]. unfold decode_request, encode_request.
  rewrite request_text_roundtrip.
  - cbn [rbind]. destruct q. vm_compute. reflexivity.
  - destruct q. vm_compute. reflexivity.
  - apply Forall_record_map. intros f.
    repeat (destruct (beq_bytes (f_name f) _); [exact I|]).
    unfold params_ok in Hp. destruct (r_params q) as [j|]; [|exact I]. cbn [fval_rt_ok]. tauto.
  - apply Forall_record_map. intros f.
    repeat (destruct (beq_bytes (f_name f) _); [apply fval_wf_spec; first [exact I|exact Um]|]).
    apply fval_wf_spec. unfold params_ok in Hp. destruct (r_params q) as [j|]; [tauto|exact I].
  - apply Forall_record_map. intros f.
    repeat (destruct (beq_bytes (f_name f) _); [apply fval_shallow_spec; exact I|]).
    apply fval_shallow_spec. unfold params_ok in Hp. destruct (r_params q) as [j|]; [tauto|exact I].
Qed.

(* [encode_reply] appends the NUL terminator; the frame handed to the reader is without it *)
Theorem reply_roundtrip y : reply_ok y ->
  decode_reply (print (ser schema_Reply (record_of_reply y))) = Ok y /\
  encode_reply y = print (ser schema_Reply (record_of_reply y)) ++ [0].
Proof.
  intros [Ue Hp]. split; [|reflexivity]. unfold decode_reply.
  rewrite reply_text_roundtrip.
  - cbn [rbind]. destruct y. vm_compute. reflexivity.
  - destruct y. vm_compute. reflexivity.
  - apply Forall_record_map. intros f.
    repeat (destruct (beq_bytes (f_name f) _); [exact I|]).
    unfold params_ok in Hp. destruct (y_params y) as [j|]; [|exact I]. cbn [fval_rt_ok]. tauto.
  - apply Forall_record_map. intros f.
    destruct (beq_bytes (f_name f) _); [apply fval_wf_spec; exact I|].
    destruct (beq_bytes (f_name f) _); [apply fval_wf_spec; destruct (y_error y); [exact Ue|exact I]|].
    apply fval_wf_spec. unfold params_ok in Hp. destruct (y_params y) as [j|]; [tauto|exact I].
  - apply Forall_record_map. intros f.
    repeat (destruct (beq_bytes (f_name f) _); [apply fval_shallow_spec; exact I|]).
    apply fval_shallow_spec. unfold params_ok in Hp. destruct (y_params y) as [j|]; [tauto|exact I].
Qed.

(* ------------------------------------------------------------------ *)
(* The hypotheses are tight: each excluded class contains a record that *)
(* does not come back (confirmed by computation).                       *)

Fixpoint nest (n : nat) : json := match n with O => JNull | S n' => JArr [nest n'] end.
Definition req_with (p : option json) : record := record_of_request (mkreq None None None [97; 46; 98] p).

(* the value-level exclusion carries over: parameters = Some(null) reads back as None *)
Theorem some_null_is_lost_text :
  de_text schema_Request (print (ser schema_Request (req_with (Some JNull)))) = Ok (req_with None).
Proof. vm_compute. reflexivity. Qed.

(* NEW with respect to the value-level theorem: the recursion limit.  A parameters value
   nested 126 deep is read back, one nested 127 deep is written by the writer and then
   refused by the reader ("recursion limit exceeded"), although the in-memory round trip
   de_value (ser r) = Some r holds for it. *)
Theorem depth_limit_is_sharp :
  de_text schema_Request (print (ser schema_Request (req_with (Some (nest 126))))) = Ok (req_with (Some (nest 126))) /\
  de_text schema_Request (print (ser schema_Request (req_with (Some (nest 127))))) = Err /\
  de_value schema_Request (ser schema_Request (req_with (Some (nest 127)))) = Some (req_with (Some (nest 127))).
Proof. split; [|split]; vm_compute; reflexivity. Qed.

(* the classes [wf] excludes are values no Rust program can hold (a String that is not
   UTF-8, a Number outside i64/u64 that is not an f64); the model can write them down,
   and they do not round trip through text although they do through a Value *)
Theorem wf_exclusions_are_needed :
  de_text schema_Request (print (ser schema_Request (record_of_request (mkreq None None None [255] None)))) = Err /\
  de_text schema_Request (print (ser schema_Request (req_with (Some (JInt 18446744073709551616)))))
    = Ok (req_with (Some (JFloat [49; 56; 52; 52; 54; 55; 52; 52; 48; 55; 51; 55; 48; 57; 53; 53; 49; 54; 49; 54]))) /\
  de_value schema_Request (ser schema_Request (req_with (Some (JInt 18446744073709551616))))
    = Some (req_with (Some (JInt 18446744073709551616))).
Proof. split; [|split]; vm_compute; reflexivity. Qed.

Print Assumptions de_text_ser.
Print Assumptions de_text_ser_fields.
Print Assumptions request_text_roundtrip.
Print Assumptions reply_text_roundtrip.
Print Assumptions info_text_roundtrip.
Print Assumptions request_roundtrip.
Print Assumptions reply_roundtrip.
