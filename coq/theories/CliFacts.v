(* Facts about the regenerated bridge constants (gen/ProxyGen.v). *)
From VL Require Import Base Json Schema Wire Service Cli.
From VLG Require Import ProxyGen WireGen.

Lemma src_key_always : cache_key_always_updated = true.
Proof. vm_compute. reflexivity. Qed.

(* the strings the model uses are the ones in proxy.rs *)
Lemma src_proxy_strings :
  proxy_getinfo = m_getinfo /\ proxy_getinfo_rewritten = s_resolver_getinfo /\ proxy_resolver_name = s_resolver_name.
Proof. vm_compute. repeat split; reflexivity. Qed.
