(* The formatter's output is a rendering of (a reordering of) its input, hence parses back.

   PROVED (all closed under the global context, no axioms), for EVERY layout oracle [decide],
   every [max] and every [indent]:
   - one_type_renders / multi_type_renders:
       wf_type t -> RType t (one_type t)        wf_type t -> RType t (multi_type decide max indent t)
   - member_renders: for a well-formed member m the text the formatter emits for it
     ([mtext decide max m], i.e. fmt_typedef / fmt_method) is  sm ++ "\n"  with  RMember m sm ;
     the leading trivia of sm is  "\n" ++ doc_block doc  and its trim_doc is the doc (wf_doc).
   - fmt_idl_eq: fmt_idl prints the header line and then [mtext] of the members of [reorder i]
     (typedefs, then methods, then errors, each kind in order of appearance).
   - format_renders:    wf_idl i -> RIdl (reorder i) (fmt_idl decide max i)
   - format_parses:     wf_idl i -> parse_idl (fmt_idl decide max i) = POk (reorder i)
   - format_reorder (no hypothesis) and format_idempotent:
                        fmt_idl decide max (reorder i) = fmt_idl decide max i
   - reorder_wf:        wf_idl i -> wf_idl (reorder i)
   - format_roundtrip:  wf_idl i -> exists j, parse_idl (fmt_idl decide max i) = POk j /\
                                              fmt_idl decide max j = fmt_idl decide max i
   - the same three for format_src (the thresholds instance).
   Well-formedness (wf_type / wf_doc / wf_member / wf_idl) is defined below; wf_doc_alt relates
   wf_doc to the two-case formulation, wf_struct_Forall restates the nested fixpoint with Forall.
   MISSING: nothing of the requested statements.  (Not attempted, not requested: that the parser
   only produces well-formed trees.) *)
From Coq Require Import List NArith Lia Bool Arith.
From VL Require Import Idl Format TypeProofs MemberProofs.
From VLG Require Import GrammarGen.
Import ListNotations.
Open Scope N_scope.

Arguments N.eqb : simpl never. Arguments N.leb : simpl never.
Arguments in_ranges : simpl never.

(* ---------- list equalities up to associativity ---------- *)
Ltac lsolve :=
  unfold s_colon_sp, s_comma_sp, s_comma_nl, nl;
  repeat (progress (rewrite <- ?app_assoc, ?app_nil_r; cbn [app]));
  reflexivity.

Lemma RType_eq t s s' : RType t s -> s = s' -> RType t s'.
Proof. intros H <-. exact H. Qed.
Lemma RFields_eq fs s s' : RFields fs s -> s = s' -> RFields fs s'.
Proof. intros H <-. exact H. Qed.
Lemma RField_eq f s s' : RField f s -> s = s' -> RField f s'.
Proof. intros H <-. exact H. Qed.
Lemma REnumRest_eq es s s' : REnumRest es s -> s = s' -> REnumRest es s'.
Proof. intros H <-. exact H. Qed.
Lemma RMember_eq m s s' : RMember m s -> s = s' -> RMember m s'.
Proof. intros H <-. exact H. Qed.
Lemma RIdl_eq i s s' : RIdl i s -> s = s' -> RIdl i s'.
Proof. intros H <-. exact H. Qed.

(* ---------- trivia produced by the formatter ---------- *)
Lemma Trivia_app t1 t2 : Trivia t1 -> Trivia t2 -> Trivia (t1 ++ t2).
Proof.
  intros H1 H2. induction H1 as [|c t Hc Ht IH|body e t Hb He Ht IH]; cbn [app].
  - exact H2.
  - apply T_ws; auto.
  - rewrite <- app_assoc. cbn [app]. apply T_comment; auto.
Qed.

Lemma Trivia_sp n : Trivia (sp n).
Proof. induction n as [|n IH]; [apply T_nil|]. apply (T_ws 32 (sp n)); [reflexivity|exact IH]. Qed.

Lemma Trivia_space : Trivia [32].
Proof. apply T_ws; [reflexivity|apply T_nil]. Qed.
Lemma Trivia_nl : Trivia nl.
Proof. apply T_ws; [reflexivity|apply T_nil]. Qed.
Lemma Trivia_cons_nl t : Trivia t -> Trivia (10 :: t).
Proof. intros H. apply T_ws; [reflexivity|exact H]. Qed.

(* ---------- well-formed types ---------- *)
Fixpoint wf_type (t : vtype) : Prop :=
  match t with
  | TName n => TNameOk n
  | TStruct fs =>
      (fix wfs (l : list (str * vtype)) : Prop :=
         match l with
         | [] => True
         | (n, t) :: r => FName n /\ wf_type t /\ wfs r
         end) fs
  | TEnum es => es <> [] /\ Forall FName es
  | TArr t | TDict t => wf_type t
  | TOpt t => not_opt t /\ wf_type t
  | _ => True
  end.
Definition wf_fields (fs : list (str * vtype)) : Prop := wf_type (TStruct fs).

Lemma wf_fields_cons n t r : wf_fields ((n, t) :: r) <-> FName n /\ wf_type t /\ wf_fields r.
Proof. reflexivity. Qed.

Lemma wf_struct_Forall fs :
  wf_type (TStruct fs) <-> Forall (fun f => FName (fst f) /\ wf_type (snd f)) fs.
Proof.
  fold (wf_fields fs). induction fs as [|[n t] r IH].
  - split; intros _; [constructor|exact I].
  - rewrite wf_fields_cons. split.
    + intros (H1 & H2 & H3). constructor; [split; assumption|apply IH; assumption].
    + intros H. inversion H as [|? ? [H1 H2] H3]; subst. cbn [fst snd] in *.
      split; [assumption|split; [assumption|apply IH; assumption]].
Qed.

(* induction over the nested tree *)
Section VInd.
  Variable P : vtype -> Prop.
  Hypothesis Hbool : P TBool.
  Hypothesis Hint : P TInt.
  Hypothesis Hfloat : P TFloat.
  Hypothesis Hstring : P TString.
  Hypothesis Hobject : P TObject.
  Hypothesis Hname : forall n, P (TName n).
  Hypothesis Hstruct : forall fs, Forall (fun f => P (snd f)) fs -> P (TStruct fs).
  Hypothesis Henum : forall es, P (TEnum es).
  Hypothesis Harr : forall t, P t -> P (TArr t).
  Hypothesis Hdict : forall t, P t -> P (TDict t).
  Hypothesis Hopt : forall t, P t -> P (TOpt t).

  Fixpoint vtype_ind2 (t : vtype) : P t :=
    match t with
    | TBool => Hbool | TInt => Hint | TFloat => Hfloat | TString => Hstring | TObject => Hobject
    | TName n => Hname n
    | TStruct fs =>
        Hstruct fs
          ((fix go (l : list (str * vtype)) : Forall (fun f => P (snd f)) l :=
              match l with
              | [] => Forall_nil _
              | f :: r =>
                  Forall_cons f
                    (match f as f0 return P (snd f0) with (n, t) => vtype_ind2 t end) (go r)
              end) fs)
    | TEnum es => Henum es
    | TArr t => Harr t (vtype_ind2 t)
    | TDict t => Hdict t (vtype_ind2 t)
    | TOpt t => Hopt t (vtype_ind2 t)
    end.
End VInd.

(* ---------- the inner fixpoints of Format.v, restated at top level ---------- *)
Fixpoint one_fields (fs : list (str * vtype)) : str :=
  match fs with
  | [] => []
  | [(n, t)] => n ++ s_colon_sp ++ one_type t
  | (n, t) :: r => n ++ s_colon_sp ++ one_type t ++ s_comma_sp ++ one_fields r
  end.
Fixpoint one_items (es : list str) : str :=
  match es with [] => [] | [e] => e | e :: r => e ++ s_comma_sp ++ one_items r end.

Lemma one_struct_eq fs : one_type (TStruct fs) = 40 :: one_fields fs ++ [41].
Proof. reflexivity. Qed.
Lemma one_enum_eq es : one_type (TEnum es) = 40 :: one_items es ++ [41].
Proof. reflexivity. Qed.

Lemma one_fields_1 n t : one_fields [(n, t)] = n ++ s_colon_sp ++ one_type t.
Proof. reflexivity. Qed.
Lemma one_fields_2 n t f r :
  one_fields ((n, t) :: f :: r) = n ++ s_colon_sp ++ one_type t ++ s_comma_sp ++ one_fields (f :: r).
Proof. reflexivity. Qed.

Section Multi.
Variable decide : site -> list nat -> bool.
Variable max : nat.

Definition mfield (indent : nat) (n : str) (t : vtype) : str :=
  let line := n ++ s_colon_sp ++ one_type t in
  if decide SField [length line; indent; max]
  then sp (indent + 2) ++ line
  else sp (indent + 2) ++ n ++ s_colon_sp ++ multi_type decide max (indent + 2) t.

Section Indent.
Variable indent : nat.
Fixpoint mfields (fs : list (str * vtype)) (first : bool) : str :=
  match fs with
  | [] => []
  | (n, t) :: r =>
      (if first then [] else s_comma_nl) ++ mfield indent n t ++ mfields r false
  end.

Fixpoint mitems (es : list str) (first : bool) : str :=
  match es with
  | [] => []
  | e :: r => (if first then [] else s_comma_nl) ++ sp (indent + 2) ++ e ++ mitems r false
  end.
End Indent.

Lemma multi_struct_eq indent fs :
  multi_type decide max indent (TStruct fs) =
  40 :: 10 :: mfields indent fs true ++ nl ++ sp indent ++ [41].
Proof. reflexivity. Qed.
Lemma multi_enum_eq indent es :
  multi_type decide max indent (TEnum es) =
  40 :: 10 :: mitems indent es true ++ nl ++ sp indent ++ [41].
Proof. reflexivity. Qed.

Lemma mfields_cons indent n t r first :
  mfields indent ((n, t) :: r) first =
  (if first then [] else s_comma_nl) ++ mfield indent n t ++ mfields indent r false.
Proof. reflexivity. Qed.
Lemma mfields_false indent f r :
  mfields indent (f :: r) false = s_comma_nl ++ mfields indent (f :: r) true.
Proof. destruct f as [n t]. reflexivity. Qed.
End Multi.

(* ---------- types, one-line layout ---------- *)
Lemma one_fields_renders : forall fs, fs <> [] ->
  Forall (fun f => wf_type (snd f) -> RType (snd f) (one_type (snd f))) fs ->
  wf_fields fs -> forall tf, Trivia tf -> RFields fs (tf ++ one_fields fs).
Proof.
  induction fs as [|[n t] r IH]; intros Hne Hall Hwf tf Htf; [congruence|].
  inversion Hall as [|? ? Ht Hr]; subst. cbn [snd] in Ht.
  apply wf_fields_cons in Hwf. destruct Hwf as (Hn & Hwt & Hwr).
  destruct r as [|f r'].
  - rewrite one_fields_1. apply RFs1.
    eapply RField_eq; [apply (RF n t tf [] [32] (one_type t)); auto using T_nil, Trivia_space|lsolve].
  - rewrite one_fields_2.
    eapply RFields_eq.
    + apply (RFsS (n, t) (tf ++ n ++ [] ++ 58 :: [32] ++ one_type t) (f :: r') ([32] ++ one_fields (f :: r'))).
      * apply RF; auto using T_nil, Trivia_space.
      * apply IH; auto using Trivia_space. discriminate.
    + lsolve.
Qed.

Lemma one_items_cons : forall r e, one_items (e :: r) = e ++ flat_map (fun x => 44 :: [32] ++ x) r.
Proof.
  induction r as [|e' r IH]; intros e.
  - cbn [one_items flat_map]. rewrite app_nil_r. reflexivity.
  - change (one_items (e :: e' :: r)) with (e ++ s_comma_sp ++ one_items (e' :: r)).
    rewrite IH. cbn [flat_map]. lsolve.
Qed.

Lemma enum_rest_renders t : Trivia t -> forall r, Forall FName r ->
  REnumRest r (flat_map (fun x => 44 :: t ++ x) r).
Proof.
  intros Ht. induction r as [|e r IH]; intros Hr; cbn [flat_map].
  - apply RE0.
  - inversion Hr as [|? ? He Hr']; subst.
    eapply REnumRest_eq; [apply (RES e r t _ Ht He (IH Hr'))|lsolve].
Qed.

Theorem one_type_renders : forall t, wf_type t -> RType t (one_type t).
Proof.
  induction t as [| | | | |n|fs IH|es|t IH|t IH|t IH] using vtype_ind2; intros Hwf.
  - exact R_bool.
  - exact R_int.
  - exact R_float.
  - exact R_string.
  - exact R_object.
  - apply R_name. exact Hwf.
  - rewrite one_struct_eq. destruct fs as [|f r].
    + apply (R_struct0 []). apply T_nil.
    + eapply RType_eq.
      * apply (R_structS (f :: r) ([] ++ one_fields (f :: r)) []); [|apply T_nil].
        apply one_fields_renders; auto using T_nil. discriminate.
      * lsolve.
  - rewrite one_enum_eq. destruct Hwf as [Hne Hall]. destruct es as [|e r]; [congruence|].
    inversion Hall as [|? ? He Hr]; subst. rewrite one_items_cons.
    eapply RType_eq.
    + apply (R_enum e r [] _ [] T_nil He (enum_rest_renders [32] Trivia_space r Hr) T_nil).
    + lsolve.
  - cbn [one_type]. apply R_arr. apply IH. exact Hwf.
  - cbn [one_type]. apply R_dict. apply IH. exact Hwf.
  - cbn [one_type]. destruct Hwf as [Hn Hwf]. apply R_opt; auto.
Qed.

(* ---------- types, multi-line layout ---------- *)
Section MultiProofs.
Variable decide : site -> list nat -> bool.
Variable max : nat.

Lemma mfield_split indent n t : wf_type t ->
  (wf_type t -> forall k, RType t (multi_type decide max k t)) ->
  exists body, RType t body /\ mfield decide max indent n t = sp (indent + 2) ++ n ++ s_colon_sp ++ body.
Proof.
  intros Hwf IH. unfold mfield. cbv zeta.
  destruct (decide SField _).
  - exists (one_type t). split; [apply one_type_renders; exact Hwf|reflexivity].
  - exists (multi_type decide max (indent + 2) t). split; [apply IH; exact Hwf|reflexivity].
Qed.

Lemma mfields_renders indent : forall fs, fs <> [] ->
  Forall (fun f => wf_type (snd f) -> forall k, RType (snd f) (multi_type decide max k (snd f))) fs ->
  wf_fields fs -> forall tf, Trivia tf -> RFields fs (tf ++ mfields decide max indent fs true).
Proof.
  induction fs as [|[n t] r IH]; intros Hne Hall Hwf tf Htf; [congruence|].
  inversion Hall as [|? ? Ht Hr]; subst. cbn [snd] in Ht.
  apply wf_fields_cons in Hwf. destruct Hwf as (Hn & Hwt & Hwr).
  destruct (mfield_split indent n t Hwt Ht) as (body & Hbody & E).
  rewrite mfields_cons, E.
  assert (Hf : RField (n, t) ((tf ++ sp (indent + 2)) ++ n ++ [] ++ 58 :: [32] ++ body)).
  { apply RF; auto using T_nil, Trivia_space, Trivia_app, Trivia_sp. }
  destruct r as [|f r'].
  - apply RFs1. eapply RField_eq; [exact Hf|]. cbn [mfields]. lsolve.
  - rewrite mfields_false.
    eapply RFields_eq.
    + apply (RFsS (n, t) _ (f :: r') ([10] ++ mfields decide max indent (f :: r') true) Hf).
      apply IH; auto using Trivia_nl. discriminate.
    + lsolve.
Qed.

Lemma mitems_false indent : forall r,
  mitems indent r false = flat_map (fun x => 44 :: (10 :: sp (indent + 2)) ++ x) r.
Proof.
  induction r as [|e r IH]; [reflexivity|].
  cbn [mitems flat_map]. rewrite IH. lsolve.
Qed.

Theorem multi_type_renders : forall t, wf_type t ->
  forall indent, RType t (multi_type decide max indent t).
Proof.
  induction t as [| | | | |n|fs IH|es|t IH|t IH|t IH] using vtype_ind2; intros Hwf indent.
  - exact R_bool.
  - exact R_int.
  - exact R_float.
  - exact R_string.
  - exact R_object.
  - apply (R_name n). exact Hwf.
  - rewrite multi_struct_eq. destruct fs as [|f r].
    + eapply RType_eq; [apply (R_struct0 (10 :: nl ++ sp indent))|cbn [mfields]; lsolve].
      apply Trivia_cons_nl. apply Trivia_app; auto using Trivia_nl, Trivia_sp.
    + eapply RType_eq.
      * apply (R_structS (f :: r) ([10] ++ mfields decide max indent (f :: r) true) (nl ++ sp indent)).
        -- apply mfields_renders; auto using Trivia_nl. discriminate.
        -- apply Trivia_app; auto using Trivia_nl, Trivia_sp.
      * lsolve.
  - rewrite multi_enum_eq. destruct Hwf as [Hne Hall]. destruct es as [|e r]; [congruence|].
    inversion Hall as [|? ? He Hr]; subst.
    cbn [mitems]. rewrite mitems_false.
    eapply RType_eq.
    + eapply (R_enum e r (10 :: sp (indent + 2)) _ (nl ++ sp indent)).
      * apply Trivia_cons_nl, Trivia_sp.
      * exact He.
      * apply (enum_rest_renders (10 :: sp (indent + 2))); auto. apply Trivia_cons_nl, Trivia_sp.
      * apply Trivia_app; auto using Trivia_nl, Trivia_sp.
    + lsolve.
  - cbn [multi_type]. apply R_arr. apply IH. exact Hwf.
  - cbn [multi_type]. apply R_dict. apply IH. exact Hwf.
  - cbn [multi_type]. destruct Hwf as [Hn Hwf]. apply R_opt; auto.
Qed.
End MultiProofs.

(* ---------- docs ---------- *)
(* the doc is trimmed trivia that becomes complete trivia when a newline is appended *)
Definition wf_doc (d : str) : Prop := Trivia (d ++ [10]) /\ trim_doc (d ++ [10]) = d.

Lemma trim_doc_nl x : trim_doc (10 :: x) = trim_doc x.
Proof. reflexivity. Qed.

Lemma wf_doc_nil : wf_doc [].
Proof. split; [apply Trivia_nl|reflexivity]. Qed.

Lemma wf_doc_alt d :
  wf_doc d <-> d = [] \/ (Trivia (d ++ [10]) /\ trim_doc ([10] ++ d ++ [10]) = d).
Proof.
  unfold wf_doc. cbn [app]. rewrite trim_doc_nl. split.
  - intros H. right. exact H.
  - intros [->|H]; [apply wf_doc_nil|exact H].
Qed.

(* the text in front of the interface keyword *)
Lemma idoc_ok d : wf_doc d -> Trivia (doc_block d) /\ trim_doc (doc_block d) = d.
Proof.
  intros [H1 H2]. destruct d as [|c d]; [split; [apply T_nil|reflexivity]|].
  unfold doc_block, nl. split; assumption.
Qed.

(* the text in front of a member keyword: the line end of the previous line, then the doc block *)
Lemma lead_ok d : wf_doc d -> Trivia (nl ++ doc_block d) /\ trim_doc (nl ++ doc_block d) = d.
Proof.
  intros H. destruct (idoc_ok d H) as [H1 H2]. change (nl ++ doc_block d) with (10 :: doc_block d). split.
  - apply Trivia_cons_nl. exact H1.
  - rewrite trim_doc_nl. exact H2.
Qed.

(* ---------- members ---------- *)
Definition wf_member (m : member) : Prop :=
  match m with
  | MMethod n d a b => TNameOk n /\ wf_doc d /\ wf_fields a /\ wf_fields b
  | MTypeS n d fs => TNameOk n /\ wf_doc d /\ wf_fields fs
  | MTypeE n d es => TNameOk n /\ wf_doc d /\ wf_type (TEnum es)
  | MError n d fs => TNameOk n /\ wf_doc d /\ wf_fields fs
  end.

Definition wf_idl (i : idl) : Prop :=
  interface_name (i_name i) = Some [] /\ wf_doc (i_doc i) /\
  i_members i <> [] /\ Forall wf_member (i_members i).

Section MemberProofs.
Variable decide : site -> list nat -> bool.
Variable max : nat.

(* the text fmt_idl emits for one member *)
Definition mtext (m : member) : str :=
  match m with
  | MTypeS n d fs => fmt_typedef decide max kw_type n d (TStruct fs) STypedef
  | MTypeE n d es => fmt_typedef decide max kw_type n d (TEnum es) STypedef
  | MMethod n d a b => fmt_method decide max n d a b
  | MError n d fs => fmt_typedef decide max kw_error n d (TStruct fs) SError
  end.

Lemma fmt_typedef_split kwd name doc elt s : wf_type elt ->
  exists body, RType elt body /\
    fmt_typedef decide max kwd name doc elt s =
    ((nl ++ doc_block doc) ++ kwd ++ [32] ++ name ++ [32] ++ body) ++ nl.
Proof.
  intros Hwf. unfold fmt_typedef. cbv zeta. destruct (decide s _).
  - exists (one_type elt). split; [apply one_type_renders; exact Hwf|lsolve].
  - exists (multi_type decide max 0 elt). split; [apply multi_type_renders; exact Hwf|lsolve].
Qed.

Lemma fmt_method_split name doc i o : wf_fields i -> wf_fields o ->
  exists bi bo, RStruct i bi /\ RStruct o bo /\
    fmt_method decide max name doc i o =
    ((nl ++ doc_block doc) ++ kw_method ++ [32] ++ name ++ [] ++ bi ++ [32] ++ lit_arrow ++ [32] ++ bo) ++ nl.
Proof.
  intros Hi Ho. unfold fmt_method, one_struct, RStruct. cbv zeta.
  pose proof (one_type_renders (TStruct i) Hi) as Hi1.
  pose proof (one_type_renders (TStruct o) Ho) as Ho1.
  pose proof (multi_type_renders decide max (TStruct i) Hi 0) as Hi2.
  pose proof (multi_type_renders decide max (TStruct o) Ho 0) as Ho2.
  destruct (decide SMethodAll _); [|destruct (decide SMethodIn _); [|destruct (decide SMethodOut _)]].
  - exists (one_type (TStruct i)), (one_type (TStruct o)). split; [exact Hi1|split; [exact Ho1|lsolve]].
  - exists (one_type (TStruct i)), (multi_type decide max 0 (TStruct o)).
    split; [exact Hi1|split; [exact Ho2|lsolve]].
  - exists (multi_type decide max 0 (TStruct i)), (one_type (TStruct o)).
    split; [exact Hi2|split; [exact Ho1|lsolve]].
  - exists (multi_type decide max 0 (TStruct i)), (multi_type decide max 0 (TStruct o)).
    split; [exact Hi2|split; [exact Ho2|lsolve]].
Qed.

Lemma space_ne : [32] <> @nil N. Proof. discriminate. Qed.

Theorem member_renders m : wf_member m ->
  exists sm, RMember m sm /\ mtext m = sm ++ nl.
Proof.
  destruct m as [n d a b|n d fs|n d es|n d fs]; cbn [wf_member mtext].
  - intros (Hn & Hd & Ha & Hb). destruct (lead_ok d Hd) as [Ht He].
    destruct (fmt_method_split n d a b Ha Hb) as (bi & bo & Hbi & Hbo & E).
    pose proof (RM_method n (nl ++ doc_block d) [32] [] [32] [32] a bi b bo
                  Ht Trivia_space space_ne Hn T_nil Hbi Trivia_space Trivia_space Hbo) as H.
    rewrite He in H. eexists. split; [exact H|exact E].
  - intros (Hn & Hd & Hfs). destruct (lead_ok d Hd) as [Ht He].
    destruct (fmt_typedef_split kw_type n d (TStruct fs) STypedef Hfs) as (body & Hbody & E).
    pose proof (RM_types n (nl ++ doc_block d) [32] [32] fs body
                  Ht Trivia_space space_ne Hn Trivia_space Hbody) as H.
    rewrite He in H. eexists. split; [exact H|exact E].
  - intros (Hn & Hd & Hes). destruct (lead_ok d Hd) as [Ht He].
    destruct (fmt_typedef_split kw_type n d (TEnum es) STypedef Hes) as (body & Hbody & E).
    pose proof (RM_typee n (nl ++ doc_block d) [32] [32] es body
                  Ht Trivia_space space_ne Hn Trivia_space Hbody) as H.
    rewrite He in H. eexists. split; [exact H|exact E].
  - intros (Hn & Hd & Hfs). destruct (lead_ok d Hd) as [Ht He].
    destruct (fmt_typedef_split kw_error n d (TStruct fs) SError Hfs) as (body & Hbody & E).
    pose proof (RM_error n (nl ++ doc_block d) [32] [32] fs body
                  Ht Trivia_space space_ne Hn Trivia_space Hbody) as H.
    rewrite He in H. eexists. split; [exact H|exact E].
Qed.
End MemberProofs.

(* ---------- the order in which the formatter prints members ---------- *)
Definition is_type (m : member) : bool :=
  match m with MTypeS _ _ _ | MTypeE _ _ _ => true | _ => false end.
Definition is_method (m : member) : bool :=
  match m with MMethod _ _ _ _ => true | _ => false end.
Definition is_error (m : member) : bool :=
  match m with MError _ _ _ => true | _ => false end.

Definition reorder_ms (ms : list member) : list member :=
  filter is_type ms ++ filter is_method ms ++ filter is_error ms.
Definition reorder (i : idl) : idl := mkidl (i_name i) (i_doc i) (reorder_ms (i_members i)).

Lemma reorder_In m ms : In m (reorder_ms ms) <-> In m ms.
Proof.
  unfold reorder_ms. rewrite !in_app_iff, !filter_In. split.
  - intros [[H _]|[[H _]|[H _]]]; exact H.
  - intros H. destruct m; [right; left|left|left|right; right]; (split; [exact H|reflexivity]).
Qed.

Lemma filter_keep {A} (p q : A -> bool) : (forall x, q x = true -> p x = true) ->
  forall l, filter p (filter q l) = filter q l.
Proof.
  intros H. induction l as [|a l IH]; [reflexivity|]. cbn [filter].
  destruct (q a) eqn:E; [|exact IH]. cbn [filter]. rewrite (H a E), IH. reflexivity.
Qed.
Lemma filter_drop {A} (p q : A -> bool) : (forall x, q x = true -> p x = false) ->
  forall l, filter p (filter q l) = [].
Proof.
  intros H. induction l as [|a l IH]; [reflexivity|]. cbn [filter].
  destruct (q a) eqn:E; [|exact IH]. cbn [filter]. rewrite (H a E). exact IH.
Qed.

Lemma reorder_ms_idem ms : reorder_ms (reorder_ms ms) = reorder_ms ms.
Proof.
  unfold reorder_ms. rewrite !filter_app.
  rewrite (filter_keep is_type is_type), (filter_drop is_type is_method), (filter_drop is_type is_error),
          (filter_drop is_method is_type), (filter_keep is_method is_method), (filter_drop is_method is_error),
          (filter_drop is_error is_type), (filter_drop is_error is_method), (filter_keep is_error is_error);
    try (intros []; cbn [is_type is_method is_error]; congruence).
  rewrite !app_nil_r. reflexivity.
Qed.

Lemma reorder_idem i : reorder (reorder i) = reorder i.
Proof. unfold reorder. cbn [i_name i_doc i_members]. rewrite reorder_ms_idem. reflexivity. Qed.

Section IdlProofs.
Variable decide : site -> list nat -> bool.
Variable max : nat.

Lemma flat_types ms :
  flat_map (fun m => match m with
                     | MTypeS n d fs => fmt_typedef decide max kw_type n d (TStruct fs) STypedef
                     | MTypeE n d es => fmt_typedef decide max kw_type n d (TEnum es) STypedef
                     | _ => [] end) ms =
  flat_map (mtext decide max) (filter is_type ms).
Proof.
  induction ms as [|m ms IH]; [reflexivity|].
  destruct m; cbn [flat_map filter is_type mtext app]; rewrite IH; reflexivity.
Qed.
Lemma flat_methods ms :
  flat_map (fun m => match m with MMethod n d a b => fmt_method decide max n d a b | _ => [] end) ms =
  flat_map (mtext decide max) (filter is_method ms).
Proof.
  induction ms as [|m ms IH]; [reflexivity|].
  destruct m; cbn [flat_map filter is_method mtext app]; rewrite IH; reflexivity.
Qed.
Lemma flat_errors ms :
  flat_map (fun m => match m with
                     | MError n d fs => fmt_typedef decide max kw_error n d (TStruct fs) SError
                     | _ => [] end) ms =
  flat_map (mtext decide max) (filter is_error ms).
Proof.
  induction ms as [|m ms IH]; [reflexivity|].
  destruct m; cbn [flat_map filter is_error mtext app]; rewrite IH; reflexivity.
Qed.

Lemma fmt_idl_eq i :
  fmt_idl decide max i =
  doc_block (i_doc i) ++ kw_interface ++ [32] ++ i_name i ++ nl ++
  flat_map (mtext decide max) (i_members (reorder i)).
Proof.
  unfold fmt_idl, reorder, reorder_ms. cbn [i_members].
  rewrite flat_types, flat_methods, flat_errors, !flat_map_app. reflexivity.
Qed.

Lemma REol_nl next : REol nl next.
Proof.
  apply (RE_ws [] [10] next); [constructor|]. apply LE_one; [reflexivity|discriminate].
Qed.

Lemma tail_renders ms : Forall wf_member ms ->
  exists stl, RMTail ms stl /\ nl ++ flat_map (mtext decide max) ms = stl ++ nl.
Proof.
  induction ms as [|m ms IH]; intros H.
  - exists []. split; [apply RMT0|reflexivity].
  - inversion H as [|? ? Hm Hms]; subst.
    destruct (member_renders decide max m Hm) as (sm & Hsm & E).
    destruct (IH Hms) as (stl & Hstl & E').
    exists (nl ++ sm ++ stl). split.
    + apply RMTS; auto using REol_nl.
    + cbn [flat_map]. rewrite E. rewrite <- !app_assoc. rewrite <- E'. reflexivity.
Qed.

Lemma reorder_ms_wf ms : Forall wf_member ms -> Forall wf_member (reorder_ms ms).
Proof. rewrite !Forall_forall. intros H m Hm. apply H. apply reorder_In. exact Hm. Qed.

Lemma reorder_ms_ne ms : ms <> [] -> reorder_ms ms <> [].
Proof.
  destruct ms as [|m ms]; [congruence|]. intros _ E.
  assert (H : In m (reorder_ms (m :: ms))) by (apply reorder_In; left; reflexivity).
  rewrite E in H. exact H.
Qed.

Theorem format_renders i : wf_idl i -> RIdl (reorder i) (fmt_idl decide max i).
Proof.
  intros (Hn & Hd & Hne & Hms). rewrite fmt_idl_eq. unfold reorder. cbn [i_members].
  pose proof (reorder_ms_wf _ Hms) as Hms'. pose proof (reorder_ms_ne _ Hne) as Hne'.
  destruct (reorder_ms (i_members i)) as [|m ms]; [congruence|].
  inversion Hms' as [|? ? Hm Hrest]; subst.
  destruct (member_renders decide max m Hm) as (sm & Hsm & Em).
  destruct (tail_renders ms Hrest) as (stl & Hstl & Et).
  destruct (idoc_ok _ Hd) as [Hdt Hdd].
  pose proof (RI (doc_block (i_doc i)) [32] (i_name i) nl m sm ms stl nl
                Hdt Trivia_space space_ne (IName_concrete _ Hn) (REol_nl sm) Hsm Hstl Trivia_nl) as H.
  rewrite Hdd in H.
  eapply RIdl_eq; [exact H|].
  cbn [flat_map]. rewrite Em. rewrite <- !app_assoc. rewrite <- Et. reflexivity.
Qed.

Corollary format_parses i : wf_idl i -> parse_idl (fmt_idl decide max i) = POk (reorder i).
Proof. intros H. apply idl_parse. apply format_renders. exact H. Qed.

(* flat_map over kind-filtered members is stable under reorder; no hypothesis needed *)
Lemma format_reorder i : fmt_idl decide max (reorder i) = fmt_idl decide max i.
Proof. rewrite !fmt_idl_eq. rewrite reorder_idem. reflexivity. Qed.

Corollary format_idempotent i : wf_idl i -> fmt_idl decide max (reorder i) = fmt_idl decide max i.
Proof. intros _. apply format_reorder. Qed.

Corollary reorder_wf i : wf_idl i -> wf_idl (reorder i).
Proof.
  intros (Hn & Hd & Hne & Hms). unfold wf_idl, reorder. cbn [i_name i_doc i_members].
  auto using reorder_ms_wf, reorder_ms_ne.
Qed.

Corollary format_roundtrip i : wf_idl i ->
  exists j, parse_idl (fmt_idl decide max i) = POk j /\ fmt_idl decide max j = fmt_idl decide max i.
Proof. intros H. exists (reorder i). split; [apply format_parses; exact H|apply format_reorder]. Qed.
End IdlProofs.

(* ---------- the thresholds of format.rs ---------- *)
Corollary format_src_parses max i : wf_idl i -> parse_idl (format_src max i) = POk (reorder i).
Proof. apply format_parses. Qed.
Corollary format_src_idempotent max i : wf_idl i -> format_src max (reorder i) = format_src max i.
Proof. apply format_idempotent. Qed.
Corollary format_src_roundtrip max i : wf_idl i ->
  exists j, parse_idl (format_src max i) = POk j /\ format_src max j = format_src max i.
Proof. apply format_roundtrip. Qed.

(* ---------- non-vacuity: a well-formed definition ---------- *)
(* interface a.b  with doc "#x";  type T (k: ?[]int), method F() -> (), error E (), type U (p, q) *)
Definition sample : idl :=
  mkidl [97; 46; 98] [35; 120]
    [MMethod [70] [] [] [];
     MTypeS [84] [35; 121] [([107], TOpt (TArr TInt))];
     MError [69] [] [];
     MTypeE [85] [] [[112]; [113]]].

Lemma wf_doc_comment c : is_eolc c = false -> is_trim c = false -> wf_doc [35; c].
Proof.
  intros H1 H2. split.
  - apply (T_comment [c] 10 []); [repeat constructor; exact H1|reflexivity|apply T_nil].
  - unfold trim_doc. cbn [app ltrim]. change (is_trim 35) with false. cbv iota.
    cbn [rev app ltrim]. change (is_trim 10) with true. cbv iota.
    cbn [ltrim]. rewrite H2. reflexivity.
Qed.

Example sample_wf : wf_idl sample.
Proof.
  unfold wf_idl, sample. cbn [i_name i_doc i_members].
  split; [reflexivity|]. split; [apply wf_doc_comment; reflexivity|]. split; [discriminate|].
  repeat apply Forall_cons; [| | | |apply Forall_nil]; cbn [wf_member].
  - repeat split; apply wf_doc_nil.
  - split; [reflexivity|]. split; [apply wf_doc_comment; reflexivity|].
    apply wf_fields_cons. repeat split.
  - repeat split; apply wf_doc_nil.
  - split; [reflexivity|]. split; [apply wf_doc_nil|]. split; [discriminate|].
    repeat apply Forall_cons; try reflexivity. apply Forall_nil.
Qed.

Example sample_roundtrip max : parse_idl (format_src max sample) = POk (reorder sample).
Proof. apply format_src_parses, sample_wf. Qed.

Print Assumptions one_type_renders.
Print Assumptions multi_type_renders.
Print Assumptions member_renders.
Print Assumptions format_renders.
Print Assumptions format_parses.
Print Assumptions format_idempotent.
Print Assumptions reorder_wf.
Print Assumptions format_roundtrip.
Print Assumptions format_src_roundtrip.
Print Assumptions sample_roundtrip.
