(* A schema interpreter for the serde-derive structs of the runtime crate.
   The schemas themselves are regenerated from the source (gen/WireGen.v).
   Three functions model the three things serde does with such a struct:
     ser      : Serialize            -> json        (serde_json::to_value / to_string)
     de_value : Deserialize from an in-memory serde_json::Value (from_value)
     de_text  : Deserialize from text/bytes (from_str / from_slice), streaming:
                duplicate known members are an error, unknown members are skipped
                with serde_json's lenient scanner, known members are typed. *)
From VL Require Import Base Json.
Open Scope N_scope.

Inductive fkind := KOptBool | KOptString | KString | KOptValue | KVecString.
Record field := mkfield { f_name : bytes; f_kind : fkind; f_skip : bool }.
Definition schema := list field.

Inductive fval :=
| VOptBool (o : option bool)
| VOptString (o : option bytes)
| VString (s : bytes)
| VOptValue (o : option json)
| VVecString (l : list bytes).
Definition record := list fval.   (* positional, aligned with the schema *)

Definition fval_is_none (v : fval) : bool :=
  match v with
  | VOptBool None | VOptString None | VOptValue None => true
  | _ => false
  end.

Definition fval_json (v : fval) : json :=
  match v with
  | VOptBool None | VOptString None | VOptValue None => JNull
  | VOptBool (Some b) => JBool b
  | VOptString (Some s) => JStr s
  | VString s => JStr s
  | VOptValue (Some j) => j
  | VVecString l => JArr (map JStr l)
  end.

(* does a value have the shape its field kind demands? *)
Definition fval_kind_ok (k : fkind) (v : fval) : bool :=
  match k, v with
  | KOptBool, VOptBool _ | KOptString, VOptString _ | KString, VString _
  | KOptValue, VOptValue _ | KVecString, VVecString _ => true
  | _, _ => false
  end.

Fixpoint record_ok (sch : schema) (r : record) : bool :=
  match sch, r with
  | [], [] => true
  | f :: sch', v :: r' => fval_kind_ok (f_kind f) v && record_ok sch' r'
  | _, _ => false
  end.

(* Serialize: members in declaration order; a None with skip_serializing_if is left out *)
Fixpoint ser_members (sch : schema) (r : record) : list (bytes * json) :=
  match sch, r with
  | f :: sch', v :: r' =>
      if f_skip f && fval_is_none v then ser_members sch' r'
      else (f_name f, fval_json v) :: ser_members sch' r'
  | _, _ => []
  end.
Definition ser (sch : schema) (r : record) : json := JObj (ser_members sch r).

(* typed conversion of one JSON value *)
Fixpoint all_strs (l : list json) : option (list bytes) :=
  match l with
  | [] => Some []
  | JStr s :: r => match all_strs r with Some t => Some (s :: t) | None => None end
  | _ :: _ => None
  end.

Definition typed (k : fkind) (j : json) : option fval :=
  match k, j with
  | KOptBool, JNull => Some (VOptBool None)
  | KOptBool, JBool b => Some (VOptBool (Some b))
  | KOptString, JNull => Some (VOptString None)
  | KOptString, JStr s => Some (VOptString (Some s))
  | KString, JStr s => Some (VString s)
  | KOptValue, JNull => Some (VOptValue None)
  | KOptValue, j => Some (VOptValue (Some (norm j)))
  | KVecString, JArr l => match all_strs l with Some t => Some (VVecString t) | None => None end
  | _, _ => None
  end.

Definition missing (k : fkind) : option fval :=
  match k with
  | KOptBool => Some (VOptBool None)
  | KOptString => Some (VOptString None)
  | KOptValue => Some (VOptValue None)
  | KString | KVecString => None
  end.

(* from_value: the Value is already normalised (sorted, no duplicates) *)
Fixpoint de_fields_obj (sch : schema) (m : list (bytes * json)) : option record :=
  match sch with
  | [] => Some []
  | f :: sch' =>
      match (match obj_get (f_name f) m with
             | Some j => typed (f_kind f) j
             | None => missing (f_kind f)
             end), de_fields_obj sch' m with
      | Some v, Some r => Some (v :: r)
      | _, _ => None
      end
  end.

Fixpoint de_fields_seq (sch : schema) (l : list json) : option record :=
  match sch, l with
  | [], [] => Some []
  | f :: sch', j :: l' =>
      match typed (f_kind f) j, de_fields_seq sch' l' with
      | Some v, Some r => Some (v :: r)
      | _, _ => None
      end
  | _, _ => None
  end.

Definition de_value (sch : schema) (j : json) : option record :=
  match j with
  | JObj m => de_fields_obj sch m
  | JArr l => de_fields_seq sch l
  | _ => None
  end.

(* ---- streaming front end ---- *)

Fixpoint find_field (sch : schema) (k : bytes) (i : nat) : option (nat * fkind) :=
  match sch with
  | [] => None
  | f :: sch' => if beq_bytes k (f_name f) then Some (i, f_kind f) else find_field sch' k (S i)
  end.

Fixpoint set_slot {A} (i : nat) (v : A) (l : list (option A)) : list (option A) :=
  match i, l with
  | O, _ :: l' => Some v :: l'
  | S i', x :: l' => x :: set_slot i' v l'
  | _, [] => []
  end.

Definition slot_filled {A} (i : nat) (l : list (option A)) : bool :=
  match nth_error l i with Some (Some _) => true | _ => false end.

(* depth left for member values: the struct itself used one level *)
Definition member_depth : N := 127.

Fixpoint de_members (f : nat) (sch : schema) (slots : list (option fval)) (s : bytes) {struct f}
  : res (list (option fval) * bytes) :=
  match f with
  | O => Fuel
  | S f' =>
      match skip_ws s with
      | 34 :: r0 =>
          do (k, r1) <- parse_string true r0;
          match skip_ws r1 with
          | 58 :: r2 =>
              do (slots', r3) <-
                 match find_field sch k 0 with
                 | Some (i, kind) =>
                     if slot_filled i slots then Err            (* duplicate field *)
                     else
                       do (j, r3) <- parse_val (val_fuel r2) true member_depth r2;
                       match typed kind j with
                       | Some v => Ok (set_slot i v slots, r3)
                       | None => Err
                       end
                 | None =>
                     do (_, r3) <- parse_val (val_fuel r2) false 0 r2;   (* ignore_value *)
                     Ok (slots, r3)
                 end;
              match skip_ws r3 with
              | 44 :: r4 => de_members f' sch slots' r4
              | 125 :: r4 => Ok (slots', r4)
              | _ => Err
              end
          | _ => Err
          end
      | _ => Err
      end
  end.

Fixpoint finish_slots (sch : schema) (slots : list (option fval)) : option record :=
  match sch, slots with
  | [], [] => Some []
  | f :: sch', o :: slots' =>
      match (match o with Some v => Some v | None => missing (f_kind f) end), finish_slots sch' slots' with
      | Some v, Some r => Some (v :: r)
      | _, _ => None
      end
  | _, _ => None
  end.

Fixpoint de_seq_text (f : nat) (sch : schema) (s : bytes) (first : bool) {struct f}
  : res (record * bytes) :=
  match f with
  | O => Fuel
  | S f' =>
      match sch with
      | [] => match skip_ws s with
              | 93 :: r => Ok ([], r)
              | _ => Err
              end
      | fd :: sch' =>
          do s1 <- (if first then Ok s
                    else match skip_ws s with 44 :: r => Ok r | _ => Err end);
          (* a closing bracket where an element is expected: invalid length *)
          match skip_ws s1 with
          | 93 :: _ => Err
          | _ =>
              do (j, r1) <- parse_val (val_fuel s1) true member_depth s1;
              match typed (f_kind fd) j with
              | Some v => do (rest, r2) <- de_seq_text f' sch' r1 false; Ok (v :: rest, r2)
              | None => Err
              end
          end
      end
  end.

Definition de_text (sch : schema) (s : bytes) : res record :=
  match skip_ws s with
  | 123 :: r =>
      do (slots, r1) <-
         match skip_ws r with
         | 125 :: r1 => Ok (map (fun _ => None) sch, r1)
         | _ => de_members (S (length r)) sch (map (fun _ => None) sch) r
         end;
      match skip_ws r1 with
      | [] => match finish_slots sch slots with Some rec => Ok rec | None => Err end
      | _ => Err
      end
  | 91 :: r =>
      do (rec, r1) <- de_seq_text (S (length sch)) sch r true;
      match skip_ws r1 with [] => Ok rec | _ => Err end
  | _ => Err
  end.

(* accessors by member name (robust against reordering of the regenerated schema) *)
Fixpoint get_field (sch : schema) (r : record) (k : bytes) : option fval :=
  match sch, r with
  | f :: sch', v :: r' => if beq_bytes k (f_name f) then Some v else get_field sch' r' k
  | _, _ => None
  end.
