(* The client side: Connection / MethodCall as a transition system.  A step is one of the
   atomic sections of the implementation: send() (runs under the connection's write lock)
   and recv() (reads from a stream the call object owns exclusively).  Threads sharing a
   connection are arbitrary interleavings of these steps. *)
From VL Require Import Base Json Schema Wire.
From VLG Require Import WireGen.
Open Scope N_scope.

(* what arrives from the service, frame by frame *)
Inductive frame :=
| FReply (y : reply)          (* a NUL-terminated message that decodes to a Reply *)
| FGarbage.                   (* a NUL-terminated message that does not *)
(* the end of the list is EOF *)

Record call := mkcall {
  c_fresh : bool;             (* method/request slots still present *)
  c_owns : bool;              (* holds the connection's reader and writer *)
  c_cont : bool }.            (* the iterator expects further replies *)
Definition new_call : call := mkcall true false false.

Record cstate := mkcs {
  cs_calls : list call;       (* call objects, by index *)
  cs_idle : bool;             (* the connection holds its reader and writer *)
  cs_inbox : list frame;      (* not yet read *)
  cs_sent : list (nat * bool * bool * bool);    (* requests written: call, oneway, more, upgrade; newest first *)
  cs_finals : nat }.          (* ghost: number of final (non-continues) replies consumed *)

Inductive cop :=
| OSend (k : nat) (oneway more upgrade : bool)   (* MethodCall::send *)
| ORecv (k : nat)                                (* MethodCall::recv *)
| OSetCont (k : nat)                             (* more() sets continues before sending *)
| ONext (k : nat)                                (* Iterator::next *)
| ODrop (k : nat).                               (* the call object goes out of scope (an iterator abandoned mid-stream) *)

Inductive errkind :=
| EBusy | ECalledAlready | EOldReply | EClosed | EDecode
| EStd (kind : bytes) (arg : bytes)              (* one of the four standard errors with its parameter *)
| EOther (y : reply).                            (* any other error: the full reply *)

Inductive cout :=
| RUnit                          (* send succeeded / set_continues *)
| RNone                          (* iterator finished *)
| ROk (p : json)                 (* a successful reply: its parameters (absent = {}) *)
| RErr (e : errkind).

Fixpoint upd {A} (l : list A) (k : nat) (f : A -> A) : list A :=
  match l, k with
  | [], _ => []
  | x :: r, O => f x :: r
  | x :: r, S k' => x :: upd r k' f
  end.

(* ErrorKind::from(Reply) *)
Fixpoint lookup_err (t : list (bytes * (bytes * bytes))) (n : bytes) : option (bytes * bytes) :=
  match t with
  | [] => None
  | (n', km) :: r => if beq_bytes n n' then Some km else lookup_err r n
  end.

Definition error_of_reply (y : reply) : errkind :=
  match y_error y with
  | None => EOther y
  | Some n =>
      match lookup_err client_error_table n with
      | Some (kind, member) =>
          EStd kind
            (match y_params y with
             | Some (JObj m) =>
                 (* from_value::<Error*>: the member as Option<String>; wrong type = failure = "" *)
                 match obj_get member m with
                 | Some (JStr s) => s
                 | Some JNull | None => []
                 | Some _ => []
                 end
             | Some (JArr [JStr s]) => s
             | _ => []
             end)
      | None => EOther y
      end
  end.

Definition outcome_of_reply (y : reply) : cout :=
  match y_error y with
  | Some _ => RErr (error_of_reply y)
  | None => ROk (match y_params y with Some p => p | None => JObj [] end)
  end.

Definition get_call (s : cstate) (k : nat) : call := nth k (cs_calls s) new_call.

Definition do_recv (s : cstate) (k : nat) : cstate * cout :=
  let c := get_call s k in
  if negb (c_owns c) then (s, RErr EOldReply)
  else
    match cs_inbox s with
    | [] => (s, RErr EClosed)                                 (* the call keeps the stream *)
    | FGarbage :: rest =>
        (mkcs (cs_calls s) (cs_idle s) rest (cs_sent s) (cs_finals s), RErr EDecode)
    | FReply y :: rest =>
        match y_continues y with
        | Some true =>
            (mkcs (upd (cs_calls s) k (fun c => mkcall (c_fresh c) true true)) (cs_idle s) rest (cs_sent s) (cs_finals s),
             outcome_of_reply y)
        | _ =>
            (mkcs (upd (cs_calls s) k (fun c => mkcall (c_fresh c) false false)) true rest (cs_sent s) (S (cs_finals s)),
             outcome_of_reply y)
        end
    end.

Definition cstep (s : cstate) (o : cop) : cstate * cout :=
  match o with
  | OSend k oneway more upgrade =>
      let c := get_call s k in
      if negb (c_fresh c) then (s, RErr ECalledAlready)
      else
        (* the method/request slots are consumed before the busy test *)
        let calls1 := upd (cs_calls s) k (fun c => mkcall false (c_owns c) (c_cont c)) in
        if negb (cs_idle s) then (mkcs calls1 false (cs_inbox s) (cs_sent s) (cs_finals s), RErr EBusy)
        else if oneway then
          (mkcs calls1 true (cs_inbox s) ((k, true, more, upgrade) :: cs_sent s) (cs_finals s), RUnit)
        else
          (mkcs (upd calls1 k (fun c => mkcall false true (c_cont c))) false (cs_inbox s)
                ((k, false, more, upgrade) :: cs_sent s) (cs_finals s), RUnit)
  | ORecv k => do_recv s k
  | OSetCont k =>
      (mkcs (upd (cs_calls s) k (fun c => mkcall (c_fresh c) (c_owns c) true)) (cs_idle s) (cs_inbox s) (cs_sent s) (cs_finals s), RUnit)
  | ONext k =>
      if c_cont (get_call s k) then do_recv s k else (s, RNone)
  | ODrop k =>
      (* MethodCall has no Drop impl: whatever the object holds goes with it. If it held the connection's reader and
         writer they are gone for good - nobody gets them back, the connection stays busy (c_owns is kept as the ghost
         of that fact); the object itself can do nothing any more *)
      (mkcs (upd (cs_calls s) k (fun c => mkcall false (c_owns c) false)) (cs_idle s) (cs_inbox s) (cs_sent s) (cs_finals s), RUnit)
  end.

Fixpoint crun (s : cstate) (ops : list cop) : cstate * list cout :=
  match ops with
  | [] => (s, [])
  | o :: r => let '(s1, x) := cstep s o in let '(s2, xs) := crun s1 r in (s2, x :: xs)
  end.

Definition cs_init (ncalls : nat) (inbox : list frame) : cstate :=
  mkcs (repeat new_call ncalls) true inbox [] O.

(* the public operations *)
Definition op_call (k : nat) : list cop := [OSend k false false false; ORecv k].
Definition op_oneway (k : nat) : list cop := [OSend k true false false].
Definition op_more (k : nat) : list cop := [OSetCont k; OSend k false true false].
