(* Non-vacuity: concrete services, requests and streams that satisfy the hypotheses of
   the theorems in ServiceProofs.v (all by computation). *)
From Coq Require Import String Ascii.
From VL Require Import Base Json Schema Wire Service Script ServiceProofs ServiceCap.
From VLG Require Import WireGen.
Open Scope N_scope.

Definition b (s : string) : bytes := List.map (fun a => N_of_ascii a) (list_ascii_of_string s).

Definition ex_svc : service :=
  mkservice (b "vendor") (b "product") (b "1") (b "http://example.org")
    [script_iface (b "org.example.a") (b "interface org.example.a") true;
     script_iface (b "org.example.b") (b "interface org.example.b") false].

Definition ex_frames : list bytes :=
  [b "{""method"":""org.varlink.service.GetInfo""}";
   b "{""more"":true,""method"":""org.example.a.Run"",""parameters"":{""script"":[""c1"",""r"",""r"",""c0"",""r""],""tag"":1}}";
   b "{""method"":""org.example.zz.Run""}";
   b "{""method"":""nodot""}";
   b "{""oneway"":true,""method"":""org.example.a.Run"",""parameters"":{""script"":[""r""]}}";
   b "{""method"":""org.example.a.Nope""}"].

Definition ex_requests : list request :=
  List.flat_map (fun f => match decode_request f with Ok q => [q] | _ => [] end) ex_frames.

Fixpoint decodes_b (fs : list bytes) (qs : list request) : bool :=
  match fs, qs with
  | [], [] => true
  | f :: fs', q :: qs' =>
      negb (mem_bytes [0] (List.map (fun c => [c]) f)) &&
      match decode_request f with Ok _ => true | _ => false end && decodes_b fs' qs'
  | _, _ => false
  end.

Example ex_six_requests : length ex_requests = 6%nat.
Proof. vm_compute. reflexivity. Qed.

(* the six-request pipeline is answered completely, in order; seven replies *)
Example ex_pipeline_replies :
  length (List.filter (N.eqb 0) (spec_out ex_svc (wire ex_frames))) = 7%nat /\
  served ex_svc ex_requests = 6%nat.
Proof. vm_compute. split; reflexivity. Qed.

(* the same stream cut into three pieces, fed with the tail protocol *)
Example ex_chunked :
  let s := wire ex_frames in
  snd (feed_all ex_svc [firstn 17 s; firstn 100 (skipn 17 s); skipn 117 s]) = spec_out ex_svc s.
Proof. vm_compute. reflexivity. Qed.

(* a oneway request exists and is served silently *)
Example ex_oneway :
  exists q, nth_error ex_requests 4 = Some q /\ is_oneway q = true /\ fst (serve ex_svc q) = [].
Proof. eexists. split; [vm_compute; reflexivity|]. split; vm_compute; reflexivity. Qed.

(* a malformed message closes the session after the earlier ones were answered *)
Example ex_malformed :
  fst (arun ex_svc (ARun []) (wire (firstn 1 ex_frames) ++ frame_of (b "{""method"":7}") ++ b "{}")) = AClosed.
Proof. vm_compute. reflexivity. Qed.

(* upgrade: everything after the upgrade request is echoed by the upgraded handler *)
Example ex_upgrade :
  let up := b "{""upgrade"":true,""method"":""org.example.a.Run"",""parameters"":{""script"":[""u"",""r""]}}" in
  exists i o, arun ex_svc (ARun []) (frame_of up) = (AUp i, o) /\
              spec_out ex_svc (frame_of up ++ b "raw bytes") = o ++ b "raw bytes".
Proof. eexists. eexists. split; vm_compute; reflexivity. Qed.

(* the transient-slice caller (test.rs, ping's listen_multiplex) and the inner 8192-byte BufReader: an upgrade
   request followed, in the same buffer, by more than a block of payload - the bytes beyond the block never reach
   the upgraded handler (known finding C02 class=SliceCallerBeyondBlock); within one block nothing is lost *)
Definition ex_up_frame : bytes :=
  frame_of (b "{""upgrade"":true,""method"":""org.example.a.Run"",""parameters"":{""script"":[""u"",""r""]}}").

Definition ex_big_up (n : N) : bytes := ex_up_frame ++ repeat 120 (N.to_nat n).

Example ex_slice_caller_drops_beyond_block :
  Nat.ltb (length (snd (feed_all_cap bufreader_capacity ex_svc [ex_big_up 9000])))
          (length (snd (feed_all ex_svc [ex_big_up 9000]))) = true.
Proof. vm_compute. reflexivity. Qed.

Example ex_slice_caller_within_block :
  Nat.leb (total [ex_big_up 8000]) bufreader_capacity = true /\
  feed_all_cap bufreader_capacity ex_svc [firstn 50 (ex_big_up 8000); skipn 50 (ex_big_up 8000)]
  = feed_all ex_svc [ex_big_up 8000].
Proof. split; vm_compute; reflexivity. Qed.
