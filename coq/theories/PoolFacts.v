(* Facts about the regenerated pool/listen constants (gen/PoolGen.v). *)
From Coq Require Import List Arith Lia Bool.
From VL Require Import PoolExpr Pool PoolProofs Listen.
From VL Require Export PoolSrc.
From VLG Require Import PoolGen.

(* the growth condition read from ThreadPool::execute means: workers <= counter and workers < max *)
Lemma cond_spec_src : forall max c w, beval grow_cond_src c w max = (w <=? c) && (w <? max).
Proof.
  intros max c w. unfold grow_cond_src. cbn [beval teval].
  repeat match goal with
         | |- context [?a <=? ?b] => destruct (Nat.leb_spec a b)
         | |- context [?a <? ?b] => destruct (Nat.ltb_spec a b)
         | |- context [?a =? ?b] => destruct (Nat.eqb_spec a b)
         end; simpl; try reflexivity; lia.
Qed.

Lemma counted_at_enqueue : count_at_enqueue = true.
Proof. vm_compute. reflexivity. Qed.

Lemma initial_is_clamped : initial_clamped = true.
Proof. vm_compute. reflexivity. Qed.

Lemma stop_checked_per_accept : stop_checked_after_accept = true.
Proof. vm_compute. reflexivity. Qed.


Theorem src_pool_safe initial max es s : 1 <= initial -> 1 <= max -> ~ In EDrop es ->
  src_run max (src_init initial max) es = Some s ->
  length (workers s) <= max /\ nD s + nR s + nF s <= max /\
  (acc_sent s = false -> Nat.min (njobs (queue s)) (max - (nD s + nR s)) <= nI s + nF s).
Proof.
  unfold src_run, src_init. rewrite counted_at_enqueue, initial_is_clamped. intros Hi Hm Hn H.
  assert (I : Inv max s).
  { eapply (inv_reachable grow_cond_src max (cond_spec_src max) es); eauto.
    apply inv_init; unfold effective_initial; lia. }
  destruct (bound max s I). split; [assumption|]. split; [assumption|]. intros A. apply (no_stranding max s I A).
Qed.

Theorem src_drop_drains initial max es s : 1 <= initial -> 1 <= max ->
  src_run max (src_init initial max) es = Some s ->
  dropped s = true -> nX s = length (workers s) -> finished s = accepted s.
Proof.
  unfold src_run, src_init. intros Hi Hm H Dr Hx.
  apply drop_drains; auto.
  eapply (dinv_reachable count_at_enqueue grow_cond_src max); eauto. apply dinv_init. unfold effective_initial. destruct initial_clamped; lia.
Qed.

(* the counter is exactly the number of connections accepted and not yet finished *)
Theorem src_counter_counts_unfinished initial max es s : 1 <= initial -> 1 <= max -> ~ In EDrop es ->
  src_run max (src_init initial max) es = Some s ->
  counter s = njobs (queue s) + nD s + nR s + nF s.
Proof.
  unfold src_run, src_init. rewrite counted_at_enqueue, initial_is_clamped. intros Hi Hm Hn H.
  assert (I : Inv max s).
  { eapply (inv_reachable grow_cond_src max (cond_spec_src max) es); eauto.
    apply inv_init; unfold effective_initial; lia. }
  destruct I as (_ & _ & _ & _ & _ & Hc & _). exact Hc.
Qed.

