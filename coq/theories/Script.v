(* The scripted interface used by the correspondence harness (harness/src/script.rs
   implements exactly this in Rust): the behaviour of a call is spelled out in its
   parameters, so the model and the implementation can be driven by the same requests. *)
From VL Require Import Base Json Schema Wire Service.
From VLG Require Import WireGen.
Open Scope N_scope.

Definition s_Run : bytes := [82; 117; 110].
Definition s_script : bytes := [115; 99; 114; 105; 112; 116].
Definition s_tag : bytes := [116; 97; 103].
Definition s_i : bytes := [105].
Definition s_Failed : bytes := [46; 70; 97; 105; 108; 101; 100].
Definition s_p : bytes := [112].

Definition s_iface : bytes := [105; 102; 97; 99; 101].
Definition s_req : bytes := [114; 101; 113].
Definition request_json (q : request) : json := norm (ser schema_Request (record_of_request q)).

Definition op_action (q : request) (iname : bytes) (full : bytes) (tag : json) (idx : nat) (op : bytes) : list action :=
  if beq_bytes op [99; 49] then [ASetCont true]
  else if beq_bytes op [99; 48] then [ASetCont false]
  else if beq_bytes op [114] then [AReply (Some (JObj [(s_i, JInt (Z.of_nat idx)); (s_tag, tag)]))]
  else if beq_bytes op [114; 48] then [AReply None]
  else if beq_bytes op [119] then [AReply (Some (JObj [(s_iface, JStr iname); (s_req, request_json q)]))]
  else if beq_bytes op [101] then [AError (iname ++ s_Failed) (Some (JObj [(s_tag, tag)]))]
  else if beq_bytes op [101; 48] then [AError (iname ++ s_Failed) None]
  else if beq_bytes op [117] then [AUpgrade]
  else if beq_bytes op [120] then [AFail]
  else if beq_bytes op [105; 110; 118] then [a_invalid_parameter s_p]
  else if beq_bytes op [109; 110; 102] then [a_method_not_found full]
  else if beq_bytes op [109; 110; 105] then [a_method_not_implemented full]
  else [].

Fixpoint ops_actions (q : request) (iname full : bytes) (tag : json) (idx : nat) (ops : list bytes) : list action :=
  match ops with
  | [] => []
  | o :: r => op_action q iname full tag idx o ++ ops_actions q iname full tag (S idx) r
  end.

Definition script_call (iname : bytes) (q : request) : list action :=
  match rsplit_dot (r_method q) with
  | Some (_, m) =>
      if beq_bytes m s_Run then
        match r_params q with
        | None => [a_invalid_parameter k_parameters]
        | Some (JObj mm) =>
            let tag := match obj_get s_tag mm with Some t => t | None => JNull end in
            match obj_get s_script mm with
            | Some (JArr l) =>
                match all_strs l with
                | Some ops => ops_actions q iname (r_method q) tag 0 ops
                | None => [a_invalid_parameter s_script; AFail]
                end
            | _ => [a_invalid_parameter s_script; AFail]
            end
        | Some _ => [a_invalid_parameter s_script; AFail]
        end
      else [a_method_not_found (r_method q)]
  | None => [a_method_not_found (r_method q)]
  end.

Definition script_iface (name descr : bytes) (echo : bool) : iface :=
  mkiface name descr (script_call name) echo.
