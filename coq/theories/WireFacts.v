(* Facts about the regenerated constants (gen/WireGen.v), decided by computation.
   If the source stops satisfying one of them, this file stops compiling. *)
From VL Require Import Base Json Schema Wire.
From VLG Require Import WireGen.
Open Scope N_scope.

Lemma reply_struct_honours_oneway : reply_struct_checks_oneway = true.
Proof. vm_compute. reflexivity. Qed.
Lemma reply_parameters_honours_oneway : reply_parameters_checks_oneway = true.
Proof. vm_compute. reflexivity. Qed.

Definition field_is (f : field) (n : bytes) (k : fkind) (s : bool) : bool :=
  beq_bytes (f_name f) n && (match f_kind f, k with
                             | KOptBool, KOptBool | KOptString, KOptString | KString, KString
                             | KOptValue, KOptValue | KVecString, KVecString => true
                             | _, _ => false end) && Bool.eqb (f_skip f) s.

Definition has_field (sch : schema) (n : bytes) (k : fkind) (s : bool) : bool :=
  existsb (fun f => field_is f n k s) sch.

(* the request and reply structs have exactly the members of the varlink protocol, and every
   optional one is omitted from the output when unset *)
Lemma request_schema_ok :
  (length schema_Request =? 5)%nat && has_field schema_Request k_more KOptBool true &&
  has_field schema_Request k_oneway KOptBool true && has_field schema_Request k_upgrade KOptBool true &&
  has_field schema_Request k_method KString false && has_field schema_Request k_parameters KOptValue true = true.
Proof. vm_compute. reflexivity. Qed.

Lemma reply_schema_ok :
  (length schema_Reply =? 3)%nat && has_field schema_Reply k_continues KOptBool true &&
  has_field schema_Reply k_error KOptString true && has_field schema_Reply k_parameters KOptValue true = true.
Proof. vm_compute. reflexivity. Qed.
