(* C07 - a client connection carries one call at a time and reports outcomes faithfully *)
From VL Require Import Base Json Schema Wire Client ClientProofs.
From VLG Require Import WireGen.
Open Scope nat_scope.

(* every reachable state of any number of call objects under any interleaving of their steps
   satisfies: at most one owner, idle iff no owner, the owner wrote the latest non-oneway
   request, completed reply groups = non-oneway requests written (minus the one in progress) *)
Theorem C07_invariant_all_interleavings : forall ops s, Inv s ->
  Forall (fun o => op_call_index o < ncalls s) ops -> Inv (fst (crun s ops)).
Proof. exact run_inv. Qed.
Print Assumptions C07_invariant_all_interleavings.

Theorem C07_initial_state_ok : forall n inbox, Inv (cs_init n inbox).
Proof. exact inv_init. Qed.
Print Assumptions C07_initial_state_ok.

(* a reply is consumed only by the call that wrote the request it answers *)
Theorem C07_reply_goes_to_requester : forall s o s' x, Inv s -> op_call_index o < ncalls s ->
  cstep s o = (s', x) -> cs_inbox s' <> cs_inbox s ->
  latest_requester (cs_sent s) = Some (op_call_index o) /\
  S (cs_finals s) = length (twoway (cs_sent s)).
Proof. exact reply_goes_to_requester. Qed.
Print Assumptions C07_reply_goes_to_requester.

Theorem C07_busy_send_writes_nothing : forall s k ow mo up, cs_idle s = false -> c_fresh (get_call s k) = true ->
  snd (cstep s (OSend k ow mo up)) = RErr EBusy /\ cs_sent (fst (cstep s (OSend k ow mo up))) = cs_sent s.
Proof. exact busy_send_writes_nothing. Qed.
Print Assumptions C07_busy_send_writes_nothing.

Theorem C07_failed_send_writes_nothing : forall s k ow mo up e,
  snd (cstep s (OSend k ow mo up)) = RErr e -> cs_sent (fst (cstep s (OSend k ow mo up))) = cs_sent s.
Proof. exact failed_send_writes_nothing. Qed.
Print Assumptions C07_failed_send_writes_nothing.

Theorem C07_send_only_once : forall s k ow mo up ow2 mo2 up2, k < ncalls s ->
  snd (cstep (fst (cstep s (OSend k ow mo up))) (OSend k ow2 mo2 up2)) = RErr ECalledAlready.
Proof. exact send_only_once. Qed.
Print Assumptions C07_send_only_once.

Theorem C07_final_reply_frees_connection : forall s k y rest, owns s k -> cs_inbox s = FReply y :: rest ->
  y_continues y <> Some true -> cs_idle (fst (do_recv s k)) = true /\ cs_inbox (fst (do_recv s k)) = rest.
Proof. exact final_reply_frees_connection. Qed.
Print Assumptions C07_final_reply_frees_connection.

Theorem C07_success_iff_no_error : forall y, (exists p, outcome_of_reply y = ROk p) <-> y_error y = None.
Proof. exact success_iff_no_error. Qed.
Print Assumptions C07_success_iff_no_error.

Theorem C07_error_kind_by_name : forall y n, y_error y = Some n ->
  outcome_of_reply y =
  RErr (match lookup_err client_error_table n with
        | Some (kind, member) =>
            EStd kind (match y_params y with
                       | Some (JObj m) => match obj_get member m with Some (JStr s) => s | _ => [] end
                       | Some (JArr [JStr s]) => s
                       | _ => []
                       end)
        | None => EOther y
        end).
Proof. exact error_kind_by_name. Qed.
Print Assumptions C07_error_kind_by_name.

Theorem C07_client_table_matches_server :
  map fst client_error_table =
  [err_interface_not_found; err_invalid_parameter; err_method_not_found; err_method_not_implemented] /\
  map (fun e => snd (snd e)) client_error_table =
  [err_interface_not_found_member; err_invalid_parameter_member; err_method_not_found_member; err_method_not_implemented_member].
Proof. exact client_table_matches_server. Qed.
Print Assumptions C07_client_table_matches_server.

(* an iterator abandoned mid-stream: the replies still outstanding reach no other call, the connection stays busy *)
Theorem C07_abandoned_stream_reaches_nobody : forall ops s k, Inv s -> k < ncalls s -> owns s k ->
  Forall (fun o => op_call_index o < ncalls s /\ op_call_index o <> k) ops ->
  let s1 := fst (cstep s (ODrop k)) in
  cs_inbox (fst (crun s1 ops)) = cs_inbox s /\ cs_sent (fst (crun s1 ops)) = cs_sent s /\
  cs_idle (fst (crun s1 ops)) = false /\ Forall (fun x => forall p, x <> ROk p) (snd (crun s1 ops)).
Proof. exact abandoned_stream_reaches_nobody. Qed.
Print Assumptions C07_abandoned_stream_reaches_nobody.

(* tie: the functions this property's model describes by hand (not by translation) still have the pinned text; an
   edit to one of them breaks this obligation and sends the check searching for a failing input *)
From VLG Require Import ShapeGen.
Theorem C07_modelled_code_is_the_pinned_text : shapes_for_C07 = true.
Proof. vm_compute. reflexivity. Qed.
Print Assumptions C07_modelled_code_is_the_pinned_text.
