(* C17 - wire data types survive a JSON round trip in both directions *)
From VL Require Import Base Json JsonProofs Schema Wire WireSet WireFacts WireProofs.
From VLG Require Import WireGen SetGen.

(* text front end: the reader accepts everything the writer emits and returns the same value
   (every well-formed value nested < 127 deep) *)
Theorem C17_json_text_roundtrip : forall j, wf j -> (height j <= 126)%nat -> parse_doc true (print j) = Ok j.
Proof. exact parse_print. Qed.
Print Assumptions C17_json_text_roundtrip.

(* the writer never emits NUL *)
Theorem C17_no_nul_in_output : forall j, wf j -> ~ In 0%N (print j).
Proof. exact print_no_nul. Qed.
Print Assumptions C17_no_nul_in_output.

(* Request / Reply / ServiceInfo: serialise then deserialise from a Value gives the value back,
   outside the Some(null) class (known finding) *)
Theorem C17_request_value_roundtrip : forall r, record_ok schema_Request r = true -> Forall fval_rt_ok r ->
  de_value schema_Request (ser schema_Request r) = Some r.
Proof. exact request_value_roundtrip. Qed.
Print Assumptions C17_request_value_roundtrip.

Theorem C17_reply_value_roundtrip : forall r, record_ok schema_Reply r = true -> Forall fval_rt_ok r ->
  de_value schema_Reply (ser schema_Reply r) = Some r.
Proof. exact reply_value_roundtrip. Qed.
Print Assumptions C17_reply_value_roundtrip.

Theorem C17_info_value_roundtrip : forall r, record_ok schema_ServiceInfo r = true -> Forall fval_rt_ok r ->
  de_value schema_ServiceInfo (ser schema_ServiceInfo r) = Some r.
Proof. exact info_value_roundtrip. Qed.
Print Assumptions C17_info_value_roundtrip.

(* unset optional members are omitted *)
Theorem C17_unset_optionals_omitted : forall sch r f v, names_distinct sch = true ->
  In (f, v) (combine sch r) -> f_skip f = true -> fval_is_none v = true ->
  forall j, ~ In (f_name f, j) (ser_members sch r).
Proof. exact skipped_when_none. Qed.
Print Assumptions C17_unset_optionals_omitted.

Theorem C17_request_reply_optionals_skip :
  (length schema_Request =? 5)%nat && has_field schema_Request k_more KOptBool true &&
  has_field schema_Request k_oneway KOptBool true && has_field schema_Request k_upgrade KOptBool true &&
  has_field schema_Request k_method KString false && has_field schema_Request k_parameters KOptValue true = true /\
  (length schema_Reply =? 3)%nat && has_field schema_Reply k_continues KOptBool true &&
  has_field schema_Reply k_error KOptString true && has_field schema_Reply k_parameters KOptValue true = true.
Proof. exact (conj request_schema_ok reply_schema_ok). Qed.
Print Assumptions C17_request_reply_optionals_skip.

(* string sets: written as an object of empty objects; read back from a Value and from text *)
Theorem C17_set_shape : forall keys k v,
  In (k, v) (match set_ser keys with JObj m => m | _ => [] end) -> v = JObj [] /\ In k keys.
Proof. exact set_only_empty_objects. Qed.
Print Assumptions C17_set_shape.

Theorem C17_set_value_roundtrip : forall keys, set_de_value (set_ser keys) = Some keys.
Proof. exact set_value_roundtrip. Qed.
Print Assumptions C17_set_value_roundtrip.

Theorem C17_set_text_roundtrip : forall keys, keys_ok keys ->
  set_de_text set_visitor_consumes_value (print (set_ser keys)) = Ok keys.
Proof. exact set_text_roundtrip_src. Qed.
Print Assumptions C17_set_text_roundtrip.

(* faithful negative results kept by name *)
Check set_text_refuted_v0 : exists keys, keys_ok keys /\ set_de_text false (print (set_ser keys)) = Err.
Check some_null_is_lost.

(* text front end at the level of the structs: serde_json::from_slice(&serde_json::to_vec(&x)) == x for every
   representable Request / Reply / ServiceInfo (same exclusions as the value front end: parameters = Some(null);
   the JSON side conditions - UTF-8 strings, canonical numbers, nesting within serde_json's recursion limit - on
   each field) *)
From VL Require Import WireTextProofs.
Theorem C17_struct_text_roundtrip : forall sch, names_distinct sch = true ->
  forall r, record_ok sch r = true -> Forall fval_rt_ok r ->
    wf (ser sch r) -> (height (ser sch r) <= 127)%nat ->
    de_text sch (print (ser sch r)) = Ok r.
Proof. exact de_text_ser. Qed.
Print Assumptions C17_struct_text_roundtrip.

Theorem C17_request_text_roundtrip : forall r, record_ok schema_Request r = true -> Forall fval_rt_ok r ->
  Forall fval_wf r -> Forall fval_shallow r -> de_text schema_Request (print (ser schema_Request r)) = Ok r.
Proof. exact request_text_roundtrip. Qed.
Print Assumptions C17_request_text_roundtrip.

Theorem C17_reply_text_roundtrip : forall r, record_ok schema_Reply r = true -> Forall fval_rt_ok r ->
  Forall fval_wf r -> Forall fval_shallow r -> de_text schema_Reply (print (ser schema_Reply r)) = Ok r.
Proof. exact reply_text_roundtrip. Qed.
Print Assumptions C17_reply_text_roundtrip.

Theorem C17_info_text_roundtrip : forall r, record_ok schema_ServiceInfo r = true -> Forall fval_rt_ok r ->
  Forall fval_wf r -> Forall fval_shallow r -> de_text schema_ServiceInfo (print (ser schema_ServiceInfo r)) = Ok r.
Proof. exact info_text_roundtrip. Qed.
Print Assumptions C17_info_text_roundtrip.

(* the message codec used by the service and client models *)
Theorem C17_request_codec_roundtrip : forall q, request_ok q -> decode_request (encode_request q) = Ok q.
Proof. exact request_roundtrip. Qed.
Print Assumptions C17_request_codec_roundtrip.

(* sharpness: the hypotheses exclude only what really fails *)
Check some_null_is_lost_text. Check depth_limit_is_sharp. Check wf_exclusions_are_needed.

(* tie: the functions this property's model describes by hand (not by translation) still have the pinned text; an
   edit to one of them breaks this obligation and sends the check searching for a failing input *)
From VLG Require Import ShapeGen.
Theorem C17_modelled_code_is_the_pinned_text : shapes_for_C17 = true.
Proof. vm_compute. reflexivity. Qed.
Print Assumptions C17_modelled_code_is_the_pinned_text.
