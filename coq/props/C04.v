(* C04 - a oneway call never produces a reply *)
From VL Require Import Base Json Schema Wire Service ServiceProofs ServiceExamples WireFacts.

(* for every service, every request with oneway = true, whatever it names and whatever the
   method implementation does: no reply byte is written (instantiated at the regenerated facts
   about reply_struct / reply_parameters) *)
Theorem C04_oneway_never_replies : forall svc q, is_oneway q = true -> fst (serve svc q) = [].
Proof. exact (oneway_never_replies reply_struct_honours_oneway reply_parameters_honours_oneway). Qed.
Print Assumptions C04_oneway_never_replies.

(* hence the reply stream of a pipeline is that of the pipeline without its oneway requests *)
Theorem C04_reply_stream_aligned : forall svc q, is_oneway q = true -> snd (serve svc q) = OCont ->
  forall qs1 qs2, fst (serve_seq svc (qs1 ++ q :: qs2)) = fst (serve_seq svc (qs1 ++ qs2)).
Proof. exact (oneway_transparent reply_struct_honours_oneway reply_parameters_honours_oneway). Qed.
Print Assumptions C04_reply_stream_aligned.

Check ex_oneway.

(* client half: oneway() returns after sending, consumes no reply, leaves the connection idle *)
From VL Require Import Client ClientProofs.
Open Scope nat_scope.
Theorem C04_client_oneway_consumes_no_reply : forall s k mo up, cs_idle s = true -> c_fresh (get_call s k) = true ->
  let s' := fst (cstep s (OSend k true mo up)) in
  snd (cstep s (OSend k true mo up)) = RUnit /\ cs_idle s' = true /\ cs_inbox s' = cs_inbox s /\
  cs_finals s' = cs_finals s.
Proof. exact oneway_consumes_no_reply. Qed.
Print Assumptions C04_client_oneway_consumes_no_reply.

(* tie: the functions this property's model describes by hand (not by translation) still have the pinned text; an
   edit to one of them breaks this obligation and sends the check searching for a failing input *)
From VLG Require Import ShapeGen.
Theorem C04_modelled_code_is_the_pinned_text : shapes_for_C04 = true.
Proof. vm_compute. reflexivity. Qed.
Print Assumptions C04_modelled_code_is_the_pinned_text.
