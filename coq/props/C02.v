(* C02 - message framing does not depend on how the byte stream is segmented *)
From VL Require Import Base Json Schema Wire Service ServiceProofs ServiceExamples.

Theorem C02_segmentation_independent : forall svc chunks,
  feed_all svc chunks = feed_all svc [concat chunks].
Proof. exact feed_all_chunking. Qed.
Print Assumptions C02_segmentation_independent.

Theorem C02_tail_is_suffix_after_last_nul : forall svc chunks st o,
  feed_all svc chunks = (st, o) -> fs_closed st = false -> fs_upg st = None ->
  fs_tail st = after_last_nul [] (concat chunks).
Proof. exact feed_all_tail. Qed.
Print Assumptions C02_tail_is_suffix_after_last_nul.

Theorem C02_upgrade_hands_over_everything : forall svc pre rest i o,
  arun svc (ARun []) pre = (AUp i, o) ->
  spec_out svc (pre ++ rest) = o ++ upgraded_out svc i rest.
Proof. exact upgrade_hands_over_everything. Qed.
Print Assumptions C02_upgrade_hands_over_everything.

Check ex_chunked. Check ex_upgrade.
