(* C02 - message framing does not depend on how the byte stream is segmented *)
From VL Require Import Base Json Schema Wire Service ServiceProofs ServiceCap ServiceExamples.

Theorem C02_segmentation_independent : forall svc chunks,
  feed_all svc chunks = feed_all svc [concat chunks].
Proof. exact feed_all_chunking. Qed.
Print Assumptions C02_segmentation_independent.

Theorem C02_tail_is_suffix_after_last_nul : forall svc chunks st o,
  feed_all svc chunks = (st, o) -> fs_closed st = false -> fs_upg st = None ->
  fs_tail st = after_last_nul [] (concat chunks).
Proof. exact feed_all_tail. Qed.
Print Assumptions C02_tail_is_suffix_after_last_nul.

Theorem C02_upgrade_hands_over_everything : forall svc pre rest i o,
  arun svc (ARun []) pre = (AUp i, o) ->
  spec_out svc (pre ++ rest) = o ++ upgraded_out svc i rest.
Proof. exact upgrade_hands_over_everything. Qed.
Print Assumptions C02_upgrade_hands_over_everything.

(* the caller that hands handle() a transient slice and keeps only the returned tail (the reference callers in
   test.rs and the ping example), against handle()'s inner block buffer: identical to the unbounded caller - hence
   segmentation independent and complete after an upgrade - whenever the stream fits one block *)
Theorem C02_slice_caller_within_block : forall cap svc chunks, (total chunks <= cap)%nat ->
  feed_all_cap cap svc chunks = feed_all svc chunks /\
  feed_all_cap cap svc chunks = feed_all_cap cap svc [concat chunks].
Proof. intros cap svc chunks H. split; [exact (feed_all_cap_small cap svc chunks H) | exact (feed_all_cap_chunking cap svc chunks H)]. Qed.
Print Assumptions C02_slice_caller_within_block.

(* the caller that also keeps what handle() left unread in the reader it was given (the harness's caller; listen()'s
   persistent reader amounts to it): equal to the unbounded caller for EVERY capacity of the inner buffer, hence
   segmentation independent and lossless after an upgrade for streams of any size *)
Theorem C02_careful_caller_any_capacity : forall cap svc chunks,
  feed_all_careful cap svc chunks = feed_all svc chunks.
Proof. exact feed_all_careful_eq. Qed.
Print Assumptions C02_careful_caller_any_capacity.

Check ex_chunked. Check ex_upgrade. Check ex_slice_caller_within_block.
(* known finding, not a theorem of the property: beyond one block the slice caller loses upgraded payload *)
Check ex_slice_caller_drops_beyond_block.

(* the per-connection loop of varlink::listen, with the bookkeeping read from server.rs (gen/WorkerGen.v): for every
   segmentation of every stream it ends, having written exactly the specification's output for the stream - replies,
   and after an upgrade every byte handed to the upgraded handler in order, exactly once *)
From VL Require Import Worker WorkerFacts.
Theorem C02_listen_worker_segmentation_independent : forall svc chunks fuel, (2 * length chunks + 2 <= fuel)%nat ->
  src_worker svc fuel chunks = (spec_out svc (concat chunks), WFinished).
Proof. exact src_worker_spec. Qed.
Print Assumptions C02_listen_worker_segmentation_independent.
Check stale_tail_is_redelivered.

(* upgraded mode through handle(): the interface returns the incomplete last record of its protocol as unread bytes, handle()
   hands them to its caller as the tail (regenerated: upgraded_unread_passed_on), the caller prepends them to the next
   chunk - output and final tail are then those of one call on the whole stream, whatever the chunking and whatever the
   interface writes per record *)
From VL Require Import Reader Upgraded.
From VLG Require Import WireGen.
Theorem C02_upgraded_tail_protocol : forall react a b, concat a = concat b ->
  drive react upgraded_unread_passed_on [] a = drive react upgraded_unread_passed_on [] b.
Proof.
  intros react a b H. assert (E : upgraded_unread_passed_on = true) by (vm_compute; reflexivity). rewrite E.
  exact (tail_protocol_whole react a b H).
Qed.
Print Assumptions C02_upgraded_tail_protocol.

(* tie: the functions this property's model describes by hand (not by translation) still have the pinned text; an
   edit to one of them breaks this obligation and sends the check searching for a failing input *)
From VLG Require Import ShapeGen.
Theorem C02_modelled_code_is_the_pinned_text : shapes_for_C02 = true.
Proof. vm_compute. reflexivity. Qed.
Print Assumptions C02_modelled_code_is_the_pinned_text.
