(* C15 - the listen loop stops when and only when it should, and drains cleanly *)
From Coq Require Import List Arith Lia Bool.
From VL Require Import PoolExpr Pool PoolProofs PoolFacts Listen ListenProofs.
From VLG Require Import PoolGen.
Import ListNotations.

(* Timeout only after a whole idle period without a new connection, and only when the pool's
   counter is zero ... *)
Theorem C15_timeout_only_after_idle_period : forall c s stop busy, LInv c s ->
  lstep c s (Tick stop busy) = inr RTimeout ->
  busy = 0 /\ full c <= waited s + wait_time c /\ (has_stop c = true -> stop = false).
Proof. exact timeout_only_after_idle_period. Qed.
Print Assumptions C15_timeout_only_after_idle_period.

Theorem C15_timeout_sound_on_every_trace : forall c es s' rest,
  lrun c (linit c) es = (Some RTimeout, s', rest) -> full c <= waited s' + wait_time c.
Proof. exact timeout_sound. Qed.
Print Assumptions C15_timeout_sound_on_every_trace.

(* ... and a zero counter means nothing is queued or being served (pool as configured by the source) *)
Theorem C15_counter_counts_unfinished : forall initial max es s, 1 <= initial -> 1 <= max -> ~ In EDrop es ->
  src_run max (src_init initial max) es = Some s ->
  counter s = njobs (queue s) + nD s + nR s + nF s.
Proof. exact src_counter_counts_unfinished. Qed.
Print Assumptions C15_counter_counts_unfinished.

(* stop flag: honoured at the first accept timeout that sees it, and (source fact) tested once
   per accepted connection, so no connection is accepted once the flag has been seen *)
Theorem C15_stop_honoured_on_tick : forall c s busy, has_stop c = true -> lstep c s (Tick true busy) = inr RStopped.
Proof. exact stop_honoured_on_tick. Qed.
Print Assumptions C15_stop_honoured_on_tick.

Theorem C15_no_accept_after_stop_seen : forall idle es s, Forall (fun e => ev_stop e = true) es ->
  naccepted (snd (fst (lrun (src_cfg idle true) s es))) = naccepted s.
Proof.
  exact (fun idle => at_most_one_accept_after_stop (src_cfg idle true) stop_checked_per_accept eq_refl).
Qed.
Print Assumptions C15_no_accept_after_stop_seen.

(* drop: when every worker has been joined, every accepted connection ran to completion *)
Theorem C15_drop_drains : forall initial max es s, 1 <= initial -> 1 <= max ->
  src_run max (src_init initial max) es = Some s ->
  dropped s = true -> nX s = length (workers s) -> finished s = accepted s.
Proof. exact src_drop_drains. Qed.
Print Assumptions C15_drop_drains.

(* the pinned tree's loop is refuted: any number of accepts after the flag was set *)
Check stop_starved_without_accept_check.

(* tie: the functions this property's model describes by hand (not by translation) still have the pinned text; an
   edit to one of them breaks this obligation and sends the check searching for a failing input *)
From VLG Require Import ShapeGen.
Theorem C15_modelled_code_is_the_pinned_text : shapes_for_C15 = true.
Proof. vm_compute. reflexivity. Qed.
Print Assumptions C15_modelled_code_is_the_pinned_text.
