(* C11 - the parser accepts exactly the varlink grammar, rejects duplicates, mirrors the source *)
From Coq Require Import List NArith Lia Bool Arith.
From VL Require Import Idl ParserProofs INameProofs.
Import ListNotations.
Open Scope N_scope.

(* interface names: the lexer (regenerated character classes) consumes a whole string exactly
   when it is a reverse-domain name of >= 2 elements, none beginning or ending with a hyphen,
   the first beginning with a letter *)
Theorem C11_interface_name_spec : forall s, interface_name s = Some [] <-> IName s.
Proof. exact interface_name_spec. Qed.
Print Assumptions C11_interface_name_spec.

Theorem C11_element_form : forall e, Elem e <->
  (e <> [] /\ Forall (fun c => alnum c = true \/ c = 45) e /\ hd 0 e <> 45 /\ last e 0 <> 45).
Proof. exact Elem_iff_chars. Qed.
Print Assumptions C11_element_form.

(* duplicates: rejected exactly when two members share a name, across all three kinds *)
Theorem C11_duplicates_iff : forall i, dups i = [] <-> NoDup (map m_name (i_members i)).
Proof. exact duplicates_iff. Qed.
Print Assumptions C11_duplicates_iff.

(* and every duplicated name is named in the error *)
Theorem C11_every_duplicate_reported : forall i n a b c,
  map m_name (i_members i) = a ++ n :: b ++ n :: c -> In n (map dup_name (dups i)).
Proof. exact every_duplicate_reported. Qed.
Print Assumptions C11_every_duplicate_reported.
