(* C11 - the parser accepts exactly the varlink grammar, rejects duplicates, mirrors the source *)
From Coq Require Import List NArith Lia Bool Arith.
From VL Require Import Idl ParserProofs INameProofs.
Import ListNotations.
Open Scope N_scope.

(* interface names: the lexer (regenerated character classes) consumes a whole string exactly
   when it is a reverse-domain name of >= 2 elements, none beginning or ending with a hyphen,
   the first beginning with a letter *)
Theorem C11_interface_name_spec : forall s, interface_name s = Some [] <-> IName s.
Proof. exact interface_name_spec. Qed.
Print Assumptions C11_interface_name_spec.

Theorem C11_element_form : forall e, Elem e <->
  (e <> [] /\ Forall (fun c => alnum c = true \/ c = 45) e /\ hd 0 e <> 45 /\ last e 0 <> 45).
Proof. exact Elem_iff_chars. Qed.
Print Assumptions C11_element_form.

(* duplicates: rejected exactly when two members share a name, across all three kinds *)
Theorem C11_duplicates_iff : forall i, dups i = [] <-> NoDup (map m_name (i_members i)).
Proof. exact duplicates_iff. Qed.
Print Assumptions C11_duplicates_iff.

(* and every duplicated name is named in the error *)
Theorem C11_every_duplicate_reported : forall i n a b c,
  map m_name (i_members i) = a ++ n :: b ++ n :: c -> In n (map dup_name (dups i)).
Proof. exact every_duplicate_reported. Qed.
Print Assumptions C11_every_duplicate_reported.

(* the language: every text that renders a definition according to the grammar (arbitrary legal
   trivia in every position, every line-end form) is accepted and parsed to exactly that
   definition: name, member kinds and names in order, field names, types, trimmed docs *)
From VL Require Import TypeProofs MemberProofs.
Theorem C11_rendered_definition_is_parsed : forall i s, RIdl i s -> parse_idl s = POk i.
Proof. exact idl_parse. Qed.
Print Assumptions C11_rendered_definition_is_parsed.

Theorem C11_rendered_type_is_parsed : forall t s, RType t s -> forall r f, follow r ->
  (length (s ++ r) < f)%nat -> p_type f (s ++ r) = POk (t, r).
Proof. exact render_parse_type. Qed.
Print Assumptions C11_rendered_type_is_parsed.

Theorem C11_rendered_member_is_parsed : forall m s, RMember m s -> forall r f, (length (s ++ r) < f)%nat ->
  p_member f (s ++ r) = POk (m, r).
Proof. exact member_parse. Qed.
Print Assumptions C11_rendered_member_is_parsed.

(* and conversely: the parser accepts ONLY texts the grammar derives - together, exactly the language *)
From VL Require Import ConverseProofs.
Theorem C11_accepted_iff_rendered : forall s i, parse_idl s = POk i <-> RIdl i s.
Proof. exact parse_idl_iff. Qed.
Print Assumptions C11_accepted_iff_rendered.

Theorem C11_accepted_type_is_rendering : forall f s t r, p_type f s = POk (t, r) -> exists u, s = u ++ r /\ RType t u.
Proof. exact p_type_renders. Qed.
Print Assumptions C11_accepted_type_is_rendering.

(* tie: the functions this property's model describes by hand (not by translation) still have the pinned text; an
   edit to one of them breaks this obligation and sends the check searching for a failing input *)
From VLG Require Import ShapeGen.
Theorem C11_modelled_code_is_the_pinned_text : shapes_for_C11 = true.
Proof. vm_compute. reflexivity. Qed.
Print Assumptions C11_modelled_code_is_the_pinned_text.
