(* C16 - all transports and address forms behave identically (address and activation logic) *)
From VL Require Import Base Addr.
From VLG Require Import AddrGen.

Theorem C16_client_server_agree : forall s, client_classify s = server_classify s.
Proof. exact client_server_agree. Qed.
Print Assumptions C16_client_server_agree.

Theorem C16_invalid_iff_unknown_scheme : forall s,
  client_classify s = None <-> (has_prefix tcp_p s = false /\ has_prefix unix_p s = false).
Proof. exact invalid_iff_unknown_scheme. Qed.
Print Assumptions C16_invalid_iff_unknown_scheme.

Theorem C16_server_activated_same_schemes : forall s,
  server_activated_accepts s = true <-> (has_prefix tcp_p s = true \/ has_prefix unix_p s = true).
Proof. exact server_activated_same_schemes. Qed.
Print Assumptions C16_server_activated_same_schemes.

Theorem C16_activation_only_for_named_pid : forall e me fd, activation_listener e me = Some fd ->
  e_pid e = Some me /\ exists n, e_fds e = Some n /\ (1 <= n)%nat /\
  (n = 1%nat -> fd = act_first_fd) /\ (act_first_fd <= fd)%nat.
Proof. exact activation_only_for_named_pid. Qed.
Print Assumptions C16_activation_only_for_named_pid.

Theorem C16_exec_env_activates_child_only : forall child other,
  activation_listener (exec_env child) child = Some 3%nat /\
  (other <> child -> activation_listener (exec_env child) other = None).
Proof. exact exec_env_activates_child_only. Qed.
Print Assumptions C16_exec_env_activates_child_only.

Theorem C16_descriptor_3 : exec_passes_fd = 3%nat.
Proof. exact exec_passes_descriptor_3. Qed.
Print Assumptions C16_descriptor_3.

(* an activated service serves whatever mode its inherited listening socket is in (the two facts about listen() and
   Listener::accept are regenerated from server.rs) *)
Theorem C16_inherited_socket_mode_is_irrelevant : forall inherited timeout pending,
  accept_round accept_selects_only_with_timeout (effective_mode listen_forces_blocking inherited) timeout pending <> AWouldBlock /\
  accept_round accept_selects_only_with_timeout (effective_mode listen_forces_blocking inherited) timeout pending =
  accept_round accept_selects_only_with_timeout FBlocking timeout pending.
Proof.
  intros inherited timeout pending.
  assert (F : listen_forces_blocking = true) by (vm_compute; reflexivity).
  assert (S : accept_selects_only_with_timeout = true) by (vm_compute; reflexivity). rewrite F, S. split.
  - apply forced_blocking_never_would_block.
  - reflexivity.
Qed.
Print Assumptions C16_inherited_socket_mode_is_irrelevant.

(* tie: the functions this property's model describes by hand (not by translation) still have the pinned text; an
   edit to one of them breaks this obligation and sends the check searching for a failing input *)
From VLG Require Import ShapeGen.
Theorem C16_modelled_code_is_the_pinned_text : shapes_for_C16 = true.
Proof. vm_compute. reflexivity. Qed.
Print Assumptions C16_modelled_code_is_the_pinned_text.
