(* C18 - the CLI bridge is transparent (resolver mode state machine) *)
From VL Require Import Base Json Schema Wire Service Cli.

Theorem C18_bridge_transparent : forall w qs st, binv w st -> brun w st qs = direct_all w qs.
Proof. exact bridge_transparent. Qed.
Print Assumptions C18_bridge_transparent.

Theorem C18_initial_state : forall w, binv w (mkbs None None).
Proof. exact binv_init. Qed.
Print Assumptions C18_initial_state.

Theorem C18_step_routes_like_direct : forall w st q, binv w st ->
  snd (bstep w st q) = direct w q /\ binv w (fst (bstep w st q)).
Proof. exact bstep_direct. Qed.
Print Assumptions C18_step_routes_like_direct.
