(* C18 - the CLI bridge is transparent (resolver mode state machine) *)
From VL Require Import Base Json Schema Wire Service Cli CliFacts.
From VLG Require Import ProxyGen WireGen.

(* the cache discipline is a parameter of the model; it is instantiated at what tr/proxy.py reads from proxy.rs *)
Theorem C18_bridge_transparent : forall w qs st, binv w st ->
  brun cache_key_always_updated w st qs = direct_all w qs.
Proof. intros w qs st. exact (bridge_transparent _ w qs src_key_always st). Qed.
Print Assumptions C18_bridge_transparent.

Theorem C18_initial_state : forall w, binv w (mkbs None None).
Proof. exact binv_init. Qed.
Print Assumptions C18_initial_state.

Theorem C18_step_routes_like_direct : forall w st q, binv w st ->
  snd (bstep cache_key_always_updated w st q) = direct w q /\ binv w (fst (bstep cache_key_always_updated w st q)).
Proof. intros w st q. exact (bstep_direct _ w st q src_key_always). Qed.
Print Assumptions C18_step_routes_like_direct.

Theorem C18_strings_are_the_sources : proxy_getinfo = m_getinfo /\ proxy_getinfo_rewritten = s_resolver_getinfo /\
  proxy_resolver_name = s_resolver_name.
Proof. exact src_proxy_strings. Qed.
Print Assumptions C18_strings_are_the_sources.

(* why the flag matters: with the key updated only after a lookup, [a; resolver; a] sends the second a to the resolver *)
Check stale_cache_misroutes.

(* forwarding: the bridge reads the client's requests and the service's replies message by message through buffered
   readers; where each reader is constructed is regenerated from proxy.rs. One reader per loop delivers every message of
   the stream whatever the segmentation into reads (a reader per message would lose what a read brought beyond the
   message: Reader.fresh_reader_loses_a_reply) *)
From VL Require Import Reader.
Theorem C18_bridge_forwards_every_message : forall chunks,
  forward service_reader_scope chunks = messages (concat chunks) /\
  forward client_reader_scope chunks = messages (concat chunks).
Proof. intros chunks. split; exact (per_loop_forwards_everything chunks). Qed.
Print Assumptions C18_bridge_forwards_every_message.

Theorem C18_forwarding_independent_of_segmentation : forall a b, concat a = concat b ->
  forward service_reader_scope a = forward service_reader_scope b.
Proof. intros a b H. exact (single_reader_segmentation_independent a b H). Qed.
Print Assumptions C18_forwarding_independent_of_segmentation.

(* tie: the functions this property's model describes by hand (not by translation) still have the pinned text; an
   edit to one of them breaks this obligation and sends the check searching for a failing input *)
From VLG Require Import ShapeGen.
Theorem C18_modelled_code_is_the_pinned_text : shapes_for_C18 = true.
Proof. vm_compute. reflexivity. Qed.
Print Assumptions C18_modelled_code_is_the_pinned_text.
