(* C18 - the CLI bridge is transparent (resolver mode state machine) *)
From VL Require Import Base Json Schema Wire Service Cli CliFacts.
From VLG Require Import ProxyGen WireGen.

(* the cache discipline is a parameter of the model; it is instantiated at what tr/proxy.py reads from proxy.rs *)
Theorem C18_bridge_transparent : forall w qs st, binv w st ->
  brun cache_key_always_updated w st qs = direct_all w qs.
Proof. intros w qs st. exact (bridge_transparent _ w qs src_key_always st). Qed.
Print Assumptions C18_bridge_transparent.

Theorem C18_initial_state : forall w, binv w (mkbs None None).
Proof. exact binv_init. Qed.
Print Assumptions C18_initial_state.

Theorem C18_step_routes_like_direct : forall w st q, binv w st ->
  snd (bstep cache_key_always_updated w st q) = direct w q /\ binv w (fst (bstep cache_key_always_updated w st q)).
Proof. intros w st q. exact (bstep_direct _ w st q src_key_always). Qed.
Print Assumptions C18_step_routes_like_direct.

Theorem C18_strings_are_the_sources : proxy_getinfo = m_getinfo /\ proxy_getinfo_rewritten = s_resolver_getinfo /\
  proxy_resolver_name = s_resolver_name.
Proof. exact src_proxy_strings. Qed.
Print Assumptions C18_strings_are_the_sources.

(* why the flag matters: with the key updated only after a lookup, [a; resolver; a] sends the second a to the resolver *)
Check stale_cache_misroutes.

(* tie: the functions this property's model describes by hand (not by translation) still have the pinned text; an
   edit to one of them breaks this obligation and sends the check searching for a failing input *)
From VLG Require Import ShapeGen.
Theorem C18_modelled_code_is_the_pinned_text : shapes_for_C18 = true.
Proof. vm_compute. reflexivity. Qed.
Print Assumptions C18_modelled_code_is_the_pinned_text.
