(* C12 - parsing is total and its diagnostics point into the input *)
From Coq Require Import List NArith Lia Bool Arith.
From VL Require Import Idl ParserProofs.
Import ListNotations.

(* whatever position in [0, length] the parser reports: the line exists in the input (the lookup
   split('\n').nth(line-1).unwrap() cannot fail) and the column is within it *)
Theorem C12_error_position_in_input : forall s p, (p <= length s)%nat ->
  let '(l, c) := line_col 1 1 p s in
  exists ln, nth_error (lines s) (l - 1) = Some ln /\ (1 <= c)%nat /\ (c - 1 <= length ln)%nat.
Proof. exact error_position_in_input. Qed.
Print Assumptions C12_error_position_in_input.
