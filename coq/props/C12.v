(* C12 - parsing is total and its diagnostics point into the input *)
From Coq Require Import List NArith Lia Bool Arith.
From VL Require Import Idl ParserProofs.
Import ListNotations.

(* whatever position in [0, length] the parser reports: the line exists in the input (the lookup
   split('\n').nth(line-1).unwrap() cannot fail) and the column is within it *)
Theorem C12_error_position_in_input : forall s p, (p <= length s)%nat ->
  let '(l, c) := line_col 1 1 p s in
  exists ln, nth_error (lines s) (l - 1) = Some ln /\ (1 <= c)%nat /\ (c - 1 <= length ln)%nat.
Proof. exact error_position_in_input. Qed.
Print Assumptions C12_error_position_in_input.

(* totality of the model: the fuel the model parser is given is always sufficient, so on every input its verdict is
   a definition, a parse error or a duplicate list - never "out of fuel" (the corresponding statement about the
   implementation - no panic, no divergence - is what the differential run observes) *)
From VL Require Import FuelProofs.
Theorem C12_model_parser_total : forall s : str, parse_idl s <> PFuel.
Proof. exact parse_idl_never_out_of_fuel. Qed.
Print Assumptions C12_model_parser_total.

Theorem C12_model_try_from_total : forall s : str, try_from s <> OOutOfFuel.
Proof. exact try_from_never_out_of_fuel. Qed.
Print Assumptions C12_model_try_from_total.

(* tie: the functions this property's model describes by hand (not by translation) still have the pinned text; an
   edit to one of them breaks this obligation and sends the check searching for a failing input *)
From VLG Require Import ShapeGen.
Theorem C12_modelled_code_is_the_pinned_text : shapes_for_C12 = true.
Proof. vm_compute. reflexivity. Qed.
Print Assumptions C12_modelled_code_is_the_pinned_text.
