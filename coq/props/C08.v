(* C08 - generated bindings put exactly the IDL on the wire *)
From Coq Require Import List NArith Lia Bool Arith.
From VL Require Import Base Json Idl Gen Codec CodecProofs.
Import ListNotations.

(* what the bindings write is read back to the same value, for every typedef environment, type
   and well-typed value (a Some that serialises to null is excluded: it reads back as unset) *)
Theorem C08_dec_enc : forall e t v, has_type e t v -> wf_env e -> wf_type_names t ->
  exists f0, forall f, (f0 <= f)%nat -> dec f e t (enc v) = Some v.
Proof. exact dec_enc. Qed.
Print Assumptions C08_dec_enc.

(* parameter structs of calls, replies and errors: unset optionals are omitted and read back *)
Theorem C08_parameters_roundtrip : forall e fs vs,
  fields_typed e fs vs -> wf_env e -> env_structs e -> wf_type_names (TStruct fs) ->
  forall f, (2 * vdepth (IStruct vs) <= f)%nat -> dec_top f e fs (enc_top vs) = Some vs.
Proof. exact dec_top_enc_top_structs. Qed.
Print Assumptions C08_parameters_roundtrip.

(* wire shapes *)
Theorem C08_enum_is_its_name : forall x, enc (IEnum x) = JStr x.
Proof. exact enc_enum. Qed.
Theorem C08_set_is_object_of_empty_objects : forall k, enc (ISet k) = JObj (map (fun x => (x, JObj [])) k).
Proof. exact enc_set. Qed.
Theorem C08_struct_keys_are_field_names : forall vs, exists m, enc (IStruct vs) = JObj m /\ map fst m = map fst vs.
Proof. exact enc_struct_keys. Qed.
Print Assumptions C08_struct_keys_are_field_names.

(* a missing required member or an ill-typed member makes the parameters unreadable: the proxy
   answers InvalidParameter *)
Theorem C08_missing_required_parameter : forall f e fs m n t,
  In (n, t) fs -> is_topt t = false -> obj_get n m = None -> dec_top f e fs (JObj m) = None.
Proof. exact dec_top_missing_required. Qed.
Print Assumptions C08_missing_required_parameter.

Theorem C08_ill_typed_parameter : forall f e fs m n t x,
  In (n, t) fs -> obj_get n m = Some x -> (forall f', dec f' e t x = None) -> dec_top f e fs (JObj m) = None.
Proof. exact dec_top_bad_member. Qed.
Print Assumptions C08_ill_typed_parameter.

(* tie: the functions this property's model describes by hand (not by translation) still have the pinned text; an
   edit to one of them breaks this obligation and sends the check searching for a failing input *)
From VLG Require Import ShapeGen.
Theorem C08_modelled_code_is_the_pinned_text : shapes_for_C08 = true.
Proof. vm_compute. reflexivity. Qed.
Print Assumptions C08_modelled_code_is_the_pinned_text.
