(* C05 - `continues` only answers `more` (server half) *)
From VL Require Import Base Json Schema Wire Service ServiceProofs.

Theorem C05_continues_only_answers_more : forall q l cont upg r,
  In r (fst (fst (run_actions q cont upg l))) -> y_continues r = Some true -> wants_more q = true.
Proof. exact continues_only_answers_more. Qed.
Print Assumptions C05_continues_only_answers_more.

Theorem C05_gate_stops_script : forall q l upg p, wants_more q = false -> is_oneway q = false ->
  run_actions q true upg (AReply p :: l) = ([], false, upg).
Proof. exact gate_stops_script. Qed.
Print Assumptions C05_gate_stops_script.

(* client half: iterating a `more` call yields every continues reply, then the final one, then
   ends, and the connection is idle again with the following bytes unread *)
From VL Require Import Client ClientProofs.
Open Scope nat_scope.
Theorem C05_iteration_yields_all : forall conts s k yf rest,
  Forall is_cont_frame conts -> y_continues yf <> Some true ->
  k < ncalls s -> owns s k -> c_cont (get_call s k) = true ->
  cs_inbox s = conts ++ FReply yf :: rest ->
  let '(s', outs) := crun s (repeat (ONext k) (S (S (length conts)))) in
  outs = map frame_outcome conts ++ [outcome_of_reply yf; RNone] /\
  cs_idle s' = true /\ cs_inbox s' = rest.
Proof. exact iteration_yields_all. Qed.
Print Assumptions C05_iteration_yields_all.

(* tie: the functions this property's model describes by hand (not by translation) still have the pinned text; an
   edit to one of them breaks this obligation and sends the check searching for a failing input *)
From VLG Require Import ShapeGen.
Theorem C05_modelled_code_is_the_pinned_text : shapes_for_C05 = true.
Proof. vm_compute. reflexivity. Qed.
Print Assumptions C05_modelled_code_is_the_pinned_text.
