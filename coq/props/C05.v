(* C05 - `continues` only answers `more` (server half) *)
From VL Require Import Base Json Schema Wire Service ServiceProofs.

Theorem C05_continues_only_answers_more : forall q l cont upg r,
  In r (fst (fst (run_actions q cont upg l))) -> y_continues r = Some true -> wants_more q = true.
Proof. exact continues_only_answers_more. Qed.
Print Assumptions C05_continues_only_answers_more.

Theorem C05_gate_stops_script : forall q l upg p, wants_more q = false -> is_oneway q = false ->
  run_actions q true upg (AReply p :: l) = ([], false, upg).
Proof. exact gate_stops_script. Qed.
Print Assumptions C05_gate_stops_script.
