(* C10 - formatting an interface definition preserves it and is idempotent *)
From Coq Require Import List NArith Lia Bool Arith.
From VL Require Import Idl Format.
Import ListNotations.
