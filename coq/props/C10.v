(* C10 - formatting an interface definition preserves it and is idempotent *)
From Coq Require Import List NArith Lia Bool Arith.
From VL Require Import Idl Format TypeProofs MemberProofs FormatProofs.
Import ListNotations.

(* For every layout oracle (so for every width and every threshold rule), the formatter's output
   for a well-formed definition is a rendering of that definition with its members grouped by
   kind (typedefs, methods, errors - each kind in its original order), ... *)
Theorem C10_format_renders : forall decide max i, wf_idl i -> RIdl (reorder i) (fmt_idl decide max i).
Proof. exact format_renders. Qed.
Print Assumptions C10_format_renders.

(* ... hence it parses again to the same interface name, docs, per-kind member order, member
   names and types, ... *)
Theorem C10_format_parses_back : forall decide max i, wf_idl i ->
  parse_idl (fmt_idl decide max i) = POk (reorder i).
Proof. exact format_parses. Qed.
Print Assumptions C10_format_parses_back.

(* ... and formatting the result again reproduces the text byte for byte. *)
Theorem C10_format_idempotent : forall decide max i, wf_idl i ->
  exists j, parse_idl (fmt_idl decide max i) = POk j /\ fmt_idl decide max j = fmt_idl decide max i.
Proof. exact format_roundtrip. Qed.
Print Assumptions C10_format_idempotent.

(* the instance with the thresholds of format.rs, every width *)
Theorem C10_format_src_roundtrip : forall max i, wf_idl i ->
  exists j, parse_idl (format_src max i) = POk j /\ format_src max j = format_src max i.
Proof. exact format_src_roundtrip. Qed.
Print Assumptions C10_format_src_roundtrip.

(* every grammar rendering of a definition parses to that definition *)
Theorem C10_rendering_parses_back : forall i s, RIdl i s -> parse_idl s = POk i.
Proof. exact idl_parse. Qed.
Print Assumptions C10_rendering_parses_back.

(* non-vacuity: a concrete well-formed definition *)
Check sample_wf.

(* tie: the functions this property's model describes by hand (not by translation) still have the pinned text; an
   edit to one of them breaks this obligation and sends the check searching for a failing input *)
From VLG Require Import ShapeGen.
Theorem C10_modelled_code_is_the_pinned_text : shapes_for_C10 = true.
Proof. vm_compute. reflexivity. Qed.
Print Assumptions C10_modelled_code_is_the_pinned_text.
