(* C10 - formatting an interface definition preserves it and is idempotent *)
From Coq Require Import List NArith Lia Bool Arith.
From VL Require Import Idl Format TypeProofs MemberProofs.
Import ListNotations.

(* every grammar rendering of a definition parses to that definition (the half of the round
   trip that does not depend on the formatter) *)
Theorem C10_rendering_parses_back : forall i s, RIdl i s -> parse_idl s = POk i.
Proof. exact idl_parse. Qed.
Print Assumptions C10_rendering_parses_back.
