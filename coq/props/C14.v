(* C14 - the worker pool respects its bound and never strands an accepted connection *)
From Coq Require Import List Arith Lia Bool.
From VL Require Import PoolExpr Pool PoolProofs PoolFacts.
From VLG Require Import PoolGen.
Import ListNotations.

(* For the pool as the source configures it (counter placement, growth condition and initial
   size regenerated from server.rs), every state reachable under any schedule, any number of
   connections, any initial >= 1 and max >= 1: at most max workers exist (each holds at most one
   connection), and whenever the acceptor is not inside execute(), every queued connection up
   to the free capacity has a worker that is idle or about to be. *)
Theorem C14_bound_and_no_stranding : forall initial max es s, 1 <= initial -> 1 <= max -> ~ In EDrop es ->
  src_run max (src_init initial max) es = Some s ->
  length (workers s) <= max /\ nD s + nR s + nF s <= max /\
  (acc_sent s = false -> Nat.min (njobs (queue s)) (max - (nD s + nR s)) <= nI s + nF s).
Proof. exact src_pool_safe. Qed.
Print Assumptions C14_bound_and_no_stranding.

(* the same for every growth condition with that meaning, as a one-step inductive invariant *)
Theorem C14_invariant_step : forall cond max, (forall c w, beval cond c w max = (w <=? c) && (w <? max)) ->
  forall s e s', 1 <= max -> Inv max s -> e <> EDrop -> pstep true cond max s e = Some s' -> Inv max s'.
Proof. exact inv_step. Qed.
Print Assumptions C14_invariant_step.

Theorem C14_growth_condition_meaning : forall max c w, beval grow_cond_src c w max = (w <=? c) && (w <? max).
Proof. exact cond_spec_src. Qed.
Print Assumptions C14_growth_condition_meaning.

(* the pinned tree's discipline (counter bumped by the worker, `+1 >=`, `<=`) is refuted by a
   concrete schedule: max = 1 reaches two workers *)
Example C14_refuted_v0 :
  exists es s, prun false (BAnd (CGe (TPlus TCounter (TConst 1)) TWorkers) (CLe TWorkers TMax)) 1 (pinit 1) es = Some s /\
               length (workers s) = 2.
Proof. exists [EAccept; EDecide]. eexists. split; vm_compute; reflexivity. Qed.

(* tie: the functions this property's model describes by hand (not by translation) still have the pinned text; an
   edit to one of them breaks this obligation and sends the check searching for a failing input *)
From VLG Require Import ShapeGen.
Theorem C14_modelled_code_is_the_pinned_text : shapes_for_C14 = true.
Proof. vm_compute. reflexivity. Qed.
Print Assumptions C14_modelled_code_is_the_pinned_text.
