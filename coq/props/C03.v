(* C03 - calls are routed by interface name; the service interface tells the truth *)
From VL Require Import Base Json Schema Wire Service ServiceProofs.
From VLG Require Import WireGen.
Open Scope N_scope.

Theorem C03_split_at_last_dot : forall s i m,
  rsplit_dot s = Some (i, m) <-> s = i ++ 46 :: m /\ ~ In 46 m.
Proof. exact rsplit_dot_spec. Qed.
Print Assumptions C03_split_at_last_dot.

Theorem C03_routed_to_registered : forall svc q i m it,
  r_method q = i ++ 46 :: m -> ~ In 46 m -> i <> builtin_name ->
  lookup_iface (s_ifaces svc) i = Some it ->
  fst (serve_r svc q) = fst (fst (run_actions q false false (if_call it q))).
Proof. exact routed_to_registered. Qed.
Print Assumptions C03_routed_to_registered.

Theorem C03_unknown_interface : forall svc q i m,
  r_method q = i ++ 46 :: m -> ~ In 46 m -> i <> builtin_name ->
  ~ In i (map if_name (s_ifaces svc)) -> is_oneway q = false ->
  serve_r svc q =
  ([mkreply None (Some err_interface_not_found)
      (Some (JObj [(err_interface_not_found_member, JStr i)]))], OCont).
Proof. exact unknown_interface_reply. Qed.
Print Assumptions C03_unknown_interface.

Theorem C03_getinfo : forall svc q, r_method q = m_getinfo -> is_oneway q = false ->
  serve_r svc q = ([mkreply None None (Some (info_json svc))], OCont).
Proof. exact getinfo_reply. Qed.
Print Assumptions C03_getinfo.

Theorem C03_advertised_once : forall svc, NoDup (table_names svc) /\
  forall n, In n (table_names svc) <-> In n (map if_name (s_ifaces svc)).
Proof. exact advertised_once. Qed.
Print Assumptions C03_advertised_once.

(* tie: the functions this property's model describes by hand (not by translation) still have the pinned text; an
   edit to one of them breaks this obligation and sends the check searching for a failing input *)
From VLG Require Import ShapeGen.
Theorem C03_modelled_code_is_the_pinned_text : shapes_for_C03 = true.
Proof. vm_compute. reflexivity. Qed.
Print Assumptions C03_modelled_code_is_the_pinned_text.
