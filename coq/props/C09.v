(* C09 - the generator is total and its output compiles (name discipline part) *)
From Coq Require Import List NArith Lia Bool Arith.
From VL Require Import Idl Gen GenFacts.
Import ListNotations.

Theorem C09_generator_total_iff : forall i,
  generator_panics i = false <-> forall n, In n (raw_idents i) -> is_reserved n = false.
Proof. exact generator_total_iff. Qed.
Print Assumptions C09_generator_total_iff.

(* faithful negative results: the known classes are inhabited *)
Check refuted_error_param_anon_type.
Check refuted_reserved_ident.
Check refuted_snake_collision.
Check refuted_path_collision.
