(* C09 - the generator is total and its output compiles (the name-discipline part; "compiles"
   itself is rustc's judgement and is decided by compiling) *)
From Coq Require Import List NArith Lia Bool Arith.
From VL Require Import Idl Gen GenFacts GenProofs.
Import ListNotations.

(* the generator runs to completion exactly when no field / enum-member / typedef name is one of
   self, Self, super, crate *)
Theorem C09_generator_total_iff : forall i,
  generator_panics i = false <-> forall n, In n (raw_idents i) -> is_reserved n = false.
Proof. exact generator_total_iff. Qed.
Print Assumptions C09_generator_total_iff.

(* the naming scheme is injective: for every definition whose member names are distinct and
   underscore-free (the grammar gives both), whose field names are underscore-free with distinct
   siblings, and whose error parameters have no anonymous types, no two emitted types share a name *)
Theorem C09_emitted_type_names_distinct : forall i, cond i -> NoDup (emitted_type_names i).
Proof. exact emitted_names_nodup. Qed.
Print Assumptions C09_emitted_type_names_distinct.

Theorem C09_names_are_paths : forall t name,
  map fst (snd (rust_ty name t)) = map (fun p => name ++ sfx p) (paths t).
Proof. exact rust_ty_names. Qed.
Print Assumptions C09_names_are_paths.

(* faithful negative results: the known classes are inhabited *)
Check refuted_error_param_anon_type.
Check refuted_reserved_ident.
Check refuted_snake_collision.
Check refuted_path_collision.
Check error_anon_duplicates.

(* the build-script helpers leave exactly the emitted code in their output file, whatever an earlier build left there
   (the opening mode of both helpers is regenerated from varlink_generator/src/lib.rs) *)
From VL Require Import GenFront.
From VLG Require Import GenFrontGen.
Theorem C09_build_helpers_leave_exactly_the_emitted_code : forall old out,
  file_after build_open old out = out /\ file_after tosource_open old out = out.
Proof. intros old out. split; exact (create_leaves_exactly_the_output old out). Qed.
Print Assumptions C09_build_helpers_leave_exactly_the_emitted_code.

(* tie: the functions this property's model describes by hand (not by translation) still have the pinned text; an
   edit to one of them breaks this obligation and sends the check searching for a failing input *)
From VLG Require Import ShapeGen.
Theorem C09_modelled_code_is_the_pinned_text : shapes_for_C09 = true.
Proof. vm_compute. reflexivity. Qed.
Print Assumptions C09_modelled_code_is_the_pinned_text.
