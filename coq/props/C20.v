(* C20 - `varlink call` reports exactly what the service replied *)
From VL Require Import Base Json Schema Wire Service Cli.
Open Scope N_scope.

Theorem C20_url_split_at_last_slash : forall addr m, ~ In 47 m -> contains 46 m = true ->
  split_url (addr ++ 47 :: m) = Direct addr m.
Proof. exact split_url_direct. Qed.
Print Assumptions C20_url_split_at_last_slash.

Theorem C20_url_without_slash_uses_resolver : forall i m, ~ In 47 (i ++ 46 :: m) -> ~ In 46 m ->
  split_url (i ++ 46 :: m) = ViaResolver i (i ++ 46 :: m).
Proof. exact split_url_resolver. Qed.
Print Assumptions C20_url_without_slash_uses_resolver.

Theorem C20_exit_zero_iff_clean_final : forall l, snd (more_outcome l) = true <->
  exists cs f rest, l = cs ++ f :: rest /\ Forall (fun y => is_err y = false /\ continues y = true) cs /\
                    is_err f = false /\ continues f = false.
Proof. exact more_exit_zero_iff. Qed.
Print Assumptions C20_exit_zero_iff_clean_final.

Theorem C20_printed_values : forall l cs f rest, l = cs ++ f :: rest ->
  Forall (fun y => is_err y = false /\ continues y = true) cs -> is_err f = false -> continues f = false ->
  fst (more_outcome l) = map printed_of (cs ++ [f]).
Proof. exact more_printed. Qed.
Print Assumptions C20_printed_values.

Theorem C20_error_stops_printing : forall cs e rest,
  Forall (fun y => is_err y = false /\ continues y = true) cs -> is_err e = true ->
  more_outcome (cs ++ e :: rest) = (map printed_of cs, false).
Proof. exact error_stops_printing. Qed.
Print Assumptions C20_error_stops_printing.

(* the exit status of the process: main()'s error block and the `?` of the call arm are regenerated from main.rs *)
From VLG Require Import CliGen.
Theorem C20_process_exit_status : forall debug more l,
  cli_exit main_exit_on_error call_propagates_errors debug (snd (call_outcome more l)) = 0 <->
  snd (call_outcome more l) = true.
Proof.
  intros debug more l.
  assert (P : call_propagates_errors = true) by (vm_compute; reflexivity). rewrite P.
  apply cli_exit_zero_iff. intro d. destruct d; vm_compute; eexists; (split; [reflexivity | discriminate]).
Qed.
Print Assumptions C20_process_exit_status.

Theorem C20_debug_flag_does_not_change_the_status : forall debug ok,
  cli_exit main_exit_on_error call_propagates_errors debug ok = cli_exit main_exit_on_error call_propagates_errors false ok.
Proof. intros. apply cli_exit_debug_irrelevant. intro d. destruct d; vm_compute; reflexivity. Qed.
Print Assumptions C20_debug_flag_does_not_change_the_status.

(* tie: the functions this property's model describes by hand (not by translation) still have the pinned text; an
   edit to one of them breaks this obligation and sends the check searching for a failing input *)
From VLG Require Import ShapeGen.
Theorem C20_modelled_code_is_the_pinned_text : shapes_for_C20 = true.
Proof. vm_compute. reflexivity. Qed.
Print Assumptions C20_modelled_code_is_the_pinned_text.
