(* C19 - the certification service never lets a deviating step pass *)
From Coq Require Import List Arith.
From VL Require Import Base Json Schema Wire Idl Codec Cert CertSrc CertFacts.
From VLG Require Import CertGen.

(* [next] (the transition table) and [keeps] (what a rejected call does to the stored step) are parameters of the
   model; the statements marked "src" instantiate them at the values regenerated from main.rs *)
Theorem C19_success_only_for_canonical : forall env fields canon next keeps st k q st',
  cert_call env fields canon next keeps st k q = (st', CSuccess) ->
  mode_ok (mode_of k) q = true /\
  exists j c, r_params q = Some j /\ client_of j = Some c /\ cget st c = Some k /\ matches env fields canon k c j = true.
Proof. exact success_only_for_canonical. Qed.
Print Assumptions C19_success_only_for_canonical.

Theorem C19_wrong_mode_never_succeeds : forall env fields canon next keeps st k q,
  mode_ok (mode_of k) q = false -> snd (cert_call env fields canon next keeps st k q) <> CSuccess.
Proof. exact wrong_mode_never_succeeds. Qed.
Print Assumptions C19_wrong_mode_never_succeeds.

Theorem C19_wrong_step_never_succeeds : forall env fields canon next keeps st k q j c, r_params q = Some j -> client_of j = Some c ->
  cget st c <> Some k -> snd (cert_call env fields canon next keeps st k q) <> CSuccess.
Proof. exact wrong_step_never_succeeds. Qed.
Print Assumptions C19_wrong_step_never_succeeds.

Theorem C19_wrong_parameters_never_succeed : forall env fields canon next keeps st k q j c, r_params q = Some j -> client_of j = Some c ->
  matches env fields canon k c j = false -> snd (cert_call env fields canon next keeps st k q) <> CSuccess.
Proof. exact wrong_parameters_never_succeed. Qed.
Print Assumptions C19_wrong_parameters_never_succeed.

Theorem C19_other_clients_unaffected : forall env fields canon next keeps st k q c',
  (forall j c, r_params q = Some j -> client_of j = Some c -> c <> c') ->
  cget (fst (cert_call env fields canon next keeps st k q)) c' = cget st c'.
Proof. exact other_clients_unaffected. Qed.
Print Assumptions C19_other_clients_unaffected.

Theorem C19_canonical_call_succeeds : forall env fields canon next keeps st k q j c, r_params q = Some j -> client_of j = Some c ->
  read_params env fields k j <> None -> cget st c = Some k -> mode_ok (mode_of k) q = true ->
  matches env fields canon k c j = true ->
  snd (cert_call env fields canon next keeps st k q) = CSuccess /\
  cget (fst (cert_call env fields canon next keeps st k q)) c = Some (next k).
Proof. exact canonical_call_succeeds. Qed.
Print Assumptions C19_canonical_call_succeeds.

(* src: a call rejected as out of order or malformed moves nobody *)
Theorem C19_rejected_call_keeps_state : forall env fields canon st k q,
  snd (src_cert_call env fields canon st k q) = CClientIdError \/ snd (src_cert_call env fields canon st k q) = CInvalidParameter ->
  fst (src_cert_call env fields canon st k q) = st.
Proof. intros env fields canon st k q. exact (rejected_call_keeps_state env fields canon src_next _ st k q src_keeps). Qed.
Print Assumptions C19_rejected_call_keeps_state.

(* src: for every history of calls of one client, in any order and with any parameters, the steps the service consumes
   (answers with success or a certification error) are exactly the canonical chain from the client's expected step;
   so "a step out of order" never gets a success reply, however the history tries to get there *)
Theorem C19_consumed_steps_in_canonical_order : forall env fields canon c calls st e,
  cget st c = Some e -> Forall (fun kq => by_client c (snd kq)) calls ->
  chain src_next e (consumed_steps (snd (run env fields canon src_next rejected_call_keeps_step st calls))).
Proof. intros env fields canon c. exact (consumed_steps_in_canonical_order env fields canon src_next _ c src_keeps). Qed.
Print Assumptions C19_consumed_steps_in_canonical_order.

(* src: the chain is Test01 .. Test11, End, End, ... and a new client starts at Test01 *)
Theorem C19_chain_is_the_certification_sequence : forall k, 1 <= k <= 12 ->
  src_next k = if Nat.eqb k 12 then 12 else S k.
Proof. exact src_next_spec. Qed.
Print Assumptions C19_chain_is_the_certification_sequence.

Theorem C19_new_client_starts_at_first_step : src_first_step = Some 1.
Proof. exact src_first. Qed.
Print Assumptions C19_new_client_starts_at_first_step.

(* tie: the functions this property's model describes by hand (not by translation) still have the pinned text; an
   edit to one of them breaks this obligation and sends the check searching for a failing input *)
From VLG Require Import ShapeGen.
Theorem C19_modelled_code_is_the_pinned_text : shapes_for_C19 = true.
Proof. vm_compute. reflexivity. Qed.
Print Assumptions C19_modelled_code_is_the_pinned_text.
