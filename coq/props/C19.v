(* C19 - the certification service never lets a deviating step pass *)
From VL Require Import Base Json Schema Wire Idl Codec Cert.

Theorem C19_success_only_for_canonical : forall env fields canon st k q st',
  cert_call env fields canon st k q = (st', CSuccess) ->
  mode_ok (mode_of k) q = true /\
  exists j c, r_params q = Some j /\ client_of j = Some c /\ cget st c = Some k /\ matches env fields canon k c j = true.
Proof. exact success_only_for_canonical. Qed.
Print Assumptions C19_success_only_for_canonical.

Theorem C19_wrong_mode_never_succeeds : forall env fields canon st k q,
  mode_ok (mode_of k) q = false -> snd (cert_call env fields canon st k q) <> CSuccess.
Proof. exact wrong_mode_never_succeeds. Qed.
Print Assumptions C19_wrong_mode_never_succeeds.

Theorem C19_wrong_step_never_succeeds : forall env fields canon st k q j c, r_params q = Some j -> client_of j = Some c ->
  cget st c <> Some k -> snd (cert_call env fields canon st k q) <> CSuccess.
Proof. exact wrong_step_never_succeeds. Qed.
Print Assumptions C19_wrong_step_never_succeeds.

Theorem C19_wrong_parameters_never_succeed : forall env fields canon st k q j c, r_params q = Some j -> client_of j = Some c ->
  matches env fields canon k c j = false -> snd (cert_call env fields canon st k q) <> CSuccess.
Proof. exact wrong_parameters_never_succeed. Qed.
Print Assumptions C19_wrong_parameters_never_succeed.

Theorem C19_other_clients_unaffected : forall env fields canon st k q c',
  (forall j c, r_params q = Some j -> client_of j = Some c -> c <> c') ->
  cget (fst (cert_call env fields canon st k q)) c' = cget st c'.
Proof. exact other_clients_unaffected. Qed.
Print Assumptions C19_other_clients_unaffected.

Theorem C19_canonical_call_succeeds : forall env fields canon st k q j c, r_params q = Some j -> client_of j = Some c ->
  read_params env fields k j <> None -> cget st c = Some k -> mode_ok (mode_of k) q = true ->
  matches env fields canon k c j = true ->
  snd (cert_call env fields canon st k q) = CSuccess /\ cget (fst (cert_call env fields canon st k q)) c = Some (S k).
Proof. exact canonical_call_succeeds. Qed.
Print Assumptions C19_canonical_call_succeeds.
