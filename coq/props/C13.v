(* C13 - concurrent connections are served independently *)
From VL Require Import Base Json Schema Wire Service Multi.

Theorem C13_non_interference : forall svc evs m c,
  out_of c (snd (mrun svc m evs)) = out_of c (snd (mrun svc m (on c evs))).
Proof. exact output_depends_on_own_traffic_only. Qed.
Print Assumptions C13_non_interference.

Theorem C13_each_connection_gets_its_own_replies : forall svc evs c,
  out_of c (snd (mrun svc (fun _ => ARun []) evs)) = spec_out svc (project c evs).
Proof. exact fresh_connection_gets_spec. Qed.
Print Assumptions C13_each_connection_gets_its_own_replies.

(* tie: the functions this property's model describes by hand (not by translation) still have the pinned text; an
   edit to one of them breaks this obligation and sends the check searching for a failing input *)
From VLG Require Import ShapeGen.
Theorem C13_modelled_code_is_the_pinned_text : shapes_for_C13 = true.
Proof. vm_compute. reflexivity. Qed.
Print Assumptions C13_modelled_code_is_the_pinned_text.
