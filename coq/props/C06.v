(* C06 - malformed or hostile input is contained *)
From VL Require Import Base Json Schema Wire Service ServiceProofs ServiceExamples.

Theorem C06_malformed_contained : forall svc fs qs bad rest,
  decodes fs qs -> ~ In 0%N bad -> (forall q, decode_request bad <> Ok q) ->
  (forall q, In q qs -> snd (serve svc q) = OCont) ->
  arun svc (ARun []) (wire fs ++ frame_of bad ++ rest) =
  (AClosed, flat_map (fun q => fst (serve svc q)) qs).
Proof. exact malformed_contained. Qed.
Print Assumptions C06_malformed_contained.

Theorem C06_handle_total : forall svc u s, snd (handle svc u s) <> HFuel.
Proof. exact handle_never_out_of_fuel. Qed.
Print Assumptions C06_handle_total.

Check ex_malformed.

(* over a socket: the per-connection loop of varlink::listen (bookkeeping read from server.rs) always ends - also when
   the peer closes in the middle of a message - and has written the specification's output, which by the theorem above
   contains nothing for or after a malformed message *)
From VL Require Import Worker WorkerFacts.
Theorem C06_listen_worker_ends_with_spec_output : forall svc chunks fuel, (2 * length chunks + 2 <= fuel)%nat ->
  src_worker svc fuel chunks = (spec_out svc (concat chunks), WFinished).
Proof. exact src_worker_spec. Qed.
Print Assumptions C06_listen_worker_ends_with_spec_output.
Check truncated_message_spins. Check malformed_then_answered.

(* tie: the functions this property's model describes by hand (not by translation) still have the pinned text; an
   edit to one of them breaks this obligation and sends the check searching for a failing input *)
From VLG Require Import ShapeGen.
Theorem C06_modelled_code_is_the_pinned_text : shapes_for_C06 = true.
Proof. vm_compute. reflexivity. Qed.
Print Assumptions C06_modelled_code_is_the_pinned_text.
