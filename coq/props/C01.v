(* C01 - every request is answered in order, exactly once, under pipelining *)
From VL Require Import Base Json Schema Wire Service ServiceProofs ServiceExamples.

(* For every service, every list of NUL-free frames that decode to requests qs (none of
   which upgrades the connection): the reply bytes are the concatenation, in request order,
   of what each request yields on its own, for the requests up to and including the first one
   that makes the service close the connection. *)
Theorem C01_pipeline_in_order : forall svc fs qs, decodes fs qs ->
  (forall q, In q qs -> snd (serve svc q) <> OFail -> forall i, snd (serve svc q) <> OUpgrade i) ->
  spec_out svc (wire fs) = flat_map (fun q => fst (serve svc q)) (firstn (served svc qs) qs).
Proof. exact pipeline_in_order. Qed.
Print Assumptions C01_pipeline_in_order.

(* No well-formed request is skipped while the connection stays open. *)
Theorem C01_nothing_skipped : forall svc fs qs, decodes fs qs ->
  (exists p, fst (arun svc (ARun []) (wire fs)) = ARun p) -> served svc qs = length qs.
Proof. exact nothing_skipped. Qed.
Print Assumptions C01_nothing_skipped.

(* The documented caller (any segmentation, tail re-fed) realises exactly that output. *)
Theorem C01_handler_realises_spec : forall svc chunks,
  feed_all svc chunks =
  (fs_of_astate (fst (arun svc (ARun []) (concat chunks))), spec_out svc (concat chunks)).
Proof. exact feed_all_spec. Qed.
Print Assumptions C01_handler_realises_spec.

(* the handle loop always terminates with a verdict *)
Theorem C01_handle_total : forall svc u s, snd (handle svc u s) <> HFuel.
Proof. exact handle_never_out_of_fuel. Qed.
Print Assumptions C01_handle_total.

Check ex_pipeline_replies.

(* over a socket: the per-connection loop of varlink::listen (bookkeeping read from server.rs) writes the
   specification's output for the stream, for every segmentation - so the pipeline theorem above is what a client of
   listen() observes *)
From VL Require Import Worker WorkerFacts.
Theorem C01_listen_worker_realises_spec : forall svc chunks fuel, (2 * length chunks + 2 <= fuel)%nat ->
  src_worker svc fuel chunks = (spec_out svc (concat chunks), WFinished).
Proof. exact src_worker_spec. Qed.
Print Assumptions C01_listen_worker_realises_spec.

(* every reply reaches the peer whole also through a writer that takes only part of each buffer: the reply writers hand
   their bytes over with write_all (regenerated from reply_struct / reply_parameters and the helpers they call) *)
From VL Require Import Writer.
From VLG Require Import WireGen.
Theorem C01_replies_survive_short_writes : forall (accept : nat -> list N -> nat),
  (forall k b, b <> [] -> (1 <= accept k b <= length b)%nat) -> forall b k, deliver accept (if reply_write_primitive_is_write_all then WriteAll else WriteOnce) k b = b.
Proof.
  intros accept P b k. assert (E : reply_write_primitive_is_write_all = true) by (vm_compute; reflexivity). rewrite E.
  exact (write_all_delivers_everything accept P b k).
Qed.
Print Assumptions C01_replies_survive_short_writes.

(* tie: the functions this property's model describes by hand (not by translation) still have the pinned text; an
   edit to one of them breaks this obligation and sends the check searching for a failing input *)
From VLG Require Import ShapeGen.
Theorem C01_modelled_code_is_the_pinned_text : shapes_for_C01 = true.
Proof. vm_compute. reflexivity. Qed.
Print Assumptions C01_modelled_code_is_the_pinned_text.
