#!/usr/bin/env python3
"""Translator: the worker pool and the accept loop of varlink/src/server.rs -> coq/gen/PoolGen.v

  * ThreadPool::execute: whether the busy counter is incremented at enqueue, and the growth
    condition as a term of a small expression language over {counter, workers, max};
  * the worker loop: whether the counter is incremented after dequeuing, decremented after
    the job;
  * ThreadPool::new: the number of initial workers as an expression of (initial, max);
  * Drop for ThreadPool: one Terminate per worker, then join;
  * listen(): the arithmetic of the accept loop (to_wait, wait_time, comparisons, where the
    stop flag is consulted).
Probe lines (#[cfg(varlink_rust_verif)] verif::probe(..)) are ignored. Unrecognised shapes are
refused."""
import re
import sys

sys.path.insert(0, __file__.rsplit("/", 1)[0])
from wire import Refuse, balanced, fn_body  # noqa: E402


def strip_probes(s):
    s = re.sub(r"#\[cfg\(varlink_rust_verif\)\]\s*verif::probe\([^;]*\);", "", s)
    return s


# --- tiny expression parser for the growth condition ---
TOK = re.compile(r"\s*(self\.num_busy\(\)|self\.workers\.len\(\)|self\.max_workers|\d+|&&|\|\||<=|>=|==|!=|<|>|\+|-|\(|\)|!)")


def tokenize(s):
    out, i = [], 0
    s = s.strip()
    while i < len(s):
        m = TOK.match(s, i)
        if not m:
            raise Refuse("growth condition: cannot tokenise at %r" % s[i:i + 30])
        out.append(m.group(1))
        i = m.end()
    return out


class P:
    def __init__(self, toks):
        self.t, self.i = toks, 0

    def peek(self):
        return self.t[self.i] if self.i < len(self.t) else None

    def eat(self, x=None):
        v = self.peek()
        if x is not None and v != x:
            raise Refuse("growth condition: expected %s, found %s" % (x, v))
        self.i += 1
        return v

    def bexp(self):
        a = self.band()
        while self.peek() == "||":
            self.eat()
            a = "(BOr %s %s)" % (a, self.band())
        return a

    def band(self):
        a = self.batom()
        while self.peek() == "&&":
            self.eat()
            a = "(BAnd %s %s)" % (a, self.batom())
        return a

    def batom(self):
        if self.peek() == "!":
            self.eat()
            return "(BNot %s)" % self.batom()
        if self.peek() == "(":
            # either a parenthesised boolean or a parenthesised arithmetic term starting a comparison
            save = self.i
            try:
                self.eat("(")
                b = self.bexp()
                self.eat(")")
                if self.peek() in ("<=", ">=", "<", ">", "==", "!=", "+", "-"):
                    raise Refuse("retry")
                return b
            except Refuse:
                self.i = save
        a = self.aexp()
        op = self.eat()
        b = self.aexp()
        m = {"<=": "CLe", ">=": "CGe", "<": "CLt", ">": "CGt", "==": "CEq"}
        if op not in m:
            raise Refuse("growth condition: comparison operator %s not supported" % op)
        return "(%s %s %s)" % (m[op], a, b)

    def aexp(self):
        a = self.aatom()
        while self.peek() in ("+",):
            self.eat()
            a = "(TPlus %s %s)" % (a, self.aatom())
        return a

    def aatom(self):
        v = self.eat()
        if v == "(":
            a = self.aexp()
            self.eat(")")
            return a
        if v == "self.num_busy()":
            return "TCounter"
        if v == "self.workers.len()":
            return "TWorkers"
        if v == "self.max_workers":
            return "TMax"
        if v is not None and v.isdigit():
            return "(TConst %s)" % v
        raise Refuse("growth condition: unexpected token %s" % v)


INC = r"\{\s*let mut num_busy = (?:self\.)?num_busy\.write\(\)\.unwrap\(\);\s*\*num_busy \+= 1;\s*\}"
DEC = r"\{\s*let mut num_busy = (?:self\.)?num_busy\.write\(\)\.unwrap\(\);\s*\*num_busy -= 1;\s*\}"


def translate(path):
    src = strip_probes(open(path, encoding="utf-8").read())
    ex = fn_body(src, r"pub fn execute<F>\(&mut self, f: F\)\s*where\s*F: FnOnce\(\) \+ Send \+ 'static,\s*\{")
    m = re.fullmatch(r"\{\s*let job = Box::new\(f\);\s*(?P<inc>" + INC + r")?\s*self\.sender\.send\(Message::NewJob\(job\)\)\.unwrap\(\);\s*"
                     r"if (?P<cond>.*?)\s*\{\s*self\.workers\.push\(Worker::new\(\s*Arc::clone\(&self\.receiver\),\s*Arc::clone\(&self\.num_busy\),\s*\)\);\s*\}\s*\}",
                     ex, re.S)
    if not m:
        raise Refuse("ThreadPool::execute: shape not recognised")
    count_at_enqueue = m.group("inc") is not None
    p = P(tokenize(m.group("cond")))
    cond = p.bexp()
    if p.peek() is not None:
        raise Refuse("growth condition: trailing tokens")
    wn = fn_body(src, r"fn new\(receiver: Arc<Mutex<mpsc::Receiver<Message>>>, num_busy: Arc<RwLock<usize>>\) -> Worker \{")
    arm = re.search(r"Message::NewJob\(job\) => \{(.*?)\}\s*Message::Terminate => \{\s*break;\s*\}", wn, re.S)
    if not arm:
        raise Refuse("worker loop: arms not recognised")
    body = arm.group(1)
    wm = re.fullmatch(r"\s*(?P<inc>" + INC + r")?\s*job\.call_box\(\);\s*(?P<dec>" + DEC + r")?\s*", body, re.S)
    if not wm:
        raise Refuse("worker loop: NewJob arm not recognised")
    count_at_start = wm.group("inc") is not None
    dec_after = wm.group("dec") is not None
    if not re.search(r"let message = receiver\.lock\(\)\.unwrap\(\)\.recv\(\)\.unwrap\(\);", wn):
        raise Refuse("worker loop: dequeue not recognised")
    if count_at_enqueue == count_at_start:
        raise Refuse("busy counter incremented %s" % ("twice (at enqueue and at start)" if count_at_start else "nowhere"))
    if not dec_after:
        raise Refuse("busy counter never decremented")
    nw = fn_body(src, r"pub fn new\(initial_worker: usize, max_workers: usize\) -> ThreadPool \{")
    lm = re.search(r"for _ in 0\.\.(.+?) \{\s*workers\.push\(Worker::new\(Arc::clone\(&receiver\), Arc::clone\(&num_busy\)\)\);\s*\}", nw)
    if not lm:
        raise Refuse("ThreadPool::new: initial worker loop not recognised")
    bound = lm.group(1).strip()
    if bound == "initial_worker":
        clamped = False
    elif re.fullmatch(r"initial_worker\.min\(max_workers\.max\(1\)\)|std::cmp::min\(initial_worker, std::cmp::max\(max_workers, 1\)\)", bound):
        clamped = True
    else:
        raise Refuse("ThreadPool::new: initial worker count %r not recognised" % bound)
    if not re.search(r"assert!\(initial_worker > 0\);", nw):
        raise Refuse("ThreadPool::new: assertion on initial_worker not found")
    m = re.search(r"impl Drop for ThreadPool \{", src)
    if not m:
        raise Refuse("Drop for ThreadPool not found")
    dr = src[m.end() - 1:balanced(src, m.end() - 1)]
    if not re.search(r"for _ in &mut self\.workers \{\s*self\.sender\.send\(Message::Terminate\)\.unwrap\(\);\s*\}\s*"
                     r"for worker in &mut self\.workers \{\s*if let Some\(thread\) = worker\.thread\.take\(\) \{\s*thread\.join\(\)\.unwrap\(\);\s*\}\s*\}", dr):
        raise Refuse("Drop for ThreadPool: terminate-then-join shape not recognised")

    # ---- the accept loop of listen() ----
    li = fn_body(src, r"pub fn listen<S: \?Sized \+ AsRef<str>, H: crate::ConnectionHandler \+ Send \+ Sync \+ 'static>\(\s*handler: H,\s*address: &S,\s*listen_config: &ListenConfig,\s*\) -> Result<\(\)> \{")
    if not re.search(r"let mut to_wait = listen_config\.idle_timeout \* 1000;", li):
        raise Refuse("listen: to_wait initialisation not recognised")
    wt = re.search(r"let wait_time = listen_config\s*\.stop_listening\s*\.as_ref\(\)\s*\.map\(\|_\| (\d+)\)\s*\.unwrap_or\(to_wait\);", li)
    if not wt:
        raise Refuse("listen: wait_time not recognised")
    quantum = int(wt.group(1))
    tm = re.search(r"ErrorKind::Timeout => \{(.*?)continue;\s*\}\s*_ => \{\s*return Err\(e\);", li, re.S)
    if not tm:
        raise Refuse("listen: timeout arm not recognised")
    arm = tm.group(1)
    stop_on_timeout = bool(re.search(r"if let Some\(stop\) = listen_config\.stop_listening\.as_ref\(\) \{\s*if stop\.load\(Ordering::SeqCst\) \{\s*return Ok\(\(\)\);\s*\}\s*"
                                     r"if listen_config\.idle_timeout == 0 \{\s*continue;\s*\}\s*\}", arm))
    if not stop_on_timeout:
        raise Refuse("listen: stop-flag test in the timeout arm not recognised")
    idle = re.search(r"if to_wait <= wait_time \{\s*if pool\.num_busy\(\) == 0 \{\s*return Err\(e\);\s*\}\s*to_wait = listen_config\.idle_timeout \* 1000;\s*\} else \{\s*to_wait -= wait_time;\s*\}", arm)
    if not idle:
        raise Refuse("listen: idle countdown not recognised")
    # is the stop flag also consulted once per accepted connection (after the job was handed to the pool)?
    after = li[tm.end():]
    parts = after.split("pool.execute(", 1)
    if len(parts) != 2:
        raise Refuse("listen: pool.execute call not found")
    stop_after_accept = bool(re.search(r"\}\);\s*if let Some\(stop\) = listen_config\.stop_listening\.as_ref\(\) \{\s*if stop\.load\(Ordering::SeqCst\) \{\s*return Ok\(\(\)\);\s*\}\s*\}\s*\}\s*\}\s*$", parts[1]))
    resets_each_accept = bool(re.search(r"loop \{\s*let mut to_wait = listen_config\.idle_timeout \* 1000;", li))
    if not resets_each_accept:
        raise Refuse("listen: countdown is not re-armed for each accepted connection")

    out = ["(* GENERATED by tr/pool.py from varlink/src/server.rs -- do not edit *)",
           "From VL Require Import PoolExpr.",
           "Definition count_at_enqueue : bool := %s." % ("true" if count_at_enqueue else "false"),
           "Definition grow_cond_src : bexp := %s." % cond,
           "Definition initial_clamped : bool := %s." % ("true" if clamped else "false"),
           "Definition terminate_per_worker_then_join : bool := true.",
           "Definition stop_quantum_ms : nat := %d." % quantum,
           "Definition stop_checked_on_timeout : bool := true.",
           "Definition stop_checked_after_accept : bool := %s." % ("true" if stop_after_accept else "false"),
           "Definition idle_requires_zero_busy : bool := true.",
           "Definition countdown_rearmed_per_accept : bool := true."]
    return "\n".join(out) + "\n"


if __name__ == "__main__":
    try:
        sys.stdout.write(translate(sys.argv[1]))
    except Refuse as e:
        sys.stderr.write("REFUSED: %s\n" % e)
        sys.exit(2)
