#!/usr/bin/env python3
"""Translator: pins the text of the functions that are modelled BY HAND (rather than translated) -> coq/gen/ShapeGen.v.
For every entry of SHAPES the body found in the source is normalised (comments and white space removed) and hashed; the
hash is compared with tr/shapes_pinned.json (written by `./vcheck pin` from the tree the models were written against).
The generated file defines one boolean per entry and, per property, the conjunction of the entries its model rests on;
every props file proves its own conjunction true (by computation), so an edit to a hand-modelled function breaks a proof obligation of
exactly the properties whose model describes that function (reported as a broken tie; the differential runs then look
for a failing input). usage: shapes.py <repo root> [--print-hashes]"""
import hashlib
import json
import os
import re
import sys

sys.path.insert(0, __file__.rsplit("/", 1)[0])
from wire import Refuse, balanced  # noqa: E402

ALL = ["C%02d" % i for i in range(1, 21)]
# (name, file, header regex or None for the whole file, properties)
SHAPES = [
    ("handle", "varlink/src/lib.rs", r"fn handle\(\s*&self,\s*bufreader: &mut dyn BufRead,", ["C01", "C02", "C03", "C06", "C13"]),
    ("service_new", "varlink/src/lib.rs", r"pub fn new<S: Into<Cow<'static, str>>>\(\s*vendor: S,", ["C03"]),
    ("service_call", "varlink/src/lib.rs", r"fn call\(&self, iface: &str, call: &mut Call\) -> Result<\(\)> \{", ["C03"]),
    ("service_call_upgraded", "varlink/src/lib.rs", r"fn call_upgraded\(\s*&self,\s*iface: &str,", ["C02", "C03"]),
    ("call_impl", "varlink/src/lib.rs", r"impl<'a> Call<'a> \{", ["C01", "C02", "C03", "C04", "C05"]),
    ("calltrait_for_call", "varlink/src/lib.rs", r"impl CallTrait for Call<'_> \{", ["C04", "C05"]),
    ("methodcall_impl", "varlink/src/lib.rs", r"impl<MRequestParameters, MReply, MError> MethodCall<MRequestParameters, MReply, MError>\s*where", ["C04", "C05", "C07", "C08", "C18", "C20"]),
    ("methodcall_iter", "varlink/src/lib.rs", r"impl<MRequest, MReply, MError> Iterator for MethodCall<MRequest, MReply, MError>\s*where", ["C05", "C07", "C18", "C20"]),
    ("errorkind_from_reply", "varlink/src/lib.rs", r"impl From<Reply> for ErrorKind \{", ["C07", "C20"]),
    ("connection_impl", "varlink/src/lib.rs", r"impl Connection \{", ["C07", "C16", "C18"]),
    ("listen", "varlink/src/server.rs", r"pub fn listen<S: \?Sized \+ AsRef<str>, H: crate::ConnectionHandler \+ Send \+ Sync \+ 'static>\(", ["C01", "C02", "C06", "C13", "C14", "C15"]),
    ("threadpool_impl", "varlink/src/server.rs", r"impl ThreadPool \{", ["C13", "C14", "C15"]),
    ("worker_impl", "varlink/src/server.rs", r"impl Worker \{", ["C13", "C14", "C15"]),
    ("threadpool_drop", "varlink/src/server.rs", r"impl Drop for ThreadPool \{", ["C15"]),
    ("listener_impl", "varlink/src/server.rs", r"impl Listener \{", ["C15", "C16"]),
    ("activation_listener", "varlink/src/server.rs", r"fn activation_listener\(\) -> Option<usize> \{", ["C16"]),
    ("client_rs", "varlink/src/client.rs", None, ["C16", "C18"]),
    ("parser_from_token", "varlink_parser/src/lib.rs", r"fn from_token\(", ["C11"]),
    ("parser_try_from", "varlink_parser/src/lib.rs", r"fn try_from\(value: &'a str\) -> Result<Self, Self::Error> \{", ["C09", "C11", "C12"]),
    ("parser_error_enum", "varlink_parser/src/lib.rs", r"pub enum Error \{", ["C09", "C12"]),
    ("format_rs", "varlink_parser/src/format.rs", None, ["C10"]),
    ("generator_lib", "varlink_generator/src/lib.rs", None, ["C08", "C09"]),
    ("derive_lib", "varlink_derive/src/lib.rs", None, ["C08", "C09"]),
    ("cli_main", "varlink-cli/src/main.rs", None, ["C18", "C20"]),
    ("cli_proxy", "varlink-cli/src/proxy.rs", None, ["C18"]),
    ("cli_watchclose", "varlink-cli/src/watchclose_epoll.rs", None, ["C18"]),
    ("certification_main", "varlink-certification/src/main.rs", None, ["C19"]),
    ("ping_example", "examples/ping/src/main.rs", None, ["C02", "C13"]),
    ("stringhashset_impl", "varlink/src/lib.rs", r"impl StringHashSet \{", ["C08", "C17", "C19"]),
    ("connection_drop", "varlink/src/lib.rs", r"impl Drop for Connection \{", ["C07", "C16", "C18"]),
    ("listener_drop", "varlink/src/server.rs", r"impl Drop for Listener \{", ["C15", "C16"]),
    # inventories: the headers of every impl block that mentions the type. A new trait impl (Drop, Deref, a hand-written
    # Serialize) or a second inherent block changes what the pinned functions mean without touching their text.
    ("inv_methodcall", "varlink/src/lib.rs", ("inventory", "MethodCall"), ["C04", "C05", "C07", "C08", "C20"]),
    ("inv_connection", "varlink/src/lib.rs", ("inventory", "Connection"), ["C07", "C16", "C18"]),
    ("inv_call", "varlink/src/lib.rs", ("inventory", "Call"), ["C01", "C02", "C03", "C04", "C05"]),
    ("inv_service", "varlink/src/lib.rs", ("inventory", "VarlinkService"), ["C01", "C02", "C03", "C06", "C13"]),
    ("inv_stringhashset", "varlink/src/lib.rs", ("inventory", "StringHashSet"), ["C08", "C17", "C19"]),
    ("inv_wire_structs", "varlink/src/lib.rs", ("inventory", "(?:Request|Reply|ServiceInfo|ErrorKind|Error)"), ["C06", "C07", "C17"]),
    ("inv_server", "varlink/src/server.rs", ("inventory", "(?:ThreadPool|Worker|Listener)"), ["C13", "C14", "C15", "C16"]),
    # every public struct / enum of the runtime crate's lib.rs with the attributes in front of it (derive lists, serde container
    # attributes): dropping a derive in favour of a hand-written impl, or adding deny_unknown_fields, changes the wire format
    ("decls_lib", "varlink/src/lib.rs", ("decls", None), ["C06", "C07", "C17"]),
]


def norm(t):
    t = re.sub(r"//[^\n]*", "", t)
    t = re.sub(r"/\*.*?\*/", "", t, flags=re.S)
    return re.sub(r"\s+", "", t)


def digest(root):
    out = {}
    for name, rel, header, _ in SHAPES:
        p = os.path.join(root, rel)
        if not os.path.exists(p):
            out[name] = "missing-file"
            continue
        src = open(p, encoding="utf-8").read()
        if header is None:
            body = src
        elif isinstance(header, tuple) and header[0] == "decls":
            code = re.sub(r"/\*.*?\*/", "", re.sub(r"//[^\n]*", "", src), flags=re.S)
            ds = re.findall(r"((?:#\[[^\]]*\]\s*)*)pub\s+(struct|enum)\s+(\w+[^{;(]*)", code)
            body = "\n".join(sorted(norm(a_ + k_ + n_) for a_, k_, n_ in ds))
        elif isinstance(header, tuple):
            code = re.sub(r"/\*.*?\*/", "", re.sub(r"//[^\n]*", "", src), flags=re.S)
            heads = re.findall(r"(?m)^\s*((?:unsafe\s+)?impl\b[^{;]*?\b%s\b[^{;]*?)\{" % header[1], code)
            body = "\n".join(sorted(norm(h) for h in heads))
        else:
            m = re.search(header, src)
            if not m:
                out[name] = "not-found"
                continue
            i = src.find("{", m.start())
            body = src[m.start():balanced(src, i)]
        out[name] = hashlib.sha256(norm(body).encode("utf-8")).hexdigest()
    return out


def translate(root):
    here = os.path.dirname(os.path.abspath(__file__))
    pinned = json.load(open(os.path.join(here, "shapes_pinned.json")))
    cur = digest(root)
    out = ["(* generated by tr/shapes.py - do not edit *)", "Require Import Bool."]
    marks = []
    for name, rel, header, props in SHAPES:
        same = cur.get(name) == pinned.get(name)
        out.append("Definition shape_%s : bool := %s.   (* %s *)" % (name, "true" if same else "false", rel))
        if not same:
            marks.append("(* PARTIAL-REFUSAL props=%s : the hand-modelled code %s in %s differs from the pinned text (%s) *)" % (
                ",".join(props), name, rel, cur.get(name, "?")[:12]))
    for pid in ALL:
        deps = [n for n, _, _, props in SHAPES if pid in props]
        out.append("Definition shapes_for_%s : bool := %s." % (pid, " && ".join("shape_" + d for d in deps) if deps else "true"))
    return "\n".join(marks + out) + "\n"


if __name__ == "__main__":
    try:
        if "--print-hashes" in sys.argv:
            print(json.dumps(digest(sys.argv[1]), indent=0, sort_keys=True))
        else:
            sys.stdout.write(translate(sys.argv[1]))
    except Refuse as e:
        sys.stderr.write("REFUSED: %s\n" % e)
        sys.exit(2)
