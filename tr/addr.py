#!/usr/bin/env python3
"""Translator: address parsing of client (varlink/src/client.rs: varlink_connect) and server
(varlink/src/server.rs: Listener::new, activation_listener) and the activation environment set by
varlink_exec -> coq/gen/AddrGen.v"""
import re
import sys

sys.path.insert(0, __file__.rsplit("/", 1)[0])
from wire import Refuse, fn_body  # noqa: E402


def cb(s):
    return "[" + "; ".join(str(x) for x in s.encode()) + "]%N"


def chain(body, var, what):
    """ordered (prefix, strips ';' parameters) list of an if-let strip_prefix chain ending in InvalidAddress"""
    out = []
    for m in re.finditer(r'if let Some\(addr\) = %s\.strip_prefix\("([^"]+)"\) \{(.*?)\} else' % var, body, re.S):
        arm = m.group(2)
        strips = bool(re.search(r"addr\.split\(';'\)\.next\(\)\.unwrap_or\(addr\)", arm))
        out.append((m.group(1), strips))
    if not out:
        raise Refuse(what + ": prefix chain not recognised")
    tail = body[body.rfind("} else {"):]
    if "ErrorKind::InvalidAddress" not in tail:
        raise Refuse(what + ": the chain does not end in InvalidAddress")
    return out


def translate(client, server):
    c = open(client, encoding="utf-8").read()
    s = open(server, encoding="utf-8").read()
    vc = fn_body(c, r"pub fn varlink_connect<S: \?Sized \+ AsRef<str>>\(address: &S\) -> Result<\(Box<dyn Stream>, String\)> \{")
    ct = chain(vc, "new_address", "varlink_connect")
    ln = fn_body(s, r"pub fn new<S: \?Sized \+ AsRef<str>>\(address: &S\) -> Result<Self> \{")
    unix_part = ln[ln.find("#[cfg(unix)]"):]
    act = re.findall(r'address\.starts_with\("([^"]+)"\)', unix_part.split("if let Some(addr)")[0])
    if not act or "ErrorKind::InvalidAddress" not in unix_part.split("if let Some(addr)")[0]:
        raise Refuse("Listener::new: activated branch not recognised")
    st = chain(ln[ln.find("if let Some(addr) = address.strip_prefix"):], "address", "Listener::new")
    al = fn_body(s, r"fn activation_listener\(\) -> Option<usize> \{")
    if not re.search(r'env::var\("LISTEN_FDS"\) \{\s*Ok\(ref n\) => match n\.parse::<usize>\(\) \{\s*Ok\(n\) if n >= 1 => nfds = n,\s*_ => return None,', al):
        raise Refuse("activation_listener: LISTEN_FDS test not recognised")
    if not re.search(r'env::var\("LISTEN_PID"\) \{\s*Ok\(ref pid\) if pid\.parse::<usize>\(\) == Ok\(process::id\(\) as usize\) => \{\}\s*_ => return None,', al):
        raise Refuse("activation_listener: LISTEN_PID test not recognised")
    m = re.search(r"if nfds == 1 \{\s*return Some\((\d+)\);\s*\}", al)
    if not m:
        raise Refuse("activation_listener: single descriptor case not recognised")
    first = int(m.group(1))
    m2 = re.search(r'let fdnames = env::var\("LISTEN_FDNAMES"\)\.ok\(\)\?;\s*for \(i, v\) in fdnames\.split\(\':\'\)\.enumerate\(\) \{\s*if v == "([^"]+)" \{\s*return Some\((\d+) \+ i\);', al)
    if not m2 or int(m2.group(2)) != first:
        raise Refuse("activation_listener: named descriptor search not recognised")
    ve = fn_body(c, r"pub fn varlink_exec<S: \?Sized \+ AsRef<str>>\(\s*address: &S,\s*\) -> Result<\(Child, String, Option<TempDir>\)> \{")
    envs = dict(re.findall(r'\.env\("(\w+)", (?:"([^"]*)"|format!\("unix:\{\}", file_path\.display\(\)\))\)', ve))
    if set(envs) != {"VARLINK_ADDRESS", "LISTEN_FDS", "LISTEN_FDNAMES"}:
        raise Refuse("varlink_exec: environment of the activated service not recognised: %r" % envs)
    own_pid = 'String::from("LISTEN_PID=$$ exec ") + address.as_ref()' in ve
    if not own_pid:
        raise Refuse("varlink_exec: LISTEN_PID is not set to the pid of the exec'ed service")
    tgt = re.search(r"if fd != (\d+) \{\s*dup2\(fd, (\d+)\);", ve)
    if not tgt or tgt.group(1) != tgt.group(2):
        raise Refuse("varlink_exec: descriptor passing not recognised")
    # listen(): the mode of the listening descriptor when the accept loop starts, and when accept() waits in select
    lb = fn_body(s, r"pub fn listen<S: \?Sized \+ AsRef<str>, H: crate::ConnectionHandler \+ Send \+ Sync \+ 'static>\(\s*handler: H,\s*address: &S,\s*listen_config: &ListenConfig,\s*\) -> Result<\(\)> \{")
    pro = lb[:lb.find("loop {")] if "loop {" in lb else None
    if pro is None or not re.search(r"let listener = Listener::new\(address\)\?;", pro):
        raise Refuse("listen: prologue not recognised")
    modes = re.findall(r"listener\.set_nonblocking\((true|false)\)\?;", pro)
    if len(modes) > 1 or "true" in modes or len(re.findall(r"set_nonblocking", lb)) != len(modes):
        raise Refuse("listen: the listener's blocking mode is set in an unrecognised way")
    forces = modes == ["false"]
    um = re.search(r"#\[cfg\(unix\)\]\s*pub fn accept\(&self, timeout: u64\) -> Result<Box<dyn Stream>> \{", s)
    if not um:
        raise Refuse("Listener::accept (unix) not found")
    from wire import balanced
    ab = s[um.end() - 1:balanced(s, um.end() - 1)]
    g = re.search(r"if timeout > 0 \{", ab)
    if not g:
        raise Refuse("Listener::accept: timeout guard not recognised")
    g_end = balanced(ab, g.end() - 1)
    if "select(" not in ab[g.end():g_end] or "select(" in ab[:g.start()] or "select(" in ab[g_end:] or ".accept()" in ab[:g_end]:
        raise Refuse("Listener::accept: select / accept placement not recognised")
    if not re.search(r"if !FD_ISSET\(fd, readfs\.as_mut_ptr\(\)\) \{\s*return Err\(context!\(ErrorKind::Timeout\)\);", ab[g.end():g_end]):
        raise Refuse("Listener::accept: timeout result not recognised")
    out = ["(* GENERATED by tr/addr.py from varlink/src/client.rs and server.rs -- do not edit *)",
           "From Coq Require Import List NArith.", "Import ListNotations.",
           "Definition client_table : list (list N * bool) := [%s]." % "; ".join("(%s, %s)" % (cb(p), "true" if f else "false") for p, f in ct),
           "Definition server_table : list (list N * bool) := [%s]." % "; ".join("(%s, %s)" % (cb(p), "true" if f else "false") for p, f in st),
           "Definition server_activated_prefixes : list (list N) := [%s]." % "; ".join(cb(p) for p in act),
           "Definition act_first_fd : nat := %d." % first,
           "Definition act_fd_name : list N := %s." % cb(m2.group(1)),
           "Definition exec_listen_fds : list N := %s." % cb(envs["LISTEN_FDS"]),
           "Definition exec_listen_fdnames : list N := %s." % cb(envs["LISTEN_FDNAMES"]),
           "Definition exec_passes_fd : nat := %s." % tgt.group(2),
           "Definition exec_listen_pid_is_own : bool := true.",
           "Definition listen_forces_blocking : bool := %s." % ("true" if forces else "false"),
           "Definition accept_selects_only_with_timeout : bool := true."]
    return "\n".join(out) + "\n"


if __name__ == "__main__":
    try:
        sys.stdout.write(translate(sys.argv[1], sys.argv[2]))
    except Refuse as e:
        sys.stderr.write("REFUSED: %s\n" % e)
        sys.exit(2)
