"""C10 (formatting preserves and is idempotent), C11 (parser = grammar, duplicates, mirror),
C12 (parsing total, diagnostics point into the input)."""
import itertools
import json
import random
import re

from common import *

WS = [" ", "\t", " ", "﻿", " ", "᠎", " ", " ", " ", " ", " ", "　"]
EOLS = ["\n", "\r\n", "\r", " ", " "]
FIELD_NAMES = ["a", "b", "x1", "foo_bar", "type", "method", "error", "interface", "bool", "int", "string", "self", "Abc", "a_b_c", "zz9", "fn"]
TYPE_NAMES = ["T", "Foo", "Bar1", "Type", "Method", "X", "Interface", "BoolT"]
INAMES = ["org.example.x", "a.b", "com.Example", "xn--lgbbat1ad8j.example.algeria", "a1.b--1.c--1", "aB.c", "a.0.0", "Com.example.uppercase-toplevel"]


class Gen:
    def __init__(self, rng, trivia=True):
        self.rng = rng
        self.trivia = trivia

    def tr(self, allow_empty=True, p=0.25):
        """legal trivia: whitespace, line ends, complete comments"""
        if not self.trivia or self.rng.random() > p:
            return "" if allow_empty else " "
        out = []
        for _ in range(self.rng.randint(0 if allow_empty else 1, 3)):
            c = self.rng.random()
            if c < 0.5:
                out.append(self.rng.choice(WS))
            elif c < 0.8:
                out.append(self.rng.choice(EOLS))
            else:
                out.append("#" + self.rng.choice(["", " c", " méthod(x) -> ()", "#", " type T ()"]) + self.rng.choice(EOLS))
        s = "".join(out)
        return s if (s or allow_empty) else " "

    def ty(self, depth):
        r = self.rng.random()
        if depth <= 0 or r < 0.45:
            return self.rng.choice(["bool", "int", "float", "string", "object"] + TYPE_NAMES[:3])
        if r < 0.55:
            return "[]" + self.ty(depth - 1)
        if r < 0.65:
            return "[string]" + self.ty(depth - 1)
        if r < 0.75:
            base = self.rng.choice(["b", "a", "d"])
            if base == "b":
                return "?" + self.btype(depth - 1)
            if base == "a":
                return "?[]" + self.ty(depth - 1)
            return "?[string]" + self.ty(depth - 1)
        return self.btype(depth - 1)

    def btype(self, depth):
        r = self.rng.random()
        if depth <= 0 or r < 0.4:
            return self.rng.choice(["bool", "int", "float", "string", "object"] + TYPE_NAMES[:3])
        if r < 0.8:
            return self.struct(depth)
        return self.enum()

    def struct(self, depth, maxf=4):
        n = self.rng.randint(0, maxf)
        names = self.rng.sample(FIELD_NAMES, n)
        fs = []
        for nm in names:
            fs.append(self.tr() + nm + self.tr() + ":" + self.tr() + self.ty(depth - 1))
        return "(" + self.tr() + ",".join(fs) + self.tr() + ")"

    def enum(self):
        n = self.rng.randint(1, 4)
        names = self.rng.sample(FIELD_NAMES, n)
        return "(" + self.tr() + ("," + self.tr()).join(names) + self.tr() + ")" if self.trivia else "(" + ", ".join(names) + ")"

    def doc(self):
        if self.rng.random() < 0.5:
            return ""
        lines = []
        for _ in range(self.rng.randint(1, 3)):
            lines.append(self.rng.choice(["", " ", "\t"]) + "#" + self.rng.choice([" doc", " Ünïcode ✓", "", " a # b", "\ttab"]) + self.rng.choice(EOLS if self.trivia else ["\n"]))
        return "".join(lines)

    def member(self, kind, name, depth):
        d = self.doc() + (self.tr(p=0.3) if self.trivia else "")
        if kind == "type":
            body = self.struct(depth) if self.rng.random() < 0.75 else self.enum()
            return d + "type" + self.tr(False, 1.0 if self.trivia and self.rng.random() < 0.3 else 0) + name + self.tr() + body
        if kind == "error":
            return d + "error" + self.tr(False, 0) + name + self.tr() + self.struct(depth)
        return (d + "method" + self.tr(False, 0) + name + self.tr() + self.struct(depth) + self.tr() + "->" + self.tr() + self.struct(depth))

    def idl(self, nmembers=None, depth=3):
        rng = self.rng
        n = nmembers if nmembers is not None else rng.randint(1, 6)
        names = rng.sample([a + b for a in ["A", "Get", "Set", "Do", "X", "Type", "Err"] for b in ["", "1", "Foo", "B"]], n)
        kinds = [rng.choice(["type", "method", "method", "error"]) for nm in names]
        self.last_members = list(zip(kinds, names))     # what was written, for oracles that do not go through a parser
        ms = [self.member(k, nm, depth) for k, nm in zip(kinds, names)]
        sep = lambda: (rng.choice(WS) * rng.randint(0, 2) + rng.choice(EOLS)) if self.trivia and rng.random() < 0.5 else "\n"
        head = self.doc() + "interface" + " " + rng.choice(INAMES) + sep()
        body = ms[0]
        for m in ms[1:]:
            body += sep() + m
        return head + body + (self.tr(p=0.5) if self.trivia else "\n")


CORPUS = [
    "interface org.example.x\nmethod M() -> ()\n",
    "# The doc\ninterface org.varlink.service\n\n# Get info\nmethod GetInfo() -> (\n  vendor: string,\n  product: string,\n  interfaces: []string\n)\n\n"
    "method GetInterfaceDescription(interface: string) -> (description: string)\n\nerror InterfaceNotFound (interface: string)\n",
    "interface a.b\ntype T (a: int, b: ?[]string, c: (x, y, z), d: [string](q: bool, r: ?T), e: [][string]?int)\ntype E (one, two)\n"
    "method M(t: T, e: E) -> (r: [](a: int, b: (c: (d: (e: bool)))))\nerror Err (why: string, t: ?T)\n",
    "interface a.b\r\ntype T ()\r\nmethod M()->()\r\n",
    "interface a.b method M()->() error E()",
]


def ast_of(res):
    if not res.startswith("ok "):
        return None
    return json.loads(unhx(res.split(" ")[1]).decode("utf-8"))


def prep(ck, prop_file):
    ref = regenerate(["GrammarGen.v"])
    for n, msg in ref:
        ck.tie_broken.append("translator refused %s: %s" % (n, msg))
    ck.props(prop_file)
    model_ok, log = build_driver()
    if not model_ok:
        ck.proof_broken.append("the executable model does not build against the regenerated sources:\n" + "\n".join(log.strip().splitlines()[-15:]))
    ok, log = build_harness(["h_parser"])
    if not ok:
        ck.tie_broken.append("harness does not build: " + "\n".join(log.strip().splitlines()[-15:]))
    ck.trusted = ["Coq 8.16.1 kernel", "tr/grammar.py (lexical tables and literals of varlink_grammar.rs, trim_doc's set; the recursive rules are compared textually with the modelled ones)",
                  "extraction + ml/driver.ml (UTF-8 decoding, AST dump); harness/src/bin/h_parser.rs",
                  "modelled not verified: rust-peg's operational semantics (ordered choice, greedy repetition, separator back-off, $() capture)"]
    return model_ok, ok


def both(ck, lines, model_ok, shards=12):
    impl = run_lines(harness_bin("h_parser"), lines, shards=shards, timeout=900)
    # inputs beyond 20000 bytes are run on the implementation only (the extracted model parser walks unary-encoded
    # lists and takes minutes on them; its totality is a theorem, not something the run has to establish)
    mlines = [l for l in lines if len(l) < 45000]
    model = run_lines(DRIVER, mlines, shards=shards, timeout=900) if model_ok else {}
    return impl, model


def same_parse(a, b):
    ka, kb = a.split(" ")[0], b.split(" ")[0]
    if ka != kb:
        return False
    if ka == "ok":
        return ast_of(a) == ast_of(b)
    if ka == "idl_error":
        # model: sorted "kindword:name" list; impl: message text. compare the named duplicates
        msg = unhx(a.split(" ")[1]).decode("utf-8")
        got = set()
        for ln in msg.splitlines():
            m = re.search(r"multiple definitions of (method |type |error )?`([^`]*)`", ln)
            if m:
                got.add(((m.group(1) or "x") + ":" + m.group(2)))
        want = set(b.split(" ", 1)[1].split(","))
        return got == want
    return True


def mutations(rng, text, n):
    """near-miss texts: token deletion / insertion / swap / substitution at the character-class level"""
    toks = re.findall(r"[A-Za-z0-9_.]+|->|\[\]|\[string\]|\s+|#[^\n]*\n|.", text, re.S)
    out = []
    for _ in range(n):
        t = list(toks)
        op = rng.choice(["del", "ins", "swap", "sub"])
        i = rng.randrange(len(t))
        if op == "del":
            del t[i]
        elif op == "ins":
            t.insert(i, rng.choice(["(", ")", ",", ":", "->", "?", "[]", "[string]", "type", "method", "error", "interface", "x", "X", "#", " ", "\n", "-", "."]))
        elif op == "swap" and len(t) > 1:
            j = rng.randrange(len(t))
            t[i], t[j] = t[j], t[i]
        else:
            t[i] = rng.choice(["(", ")", ",", ":", "->", "?", "int", "Foo", "foo", "1", "_x", "a-", "é", "\t", "\r", ""])
        out.append("".join(t))
    return out


def c11(ck):
    rng = random.Random(ck.seed)
    quick = ck.quick
    model_ok, ok = prep(ck, "C11.v")
    if not ok:
        return
    ck.rule = ("grammar-derived valid texts with random legal trivia (all whitespace code points, all five line ends, comments), near-miss texts by token deletion / insertion / swap / substitution, "
               "every interface name over {a,B,1,-,.} up to length %d, type expressions over the token alphabet up to %d tokens, all kind x kind name collisions; "
               "non-trivial = everything; distinct by text") % (5 if quick else 7, 4 if quick else 6)
    lines, meta = [], {}
    n = 0

    def add(kind, text, info=None):
        nonlocal n
        cid = "g%d" % n
        n += 1
        lines.append("%s parse %s" % (cid, hx(text)))
        meta[cid] = (kind, text, info)

    g = Gen(rng, trivia=True)
    gp = Gen(rng, trivia=False)
    valid = list(CORPUS)
    written = {}
    for _ in range(150 if quick else 1500):
        valid.append(g.idl())
        written[valid[-1]] = g.last_members
    for _ in range(50 if quick else 400):
        valid.append(gp.idl())
        written[valid[-1]] = gp.last_members
    for t in valid:
        add("valid", t, written.get(t))
    for t in valid[:(60 if quick else 600)]:
        for mtext in mutations(rng, t, 3 if quick else 6):
            add("mutant", mtext)
    # interface names
    inames = []
    for L in range(1, (5 if quick else 7) + 1):
        for tup in itertools.product("aB1-.", repeat=L):
            inames.append("".join(tup))
    for nm in inames:
        add("iname", "interface %s\nmethod M()->()\n" % nm, nm)
    # type expressions over a token alphabet
    toks = ["int", "T", "?", "[]", "[string]", "(", ")", "a:", ",", "x"]
    for L in range(1, (4 if quick else 6) + 1):
        for tup in itertools.product(toks, repeat=L):
            if L > 3 and rng.random() > (0.08 if quick else 0.25):
                continue
            add("typeexpr", "interface a.b\nmethod M(f: %s)->()\n" % " ".join(tup).replace("a: ", "a: "), tup)
    # the same without blanks between the tokens, for the wrapper tokens only: the language is
    #   type := '?'? elem     elem := '[]' type | '[string]' type | 'int' | Name      (no '?' directly after '?')
    def type_ok(t):
        if t.startswith("?"):
            t = t[1:]
            if t.startswith("?"):
                return False
        if t.startswith("[]"):
            return type_ok(t[2:])
        if t.startswith("[string]"):
            return type_ok(t[8:])
        return t == "int" or re.fullmatch(r"[A-Z][A-Za-z0-9]*", t) is not None     # a builtin, or a type name (e.g. "Tint", "TT")
    wtoks = ["int", "T", "?", "[]", "[string]"]
    for L in range(1, (5 if quick else 7) + 1):
        for tup in itertools.product(wtoks, repeat=L):
            if L > 4 and rng.random() > (0.15 if quick else 0.5):
                continue
            e = "".join(tup)
            for pos in ("method M(f: %s)->()", "method M()->(f: %s)", "type X (f: %s)\nmethod M()->()", "error E (f: %s)\nmethod M()->()",
                        "method M(g: (h: %s))->()")[:(2 if quick and L > 3 else 5)]:
                add("wrapexpr", "interface a.b\ntype T (z: int)\n" + pos % e + "\n", type_ok(e))
    # member names and field names over a small alphabet, in every declaring position: a type / method / error name is an
    # upper-case letter followed by letters and digits (no underscore: the generator builds its own names with them); a field
    # name is a letter followed by letters and digits, each optionally preceded by one underscore
    for L in range(1, (4 if quick else 5) + 1):
        for tup in itertools.product("Aa1_", repeat=L):
            nm = "".join(tup)
            ok_name = re.fullmatch(r"[A-Z][A-Za-z0-9]*", nm) is not None
            ok_field = re.fullmatch(r"[A-Za-z](_?[A-Za-z0-9])*", nm) is not None
            for pos in ("type %s (x: int)\nmethod M()->()", "method %s()->()", "error %s ()\nmethod M()->()"):
                add("name", "interface a.b\n" + pos % nm + "\n", ok_name)
            add("name", "interface a.b\nmethod M(%s: int)->()\n" % nm, ok_field)
            add("name", "interface a.b\ntype T (%s, zz)\nmethod M()->()\n" % nm, ok_field)
    # duplicate names, all kind x kind pairs, same and different order
    defs = {"method": "method %s() -> ()", "type": "type %s (a: int)", "error": "error %s (a: int)"}
    for k1 in defs:
        for k2 in defs:
            for extra in ("", "\nmethod Other()->()", "\ntype Zed (z)"):
                add("dup", "interface a.b\n%s\n%s%s\n" % (defs[k1] % "Same", defs[k2] % "Same", extra), (k1, k2))
                add("dup", "interface a.b\n%s\nmethod Mid()->()\n%s\n%s\n" % (defs[k1] % "Same", defs[k2] % "Same", defs[k1] % "Same"), (k1, k2, k1))
    impl, model = both(ck, lines, model_ok)
    nd = 0
    spec_re = re.compile(r"^[A-Za-z]([-]*[A-Za-z0-9])*(\.[A-Za-z0-9]([-]*[A-Za-z0-9])*)+$")
    for cid, (kind, text, info) in meta.items():
        ck.case(text, sample={"kind": kind, "text": text[:200]} if rng.random() < 0.0015 and len(ck.samples) < 6 else None)
        ck.count("kind=" + kind)
        a = impl[cid]
        if a.startswith(("PANIC", "TIMEOUT", "NO-OUTPUT")):
            ck.failures.append({"what": "parser panicked or did not terminate", "text": text[:600], "result": a[:100]})
            continue
        ck.count("verdict=" + a.split(" ")[0])
        if cid in model and not same_parse(a, model[cid]):
            nd += 1
            if nd <= 5:
                ck.tie_broken.append("model/implementation disagree on %s text %r: impl=%s model=%s" % (kind, text[:200], a[:200], model[cid][:200]))
            # (the two promotions below rest on the theorems of C11.v: they apply only while those are proved for the model at hand)
            if a.startswith("ok") and model[cid].startswith("ok") and not ck.proof_broken:
                # same reasoning for the structure: the model parser returns exactly the tree the grammar's rendering
                # relation assigns to the text (names, member order, types, docs trimmed of the grammar's blanks)
                ia, ma = ast_of(a), ast_of(model[cid])
                diff_keys = [k for k in (ia or {}) if (ma or {}).get(k) != ia.get(k)]
                ck.failures.append({"what": "the parsed structure does not mirror the source (it differs from the tree the grammar assigns to the text)",
                                    "text": text[:600], "differs_in": diff_keys[:4],
                                    "parser": json.dumps(ia, ensure_ascii=True)[:400], "grammar": json.dumps(ma, ensure_ascii=True)[:400]})
            if a.startswith("ok") != model[cid].startswith("ok") and kind != "dup" and not ck.proof_broken:
                # the model parser is proved to accept exactly the renderings of the grammar (C11_accepted_iff_rendered):
                # a text on which the verdicts differ is accepted without following the grammar, or rejected although it does
                ck.failures.append({"what": "the parser %s a text that the varlink grammar %s" % (
                    ("accepts", "does not derive") if a.startswith("ok") else ("rejects", "derives")), "text": text[:800]})
        if kind == "name" and a.startswith("ok") != bool(info):
            ck.failures.append({"what": "a definition whose member / field name %s the name grammar was %s" % (
                "follows" if info else "does not follow", "accepted" if a.startswith("ok") else "rejected"), "text": text[:300]})
        if kind == "wrapexpr" and a.startswith("ok") != bool(info):
            ck.failures.append({"what": "type expression %s although it %s of the form ['?'] {'[]' | '[string]' ['?']} (int | Name)" % (
                "accepted" if a.startswith("ok") else "rejected", "is" if info else "is not"), "text": text[:300]})
        if kind == "valid" and not a.startswith("ok"):
            ck.failures.append({"what": "a text that follows the grammar was rejected", "text": text[:800], "result": a[:200]})
        if kind == "valid" and a.startswith("ok") and info:
            # the members the generator wrote, by kind and in source order, independent of any parser
            t_ast = ast_of(a)
            got = {"type": [x["name"] for x in t_ast.get("typedefs", [])], "method": [x["name"] for x in t_ast.get("methods", [])],
                   "error": [x["name"] for x in t_ast.get("errors", [])]}
            want = {k: [nm for kk, nm in info if kk == k] for k in ("type", "method", "error")}
            if got != want:
                ck.failures.append({"what": "the parsed definition does not have the members the text declares (by kind, in source order)",
                                    "text": text[:800], "declared": want, "parsed": got})
        if kind == "iname":
            should = bool(spec_re.match(info))
            if a.startswith("ok") != should:
                ck.failures.append({"what": "interface name %s although it %s a reverse-domain name whose elements neither start nor end with a hyphen" % (
                    "accepted" if a.startswith("ok") else "rejected", "is" if should else "is not"), "name": info})
            elif a.startswith("ok") and ast_of(a)["name"] != info:
                ck.failures.append({"what": "interface name not mirrored", "name": info, "got": ast_of(a)["name"]})
        if kind == "dup":
            if not a.startswith("idl_error"):
                ck.failures.append({"what": "a definition with a duplicated member name was not rejected", "text": text, "result": a[:200]})
            elif "`Same`" not in unhx(a.split(" ")[1]).decode("utf-8"):
                ck.failures.append({"what": "the duplicated name is not named in the error", "text": text, "message": unhx(a.split(" ")[1]).decode("utf-8")})


def c12(ck):
    rng = random.Random(ck.seed)
    quick = ck.quick
    model_ok, ok = prep(ck, "C12.v")
    if not ok:
        return
    ck.rule = ("random Unicode strings, byte-level mutations of valid definitions re-validated as UTF-8, every prefix of each corpus definition, all five line-ending conventions, "
               "type nesting depth up to 200, names defined 2..5 times; each parsed under catch_unwind with a time limit on a default-stack thread; non-trivial = not a valid definition; distinct by text")
    texts = []
    g = Gen(rng, trivia=True)
    base = list(CORPUS) + [g.idl() for _ in range(6 if quick else 40)]
    for t in base:
        step = 1 if len(t) < 200 or not quick else 3
        for i in range(0, len(t) + 1, step):
            texts.append(("prefix", t[:i]))
    alphabet = list("abzAZ09 _-.:,()[]?#>\n\r\t") + [" ", " ", " ", "é", "😀", "\u0000", "﻿", "interface", "method", "type", "error", "->"]
    for _ in range(300 if quick else 5000):
        texts.append(("random", "".join(rng.choice(alphabet) for _ in range(rng.randint(0, 60)))))
    for t in base:
        b = bytearray(t.encode("utf-8"))
        for _ in range(30 if quick else 200):
            bb = bytearray(b)
            for _ in range(rng.randint(1, 3)):
                op = rng.random()
                i = rng.randrange(len(bb)) if bb else 0
                if op < 0.4 and bb:
                    bb[i] = rng.randrange(256)
                elif op < 0.7 and bb:
                    del bb[i]
                else:
                    bb.insert(i, rng.randrange(128))
            try:
                texts.append(("bytemut", bb.decode("utf-8")))
            except UnicodeDecodeError:
                pass
    for e in ["\n", "\r\n", "\r", " ", " "]:
        texts.append(("eol", "# doc" + e + "interface a.b" + e + "type T (a: int)" + e + "method M() -> ()" + e + "bogus line" + e))
        texts.append(("eol", "interface a.b" + e + e + e + "method M() -> (" + e + "a: int," + e + "b ! int)" + e))
    for d in ([1, 2, 10, 50, 100, 150, 200] if quick else list(range(1, 201, 7)) + [200]):
        texts.append(("nest", "interface a.b\nmethod M(a: " + "(a: " * d + "int" + ")" * d + ") -> ()\n"))
        texts.append(("nest", "interface a.b\nmethod M(a: " + "[]" * d + "int) -> ()\n"))
        texts.append(("nest", "interface a.b\nmethod M(a: " + "(a: " * d + "int" + ")" * (d - 1) + ") -> ()\n"))
        texts.append(("nest", "interface a.b\nmethod M(a: " + "?[][string]" * d + "?(x, y)) -> ()\n"))
        # nested nullable anonymous structs: valid, truncated, and with a stray character innermost (the error lies deep
        # inside alternatives the grammar can reach by more than one path)
        texts.append(("nest", "interface a.b\ntype T " + "(a: ?" * d + "int" + ")" * d + "\nmethod M() -> ()\n"))
        texts.append(("nest", "interface a.b\ntype T " + "(a: ?" * d + "int"))
        texts.append(("nest", "interface a.b\ntype T " + "(a: ?" * d + "!" + ")" * d + "\nmethod M() -> ()\n"))
        texts.append(("nest", "interface a.b\nmethod M(x: " + "?[](b: " * d + "?" + ")" * d + ") -> ()\n"))
    # very long lines: the reported column (and the rendering of the error) must cope with columns beyond 65535
    for n in ([70000] if quick else [65534, 65535, 65536, 70000, 200000]):
        texts.append(("longline", "interface a.b\nmethod M(a: int, " + "b" * n + " !) -> ()\n"))
        texts.append(("longline", "interface a.b\r# " + "x" * n + "\rmethod M( -> ()\r"))
    # grammatical texts that the semantic pass rejects: the same name defined 2..5 times, for each member kind and across
    # kinds, adjacent and with other members in between (an error value, never a panic)
    decl = {"t": lambda nm: "type %s (a: int)" % nm, "m": lambda nm: "method %s() -> ()" % nm, "e": lambda nm: "error %s (x: string)" % nm}
    for kinds in (["t"], ["m"], ["e"], ["t", "m"], ["m", "e"], ["t", "e"], ["t", "m", "e"]):
        for reps in (2, 3, 4, 5):
            for spaced in (False, True):
                ms = []
                for r in range(reps):
                    ms.append(decl[kinds[r % len(kinds)]]("Same"))
                    if spaced:
                        ms.append(decl[rng.choice("tme")]("Other%d" % r))
                texts.append(("dup", "interface a.b\n" + "\n".join(ms) + "\nmethod Last() -> ()\n"))
    for _ in range(20 if quick else 300):
        names = [rng.choice(["A", "B", "C"]) for _ in range(rng.randint(2, 9))]
        texts.append(("dup", "interface a.b\n" + "\n".join(decl[rng.choice("tme")](nm) for nm in names) + "\n"))
    lines, meta = [], {}
    for i, (kind, t) in enumerate(texts):
        lines.append("t%d parse %s" % (i, hx(t)))
        meta["t%d" % i] = (kind, t)
    impl, model = both(ck, lines, model_ok)
    nd = 0
    for cid, (kind, t) in meta.items():
        a = impl[cid]
        ck.case(t, nontrivial=not a.startswith("ok"), sample={"kind": kind, "text": t[:120], "result": a[:80]} if rng.random() < 0.002 and len(ck.samples) < 6 else None)
        ck.count("kind=" + kind)
        ck.count("verdict=" + a.split(" ")[0])
        if a.startswith(("PANIC", "TIMEOUT", "NO-OUTPUT")):
            ck.failures.append({"what": "parsing panicked or failed to terminate", "text": t[:1000], "result": a[:100]})
            continue
        if a.startswith("parse_error"):
            f = fields(a)
            if f.get("line_ok") != "1" or f.get("col_ok") != "1":
                ck.failures.append({"what": "a syntax error does not report an actual line of the input and a column within it",
                                    "text": t[:1000], "line": unhx(f.get("line", "-")).decode("utf-8", "replace"), "column": f.get("column")})
            if f.get("display_ok") != "1":
                ck.failures.append({"what": "an error could not be rendered for display", "text": t[:1000]})
        if a.startswith("idl_error") and "display_ok=1" not in a:
            ck.failures.append({"what": "an error could not be rendered for display", "text": t[:1000]})
        if cid in model:
            if model[cid].startswith(("FUEL", "STACK")):
                ck.proof_broken.append("the parser model ran out of fuel / stack on %r" % t[:200])
            elif not same_parse(a, model[cid]):
                nd += 1
                if nd <= 5:
                    ck.tie_broken.append("model/implementation disagree on %r: impl=%s model=%s" % (t[:200], a[:160], model[cid][:160]))


SGR = re.compile(r"\x1b\[[0-9;]*m")


def c10(ck):
    rng = random.Random(ck.seed)
    quick = ck.quick
    model_ok, ok = prep(ck, "C10.v")
    if not ok:
        return
    widths = list(range(0, 201, 1 if not quick else 7)) + [1000, 10 ** 6, 18446744073709551615]
    ck.rule = ("grammar-directed definitions decorated with legal whitespace, line ends and comments in every position x widths %s and {1000, 10^6, usize::MAX}: "
               "plain / Display / colored renderings; re-parse by the implementation and the model, idempotence, colour strip; non-trivial = all; distinct by (text, width)") % (
                   "0..200" if not quick else "0,7,..,196")
    g = Gen(rng, trivia=True)
    defs = list(CORPUS) + [g.idl() for _ in range(40 if quick else 400)]
    pl = ["p%d parse %s" % (i, hx(t)) for i, t in enumerate(defs)]
    pim, pmo = both(ck, pl, model_ok)
    lines, meta = [], {}
    n = 0
    for i, t in enumerate(defs):
        orig = ast_of(pim["p%d" % i])
        if orig is None:
            ck.failures.append({"what": "generated valid definition rejected", "text": t[:500], "result": pim["p%d" % i][:100]})
            continue
        ws = widths if i < (6 if quick else 40) else rng.sample(widths, 6 if quick else 20)
        for w in ws:
            for mode in ("plain", "colored"):
                cid = "f%d" % n
                n += 1
                lines.append("%s format %s %d %s" % (cid, mode, w, hx(t)))
                meta[cid] = (i, w, mode)
        cid = "f%d" % n
        n += 1
        lines.append("%s format display 80 %s" % (cid, hx(t)))
        meta[cid] = (i, 80, "display")
    impl = run_lines(harness_bin("h_parser"), lines, shards=14, timeout=900)
    model = run_lines(DRIVER, [l for l in lines if " colored " not in l], shards=14, timeout=900) if model_ok else {}
    # second round: re-parse and re-format what the implementation produced
    l2, m2 = [], {}
    plain_out = {}
    for cid, (i, w, mode) in meta.items():
        a = impl[cid]
        if not a.startswith("ok "):
            ck.failures.append({"what": "formatting failed", "text": defs[i][:400], "width": w, "result": a[:100]})
            continue
        out = unhx(a.split(" ")[1]).decode("utf-8")
        if mode == "colored":
            continue
        plain_out[(i, w, mode)] = out
        l2.append("%s_r parse %s" % (cid, hx(out)))
        l2.append("%s_f format plain %d %s" % (cid, w, hx(out)))
        m2[cid] = out
    im2 = run_lines(harness_bin("h_parser"), l2, shards=14, timeout=900)
    mo2 = run_lines(DRIVER, [l for l in l2 if "_r parse" in l], shards=14, timeout=900) if model_ok else {}
    nd = 0
    for cid, (i, w, mode) in meta.items():
        ck.case("%d|%d|%s" % (i, w, mode), sample={"definition": defs[i][:160], "width": w, "mode": mode} if rng.random() < 0.001 and len(ck.samples) < 5 else None)
        ck.count("mode=" + mode)
        a = impl[cid]
        if not a.startswith("ok "):
            continue
        out = unhx(a.split(" ")[1]).decode("utf-8")
        orig = ast_of(pim["p%d" % i])
        desc = {"definition": defs[i][:1500], "width": w}
        if mode == "colored":
            base = plain_out.get((i, w, "plain"))
            if base is not None and SGR.sub("", out) != base:
                ck.failures.append(dict(desc, what="the colored rendering differs from the plain one by more than terminal escape sequences",
                                        colored=out[:600], plain=base[:600]))
            continue
        re_ast = ast_of(im2[cid + "_r"])
        if re_ast != orig:
            ck.failures.append(dict(desc, what="the formatted text does not parse back to the same definition (name, docs, member order, names, types)",
                                    formatted=out[:1200], reparsed=im2[cid + "_r"][:200]))
            continue
        again = im2[cid + "_f"]
        if not again.startswith("ok ") or unhx(again.split(" ")[1]).decode("utf-8") != out:
            ck.failures.append(dict(desc, what="formatting the formatted text again does not reproduce it byte for byte", first=out[:800],
                                    second=unhx(again.split(" ")[1]).decode("utf-8", "replace")[:800] if again.startswith("ok ") else again[:100]))
        if mode == "display" and plain_out.get((i, 80, "plain")) not in (None, out):
            ck.failures.append(dict(desc, what="Display differs from get_multiline(0, 80)"))
        # model: its parser reads the implementation's output to the same AST; its formatter agrees token-wise
        if cid + "_r" in mo2 and ast_of(mo2[cid + "_r"]) != orig:
            nd += 1
            if nd <= 5:
                ck.tie_broken.append("the model parser reads the formatted text differently: %r -> %s" % (out[:200], mo2[cid + "_r"][:200]))
        if cid in model and model[cid].startswith("ok "):
            mout = unhx(model[cid].split(" ")[1]).decode("utf-8")
            if mout != out:
                ck.count("layout_differs_from_model")
                if "".join(mout.split()) != "".join(out.split()):
                    nd += 1
                    if nd <= 5:
                        ck.tie_broken.append("the model formatter emits different tokens at width %d: impl=%r model=%r" % (w, out[:300], mout[:300]))


CHECKS = {"C10": c10, "C11": c11, "C12": c12}
