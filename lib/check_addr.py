"""C16: all transports and address forms behave identically; activation."""
import json
import random

from common import *
from svcgen import *



def c16(ck):
    rng = random.Random(ck.seed)
    quick = ck.quick
    ref = regenerate(["AddrGen.v", "WireGen.v"])
    for n, msg in ref:
        ck.tie_broken.append("translator refused %s: %s" % (n, msg))
    ck.props("C16.v")
    model_ok, log = build_driver()
    ok, log = build_harness(["h_addr", "h_actsrv", "h_service"])
    if not ok:
        ck.tie_broken.append("harness does not build: " + "\n".join(log.strip().splitlines()[-15:]))
        return
    ck.trusted = ["Coq 8.16.1 kernel", "tr/addr.py (prefix tables of varlink_connect / Listener::new, activation_listener constants, the environment set by varlink_exec; whether listen() forces its listening descriptor to blocking mode and when Listener::accept waits in select)",
                  "harness/src/bin/h_addr.rs, h_actsrv.rs", "modelled not verified: fork/exec, descriptor passing, sockets (decided by running the transports)"]
    ck.rule = ("transport in {unix path, unix path;mode=..., unix:@abstract, tcp:127.0.0.1:port, tcp:[::1]:port, tcp:localhost:port, with_activate(cmd), with_bridge(cmd), activation by a foreign activator passing a blocking or an O_NONBLOCK listening socket} x request sequences of C01; environment matrix for "
               "LISTEN_FDS / LISTEN_PID / LISTEN_FDNAMES (absent, wrong pid, garbage, 0/1/several descriptors, named / unnamed) against a probing server process; address strings from a "
               "scheme/garbage generator against varlink_connect and Listener::new; every constructor under a 15 s watchdog; non-trivial = all; distinct by case")
    # VH_NOISY: the activated test service logs a line on its standard output and one on its standard error
    env = dict(ENV, VH_TMP=os.path.join(BUILD, "tmp"), VH_NOISY="1")
    lines, meta = [], {}
    n = 0
    seqs = [[("getinfo", "-"), ("ok", "-"), ("stream", "more")], [("descr_a", "-"), ("unknown_iface", "-"), ("ok", "oneway"), ("fail", "-")],
            [("nodot", "-"), ("badparam", "-"), ("ok", "-")], [("ok", "-"), ("upgrade", "-")]]
    allk = [k for k in kinds() if k != "upgrade"]
    for _ in range(4 if quick else 30):
        seqs.append([(rng.choice(allk), rng.choice(list(ALL_FLAGS))) for _ in range(rng.randint(1, 8))])
    transports = ["unixpath", "unixmode", "unixstale", "unixmodestale", "abstract", "tcp", "tcp6", "tcphost", "activate", "bridge", "foreignact", "foreignactnb", "foreignactidle"]
    for si, seq in enumerate(seqs):
        reqs = [make(k, f, {"n": i}) for i, (k, f) in enumerate(seq)]
        s = stream_of(reqs)
        if seq[-1][0] == "upgrade":
            s += b"payload after upgrade\0more"
        for t in transports:
            cid = "t%d" % n
            n += 1
            lines.append("%s transport %s %s" % (cid, t, hx(s)))
            meta[cid] = ("transport", t, si, seq)
    # activation environment matrix
    act = [("1", "own", "-", True), ("1", "wrong", "-", False), ("1", "absent", "-", False), ("1", "garbage", "-", False), ("-", "own", "-", False),
           ("0", "own", "-", False), ("x", "own", "-", False), ("3", "own", "a:varlink:b", True), ("3", "own", "varlink", True), ("3", "own", "a:b:c", False),
           ("2", "own", "-", False), ("2", "wrong", "varlink:x", False), ("3", "own", "x:y:varlink", True), ("1", "own", "other", True)]
    for fds, pidmode, names, expect in act:
        cid = "t%d" % n
        n += 1
        lines.append("%s activation %s %s %s %s" % (cid, fds, pidmode, names, hx("unix:@vh-probe-%d" % n)))
        meta[cid] = ("activation", (fds, pidmode, names), expect, None)
    cid = "t%d" % n
    n += 1
    lines.append("%s activation 1 own - %s" % (cid, hx("bogus:address")))
    meta[cid] = ("activation_invalid", None, None, None)
    # address strings
    addrs = ["", "tcp", "tcp:", "unix", "unix:", "unix:@", "foo:bar", "TCP:127.0.0.1:1", "Unix:/x", " unix:/x", "exec:ls", "ssh://h", "unix;mode=1", "tcp;x", "http://x", "unixx:/a",
             "tcpp:1", ":", "unix:/nonexistent-dir-zz/s", "unix:/nonexistent-dir-zz/s;mode=0600", "unix:@", "unix:@nonexistent-abstract-zz", "tcp:127.0.0.1:1", "tcp:nonsense", "unix:@a;b;c"]
    alphabet = "tcpunix:@;/a1 "
    for _ in range(60 if quick else 600):
        addrs.append("".join(rng.choice(alphabet) for _ in range(rng.randint(0, 9))))
    for a in addrs:
        for op in ("connect", "listener"):
            if op == "listener" and (a.startswith("tcp:") or a.startswith("unix:")):
                continue   # would bind real sockets at arbitrary places; the valid forms are exercised by the transports
            cid = "t%d" % n
            n += 1
            lines.append("%s %s %s" % (cid, op, hx(a)))
            meta[cid] = (op, a, None, None)
    impl = run_lines(harness_bin("h_addr"), lines, shards=6, timeout=900, env=env)
    # nothing an activated service prints may reach the activating process's standard output (the harness's standard
    # output is its result channel: anything there that is not a result line came from an activated child)
    strays = [k for k in impl if k not in meta]
    ck.case("activated-child-output")
    if strays:
        ck.failures.append({"what": "output of a socket-activated service appeared on the standard output of the process that activated it "
                                    "(with_activate redirects the child's standard output to standard error and leaves its own alone)",
                            "stray_lines": ["%s %s" % (k, impl[k][:80]) for k in strays[:4]]})
    # reference: the same streams through handle() in memory
    wl = {}
    for si, seq in enumerate(seqs):
        reqs = [make(k, f, {"n": i}) for i, (k, f) in enumerate(seq)]
        s = stream_of(reqs)
        if seq[-1][0] == "upgrade":
            s += b"payload after upgrade\0more"
        wl[si] = "w%d feed %s | %s" % (si, DEFAULT_SVC.tokens(), hx(s))
    whole = run_lines(harness_bin("h_service"), list(wl.values()))
    from check_service import same_out, out_of
    for cid, m in meta.items():
        kind = m[0]
        ck.case(lines[int(cid[1:])].split(" ", 1)[1][:400], sample={"case": lines[int(cid[1:])].split(" ", 1)[1][:120]} if rng.random() < 0.03 and len(ck.samples) < 6 else None)
        ck.count("kind=" + kind + ("/" + m[1] if kind == "transport" else ""))
        a = impl[cid]
        if a.startswith(("TIMEOUT", "PANIC", "NO-OUTPUT")):
            ck.failures.append({"what": "a transport / constructor hung, panicked or killed the process", "case": lines[int(cid[1:])].split(" ", 1)[1][:300], "result": a[:100]})
            continue
        if kind == "transport":
            t, si, seq = m[1], m[2], m[3]
            f = fields(a)
            if "out" not in f:
                ck.failures.append({"what": "transport could not be established", "transport": t, "result": a[:200]})
                continue
            if not same_out(unhx(f["out"]), out_of(whole["w%d" % si])):
                ck.failures.append({"what": "the same request sequence yields a different reply sequence over this transport", "transport": t,
                                    "sequence": ["%s/%s" % kf for kf in seq], "got": unhx(f["out"]).decode("utf-8", "replace")[:500],
                                    "in_memory": out_of(whole["w%d" % si]).decode("utf-8", "replace")[:500]})
            if t.startswith("foreignact"):
                ok2 = False
                again = f.get("again2", "")
                if again and not again.startswith("err:"):
                    try:
                        y = canon_reply_stream(unhx(again))
                        ok2 = len(y) == 1 and "interfaces" in (y[0].get("parameters") or {})
                    except Exception:
                        ok2 = False
                if not ok2 or f.get("alive") != "1":
                    ck.failures.append({"what": "a service activated by a foreign activator (listening socket passed as descriptor 3, %s) did not keep serving: a second "
                                                "client got no GetInfo reply or the service had exited" % ("O_NONBLOCK set" if t.endswith("nb") else "blocking"),
                                        "second_client": again[:200], "service_alive": f.get("alive"), "connect_error": f.get("connect_err")})
            if t == "foreignactidle" and (f.get("exited") != "1" or f.get("sockfile") != "1"):
                ck.failures.append({"what": "an activated service instance that ended by idle timeout removed the activator's socket file (or did not end): the "
                                            "next client of the activator finds no socket", "exited_within_6s": f.get("exited"), "socket_file_still_there": f.get("sockfile")})
            if t == "activate":
                rep = dict(x.split("=", 1) for x in unhx(f.get("report", "-")).decode().split() if "=" in x)
                okk = (rep.get("pid") == f.get("childpid") and rep.get("LISTEN_PID") == rep.get("pid") and rep.get("LISTEN_FDS") == "1"
                       and rep.get("LISTEN_FDNAMES") == "varlink" and rep.get("VARLINK_ADDRESS", "").startswith("unix:") and rep.get("fd3") == "1")
                if not okk:
                    ck.failures.append({"what": "a socket-activated service was not started with descriptor 3 and LISTEN_FDS/LISTEN_FDNAMES/LISTEN_PID (own pid)/VARLINK_ADDRESS",
                                        "report": rep, "childpid": f.get("childpid")})
                again = f.get("again", "")
                ok2 = False
                if again and not again.startswith("err:"):
                    try:
                        y = canon_reply_stream(unhx(again))
                        ok2 = len(y) == 1 and "interfaces" in (y[0].get("parameters") or {})
                    except Exception:
                        ok2 = False
                if not ok2:
                    ck.failures.append({"what": "a second connection to the address reported by an activated connection (Connection::address()) does not reach the service, "
                                                "unlike every other transport", "result": again[:200]})
                after = f.get("afterdrop", "")
                ok3 = False
                if after and not after.startswith("err:"):
                    try:
                        y = canon_reply_stream(unhx(after))
                        ok3 = len(y) == 1 and "interfaces" in (y[0].get("parameters") or {})
                    except Exception:
                        ok3 = False
                if not ok3:
                    ck.failures.append({"what": "a connection to an activated service (opened through Connection::address()) was not served after the connection object "
                                                "that activated the service had been dropped; over every other transport connections are independent of each other",
                                        "result": after[:200]})
        elif kind == "activation":
            expect = m[2]
            got = a.replace("probe=", "")
            if (got == "unix_activated=1") != expect or not got.startswith("unix_activated="):
                ck.failures.append({"what": "server honours socket activation exactly when LISTEN_PID names it and a descriptor is available", "env": m[1],
                                    "expected_activated": expect, "got": got})
        elif kind == "activation_invalid":
            if "InvalidAddress" not in a:
                ck.failures.append({"what": "an activated server accepted an address with an unknown scheme", "got": a})
        else:
            addr = m[1]
            valid = addr.startswith("tcp:") or addr.startswith("unix:")
            if valid and a == "invalid":
                ck.failures.append({"what": "a tcp:/unix: address was rejected as invalid", "op": kind, "address": addr})
            if not valid and a != "invalid":
                ck.failures.append({"what": "an address with another scheme was not rejected with an invalid-address error", "op": kind, "address": addr, "got": a})


CHECKS = {"C16": c16}
