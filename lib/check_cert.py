"""C19: the certification service never lets a deviating step pass."""
import copy
import json
import os
import random
import socket
import subprocess
import threading
import time

from common import *
from svcgen import loads, canon_num

CERT = os.path.join(BUILD, "target-repo", "debug", "varlink-certification")
IFACE = "org.varlink.certification"
STEPS = ["Start"] + ["Test%02d" % i for i in range(1, 12)] + ["End"]


class Conn:
    def __init__(self, path):
        self.s = socket.socket(socket.AF_UNIX)
        self.s.connect(path)
        self.s.settimeout(5)
        self.buf = b""

    def send(self, obj):
        self.s.sendall(json.dumps(obj).encode() + b"\0")

    def recv(self, timeout=5.0):
        """one reply frame, or None on timeout / close"""
        self.s.settimeout(timeout)
        while b"\0" not in self.buf:
            try:
                b = self.s.recv(65536)
            except socket.timeout:
                return None
            except OSError:
                return None
            if not b:
                return None
            self.buf += b
        fr, self.buf = self.buf.split(b"\0", 1)
        return loads(fr.decode("utf-8"))

    def call(self, obj, timeout=5.0):
        self.send(obj)
        if obj.get("oneway") is True:
            return [self.recv(0.15)]   # must be silent
        out = []
        while True:
            y = self.recv(timeout)
            out.append(y)
            if y is None or y.get("continues") is not True:
                return out

    def close(self):
        try:
            self.s.close()
        except Exception:
            pass


def canonical_request(k, cid, prev_replies):
    """the canonical request of step k given the replies of step k-1"""
    name = STEPS[k]
    r = {"method": IFACE + "." + name}
    if k == 0:
        return r
    params = {"client_id": cid}
    if 2 <= k <= 10:
        params.update(prev_replies[-1]["parameters"])
    if k == 10:
        r["more"] = True
    if k == 11:
        params["last_more_replies"] = [y["parameters"]["string"] for y in prev_replies]
        r["oneway"] = True
    r["parameters"] = params
    return r


def run_prefix(conn, upto):
    """run the canonical sequence Start..step upto-1; returns (client id, replies of the last step)"""
    reps = conn.call(canonical_request(0, None, None))
    cid = reps[-1]["parameters"]["client_id"]
    prev = reps
    for k in range(1, upto):
        prev = conn.call(canonical_request(k, cid, prev))
    return cid, prev


def is_success(k, reps):
    if k == 11:
        return reps == [None]
    if not reps or reps[-1] is None:
        return False
    if any(y.get("error") is not None for y in reps):
        return False
    if k == 10:
        return len(reps) == 10
    return len(reps) == 1


def leaf_mutations(v, rng):
    """(description, mutated copy) for every leaf changed, removed or retyped"""
    out = []

    def walk(path, node):
        if isinstance(node, dict):
            for key in list(node.keys()):
                walk(path + [key], node[key])
                if node[key] is not None:
                    # dropping a member whose canonical value is null is not a deviation (null optional members may be omitted)
                    out.append((path + [key, "<removed>"], ("remove", path, key)))
            if path and path[-1] in ("set", "stringset"):
                out.append((path + ["<extra-element>"], ("set", path, dict(node, unexpected={}))))
        elif isinstance(node, list):
            for i, x in enumerate(node):
                walk(path + [i], x)
            out.append((path + ["<append>"], ("set", path, node + ["extra"])))
            if node:
                out.append((path + ["<drop-last>"], ("set", path, node[:-1])))
        else:
            alts = []
            if isinstance(node, bool):
                alts = [not node, 1 if node else 0, "true"]
            elif isinstance(node, int):
                alts = [node + 1, -node - 7, str(node), float(node) + 0.5, None]
            elif isinstance(node, float):
                alts = [node + 1.0, "x", None]
            elif isinstance(node, str):
                alts = [node + "x", "", 7, None]
            elif node is None:
                alts = ["set", 0]
            for a in alts:
                out.append((path + ["<=%r>" % (a,)], ("set", path, a)))

    walk([], v)
    res = []
    for desc, (op, path, arg) in out:
        m = copy.deepcopy(v)
        tgt = m
        if op == "remove":
            for p in path:
                tgt = tgt[p]
            del tgt[arg]
        else:
            if not path:
                m = arg
            else:
                for p in path[:-1]:
                    tgt = tgt[p]
                tgt[path[-1]] = arg
        res.append((desc, m))
    return res


def c19(ck):
    rng = random.Random(ck.seed)
    quick = ck.quick
    ref = regenerate(["GrammarGen.v", "WireGen.v", "CertGen.v"])
    for n, msg in ref:
        ck.tie_broken.append("translator refused %s: %s" % (n, msg))
    ck.props("C19.v")
    model_ok, log = build_driver()
    with Lock("cargo-repo"):
        rc, log = sh(["cargo", "build", "--offline", "--quiet", "-p", "varlink-certification"], cwd=REPO,
                     env=dict(ENV, CARGO_TARGET_DIR=os.path.join(BUILD, "target-repo")), timeout=1500)
    if rc != 0 or not os.path.exists(CERT):
        ck.tie_broken.append("varlink-certification does not build: " + log[-400:])
        return
    ck.trusted = ["Coq 8.16.1 kernel", "lib/check_cert.py (raw-socket driver of the real varlink-certification server)",
                  "modelled not verified: the step implementations' canonical values are taken from the server's own replies (each reply is the next step's argument)"]
    ck.rule = ("every step Start..End x every single-leaf mutation of its canonical parameters (changed, removed, retyped, collections grown/shrunk) x every call-mode flag combination x "
               "every wrong position in the sequence x unknown client ids; 1..16 concurrent canonical clients; the model's parameter comparison on every mutant; non-trivial = all; distinct by (step, mutation)")
    os.makedirs(os.path.join(BUILD, "tmp"), exist_ok=True)
    path = os.path.join(BUILD, "tmp", "cert-%d.sock" % os.getpid())
    srv = subprocess.Popen([CERT, "--varlink=unix:" + path, "--timeout=600"], stderr=subprocess.DEVNULL, stdout=subprocess.DEVNULL)
    try:
        t0 = time.time()
        while not os.path.exists(path) and time.time() - t0 < 5:
            time.sleep(0.01)
        idl = open(os.path.join(REPO, "varlink-certification", "src", "org.varlink.certification.varlink")).read()
        # 0. a freshly started service (no client has called Start yet): a step with an unknown client id is answered with an
        #    error reply, and the service goes on serving
        c0 = Conn(path)
        ck.case("fresh-server|Test01-unknown-id")
        try:
            reps0 = c0.call({"method": "org.varlink.certification.Test01", "parameters": {"client_id": "0123456789abcdef"}})
        except Exception as e:
            reps0 = [None]
        if not (reps0 and isinstance(reps0[-1], dict) and reps0[-1].get("error") is not None):
            ck.failures.append({"what": "the very first request to a fresh certification service - Test01 with an unknown client id - was not answered with an error reply",
                                "replies": reps0})
        c0.close()
        # 1. the canonical sequence succeeds
        c = Conn(path)
        cid, prev = run_prefix(c, 1)
        canon = {0: canonical_request(0, None, None)}
        allok = True
        for k in range(1, 13):
            rq = canonical_request(k, cid, prev)
            canon[k] = rq
            reps = c.call(rq)
            ck.case("canonical|%d" % k, sample={"step": STEPS[k], "request": {kk: vv for kk, vv in rq.items() if kk != "parameters"}} if k in (10, 11) else None)
            if not is_success(k, reps):
                allok = False
                ck.failures.append({"what": "the canonical certification sequence does not succeed", "step": STEPS[k], "request": rq, "replies": reps})
                break
            prev = reps
        c.close()
        if not allok:
            return
        # 2. deviations
        cases = []
        for k in range(0, 13):
            base = canon[k]
            params = base.get("parameters")
            # flag combinations
            for more in (None, True, False):
                for oneway in (None, True, False):
                    for upgrade in (None, True):
                        r = {kk: vv for kk, vv in base.items() if kk not in ("more", "oneway", "upgrade")}
                        if more is not None:
                            r["more"] = more
                        if oneway is not None:
                            r["oneway"] = oneway
                        if upgrade is not None:
                            r["upgrade"] = upgrade
                        canonical_mode = {10: (True, False), 11: (False, True)}.get(k, (False, False))
                        if ((more is True), (oneway is True)) == canonical_mode and upgrade is not True:
                            continue
                        cases.append((k, "flags", {"more": more, "oneway": oneway, "upgrade": upgrade}, r, None))
            # parameter mutations
            if params is not None:
                muts = leaf_mutations({kk: vv for kk, vv in params.items() if kk != "client_id"}, rng)
                if quick and len(muts) > 40:
                    muts = rng.sample(muts, 40)
                for desc, m in muts:
                    if not isinstance(m, dict):
                        continue
                    r = dict(base)
                    r["parameters"] = dict(m, client_id="<CID>")
                    cases.append((k, "param", desc, r, m))
                for badcid in ("deadbeef", "", None):
                    r = dict(base)
                    p = dict(params)
                    if badcid is None:
                        del p["client_id"]
                    else:
                        p["client_id"] = badcid
                    r["parameters"] = p
                    cases.append((k, "clientid", badcid, r, None))
            if k == 0:
                cases.append((0, "param", "start with parameters", dict(base, parameters={"x": 1}), None))
        # wrong positions: call step j when step k is expected
        for k in range(1, 13):
            for j in range(1, 13):
                if j != k and (not quick or abs(j - k) <= 2 or rng.random() < 0.15):
                    cases.append((k, "position", STEPS[j], None, j))
        conn = Conn(path)
        model_lines, model_meta = [], {}
        for n, (k, kind, desc, rq, aux) in enumerate(cases):
            ck.case("%d|%s|%s" % (k, kind, json.dumps(desc, default=str)),
                    sample={"step": STEPS[k], "deviation": kind, "detail": desc} if rng.random() < 0.01 and len(ck.samples) < 6 else None)
            ck.count("deviation=" + kind)
            try:
                conn.close()
                conn = Conn(path)
                if k == 0:
                    reps = conn.call(rq)
                    success = bool(reps) and reps[-1] is not None and reps[-1].get("error") is None and "client_id" in (reps[-1].get("parameters") or {})
                    target_k = 0
                else:
                    cid, prev = run_prefix(conn, k)
                    if kind == "position":
                        j = aux
                        # the canonical request of step j sent when step k is expected
                        rq2 = copy.deepcopy(canon[j])
                        rq2["parameters"]["client_id"] = cid
                        reps = conn.call(rq2)
                        success = is_success(j, reps)
                        target_k = j
                        rq = rq2
                    else:
                        rq = json.loads(json.dumps(rq).replace("<CID>", cid))
                        if kind != "clientid" and "parameters" in rq and "client_id" not in rq["parameters"] and kind != "param":
                            rq["parameters"]["client_id"] = cid
                        if kind == "flags" and "parameters" in rq:
                            rq["parameters"]["client_id"] = cid
                        reps = conn.call(rq)
                        success = is_success(k, reps)
                        target_k = k
            except Exception as e:
                conn.close()
                conn = Conn(path)
                ck.failures.append({"what": "certification server stopped answering", "step": STEPS[k], "deviation": kind, "detail": str(desc), "error": repr(e)})
                continue
            if reps and reps[-1] is None and not (rq.get("oneway") is True):
                # connection closed by the server (e.g. InvalidParameter + close): reconnect
                conn.close()
                conn = Conn(path)
            if kind == "param" and k >= 1:
                model_lines.append("m%d cert_matches %s %s %s %s" % (n, hx(idl), STEPS[k], hx(json.dumps(dict(canon[k]["parameters"], client_id=cid))), hx(json.dumps(rq["parameters"]))))
                model_meta["m%d" % n] = (k, desc, rq, success)
            if not success and rq.get("oneway") is not True:
                got_error = any(isinstance(y, dict) and y.get("error") is not None for y in (reps or []))
                if not got_error:
                    ck.failures.append({"what": "a deviating request (not oneway) was not answered with an error reply", "step": STEPS[target_k], "deviation": kind,
                                        "detail": desc if not isinstance(desc, list) else [str(x) for x in desc], "request": rq, "replies": reps})
            if success and rq.get("oneway") is not True:
                # Test09: a set element mapped to something other than {} is accepted (known finding)
                if k == 9 and kind == "param" and "set" in str(desc[0:1]) and isinstance(rq["parameters"].get("set"), dict) and \
                        set(rq["parameters"]["set"].keys()) == {"one", "two", "three"}:
                    ck.known_class("SetElementValueIgnored")
                    continue
                ck.failures.append({"what": "a deviating request was answered with the step's success reply", "step": STEPS[target_k], "deviation": kind,
                                    "detail": desc if not isinstance(desc, list) else [str(x) for x in desc], "request": rq, "replies": reps})
        conn.close()
        # the model's comparison on every parameter mutant: a mutant the implementation accepts must match in the model and vice versa
        if model_ok and model_lines:
            mr = run_lines(DRIVER, model_lines, shards=8, timeout=600)
            nd = 0
            for mid, (k, desc, rq, success) in model_meta.items():
                v = mr.get(mid, "")
                if rq.get("oneway") is True:
                    continue
                if (v == "match") != success:
                    if k == 9 and success and v == "nomatch":
                        continue     # the known finding: the set codec ignores element values, the model compares them
                    nd += 1
                    if nd <= 5:
                        ck.tie_broken.append("model/implementation disagree on a parameter mutant of %s %s: model=%s implementation %s" % (
                            STEPS[k], [str(x) for x in desc], v, "accepted" if success else "rejected"))
        # 2b. histories: one client, a step called out of order in the middle of the sequence, then more calls. The
        # whole history goes through the extracted state machine (Cert.cert_call) and an independent oracle:
        # a success reply for step s is legitimate only if this client's previous call that was not answered with
        # ClientIdError was step s-1 (Start = 0): a rejected out-of-order call must not move the client forward.
        def classify(kk, rq, reps):
            if rq.get("oneway") is True:
                return "?"
            if is_success(kk, reps):
                return "S"
            err = (reps[-1] or {}).get("error") if reps else None
            return {"org.varlink.certification.ClientIdError": "I", "org.varlink.certification.CertificationError": "C",
                    "org.varlink.service.InvalidParameter": "P"}.get(err, "E")
        hist = []
        for k in range(1, 13):
            for j in range(1, 13):
                if j == k:
                    continue
                if quick and not (abs(j - k) <= 1 or j == 12 or (k * 13 + j) % 5 == 0):
                    continue
                after = [min(j + 1, 12), k] + ([k + 1] if k < 12 else [])
                hist.append((k, [j] + after))
        hlines, hmeta = [], {}
        for hn, (k, tail_steps) in enumerate(hist):
            conn.close()
            conn = Conn(path)
            try:
                reps = conn.call(canonical_request(0, None, None))
                cid = reps[-1]["parameters"]["client_id"]
                calls = []            # (step, request, canonical params, outcome)
                for stp in list(range(1, k)) + tail_steps:
                    rq = copy.deepcopy(canon[stp])
                    rq["parameters"]["client_id"] = cid
                    reps = conn.call(rq)
                    calls.append((stp, rq, classify(stp, rq, reps)))
                    if reps and reps[-1] is None and rq.get("oneway") is not True:
                        break
            except Exception as e:
                ck.failures.append({"what": "certification server stopped answering during a history", "history": [k] + tail_steps, "error": repr(e)})
                conn.close()
                conn = Conn(path)
                continue
            ck.case("history|%d|%s" % (k, tail_steps))
            ck.count("deviation=history")
            # positions this client may have reached (a oneway call gives no reply, so both outcomes stay possible);
            # the canonical order is Start(0), Test01..Test11, End(12), and End may be repeated
            nxt = lambda p_: p_ + 1 if p_ < 12 else 12
            possible = {0}
            for stp, rq, oc in calls:
                inorder = any(stp == nxt(p_) for p_ in possible)
                if oc == "S" and not inorder:
                    ck.failures.append({"what": "a step called out of order got that step's success reply (an earlier rejected call moved the client forward)",
                                        "history": [(STEPS[a], c) for a, _, c in calls], "step": STEPS[stp]})
                    break
                if oc in ("S", "C"):
                    possible = {stp}
                elif oc == "?" and inorder:
                    possible = possible | {stp}
            hid = "h%d" % hn
            hmeta[hid] = calls
            hlines.append("%s cert_run %s %s | %s" % (hid, hx(idl), hx(cid), " ".join(
                "%d %s %s %s" % (stp, STEPS[stp], hx(json.dumps(rq["parameters"])), hx(json.dumps(rq))) for stp, rq, _ in calls)))
        if model_ok and hlines:
            hr = run_lines(DRIVER, hlines, shards=8, timeout=600)
            nd = 0
            for hid, calls in hmeta.items():
                got = "".join(c for _, _, c in calls)
                want = hr.get(hid, "")
                if len(want) != len(got) or any(g != "?" and g != w for g, w in zip(got, want)):
                    nd += 1
                    if nd <= 5:
                        ck.tie_broken.append("certification state machine: model and implementation disagree on the history %s: implementation %s model %s" % (
                            [STEPS[a] for a, _, _ in calls], got, want))
        # 3. concurrent canonical clients
        for nclients in ([1, 4, 16] if quick else [1, 2, 3, 4, 8, 16, 16, 16]):
            results = [None] * nclients

            def client(i):
                try:
                    c = Conn(path)
                    cid, prev = run_prefix(c, 1)
                    for k in range(1, 13):
                        if rng.random() < 0.3:
                            time.sleep(0.001)
                        reps = c.call(canonical_request(k, cid, prev))
                        if not is_success(k, reps):
                            results[i] = (STEPS[k], reps)
                            c.close()
                            return
                        prev = reps
                    results[i] = "ok" if prev[-1]["parameters"].get("all_ok") is True else ("End", prev)
                    c.close()
                except Exception as e:
                    results[i] = ("exception", repr(e))
            ths = [threading.Thread(target=client, args=(i,)) for i in range(nclients)]
            for t in ths:
                t.start()
            for t in ths:
                t.join()
            ck.case("concurrent|%d|%d" % (nclients, rng.random()))
            ck.count("concurrent_clients", nclients)
            bad = [r for r in results if r != "ok"]
            if bad:
                ck.failures.append({"what": "the canonical sequence failed for a client running concurrently with others", "clients": nclients, "first_failure": bad[0]})
    finally:
        srv.kill()
        srv.wait()
        try:
            os.unlink(path)
        except OSError:
            pass


CHECKS = {"C19": c19}
