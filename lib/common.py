"""Shared machinery of the /verif runner: paths, locked builds (Coq, extraction,
OCaml driver, Rust harness), line-protocol execution, evidence writing, verdicts."""
import fcntl
import hashlib
import json
import os
import re
import subprocess
import sys
import time

VERIF = os.path.dirname(os.path.dirname(os.path.abspath(__file__)))
REPO = "/repo"
BUILD = os.path.join(VERIF, ".build")
COQ = os.path.join(VERIF, "coq")
GEN = os.path.join(COQ, "gen")
TARGET = os.path.join(BUILD, "target")
HOOK_CFG = "varlink_rust_verif"
HOOK_BINS = {"h_pool"}  # harness bins that need the cfg hooks in /repo

os.makedirs(BUILD, exist_ok=True)

ENV = dict(os.environ)
ENV["CARGO_NET_OFFLINE"] = "true"
ENV["CARGO_TERM_COLOR"] = "never"


class Lock:
    def __init__(self, name):
        self.path = os.path.join(BUILD, name + ".lock")

    def __enter__(self):
        self.f = open(self.path, "w")
        fcntl.flock(self.f, fcntl.LOCK_EX)
        return self

    def __exit__(self, *a):
        fcntl.flock(self.f, fcntl.LOCK_UN)
        self.f.close()


def sh(cmd, cwd=None, timeout=1200, env=None, input=None):
    """run a command; returns (rc, stdout+stderr)"""
    try:
        p = subprocess.run(cmd, cwd=cwd, env=env or ENV, input=input, stdout=subprocess.PIPE,
                           stderr=subprocess.STDOUT, timeout=timeout, shell=isinstance(cmd, str))
        return p.returncode, p.stdout.decode("utf-8", "replace")
    except subprocess.TimeoutExpired as e:
        return 124, (e.stdout or b"").decode("utf-8", "replace") + "\nTIMEOUT"


def write_if_changed(path, content):
    os.makedirs(os.path.dirname(path), exist_ok=True)
    try:
        if open(path, encoding="utf-8").read() == content:
            return False
    except FileNotFoundError:
        pass
    tmp = path + ".tmp%d" % os.getpid()
    with open(tmp, "w", encoding="utf-8") as f:
        f.write(content)
    os.replace(tmp, path)
    return True


# --------------------------------------------------------------------------
# translators: /repo -> coq/gen/*.v

TRANSLATORS = {
    # gen file : (script, [source paths relative to /repo])
    "WireGen.v": ("tr/wire.py", ["varlink/src/lib.rs"]),
    "SetGen.v": ("tr/set.py", ["varlink/src/lib.rs"]),
    "PoolGen.v": ("tr/pool.py", ["varlink/src/server.rs"]),
    "GrammarGen.v": ("tr/grammar.py", ["varlink_parser/src/varlink_grammar.rs", "varlink_parser/src/lib.rs"]),
    "AddrGen.v": ("tr/addr.py", ["varlink/src/client.rs", "varlink/src/server.rs"]),
    "CertGen.v": ("tr/cert.py", ["varlink-certification/src/main.rs"]),
    "ProxyGen.v": ("tr/proxy.py", ["varlink-cli/src/proxy.rs"]),
    "WorkerGen.v": ("tr/worker.py", ["varlink/src/server.rs"]),
    "CliGen.v": ("tr/cli.py", ["varlink-cli/src/main.rs"]),
    "GenFrontGen.v": ("tr/genfront.py", ["varlink_generator/src/lib.rs"]),
    "ShapeGen.v": ("tr/shapes.py", [""]),
}


FALLBACK = os.path.join(COQ, "gen_fallback")   # committed: the translators' output for the pinned tree
REFUSED = {}                                    # gen file -> message, from the latest run of its translator
PARTIAL = {}                                    # gen file -> [(property ids, message)]: shapes that matter to those properties only


def regenerate(names):
    """run the translators for the given gen files; returns list of (name, message) refusals.
    A refused file is replaced by its committed fallback so that models which do NOT depend on it still build; every
    check that does depend on it reports the refusal as a broken tie (callers of regenerate, and Check.props through
    the props file's dependencies), so the fallback never stands in for the source where it matters."""
    refusals = []
    for n in names:
        script, srcs = TRANSLATORS[n]
        rc, out = sh([sys.executable, os.path.join(VERIF, script)] + [os.path.join(REPO, s) for s in srcs])
        if rc != 0:
            refusals.append((n, out.strip()))
            REFUSED[n] = out.strip()
            fb = os.path.join(FALLBACK, n)
            if os.path.exists(fb):
                write_if_changed(os.path.join(GEN, n), open(fb, encoding="utf-8").read())
            continue
        REFUSED.pop(n, None)
        PARTIAL[n] = [(m.group(1).split(","), m.group(2).strip())
                      for m in re.finditer(r"\(\* PARTIAL-REFUSAL props=([\w,]+) : (.*?) \*\)", out)]
        write_if_changed(os.path.join(GEN, n), out)
    return refusals


def regenerate_all():
    """every generated file is brought up to date with /repo before anything is built: a file left over from an
    earlier run against a different tree must never be used"""
    with Lock("gen"):
        return regenerate(list(TRANSLATORS))


def gen_deps(prop_file):
    """the regenerated files a props file depends on (transitively), from coqdep"""
    rc, out = sh(["coqdep", "-Q", "theories", "VL", "-Q", "props", "VLP", "-Q", "gen", "VLG"] +
                 [os.path.join("props", prop_file)] +
                 [os.path.join("theories", f) for f in sorted(os.listdir(os.path.join(COQ, "theories"))) if f.endswith(".v")] +
                 [os.path.join("gen", f) for f in sorted(os.listdir(GEN)) if f.endswith(".v")], cwd=COQ)
    deps = {}
    for line in out.splitlines():
        if ":" not in line:
            continue
        lhs, rhs = line.split(":", 1)
        tgt = [t for t in lhs.split() if t.endswith(".vo")]
        if not tgt:
            continue
        deps[tgt[0]] = [d for d in rhs.split() if d.endswith(".vo")]
    seen, todo = set(), [os.path.join("props", prop_file) + "o"]
    while todo:
        t = todo.pop()
        if t in seen:
            continue
        seen.add(t)
        todo += deps.get(t, [])
    return sorted(os.path.basename(t)[:-1] for t in seen if t.startswith("gen/"))


PINNED = os.path.join(VERIF, "pinned_sources.json")


def source_digest():
    h = {}
    for root, dirs, files in os.walk(REPO):
        dirs[:] = [d for d in dirs if d not in ("target", ".git")]
        for fn in files:
            if fn.endswith((".rs", ".rustpeg", ".varlink", ".toml")):
                p = os.path.join(root, fn)
                h[os.path.relpath(p, REPO)] = hashlib.sha256(open(p, "rb").read()).hexdigest()
    return h


def sources_changed():
    try:
        pinned = json.load(open(PINNED))
    except Exception:
        return False
    return source_digest() != pinned


# --------------------------------------------------------------------------
# Coq

ALLOWED_AXIOMS = set()  # none needed so far: every property theorem is closed under the global context

FORBIDDEN = re.compile(r"\b(Admitted|admit|Axiom|Parameter|Conjecture|Admit Obligations|Unset Guard Checking|"
                       r"bypass_check|Unset Universe Checking|Unset Positivity Checking)\b|-type-in-type|-impredicative-set")


def grep_gate():
    """no Admitted / axioms / disabled checks anywhere in the development"""
    bad = []
    for root, _, files in os.walk(COQ):
        for fn in files:
            if fn.endswith(".v"):
                p = os.path.join(root, fn)
                txt = open(p, encoding="utf-8").read()
                txt = re.sub(r"\(\*.*?\*\)", "", txt, flags=re.S)
                for m in FORBIDDEN.finditer(txt):
                    bad.append("%s: %s" % (os.path.relpath(p, VERIF), m.group(0)))
    proj = open(os.path.join(COQ, "_CoqProject")).read()
    for m in FORBIDDEN.finditer(proj):
        bad.append("_CoqProject: " + m.group(0))
    return bad


def coq_make(targets, jobs=16, timeout=1500):
    """(re)build the given .vo targets (and what they depend on). returns (ok, log)"""
    with Lock("coq"):
        if (not os.path.exists(os.path.join(COQ, "Makefile"))
                or os.path.getmtime(os.path.join(COQ, "Makefile")) < os.path.getmtime(os.path.join(COQ, "_CoqProject"))):
            rc, out = sh("coq_makefile -f _CoqProject -o Makefile", cwd=COQ)
            if rc != 0:
                return False, out
        rc, out = sh(["make", "-j%d" % jobs] + targets, cwd=COQ, timeout=timeout)
        return rc == 0, out


def coq_props(prop_file):
    """compile one props file with coqc, capturing Print Assumptions output.
    returns dict: ok, log, theorems: {name: [axioms]}"""
    with Lock("coq"):
        rel = os.path.join("props", prop_file)
        rc, out = sh(["make", rel + "o"], cwd=COQ, timeout=900)  # dependencies
        # always re-run coqc on the props file itself to capture its output
        rc2, out2 = sh(["coqc", "-q", "-Q", "theories", "VL", "-Q", "props", "VLP", "-Q", "gen", "VLG", rel],
                       cwd=COQ, timeout=900)
    ok = rc == 0 and rc2 == 0
    theorems = {}
    # Print Assumptions output: either "Closed under the global context" or "Axioms:\n name : type ..."
    blocks = re.split(r"(?m)^(?=Closed under the global context|Axioms:)", out2)
    names = re.findall(r"(?m)^Print Assumptions (\w+)\.", open(os.path.join(COQ, rel), encoding="utf-8").read())
    res = [b for b in blocks if b.startswith("Closed under") or b.startswith("Axioms:")]
    for i, n in enumerate(names):
        if i < len(res):
            b = res[i]
            if b.startswith("Closed under"):
                theorems[n] = []
            else:
                theorems[n] = re.findall(r"(?m)^([A-Za-z_][\w.']*)\s*:", b[len("Axioms:"):])
        else:
            theorems[n] = ["<no Print Assumptions output>"]
    return {"ok": ok, "log": out + "\n" + out2, "theorems": theorems}


def build_driver():
    """extract the models and (re)build the OCaml driver if any input changed"""
    ml = os.path.join(BUILD, "ml")
    os.makedirs(ml, exist_ok=True)
    regenerate_all()
    with Lock("driver"):
        ext = open(os.path.join(COQ, "extract", "Extract.v"), encoding="utf-8").read()
        targets = []
        for m in re.finditer(r"From (VL|VLG) Require Import ([^.]*)\.", ext):
            for mod in m.group(2).split():
                targets.append(("theories/" if m.group(1) == "VL" else "gen/") + mod + ".vo")
        ok, log = coq_make(targets + EXTRA_EXTRACT_DEPS)
        if not ok:
            return False, log
        h = hashlib.sha256()
        srcs = [os.path.join(COQ, "extract", "Extract.v"), os.path.join(VERIF, "ml", "driver.ml")]
        for root, _, files in os.walk(os.path.join(COQ, "theories")):
            srcs += [os.path.join(root, f) for f in sorted(files) if f.endswith(".v")]
        for root, _, files in os.walk(GEN):
            srcs += [os.path.join(root, f) for f in sorted(files) if f.endswith(".v")]
        for s in sorted(srcs):
            h.update(open(s, "rb").read())
        stamp = os.path.join(ml, "STAMP")
        digest = h.hexdigest()
        if os.path.exists(os.path.join(ml, "driver")) and os.path.exists(stamp) and open(stamp).read() == digest:
            return True, "driver up to date"
        for f in os.listdir(ml):
            if f.endswith((".ml", ".mli", ".cmi", ".cmx", ".o", ".vo", ".glob", ".v")):
                os.unlink(os.path.join(ml, f))
        sh(["cp", os.path.join(COQ, "extract", "Extract.v"), ml])
        rc, out = sh(["coqc", "-q", "-Q", os.path.join(COQ, "theories"), "VL", "-Q", GEN, "VLG", "Extract.v"], cwd=ml, timeout=600)
        if rc != 0:
            return False, out
        sh(["cp", os.path.join(VERIF, "ml", "driver.ml"), ml])
        rc, out2 = sh("ocamlfind ocamlopt -O2 -w -a -o driver $(ocamldep -sort *.ml *.mli | tr ' ' '\\n' | grep -v '^$' | tr '\\n' ' ')",
                      cwd=ml, timeout=600)
        if rc != 0:
            return False, out + out2
        open(stamp, "w").write(digest)
        return True, out + out2


EXTRA_EXTRACT_DEPS = []

DRIVER = os.path.join(BUILD, "ml", "driver")


def build_harness(bins, hooks=False, profile=None):
    """cargo build the harness bins against /repo's working tree. returns (ok, log)
    profile "deep": unoptimised (opt-level 0), the default of cargo build / cargo test"""
    with Lock("cargo"):
        hd = os.path.join(VERIF, "harness")
        lock = os.path.join(hd, "Cargo.lock")
        if not os.path.exists(lock):
            sh(["cp", os.path.join(REPO, "Cargo.lock"), lock])
        env = dict(ENV)
        env["CARGO_TARGET_DIR"] = TARGET + ("-hooks" if hooks else "")
        if hooks:
            env["RUSTFLAGS"] = "--cfg " + HOOK_CFG
        cmd = ["cargo", "build", "--offline", "--quiet"] + (["--profile", profile] if profile else [])
        for b in bins:
            cmd += ["--bin", b]
        rc, out = sh(cmd, cwd=hd, env=env, timeout=1500)
        if rc != 0 and "Cargo.lock" in out:
            sh(["cp", os.path.join(REPO, "Cargo.lock"), lock])
            rc, out = sh(cmd, cwd=hd, env=env, timeout=1500)
        return rc == 0, out


def harness_bin(name, hooks=False, profile=None):
    return os.path.join(TARGET + ("-hooks" if hooks else ""), profile or "debug", name)


def run_lines(binary, lines, timeout=600, shards=1, env=None):
    """feed protocol lines to a binary; returns {id: result string}. Lines are sharded over
    `shards` parallel processes."""
    if not lines:
        return {}
    shards = max(1, min(shards, len(lines)))
    parts = [lines[i::shards] for i in range(shards)]
    procs = []
    for p in parts:
        pr = subprocess.Popen([binary] if isinstance(binary, str) else binary, stdin=subprocess.PIPE,
                              stdout=subprocess.PIPE, stderr=subprocess.DEVNULL, env=env or ENV)
        procs.append((pr, ("\n".join(p) + "\n").encode()))
    import threading
    outs = [None] * len(procs)

    def work(i):
        pr, data = procs[i]
        try:
            o, _ = pr.communicate(data, timeout=timeout)
            outs[i] = (pr.returncode, o.decode("utf-8", "replace"))
        except subprocess.TimeoutExpired:
            pr.kill()
            o, _ = pr.communicate()
            outs[i] = (124, o.decode("utf-8", "replace"))
    ths = [threading.Thread(target=work, args=(i,)) for i in range(len(procs))]
    for t in ths:
        t.start()
    for t in ths:
        t.join()
    res = {}
    for i, (rc, o) in enumerate(outs):
        for ln in o.splitlines():
            sp = ln.split(" ", 1)
            if len(sp) == 2:
                res[sp[0]] = sp[1]
            elif len(sp) == 1 and sp[0]:
                res[sp[0]] = ""
        ids = [l.split(" ", 1)[0] for l in parts[i]]
        for k in ids:
            if k not in res:
                res[k] = "NO-OUTPUT(rc=%s)" % rc
    return res


def fields(s):
    """parse 'k=v k=v' result strings"""
    d = {}
    for t in s.split(" "):
        if "=" in t:
            k, v = t.split("=", 1)
            d[k] = v
        elif t:
            d.setdefault("_", []).append(t)
    return d


def hx(b):
    if isinstance(b, str):
        b = b.encode("utf-8")
    return b.hex() if b else "-"


def unhx(s):
    return b"" if s in ("-", "") else bytes.fromhex(s)


# --------------------------------------------------------------------------
# known findings

def known_findings():
    """returns list of dicts {property, cls, text} for 'finding:' lines"""
    out = []
    p = os.path.join(VERIF, "KNOWN_FINDINGS.txt")
    if not os.path.exists(p):
        return out
    for ln in open(p, encoding="utf-8"):
        ln = ln.strip()
        m = re.match(r"finding:\s+property=(\w+)\s+class=(\S+)\s+(.*)", ln)
        if m:
            out.append({"property": m.group(1), "cls": m.group(2), "text": m.group(3)})
    return out


# --------------------------------------------------------------------------
# verdict + evidence

class Check:
    """collects what one check run did; writes evidence; prints the verdict"""

    def __init__(self, pid, tier, seed):
        self.pid = pid
        self.tier = tier
        # the quick tier explores more (the thorough tier's input sets) as soon as the sources under check differ from
        # the pinned ones: on an unchanged tree it stays fast, on a changed tree the search for a failing input is deep
        self.deepened = tier == "quick" and sources_changed()
        self.quick = tier == "quick" and not self.deepened
        self.seed = seed
        self.t0 = time.time()
        self.obligations = {}       # theorem -> (ok, axioms)
        self.proof_broken = []      # messages
        self.tie_broken = []        # messages (translator refusals, correspondence disagreements)
        self.failures = []          # property-oracle failures on the implementation: dict(case=..., what=...)
        self.known = []             # known findings observed
        self.evaluations = 0
        self.distinct = set()
        self.samples = []
        self.hist = {}
        self.notes = []
        self.checker_cmd = ""
        self.trusted = []
        self.rule = ""
        self.extra = {}

    def known_class(self, cls):
        """a failing case that falls in a class listed in KNOWN_FINDINGS.txt: reported, not a violation;
        a class not listed there is a violation"""
        for k in known_findings():
            if k["property"] == self.pid and k["cls"] == cls:
                msg = "class=%s %s" % (cls, k["text"])
                if msg not in self.known:
                    self.known.append(msg)
                return True
        self.failures.append({"what": "failure in class %s, which is not a listed known finding" % cls})
        return False

    def count(self, key, n=1):
        self.hist[key] = self.hist.get(key, 0) + n

    def case(self, canon, nontrivial=True, sample=None):
        self.evaluations += 1
        if nontrivial:
            self.distinct.add(hashlib.sha1(canon.encode() if isinstance(canon, str) else canon).digest()[:8])
        if sample is not None and len(self.samples) < 6:
            self.samples.append(sample)

    def props(self, prop_file):
        bad = grep_gate()
        if bad:
            self.proof_broken.append("forbidden construct: " + "; ".join(bad[:5]))
        regenerate_all()
        for g in gen_deps(prop_file):
            if g in REFUSED:
                msg = "translator refused %s: %s" % (g, REFUSED[g])
                if msg not in self.tie_broken:
                    self.tie_broken.append(msg)
            for props, m in PARTIAL.get(g, []):
                if self.pid in props:
                    self.tie_broken.append("translator refused part of %s: %s" % (g, m))
        r = coq_props(prop_file)
        self.checker_cmd = "make props/%so && coqc props/%s (cwd=/verif/coq; Print Assumptions captured)" % (prop_file, prop_file)
        if not r["ok"]:
            tail = "\n".join(r["log"].strip().splitlines()[-25:])
            self.proof_broken.append("props/%s does not compile:\n%s" % (prop_file, tail))
        for n, ax in r["theorems"].items():
            okax = all(a in ALLOWED_AXIOMS for a in ax)
            self.obligations[n] = (r["ok"] and okax, ax)
            if not okax:
                self.proof_broken.append("theorem %s depends on axioms not in the allow-list: %s" % (n, ax))
        if r["ok"] and not r["theorems"]:
            self.proof_broken.append("props/%s states no theorem" % prop_file)
        if r["ok"] and self.tier == "thorough":
            # independent re-check of the compiled property library and everything it depends on
            lib = "VLP." + prop_file[:-2]
            with Lock("coq"):
                rc, out = sh(["coqchk", "-silent", "-o", "-Q", "theories", "VL", "-Q", "props", "VLP", "-Q", "gen", "VLG", lib],
                             cwd=COQ, timeout=1800)
            summary = out[out.find("CONTEXT SUMMARY"):] if "CONTEXT SUMMARY" in out else out[-800:]
            want = ["* Axioms: <none>", "relying on type-in-type: <none>", "relying on unsafe (co)fixpoints: <none>",
                    "positivity is assumed: <none>"]
            good = rc == 0 and all(w in summary for w in want)
            self.extra["coqchk"] = {"library": lib, "ok": good, "summary": " ".join(summary.split())[:600]}
            self.checker_cmd += "; coqchk -silent -o %s" % lib
            if not good:
                self.proof_broken.append("coqchk does not accept %s with an empty axiom list: %s" % (lib, " ".join(summary.split())[:600]))
        return r["ok"]

    def finish(self):
        wall = time.time() - self.t0
        replay_dir = os.path.join(VERIF, "evidence", "replay")
        os.makedirs(replay_dir, exist_ok=True)
        verdict_lines = []
        rc = 0
        for k in self.known:
            verdict_lines.append("KNOWN-FINDING: property=%s %s" % (self.pid, k))
        if self.failures:
            rp = os.path.join(replay_dir, "%s_%s_%d.json" % (self.pid, self.tier, self.seed))
            with open(rp, "w") as f:
                json.dump({"property": self.pid, "seed": self.seed, "tier": self.tier,
                           "failures": self.failures[:20],
                           "proof_broken": self.proof_broken, "tie_broken": self.tie_broken[:20]}, f, indent=1)
            verdict_lines.append("VIOLATION property=%s replay=%s" % (self.pid, rp))
            rc = 1
        elif self.proof_broken or self.tie_broken:
            rp = os.path.join(replay_dir, "%s_%s_%d.json" % (self.pid, self.tier, self.seed))
            with open(rp, "w") as f:
                json.dump({"property": self.pid, "seed": self.seed, "tier": self.tier, "failures": [],
                           "no_longer_checks": self.proof_broken + self.tie_broken[:20],
                           "note": "no failing input found by the search; the named theorem(s) / correspondence no longer check"},
                          f, indent=1)
            verdict_lines.append("VIOLATION property=%s replay=%s no-failing-input-found" % (self.pid, rp))
            rc = 1
        if rc == 0:
            try:
                os.unlink(os.path.join(replay_dir, "%s_%s_%d.json" % (self.pid, self.tier, self.seed)))
            except FileNotFoundError:
                pass
        nob = max(1, len(self.obligations))
        ndis = sum(1 for ok, _ in self.obligations.values() if ok)
        if not self.obligations:
            ndis = 0
        cov = {
            "obligations": nob,
            "discharged": ndis,
            "checker_cmd": self.checker_cmd or "n/a",
            "trusted_base": self.trusted,
            "theorems": {n: {"ok": ok, "axioms": ax} for n, (ok, ax) in self.obligations.items()},
            "evaluations": self.evaluations,
            "distinct_nontrivial": len(self.distinct),
            "rule": self.rule,
            "samples": self.samples if self.samples else ["(no sample recorded)"],
            "input_distribution": self.hist,
            "traces_validated_against_impl": self.evaluations,
            "proof_broken": self.proof_broken,
            "correspondence_broken": self.tie_broken[:10],
            "known_findings_observed": self.known,
        }
        cov.update(self.extra)
        if self.deepened:
            cov["deepened"] = "sources differ from pinned_sources.json: the quick tier used the thorough tier's input sets"
        ev = {
            "property_id": self.pid,
            "tier": self.tier,
            "seed": self.seed,
            "level": "proof",
            "coverage": cov,
            "assumptions": self.notes,
            "wall_s": round(wall, 2),
            "violations": (1 if rc else 0),
        }
        os.makedirs(os.path.join(VERIF, "evidence"), exist_ok=True)
        with open(os.path.join(VERIF, "evidence", self.pid + ".json"), "w") as f:
            json.dump(ev, f, indent=1)
        for ln in verdict_lines:
            print(ln)
        if rc == 0:
            print("PASS property=%s tier=%s seed=%d theorems=%d/%d cases=%d distinct=%d wall=%.1fs" %
                  (self.pid, self.tier, self.seed, ndis, nob, self.evaluations, len(self.distinct), wall))
        sys.stdout.flush()
        return rc
