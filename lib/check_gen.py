"""C09 (the generator is total and its output compiles) and C08 (generated bindings put exactly
the IDL on the wire)."""
import json
import os
import random
import re
import shutil

from common import *
from gen_parse import parse_defs, fn_names

ORDINARY = ["a", "b", "name", "value", "count", "items", "x1", "fooBar", "foo_bar", "Upper", "a_b", "n"]
IDL_KW = ["type", "method", "error", "interface", "bool", "int", "float", "string", "object"]
RUST_KW = ["as", "break", "const", "fn", "for", "if", "impl", "in", "let", "loop", "match", "mod", "move", "mut", "pub", "ref", "return",
           "static", "struct", "trait", "true", "false", "unsafe", "use", "where", "while", "async", "await", "dyn", "box", "yield", "enum", "extern", "else", "continue", "try", "macro"]
RESERVED = ["self", "Self", "super", "crate"]
TYPE_POOL = ["Thing", "Item", "Config", "State", "Kind", "Point", "Foo", "BarBaz", "T1", "My9"]
METHOD_POOL = ["Get", "Set", "List", "DoIt", "Ping", "FooBar", "Update", "Q1", "Monitor", "Reset"]
ERROR_POOL = ["Failed", "NotFound", "Busy", "BadThing", "E1", "InterfaceNotFound", "MethodNotImplemented", "Error", "Parameters", "Io"]


class IdlGen:
    def __init__(self, rng, fields=None, anon_in_errors=False, max_depth=3):
        self.rng = rng
        self.fields = fields or (ORDINARY + IDL_KW + RUST_KW)
        self.anon_in_errors = anon_in_errors
        self.max_depth = max_depth

    def ty(self, depth, avail, anon=True):
        r = self.rng.random()
        if depth <= 0 or r < 0.4:
            return self.rng.choice(["bool", "int", "float", "string", "object"] + avail)
        if r < 0.5:
            return "[]" + self.ty(depth - 1, avail, anon)
        if r < 0.58:
            return "[string]" + self.ty(depth - 1, avail, anon)
        if r < 0.62:
            return "[string]()"
        if r < 0.75:
            k = self.rng.random()
            inner = self.base(depth - 1, avail, anon) if k < 0.6 else ("[]" + self.ty(depth - 1, avail, anon) if k < 0.8 else "[string]" + self.ty(depth - 1, avail, anon))
            return "?" + inner
        return self.base(depth - 1, avail, anon)

    def base(self, depth, avail, anon):
        r = self.rng.random()
        if depth <= 0 or r < 0.45 or not anon:
            return self.rng.choice(["bool", "int", "float", "string", "object"] + avail)
        if r < 0.85:
            return self.struct(depth, avail, anon)
        return "(" + ", ".join(self.rng.sample(self.fields, self.rng.randint(1, 4))) + ")"

    def struct(self, depth, avail, anon=True, lo=0):
        names = self.rng.sample(self.fields, self.rng.randint(lo, 4))
        return "(" + ", ".join("%s: %s" % (n, self.ty(depth - 1, avail, anon)) for n in names) + ")"

    def idl(self, idx):
        rng = self.rng
        tnames = rng.sample(TYPE_POOL, rng.randint(0, 4))
        out = ["interface org.example.g%d" % idx]
        avail = []
        for tn in tnames:
            if rng.random() < 0.8:
                out.append("type %s %s" % (tn, self.struct(self.max_depth, list(avail), True, lo=0)))
            else:
                out.append("type %s (%s)" % (tn, ", ".join(rng.sample(self.fields, rng.randint(1, 4)))))
            avail.append(tn)   # later typedefs may refer to earlier ones only: finitely sized
        for mn in rng.sample(METHOD_POOL, rng.randint(1, 4)):
            out.append("method %s%s -> %s" % (mn, self.struct(self.max_depth, avail), self.struct(self.max_depth, avail)))
        for en in rng.sample(ERROR_POOL, rng.randint(0, 3)):
            out.append("error %s %s" % (en, self.struct(self.max_depth, avail, anon=self.anon_in_errors)))
        return "\n".join(out) + "\n"


def systematic_idls():
    """every wrapper chain of length 0..2 over {[], [string], ?} (no ?? - not in the grammar) around every kind of element type
    (builtin, named struct, named enum, anonymous struct, anonymous enum, empty struct, string set), in every position
    (method input, method output, typedef field, field of a nested anonymous struct): one definition per position"""
    wrappers = ["[]", "[string]", "?"]
    chains = [""] + wrappers + [a + b for a in wrappers for b in wrappers if not (a == "?" and b == "?")]
    inners = ["int", "string", "object", "T", "E", "(p: int, q: ?string)", "(u, v, w)", "()", "[string]()"]
    out = []
    for pos in ("in", "out", "typedef", "nested"):
        fields, k = [], 0
        for c in chains:
            for inner in inners:
                fields.append("f%d: %s%s" % (k, c, inner))
                k += 1
        body = "(" + ", ".join(fields) + ")"
        head = "interface org.example.sys%s\ntype T (a: int, b: []T, c: [string]T)\ntype E (one, two)\n" % pos
        if pos == "in":
            out.append(head + "method M%s -> ()\n" % body)
        elif pos == "out":
            out.append(head + "method M() -> %s\n" % body)
        elif pos == "typedef":
            out.append(head + "type Big %s\nmethod M(b: Big) -> (b: ?Big)\n" % body)
        else:
            out.append(head + "method M(outer: (inner: %s, z: int)) -> (outer: [](inner: %s))\n" % (body, body))
    return out


def strip_skip(defs):
    out = []
    for d in defs:
        if "struct" in d:
            out.append({"name": d["name"], "struct": [{"name": f["name"], "type": f["type"]} for f in d["struct"]]})
        else:
            out.append(d)
    return out


def prep(ck, prop_file, bins):
    ref = regenerate(["GrammarGen.v"])
    for n, msg in ref:
        ck.tie_broken.append("translator refused %s: %s" % (n, msg))
    ck.props(prop_file)
    model_ok, log = build_driver()
    if not model_ok:
        ck.proof_broken.append("the executable model does not build:\n" + "\n".join(log.strip().splitlines()[-15:]))
    ok, log = build_harness(list(bins))
    if not ok:
        ck.tie_broken.append("harness does not build: " + "\n".join(log.strip().splitlines()[-15:]))
    ck.trusted = ["Coq 8.16.1 kernel", "lib/gen_parse.py (reads the emitted token text back into struct/enum definitions)", "tr/genfront.py (how the two build-script helpers open their output file)",
                  "extraction + ml/driver.ml; harness/src/bin/h_gen.rs; rustc/cargo (the judgement 'compiles')",
                  "modelled not verified: the traversal order and naming scheme of varlink_to_rust, serde-derive semantics"]
    return model_ok, ok


GENCRATE = os.path.join(BUILD, "gencrate")


def write_gencrate(mods, macro_mods=(), name="gencrate", bin_main=None):
    """a crate with one module per generated file; returns its directory"""
    d = os.path.join(BUILD, name)
    src = os.path.join(d, "src")
    os.makedirs(src, exist_ok=True)
    write_if_changed(os.path.join(d, "Cargo.toml"), """[package]
name = "%s"
version = "0.1.0"
edition = "2018"

[workspace]

[dependencies]
varlink = { path = "/repo/varlink" }
varlink_derive = { path = "/repo/varlink_derive" }
serde = "1.0"
serde_derive = "1.0"
serde_json = "1.0"

[profile.dev]
opt-level = 0
debug = false
""" % name)
    os.makedirs(os.path.join(d, ".cargo"), exist_ok=True)
    write_if_changed(os.path.join(d, ".cargo", "config.toml"), "[net]\noffline = true\n")
    if not os.path.exists(os.path.join(d, "Cargo.lock")):
        shutil.copy(os.path.join(REPO, "Cargo.lock"), os.path.join(d, "Cargo.lock"))
    lib = ["#![allow(warnings)]"]
    keep = set()
    for mname, text in mods:
        write_if_changed(os.path.join(src, mname + ".rs"), text)
        keep.add(mname + ".rs")
        lib.append("pub mod %s;" % mname)
    for mname, idl in macro_mods:
        lib.append('varlink_derive::varlink!(%s, r#"%s"#);' % (mname, idl))
    for f in os.listdir(src):
        if f.endswith(".rs") and f not in keep and f not in ("lib.rs", "main.rs"):
            os.unlink(os.path.join(src, f))
    write_if_changed(os.path.join(src, "lib.rs"), "\n".join(lib) + "\n")
    if bin_main is not None:
        write_if_changed(os.path.join(src, "main.rs"), bin_main)
    elif os.path.exists(os.path.join(src, "main.rs")):
        os.unlink(os.path.join(src, "main.rs"))
    return d


def cargo(d, args, timeout=1500):
    env = dict(ENV)
    env["CARGO_TARGET_DIR"] = os.path.join(BUILD, "target-gen")
    with Lock("cargo-gen"):
        return sh(["cargo"] + args + ["--offline"], cwd=d, env=env, timeout=timeout)


def failing_modules(log):
    return sorted(set(re.findall(r"--> src/(m\d+|k\d+|o\d+)\.rs", log)))


def c09(ck):
    rng = random.Random(ck.seed)
    quick = ck.quick
    model_ok, ok = prep(ck, "C09.v", ("h_gen",))
    if not ok:
        return
    ck.rule = ("grammar-directed interface definitions (anonymous structs/enums in method input/output, typedef fields, under array/map/optional; 0..4 typedefs referring only to earlier ones, "
               "1..4 methods, 0..3 errors) with field and enum-member names drawn from ordinary identifiers, IDL keywords and Rust keywords; the emitted struct/enum definitions are compared with the model, "
               "all definitions outside the known classes are compiled together with cargo check (library API; CLI binary and proc-macro for a sample); plus mutated invalid texts for the rejection half; "
               "non-trivial = all; distinct by text")
    g = IdlGen(rng)
    texts = []
    for i in range(40 if quick else 300):
        texts.append(("clean", g.idl(i)))
    texts += [("clean", t) for t in systematic_idls()]
    gk = IdlGen(rng, anon_in_errors=True)
    special = [
        ("known", "interface a.b\nmethod M(self: int) -> ()\n"), ("known", "interface a.b\ntype T (a: (Self, x))\nmethod M() -> ()\n"),
        ("known", "interface a.b\nmethod M(a: (super: int)) -> (crate: bool)\n"), ("known", "interface a.b\nerror E (x: (a: int))\nmethod M() -> ()\n"),
        ("known", "interface a.b\nerror E (x: []?(p, q))\nmethod M() -> ()\n"), ("known", "interface a.b\nmethod FooBar() -> ()\nmethod FooBAR() -> ()\n"),
        ("known", "interface a.b\nmethod M(a_b: (x: int), a: (b: (y: int))) -> ()\n"), ("known", "interface a.b\ntype Error (a: int)\nmethod M() -> ()\n"),
        ("known", "interface a.b\ntype Option (a: int)\nmethod M(o: ?int) -> ()\n"), ("known", "interface a.b\nmethod Type() -> ()\n"),
        ("known", "interface a.b\nmethod Match(a: int) -> ()\nmethod Fn() -> ()\n"), ("known", "interface a.b\nmethod M(a: int) -> ()\nerror InvalidParameter (x: int)\n"),
        ("known", "interface a.b\nmethod M() -> ()\nerror MethodNotFound (method: string, x: ?int)\n"), ("known", "interface a.b\nmethod M() -> ()\nerror Struct ()\n"),
        ("known", "interface a.b\nmethod M() -> ()\nerror Self (x: int)\n"),
        # layout: blanks, line ends and comments between a field name and its colon (column-aligned definitions)
        ("clean", "interface a.b\ntype Settings (name   : string,\n  limits : (low: int, high: int),\n  mode\n    : (fast, slow))\nmethod Foo(cfg : (a: int), list\t: [](b : ?(c: bool))) -> (entries\n    : [string](k: string))\n"),
        ("clean", "# doc\r\ninterface org.example.crlf\r\n\r\n# The ping\r\nmethod Ping(ping: string) -> (pong: string)\r\n"),
        ("clean", "interface org.example.mixed\r# cr only\rmethod A() -> ()\u2028method B(x: (a, b)) -> ()\n"),
        ("clean", "interface Com.Example-2.MixedCase\ntype T (a: int)\nmethod Get(t: T) -> (t: T)\nerror Nope ()\n"),
        ("clean", "interface a.b\nmethod M(a # the first\n  : (x : int, y: []( z : string ))) -> (r :(q : (p: int)))\nerror E (why # reason\n : string)\n"),
        ("clean", "interface a.b\nmethod M(a: int) -> ()\nerror InterfaceNotFound (interface: string, hint: ?string)\nerror MethodNotImplemented (method: string)\nerror Result ()\nerror Call (x: int)\nerror Reply ()\nerror Kind ()\n"), ("known", "interface a.b\ntype Self (a: int)\nmethod M() -> ()\n"),
    ]
    texts += special
    for i in range(10 if quick else 60):
        texts.append(("maybe", gk.idl(1000 + i)))
    # rejection half: invalid texts
    from check_parser import mutations
    bad = []
    for kind, t in texts[:(12 if quick else 80)]:
        bad += mutations(rng, t, 2)
    lines, meta = [], {}
    for i, (kind, t) in enumerate(texts):
        lines.append("g%d gen %s" % (i, hx(t)))
        meta["g%d" % i] = (kind, t)
    for i, t in enumerate(bad):
        lines.append("b%d gen %s" % (i, hx(t)))
        meta["b%d" % i] = ("mutant", t)
    impl = run_lines(harness_bin("h_gen"), lines, shards=8, timeout=600)
    model = run_lines(DRIVER, [l.replace(" gen ", " gen_model ", 1) for l in lines], shards=8, timeout=600) if model_ok else {}
    pimpl = run_lines(harness_bin("h_parser") if os.path.exists(harness_bin("h_parser")) else harness_bin("h_gen"),
                      [l.replace(" gen ", " parse ", 1) for l in lines if l.startswith("b")], shards=4) if os.path.exists(harness_bin("h_parser")) else {}
    mods, known_mods = [], []
    nd = 0
    for cid, (kind, t) in meta.items():
        ck.case(t, sample={"kind": kind, "idl": t[:300]} if rng.random() < 0.03 and len(ck.samples) < 5 else None)
        ck.count("kind=" + kind)
        a = impl[cid]
        m = model.get(cid)
        mj = json.loads(unhx(m.split(" ")[1]).decode("utf-8")) if m and m.startswith("ok ") else None
        if a.startswith("err"):
            ck.count("verdict=rejected")
            if m is not None and m != "err":
                nd += 1
                if nd <= 5:
                    ck.tie_broken.append("generator rejects a text the model parser accepts: %r" % t[:200])
            if kind != "mutant":
                ck.failures.append({"what": "generation failed for a definition the grammar allows", "idl": t[:800],
                                    "message": unhx(a.split(" ")[1]).decode("utf-8", "replace")[:200]})
            continue
        if a.startswith("PANIC"):
            ck.count("verdict=panic")
            if mj is not None and not mj["panics"]:
                nd += 1
                if nd <= 5:
                    ck.tie_broken.append("generator panics where the model predicts success: %r" % t[:200])
            if mj is not None and "ReservedIdent" in mj.get("known", []):
                ck.known_class("ReservedIdent")
            else:
                ck.failures.append({"what": "code generation panicked", "idl": t[:1000]})
            continue
        if not a.startswith("ok "):
            ck.failures.append({"what": "generator harness failure", "idl": t[:300], "result": a[:100]})
            continue
        ck.count("verdict=generated")
        code = unhx(a.split(" ")[1]).decode("utf-8")
        # the description the generated proxy serves is the definition text, byte for byte
        gd = re.search(r"""fn get_description \(& self\) -> & 'static str \{ "((?:[^"\\]|\\.)*)" \}""", code)
        if kind != "mutant" and gd:
            lit = gd.group(1)
            dec = re.sub(r"""\\(u\{([0-9a-fA-F]+)\}|.)""", lambda m_: chr(int(m_.group(2), 16)) if m_.group(2) else
                         {"n": "\n", "r": "\r", "t": "\t", "0": "\0"}.get(m_.group(1), m_.group(1)), lit)
            if dec != t:
                k_ = next((j for j in range(min(len(dec), len(t))) if dec[j] != t[j]), min(len(dec), len(t)))
                ck.failures.append({"what": "the description served by the generated proxy (get_description) is not the definition text verbatim",
                                    "idl": t[:400], "first_difference_at": k_, "served_there": dec[k_:k_ + 30], "definition_there": t[k_:k_ + 30]})
        # the name the generated proxy registers under is the interface name of the definition, exactly as written
        gn = re.search(r"fn get_name \(& self\) -> & 'static str \{ \"([^\"]*)\" \}", code)
        dn = re.search(r"(?m)^\s*interface\s+([A-Za-z0-9.-]+)", re.sub(r"(?m)#[^\n\r\u2028\u2029]*", "", t))
        if kind != "mutant" and gn and dn and gn.group(1) != dn.group(1):
            ck.failures.append({"what": "the generated interface proxy registers under a name that differs from the definition's interface name",
                                "idl": t[:400], "get_name": gn.group(1), "interface": dn.group(1)})
        if kind == "mutant" and cid in pimpl and not pimpl[cid].startswith("ok"):
            ck.failures.append({"what": "code was emitted for a text the parser rejects", "text": t[:600]})
        if mj is None:
            if m is not None:
                nd += 1
                if nd <= 5:
                    ck.tie_broken.append("generator accepts a text the model rejects: %r (%s)" % (t[:200], m[:50]))
            continue
        if mj["panics"]:
            nd += 1
            if nd <= 5:
                ck.tie_broken.append("model predicts a panic but the generator succeeded: %r" % t[:200])
        try:
            defs = parse_defs(code)
            meths, reps = fn_names(code)
        except Exception as e:
            ck.tie_broken.append("cannot read the emitted code back (%r) for %r" % (e, t[:200]))
            continue
        if strip_skip(defs) != strip_skip(mj["defs"]) or sorted(meths + reps) != sorted(mj["fns"]):
            nd += 1
            if nd <= 5:
                ck.tie_broken.append("emitted definitions differ from the model for %r: impl=%s model=%s" % (
                    t[:300], json.dumps(strip_skip(defs))[:400], json.dumps(strip_skip(mj["defs"]))[:400]))
        if mj["known"]:
            known_mods.append((cid, t, code, mj["known"]))
        elif kind != "mutant":
            mods.append((cid, t, code))
    # the same definitions through generate_with_options, as a build script with options gets them: file header on/off
    # (tosource), another integer type, a preamble with items of its own
    omods = []
    if mods:
        pick = mods[:(3 if quick else 25)] + mods[-(2 if quick else 10):]
        combos = [("1", "-", "1"), ("0", "i128", "1"), ("1", "i32", "0"), ("1", "i128", "1"), ("0", "-", "1")]
        ol = []
        for j, (cid, t, code) in enumerate(pick):
            for c_i, (ts_, it, pre) in enumerate(combos if not quick else combos[j % 2::2] + combos[:1]):
                ol.append(("o%d" % len(ol), t, {"tosource": ts_ == "1", "int_type": None if it == "-" else it, "preamble": pre == "1"}, "geno %s %s %s %s" % (ts_, it, pre, hx(t))))
        ores = run_lines(harness_bin("h_gen"), ["%s %s" % (nm, ln) for nm, t, o, ln in ol], shards=4, timeout=300)
        for nm, t, o, ln in ol:
            ck.case("geno" + ln)
            ck.count("generate_with_options")
            r = ores.get(nm, "")
            if not r.startswith("ok "):
                ck.failures.append({"what": "generate_with_options failed for a definition generate() accepts", "idl": t[:600], "options": o, "result": r[:200]})
                continue
            omods.append((nm, t, o, unhx(r.split(" ")[1]).decode("utf-8")))
    # compile everything the model calls clean, in one crate
    ck.extra["programs"] = len(mods) + len(omods)
    if mods:
        # the proc-macro front end, also with literals that begin / end with a comment (and so with '#' and '"' characters
        # right at the raw string's delimiters)
        edge = [("mace0", "# leading comment \"quoted\"\ninterface org.example.mace0\nmethod M(a: int) -> (b: string)\n"),
                ("mace1", "interface org.example.mace1\nmethod M() -> ()\n# trailing comment #\n"),
                ("mace2", "#\n##\ninterface org.example.mace2\ntype T (x: int)\nmethod M(t: T) -> ()\n#\n")]
        d = write_gencrate([("m%d" % i, code) for i, (cid, t, code) in enumerate(mods)] + [(nm, code) for nm, t, o, code in omods],
                           macro_mods=[("mac%d" % i, mods[i][1]) for i in range(min(3, len(mods)))] + edge)
        rc, log = cargo(d, ["check", "--lib", "--quiet"])
        if rc != 0:
            bad_mods = failing_modules(log)
            if not bad_mods:
                pm = re.findall(r"error: proc macro panicked[\s\S]{0,500}?help: message: [^\n]*", log)[:2]
                ck.failures.append({"what": "cargo check of the generated modules failed" + (" (the varlink! macro panicked on an accepted definition)" if pm else ""),
                                    "proc_macro": pm, "log": log[-800:]})
            for bm in [b for b in bad_mods if b.startswith("o")][:5]:
                nm, t, o, code = [x for x in omods if x[0] == bm][0]
                errs = re.findall(r"(error[^\n]*)\n\s*--> src/%s\.rs" % bm, log)[:3]
                ck.failures.append({"what": "Rust emitted by generate_with_options does not compile for a definition whose generate() output does",
                                    "idl": t[:1500], "options": o, "rustc": errs})
            for bm in [b for b in bad_mods if b.startswith("m")][:5]:
                i = int(bm[1:])
                errs = re.findall(r"(error[^\n]*)\n\s*--> src/%s\.rs" % bm, log)[:3]
                ck.failures.append({"what": "emitted Rust does not compile for a definition outside the known classes",
                                    "idl": mods[i][1][:1500], "rustc": errs})
    # known classes: report, and confirm on a sample that they really fail (otherwise the class is too wide: note only)
    classes = {}
    for cid, t, code, kn in known_mods:
        for k in kn:
            classes.setdefault(k, []).append((t, code))
    for k, items in classes.items():
        if k != "ReservedIdent":
            ck.known_class(k)
        ck.count("known_class=" + k, len(items))
    if known_mods and not quick:
        d = write_gencrate([("k%d" % i, code) for i, (cid, t, code, kn) in enumerate(known_mods)], name="gencrate_known")
        rc, log = cargo(d, ["check", "--lib", "--quiet"])
        failing = set(failing_modules(log))
        ck.extra["known_class_modules_failing_to_compile"] = len(failing)
        ck.extra["known_class_modules"] = len(known_mods)
    # the build-script front end (cargo_build): the file it leaves in $OUT_DIR is what generate() emits for the definition it was
    # last run on - also when an earlier, longer or shorter, definition was built under the same name before (a rebuild after an edit)
    clean_sorted = sorted([t for (cid, t, code) in mods], key=len)
    if clean_sorted:
        pairs = [(clean_sorted[-1], clean_sorted[0]), (clean_sorted[0], clean_sorted[-1]), (clean_sorted[len(clean_sorted) // 2], clean_sorted[0])]
        for _ in range(3 if quick else 20):
            pairs.append((rng.choice(clean_sorted), rng.choice(clean_sorted)))
        pairs += [(t,) for t in clean_sorted[:2]]
        bl = ["r%d buildrs %s" % (i, " ".join(hx(t) for t in pr)) for i, pr in enumerate(pairs)]
        bres = run_lines(harness_bin("h_gen"), bl, shards=1, timeout=300)
        for i, pr in enumerate(pairs):
            ck.case("buildrs" + "\n--\n".join(pr))
            ck.count("build_script_front_end")
            r = bres["r%d" % i]
            if r != "same":
                f = fields(r) if r.startswith("differs") else {}
                got = unhx(f["got"]).decode("utf-8", "replace") if "got" in f else ""
                want = unhx(f["want"]).decode("utf-8", "replace") if "want" in f else ""
                k = next((j for j in range(min(len(got), len(want))) if got[j] != want[j]), min(len(got), len(want)))
                ck.failures.append({"what": "the file the build-script helper %s() leaves behind is not the code generate() emits for the definition it was run on" % f.get("helper", "cargo_build")
                                            + (" (the same file name was built from another definition before)" if len(pr) > 1 else ""),
                                    "built_before": pr[0][:600] if len(pr) > 1 else None, "idl": pr[-1][:600], "result": r[:60],
                                    "first_difference_at": k, "file_len": len(got), "expected_len": len(want), "file_there": got[k:k + 200]})
    # the CLI front end emits the same text as the library for a sample
    rc, log = sh(["cargo", "build", "--offline", "--quiet", "-p", "varlink_generator", "--bin", "varlink-rust-generator"], cwd=REPO,
                 env=dict(ENV, CARGO_TARGET_DIR=os.path.join(BUILD, "target-repo")), timeout=1500)
    cli = os.path.join(BUILD, "target-repo", "debug", "varlink-rust-generator")
    if rc == 0 and os.path.exists(cli):
        for cid, t, code in mods[:5]:
            p = os.path.join(BUILD, "tmp", "cli_%s.varlink" % cid)
            os.makedirs(os.path.dirname(p), exist_ok=True)
            open(p, "w").write(t)
            rc2, out = sh([cli, p])
            ck.case("cli" + t)
            ck.count("cli_front_end")
            if rc2 != 0 or out.strip() != code.strip():
                ck.failures.append({"what": "the command-line generator does not emit what the library emits", "idl": t[:600], "exit": rc2})
        for t in ["bogus", "interface a.b\nmethod M(\n"]:
            p = os.path.join(BUILD, "tmp", "cli_bad.varlink")
            open(p, "w").write(t)
            rc2, out = sh([cli, p])
            if rc2 == 0:
                ck.failures.append({"what": "the command-line generator accepted an invalid definition", "text": t})
    else:
        ck.tie_broken.append("cannot build varlink-rust-generator: " + log[-400:])


CHECKS = {"C09": c09}


# ---------------------------------------------------------------------------------------------
def c08_corpora(rng, quick):
    from c08gen import Corpus
    S = ("struct", [("a", ("int",)), ("b", ("string",)), ("o", ("option", ("string",))), ("n", ("struct", [("x", ("bool",)), ("y", ("option", ("int",)))])),
                    ("e", ("enum", ["red", "green"])), ("l", ("array", ("int",))), ("m", ("dict", ("string",))), ("s", ("set",)), ("any", ("object",)), ("f", ("float",)),
                    ("type", ("bool",)), ("fn", ("option", ("array", ("string",))))])
    E = ("enum", ["one", "two", "three"])
    N = ("struct", [("s", ("name", "S")), ("list", ("array", ("name", "S"))), ("opt", ("option", ("name", "S"))), ("map", ("dict", ("name", "S"))), ("e", ("name", "E"))])
    echo = [("bool",), ("int",), ("float",), ("string",), ("object",), ("name", "S"), ("name", "E"), ("name", "N"), ("option", ("name", "S")),
            ("array", ("option", ("int",))), ("dict", ("array", ("name", "E"))), ("set",), ("struct", [("a", ("int",)), ("b", ("struct", [("c", ("option", ("enum", ["d", "e"])))]))]),
            ("option", ("array", ("dict", ("option", ("string",))))), ("array", ("array", ("struct", [("k", ("string",)), ("v", ("option", ("object",)))]))),
            ("dict", ("dict", ("int",))), ("option", ("dict", ("name", "E")))]
    multi = [[("a", ("int",)), ("b", ("option", ("string",))), ("c", ("name", "E"))],
             [("mod", ("bool",)), ("match", ("option", ("name", "N"))), ("x_y", ("array", ("float",)))],
             # member names with upper-case letters and digits (legal field names): on the wire exactly as in the IDL
             [("userId", ("int",)), ("displayName", ("option", ("string",))), ("Xy9", ("bool",)), ("tagCount", ("struct", [("innerField", ("int",)), ("B", ("option", ("bool",)))]))]]
    out = [("c8a", Corpus("org.example.c8a", [("S", S), ("E", E), ("N", N)], echo, multi))]
    # systematic: every wrapper chain of length 0..2 over array / map / optional around every kind of element type
    wr = ["array", "dict", "option"]
    chains = [[]] + [[a] for a in wr] + [[a, b] for a in wr for b in wr if not (a == "option" and b == "option")]
    inners = [("int",), ("string",), ("object",), ("name", "S"), ("name", "E"), ("struct", [("k", ("string",)), ("v", ("option", ("int",)))]),
              ("enum", ["p", "q"]), ("set",)]
    sysecho = []
    for ch in chains:
        for inner in inners:
            t = inner
            for w in reversed(ch):
                t = (w, t)
            if t not in echo:
                sysecho.append(t)
    if quick:
        # the quick tier keeps the chains that end in a map or contain an anonymous type (the shapes with special cases in the generator)
        sysecho = [t for t in sysecho if "dict" in json.dumps(t) or "struct" in json.dumps(t) or "enum" in json.dumps(t)]
    out.append(("c8s", Corpus("org.example.c8s", [("S", S), ("E", E)], sysecho, [])))
    # declared errors whose names end like org.varlink.service errors (org.varlink.resolver declares InterfaceNotFound itself; InvalidParameter and
    # MethodNotFound cannot be declared: C09 known class ErrorNameClashes):
    # they are this interface's errors, to arrive as its own variants with all their parameters
    out.append(("c8n", Corpus("org.example.c8n", [("S", S)], [("string",), ("name", "S"), ("option", ("string",)), ("int",), ("array", ("string",))], [],
                              err_names=["InterfaceNotFound", "MethodNotImplemented", "NotFound", "Error", "Parameters"])))
    # an interface name with upper-case letters and a hyphenated element (legal; registration, advertisement and dispatch all
    # go by the name exactly as written)
    out.append(("c8u", Corpus("org.Example-1.Up8", [("S", S)], [("string",), ("name", "S"), ("option", ("int",))], [])))
    if not quick:
        # random corpora
        pool = [("bool",), ("int",), ("float",), ("string",), ("object",), ("set",)]
        for k in range(3):
            def rt(d):
                r = rng.random()
                if d <= 0 or r < 0.35:
                    return rng.choice(pool + [("name", "T0")])
                if r < 0.5:
                    return ("array", rt(d - 1))
                if r < 0.62:
                    return ("dict", rt(d - 1))
                if r < 0.75:
                    inner = rt(d - 1)
                    return inner if inner[0] == "option" else ("option", inner)
                if r < 0.9:
                    return ("struct", [(f, rt(d - 1)) for f in rng.sample(["a", "b", "c", "type", "impl", "x1"], rng.randint(0, 3))])
                return ("enum", rng.sample(["p", "q", "r", "loop"], rng.randint(1, 3)))
            T0 = ("struct", [("q", ("int",)), ("w", ("option", ("string",)))])
            out.append(("c8r%d" % k, Corpus("org.example.c8r%d" % k, [("T0", T0)], [rt(3) for _ in range(8)], [])))
    return out


def c08(ck):
    import c08gen
    rng = random.Random(ck.seed)
    quick = ck.quick
    model_ok, ok = prep(ck, "C08.v", ("h_gen",))
    if not ok:
        return
    ck.rule = ("interface definitions covering every type constructor (nested, keyword-like field names, typedef references) as Echo / Multi / Fail methods; the real generator's module is compiled with a "
               "harness-written server implementation and client driver and exercised over a socketpair with generated values (boundary ints, floats, empty/non-ASCII strings, empty and nested collections, "
               "every optional set and unset) x call modes {call, more, oneway}; raw requests with missing / ill-typed parameters; non-trivial = all; distinct by (method, mode, value)")
    corpora = c08_corpora(rng, quick)
    gl = ["c%d gen %s" % (i, hx(c.text())) for i, (mod, c) in enumerate(corpora)]
    gi = run_lines(harness_bin("h_gen"), gl)
    gm = run_lines(DRIVER, [l.replace(" gen ", " gen_model ", 1) for l in gl]) if model_ok else {}
    mods, defs_by_mod = [], {}
    for i, (mod, c) in enumerate(corpora):
        a = gi["c%d" % i]
        if not a.startswith("ok "):
            ck.failures.append({"what": "generator failed on a valid definition", "idl": c.text()[:800], "result": a[:200]})
            return
        code = unhx(a.split(" ")[1]).decode("utf-8")
        defs = parse_defs(code)
        if ("c%d" % i) in gm and gm["c%d" % i].startswith("ok "):
            mj = json.loads(unhx(gm["c%d" % i].split(" ")[1]).decode("utf-8"))
            if strip_skip(defs) != strip_skip(mj["defs"]):
                ck.tie_broken.append("emitted definitions differ from the model for corpus %s" % mod)
        mods.append((mod, code))
        defs_by_mod[mod] = defs
    main_rs = c08gen.driver_main(corpora, defs_by_mod)
    d = write_gencrate(mods, name="gen8", bin_main=main_rs.replace("mod %s;" % corpora[0][0], "mod %s;" % corpora[0][0]))
    # the module files are used by the binary; keep lib.rs minimal
    write_if_changed(os.path.join(d, "src", "lib.rs"), "")
    rc, log = cargo(d, ["build", "--bin", "gen8", "--quiet"])
    if rc != 0:
        ck.failures.append({"what": "the generated bindings (or the harness driver written against them) do not compile",
                            "log": "\n".join([l for l in log.splitlines() if l.startswith(("error", "  -->"))][:12])})
        return
    binp = os.path.join(BUILD, "target-gen", "debug", "gen8")
    lines, meta = [], {}
    n = 0
    for mod, c in corpora:
        names = [("Echo%d" % i, [("v", t)], "echo") for i, t in enumerate(c.echo)] + [("Multi%d" % i, fs, "echo") for i, fs in enumerate(c.multi)] + \
                [("Fail%d" % i, [("v", t)], "fail") for i, t in enumerate(c.err_types)]
        for mname, fs, kind in names:
            for _ in range(3 if quick else 12):
                args = {f: c08gen.gen_value(rng, t, c.env) for f, t in fs}
                # an unset optional parameter may be sent as absent
                send = {k: v for k, v in args.items() if not (v is None and dict(fs)[k][0] == "option" and rng.random() < 0.5)}
                # (failing methods too are called in every mode: a oneway call gets no answer, whatever the implementation replies)
                mode = rng.choice(["call", "call", "more", "oneway"]) if kind == "echo" else rng.choice(["call", "call", "more", "oneway"])
                cid = "v%d" % n
                n += 1
                lines.append("%s call %s %s %s %s" % (cid, mod, mname, mode, hx(json.dumps(send, ensure_ascii=False))))
                meta[cid] = (mod, c, mname, fs, kind, mode, args)
        # raw requests: missing / ill-typed parameters must be answered with InvalidParameter
        for mname, fs, kind in names[:(6 if quick else len(names))]:
            ft = fs[0][1]
            for badp in ({}, {"v": [{"zz": 1}]}, {"v": "wrong"}, {"v": 12.5}, {"v": True}, None):
                # a probe counts only if it is ill-typed by the IDL: parameters absent or empty while v is required,
                # or a value of v that the type does not admit (and that serde's documented leniencies cannot accept)
                if badp in ({}, None):
                    if ft[0] == "option":
                        continue
                else:
                    if c08gen.well_typed(ft, badp["v"], c.env):
                        continue
                    if isinstance(badp["v"], list) and c08gen.contains_lenient(ft, c.env):
                        continue
                r = {"method": "%s.%s" % (c.iface, mname)}
                if badp is not None:
                    r["parameters"] = badp
                cid = "v%d" % n
                n += 1
                lines.append("%s raw %s" % (cid, hx(json.dumps(r).encode() + b"\0")))
                meta[cid] = (mod, c, mname, fs, "raw", "raw", badp)
    impl = run_lines(binp, lines, shards=6, timeout=600)
    ml = []
    for cid, (mod, c, mname, fs, kind, mode, args) in meta.items():
        if kind != "raw":
            ml.append("%s codec %s in %s %s" % (cid, hx(c.text()), mname, hx(json.dumps(args, ensure_ascii=False))))
        else:
            ml.append("%s codec %s in %s %s" % (cid, hx(c.text()), mname, hx(json.dumps(args if args is not None else {}))))
    model = run_lines(DRIVER, ml, shards=6, timeout=600) if model_ok else {}
    from svcgen import loads, canon_num
    nd = 0
    for cid, (mod, c, mname, fs, kind, mode, args) in meta.items():
        ck.case(lines[int(cid[1:])].split(" ", 1)[1], sample={"method": mname, "mode": mode, "args": args} if rng.random() < 0.02 and len(ck.samples) < 6 else None)
        ck.count("kind=%s/%s" % (kind, mode))
        a = impl[cid]
        f = fields(a)
        desc = {"idl_method": "%s.%s(%s)" % (c.iface, mname, ", ".join("%s: %s" % (x, c08gen.ty_text(t)) for x, t in fs)), "mode": mode, "args": args}
        if "raw_reply" not in f:
            ck.failures.append(dict(desc, what="generated client/server run failed", result=a[:300]))
            continue
        if kind == "raw":
            reps = [loads(x.decode("utf-8")) for x in unhx(f["raw_reply"]).split(b"\0")[:-1]]
            if len(reps) != 1 or reps[0].get("error") != "org.varlink.service.InvalidParameter":
                ck.failures.append(dict(desc, what="a request with missing or ill-typed parameters was not answered with InvalidParameter", replies=reps))
            if cid in model and model[cid].startswith("ok"):
                nd += 1
                if nd <= 5:
                    ck.tie_broken.append("model accepts parameters the generated server rejects: %s %s" % (mname, json.dumps(args)))
            continue
        struct_t = ("struct", fs)
        want = canon_num(c08gen.expected_wire(struct_t, args, c.env))
        reqs = [loads(x.decode("utf-8")) for x in unhx(f["req"]).split(b"\0")[:-1]]
        if len(reqs) != 1:
            ck.failures.append(dict(desc, what="client did not send exactly one request", requests=reqs))
            continue
        rq = reqs[0]
        if rq.get("method") != "%s.%s" % (c.iface, mname):
            ck.failures.append(dict(desc, what="request method is not <interface>.<Method>", got=rq.get("method")))
        got_params = c08gen.drop_nulls(struct_t, rq.get("parameters", {}), c.env)
        if got_params != want:
            ck.failures.append(dict(desc, what="request parameters are not the IDL field names with values in the IDL's JSON shape", got=rq.get("parameters"), expected=want))
        if set((rq.get("parameters") or {}).keys()) - set(x for x, _ in fs):
            ck.failures.append(dict(desc, what="request carries members that are not IDL field names", got=rq.get("parameters")))
        if (mode == "more") != (rq.get("more") is True) or (mode == "oneway") != (rq.get("oneway") is True):
            ck.failures.append(dict(desc, what="call mode flags wrong on the wire", got=rq))
        seen = json.loads(unhx(f["seen"]).decode("utf-8"))
        if len(seen) != 1 or c08gen.drop_nulls(struct_t, canon_num(seen[0]), c.env) != want:
            ck.failures.append(dict(desc, what="the server implementation did not receive values equal to those sent", seen=seen, expected=want))
        res = f.get("res", "")
        if mode == "oneway":
            if res != "unit" or unhx(f["raw_reply"]) != b"":
                ck.failures.append(dict(desc, what="oneway call through generated bindings got a reply / did not return unit", res=res))
        elif kind == "echo":
            items = res.split(";")
            last = items[-1]
            if not last.startswith("ok:") or c08gen.drop_nulls(struct_t, loads(unhx(last[3:]).decode("utf-8")), c.env) != want:
                ck.failures.append(dict(desc, what="the reply did not arrive at the client equal to what the server sent", res=res[:300], expected=want))
        else:
            i = int(mname[4:])
            if not res.startswith("err:Err%d:" % i) or c08gen.drop_nulls(struct_t, loads(unhx(res.split(":")[2]).decode("utf-8")), c.env) != want:
                ck.failures.append(dict(desc, what="a declared error did not arrive as the matching error variant with equal parameters", res=res[:300], expected=want))
            rr = [loads(x.decode("utf-8")) for x in unhx(f["raw_reply"]).split(b"\0")[:-1]]
            if not rr or rr[0].get("error") != "%s.%s" % (c.iface, c.err_name(i)):
                ck.failures.append(dict(desc, what="error reply name is not <interface>.<Error>", got=rr))
        # model: reading the arguments against the method's input struct and writing them back gives the wire parameters
        if cid in model:
            m = model[cid]
            if not m.startswith("ok "):
                nd += 1
                if nd <= 5:
                    ck.tie_broken.append("codec model rejects arguments the generated bindings accept: %s %s -> %s" % (mname, json.dumps(args)[:200], m[:60]))
            else:
                mf = fields(m)
                mw = c08gen.drop_nulls(struct_t, loads(unhx(mf["wire"]).decode("utf-8")), c.env)
                if mw != got_params or unhx(mf["method"]).decode() != rq.get("method"):
                    nd += 1
                    if nd <= 5:
                        ck.tie_broken.append("codec model and generated client disagree on the wire form: %s model=%s impl=%s" % (mname, json.dumps(mw)[:300], json.dumps(got_params)[:300]))


CHECKS["C08"] = c08
