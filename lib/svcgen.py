"""Generators for the server-side properties: services, request kinds, request
sequences, byte streams and their segmentations. Everything random derives from
the random.Random instance handed in (seeded from VERIF_SEED)."""
import json

from common import hx

DESCR_A = "interface org.example.a\nmethod Run(script: []string, tag: object) -> (i: int, tag: object)\nerror Failed (tag: object)\n"
DESCR_B = "# second\ninterface org.example.b\nmethod Run(script: []string) -> ()\n"


class Service:
    def __init__(self, ifaces, vendor="véndor", product="prod", version="1.0", url="http://x/"):
        self.ifaces = ifaces  # list of (name, descr, echo)
        self.vendor, self.product, self.version, self.url = vendor, product, version, url

    def tokens(self):
        t = ["v=" + hx(self.vendor), "p=" + hx(self.product), "ver=" + hx(self.version), "url=" + hx(self.url)]
        for n, d, e in self.ifaces:
            t.append("if=%s:%s:%d" % (hx(n), hx(d), 1 if e else 0))
        return " ".join(t)

    def names(self):
        return [n for n, _, _ in self.ifaces]


DEFAULT_SVC = Service([("org.example.a", DESCR_A, True), ("org.example.b", DESCR_B, True)])


def req(method, params=None, more=None, oneway=None, upgrade=None, extra=None):
    d = {}
    if more is not None:
        d["more"] = more
    if oneway is not None:
        d["oneway"] = oneway
    if upgrade is not None:
        d["upgrade"] = upgrade
    d["method"] = method
    if params is not None:
        d["parameters"] = params
    if extra:
        d.update(extra)
    return d


def enc(r):
    return json.dumps(r, separators=(",", ":"), ensure_ascii=False).encode("utf-8") + b"\0"


# request kinds: name -> (builder(tag) -> (method, params), closes_connection(flags) hint unused)
def kinds():
    run = lambda script: (lambda tag: ("org.example.a.Run", {"script": script, "tag": tag}))
    return {
        "getinfo": lambda tag: ("org.varlink.service.GetInfo", None),
        "getinfo_p": lambda tag: ("org.varlink.service.GetInfo", {"x": tag}),
        "descr_a": lambda tag: ("org.varlink.service.GetInterfaceDescription", {"interface": "org.example.a"}),
        "descr_self": lambda tag: ("org.varlink.service.GetInterfaceDescription", {"interface": "org.varlink.service"}),
        "descr_unknown": lambda tag: ("org.varlink.service.GetInterfaceDescription", {"interface": "org.example.zz"}),
        "descr_noparam": lambda tag: ("org.varlink.service.GetInterfaceDescription", None),
        "descr_bad": lambda tag: ("org.varlink.service.GetInterfaceDescription", {"interface": 7}),
        "builtin_nomethod": lambda tag: ("org.varlink.service.Nope", {"t": tag}),
        "ok": run(["r"]),
        "ok_noparams_reply": run(["r0"]),
        "fail": run(["e"]),
        "fail0": run(["e0"]),
        "stream": run(["c1", "r", "r", "c0", "r"]),
        "stream_err": run(["c1", "r", "c0", "e"]),
        "stream0": run(["c1", "c0", "r"]),
        "silent": run([]),
        "double": run(["r", "r"]),
        "crash": run(["x"]),
        "inv": run(["inv"]),
        "mni": run(["mni"]),
        "b_ok": lambda tag: ("org.example.b.Run", {"script": ["r"], "tag": tag}),
        "unknown_iface": lambda tag: ("org.example.zz.Run", {"tag": tag}),
        "unknown_iface_prefix": lambda tag: ("org.example.Run", {"tag": tag}),
        "unknown_method": lambda tag: ("org.example.a.Nope", {"tag": tag}),
        "nodot": lambda tag: ("nodot", {"tag": tag}),
        "emptymethod": lambda tag: ("", None),
        "dot_only": lambda tag: (".", None),
        "trailing_dot": lambda tag: ("org.example.a.", None),
        "badparam": lambda tag: ("org.example.a.Run", {"script": 5, "tag": tag}),
        "badparam2": lambda tag: ("org.example.a.Run", [1, 2]),
        "noparam": lambda tag: ("org.example.a.Run", None),
        "upgrade": lambda tag: ("org.example.a.Run", {"script": ["u", "r"], "tag": tag}),
    }


CORE_KINDS = ["getinfo", "descr_a", "descr_noparam", "ok", "fail", "stream", "unknown_iface",
              "unknown_method", "nodot", "badparam", "noparam", "silent"]
FLAGS = {"-": {}, "more": {"more": True}, "oneway": {"oneway": True}}
ALL_FLAGS = {"-": {}, "more": {"more": True}, "oneway": {"oneway": True}, "more+oneway": {"more": True, "oneway": True},
             "oneway_false": {"oneway": False}, "more_false": {"more": False},
             # upgrade:true on a request whose method does not upgrade: the connection stays an ordinary varlink connection
             "upgflag": {"upgrade": True}, "upgflag+more": {"upgrade": True, "more": True},
             "oneway+upgflag": {"oneway": True, "upgrade": True},
             # every flag spelled out, as clients that always serialise all three members send them
             "oneway+falses": {"oneway": True, "more": False, "upgrade": False}}


def make(kind, flag, tag, flagset=ALL_FLAGS):
    m, p = kinds()[kind](tag)
    fl = dict(flagset[flag])
    if kind == "upgrade":
        fl["upgrade"] = True
    return req(m, p, **fl)


def stream_of(reqs):
    return b"".join(enc(r) for r in reqs)


def cuts_to_chunks(s, cuts):
    cuts = sorted(set(c for c in cuts if 0 < c < len(s)))
    out = []
    prev = 0
    for c in cuts:
        out.append(s[prev:c])
        prev = c
    out.append(s[prev:])
    return out


def group_chunks(reqs, depth):
    """pipelining depth: `depth` requests per write"""
    out = []
    for i in range(0, len(reqs), depth):
        out.append(stream_of(reqs[i:i + depth]))
    return out


def frames(b):
    """split reply bytes into NUL-terminated frames; returns (frames, trailing)"""
    parts = b.split(b"\0")
    return parts[:-1], parts[-1]


def canon_num(v):
    """numbers as serde_json::Value sees them: integers inside [-2^63, 2^64) stay integers, every other
    number is an f64"""
    if isinstance(v, bool):
        return v
    if isinstance(v, int):
        return v if -(1 << 63) <= v < (1 << 64) else float(v)
    if isinstance(v, list):
        return [canon_num(x) for x in v]
    if isinstance(v, dict):
        return {k: canon_num(x) for k, x in v.items()}
    return v


def loads(text):
    return canon_num(json.loads(text))


SHAPELESS = {"silent", "double"}   # scripts that themselves break the reply protocol (0 or 2 final replies)


def canon_reply_stream(b):
    """parse a reply byte stream into a list of JSON values; GetInfo's interface list is
    order-canonicalised (HashMap iteration order is not part of any property)."""
    fr, trailing = frames(b)
    out = []
    for f in fr:
        try:
            v = loads(f.decode("utf-8"))
        except Exception:
            out.append({"__raw__": f.hex()})
            continue
        try:
            p = v.get("parameters")
            if isinstance(p, dict) and isinstance(p.get("interfaces"), list) and p["interfaces"]:
                p["interfaces"] = [p["interfaces"][0]] + sorted(p["interfaces"][1:])
        except Exception:
            pass
        out.append(v)
    if trailing:
        out.append({"__trailing__": trailing.hex()})
    return out
